(* Byte strings as lists of N (each < 256 when produced by the harness), byte-wise order, Go-like
   ASCII helpers. Model only; proofs about these functions are in BytesFacts.v. *)
From Coq Require Export List NArith ZArith Bool String Ascii.
Export ListNotations.
Open Scope N_scope.
Notation length := List.length.
Notation append := List.app (only parsing).

Definition bytes := list N.

Fixpoint s2b (s : string) : bytes :=
  match s with
  | EmptyString => []
  | String a r => N_of_ascii a :: s2b r
  end.

Fixpoint beqb (a b : bytes) : bool :=
  match a, b with
  | [], [] => true
  | x :: a', y :: b' => N.eqb x y && beqb a' b'
  | _, _ => false
  end.

(* Go's string comparison: byte-wise lexicographic *)
Fixpoint bleb (a b : bytes) : bool :=
  match a, b with
  | [], _ => true
  | _ :: _, [] => false
  | x :: a', y :: b' => if N.ltb x y then true else if N.eqb x y then bleb a' b' else false
  end.

Definition bltb (a b : bytes) : bool := bleb a b && negb (beqb a b).

Fixpoint mem (x : bytes) (l : list bytes) : bool :=
  match l with
  | [] => false
  | y :: r => beqb x y || mem x r
  end.

Fixpoint has_prefix (p s : bytes) : bool :=
  match p, s with
  | [], _ => true
  | _ :: _, [] => false
  | x :: p', y :: s' => N.eqb x y && has_prefix p' s'
  end.

Definition has_suffix (p s : bytes) : bool := has_prefix (rev p) (rev s).

(* ASCII blanks recognised by strings.TrimSpace's fast path *)
Definition ascii_space (c : N) : bool :=
  (c =? 9) || (c =? 10) || (c =? 11) || (c =? 12) || (c =? 13) || (c =? 32).

(* Leading Unicode white space as UTF-8 (unicode.IsSpace beyond ASCII):
   U+0085 U+00A0 U+1680 U+2000..U+200A U+2028 U+2029 U+202F U+205F U+3000 *)
Definition lead_space (s : bytes) : option bytes :=
  match s with
  | c :: r =>
      if ascii_space c then Some r else
      match s with
      | 194 :: 133 :: r' => Some r'
      | 194 :: 160 :: r' => Some r'
      | 225 :: 154 :: 128 :: r' => Some r'
      | 226 :: 128 :: x :: r' =>
          if (128 <=? x) && (x <=? 138) || (x =? 168) || (x =? 169) || (x =? 175) then Some r' else None
      | 226 :: 129 :: 159 :: r' => Some r'
      | 227 :: 128 :: 128 :: r' => Some r'
      | _ => None
      end
  | [] => None
  end.

(* the same sequences, reversed, for trailing white space *)
Definition trail_space_rev (s : bytes) : option bytes :=
  match s with
  | c :: r =>
      if ascii_space c then Some r else
      match s with
      | 133 :: 194 :: r' => Some r'
      | 160 :: 194 :: r' => Some r'
      | 128 :: 154 :: 225 :: r' => Some r'
      | x :: 128 :: 226 :: r' =>
          if (128 <=? x) && (x <=? 138) || (x =? 168) || (x =? 169) || (x =? 175) then Some r' else None
      | 159 :: 129 :: 226 :: r' => Some r'
      | 128 :: 128 :: 227 :: r' => Some r'
      | _ => None
      end
  | [] => None
  end.

Fixpoint strip (f : bytes -> option bytes) (fuel : nat) (s : bytes) : bytes :=
  match fuel with
  | O => s
  | S k => match f s with Some r => strip f k r | None => s end
  end.

(* strings.TrimSpace *)
Definition trim (s : bytes) : bytes :=
  let a := strip lead_space (length s) s in
  rev (strip trail_space_rev (length a) (rev a)).

(* ASCII-only lower-casing (sufficient for lint names / labels restricted to ASCII; the TLD model
   uses Kernels.Tld.go_lower which also handles non-ASCII input) *)
Definition lower_ascii (c : N) : N := if (65 <=? c) && (c <=? 90) then c + 32 else c.

(* strings.Split(s, sep) for a one-byte separator: never returns [] *)
Fixpoint split_on (sep : N) (s : bytes) : list bytes :=
  match s with
  | [] => [[]]
  | c :: r =>
      if c =? sep then [] :: split_on sep r
      else match split_on sep r with
           | [] => [[c]]
           | h :: t => (c :: h) :: t
           end
  end.

Fixpoint join_with (sep : N) (l : list bytes) : bytes :=
  match l with
  | [] => []
  | [x] => x
  | x :: r => x ++ sep :: join_with sep r
  end.

Definition last_opt {A} (l : list A) : option A :=
  match rev l with [] => None | x :: _ => Some x end.
