From ZL Require Import Base.Bytes.
From Coq Require Import Lia.

Lemma beqb_eq a b : beqb a b = true <-> a = b.
Proof.
  revert b; induction a as [|x a IH]; intros [|y b]; simpl; split; intro H; try congruence; auto.
  - apply andb_true_iff in H as [H1 H2]. apply N.eqb_eq in H1. apply IH in H2. congruence.
  - inversion H; subst. rewrite N.eqb_refl. simpl. apply IH. reflexivity.
Qed.

Lemma beqb_refl a : beqb a a = true.
Proof. apply beqb_eq; reflexivity. Qed.

Lemma beqb_neq a b : beqb a b = false <-> a <> b.
Proof.
  split; intro H.
  - intro E. apply beqb_eq in E. congruence.
  - destruct (beqb a b) eqn:E; auto. apply beqb_eq in E. contradiction.
Qed.

Lemma beqb_sym a b : beqb a b = beqb b a.
Proof.
  destruct (beqb a b) eqn:E.
  - apply beqb_eq in E; subst. symmetry; apply beqb_refl.
  - symmetry. apply beqb_neq. apply beqb_neq in E. congruence.
Qed.

Definition bytes_eq_dec (a b : bytes) : {a = b} + {a <> b}.
Proof. destruct (beqb a b) eqn:E; [left; apply beqb_eq; auto | right; apply beqb_neq; auto]. Defined.

Lemma bleb_refl a : bleb a a = true.
Proof. induction a as [|x a IH]; simpl; auto. rewrite N.ltb_irrefl, N.eqb_refl. exact IH. Qed.

Lemma bleb_total a b : bleb a b = true \/ bleb b a = true.
Proof.
  revert b; induction a as [|x a IH]; intros [|y b]; simpl; auto.
  destruct (N.ltb_spec x y); auto.
  destruct (N.ltb_spec y x); auto.
  assert (x = y) by lia. subst. rewrite N.eqb_refl. apply IH.
Qed.

Lemma bleb_antisym a b : bleb a b = true -> bleb b a = true -> a = b.
Proof.
  revert b; induction a as [|x a IH]; intros [|y b]; simpl; auto; try discriminate.
  destruct (N.ltb_spec x y) as [L1|L1]; destruct (N.ltb_spec y x) as [L2|L2];
    destruct (N.eqb_spec x y) as [E1|E1]; destruct (N.eqb_spec y x) as [E2|E2];
    try lia; try discriminate.
  subst. intros H1 H2. f_equal. apply IH; auto.
Qed.

Lemma bleb_trans a b c : bleb a b = true -> bleb b c = true -> bleb a c = true.
Proof.
  revert b c; induction a as [|x a IH]; intros [|y b] [|z c]; simpl; auto; try discriminate.
  destruct (N.ltb_spec x y) as [L1|L1]; destruct (N.ltb_spec y z) as [L2|L2];
    destruct (N.ltb_spec x z) as [L3|L3]; auto; try lia;
    destruct (N.eqb_spec x y) as [E1|E1]; destruct (N.eqb_spec y z) as [E2|E2];
    destruct (N.eqb_spec x z) as [E3|E3]; try lia; try discriminate.
  apply IH.
Qed.

Lemma mem_In x l : mem x l = true <-> In x l.
Proof.
  induction l as [|y l IH]; simpl; split; intro H; try discriminate; try contradiction.
  - apply orb_true_iff in H as [H|H]; [left; symmetry; apply beqb_eq; auto | right; apply IH; auto].
  - apply orb_true_iff. destruct H as [H|H]; [left; subst; apply beqb_refl | right; apply IH; auto].
Qed.

Lemma mem_false x l : mem x l = false <-> ~ In x l.
Proof.
  split; intro H.
  - intro I. apply mem_In in I. congruence.
  - destruct (mem x l) eqn:E; auto. apply mem_In in E. contradiction.
Qed.

Lemma s2b_inj a b : s2b a = s2b b -> a = b.
Proof.
  revert b; induction a as [|x a IH]; intros [|y b]; simpl; intro H; try discriminate; auto.
  inversion H. f_equal; auto.
  rewrite <- (ascii_N_embedding x), <- (ascii_N_embedding y). congruence.
Qed.
