(* Insertion sort over byte strings (Go's sort.Strings up to the order of equal elements, which
   are indistinguishable), with the facts the registry proofs need. *)
From ZL Require Import Base.Bytes Base.BytesFacts.
From Coq Require Import Sorting.Sorted Sorting.Permutation Lia.

Fixpoint insert (x : bytes) (l : list bytes) : list bytes :=
  match l with
  | [] => [x]
  | y :: r => if bleb x y then x :: l else y :: insert x r
  end.

Fixpoint isort (l : list bytes) : list bytes :=
  match l with
  | [] => []
  | x :: r => insert x (isort r)
  end.

Definition ble (a b : bytes) : Prop := bleb a b = true.

Fixpoint sortedb (l : list bytes) : bool :=
  match l with
  | [] => true
  | x :: r => match r with [] => true | y :: _ => bleb x y && sortedb r end
  end.

Lemma insert_perm x l : Permutation (x :: l) (insert x l).
Proof.
  induction l as [|y l IH]; simpl; auto.
  destruct (bleb x y); auto.
  eapply perm_trans; [apply perm_swap|]. constructor. exact IH.
Qed.

Lemma isort_perm l : Permutation l (isort l).
Proof.
  induction l as [|x l IH]; simpl; auto.
  eapply perm_trans; [|apply insert_perm]. constructor. exact IH.
Qed.

Lemma insert_sorted x l : StronglySorted ble l -> StronglySorted ble (insert x l).
Proof.
  induction 1 as [|y l Hs IH Hall]; simpl.
  - constructor; constructor.
  - destruct (bleb x y) eqn:E.
    + constructor; [constructor; auto|]. constructor; [exact E|].
      eapply Forall_impl; [|exact Hall]. intros z Hz. unfold ble in *. eapply bleb_trans; eauto.
    + constructor; auto.
      assert (Hyx : ble y x) by (destruct (bleb_total x y); [congruence|auto]).
      eapply Permutation_Forall; [apply insert_perm|]. constructor; auto.
Qed.

Lemma isort_sorted l : StronglySorted ble (isort l).
Proof. induction l as [|x l IH]; simpl; [constructor | apply insert_sorted; exact IH]. Qed.

Lemma sorted_perm_eq l1 l2 :
  StronglySorted ble l1 -> StronglySorted ble l2 -> Permutation l1 l2 -> l1 = l2.
Proof.
  revert l2; induction l1 as [|x l1 IH]; intros l2 H1 H2 P.
  - apply Permutation_nil in P. auto.
  - destruct l2 as [|y l2]; [apply Permutation_sym, Permutation_nil in P; discriminate|].
    inversion H1 as [|? ? S1 F1]; inversion H2 as [|? ? S2 F2]; subst.
    assert (x = y).
    { assert (In x (y :: l2)) by (eapply Permutation_in; [exact P | left; auto]).
      assert (In y (x :: l1)) by (eapply Permutation_in; [apply Permutation_sym; exact P | left; auto]).
      simpl in *. destruct H as [|Hx]; auto. destruct H0 as [|Hy]; auto.
      rewrite Forall_forall in F1, F2. apply bleb_antisym; [apply F1; auto | apply F2; auto]. }
    subst. f_equal. apply IH; auto. eapply Permutation_cons_inv; eauto.
Qed.

Lemma isort_of_sorted l : StronglySorted ble l -> isort l = l.
Proof.
  intro H. apply sorted_perm_eq; auto using isort_sorted.
  apply Permutation_sym, isort_perm.
Qed.

Lemma isort_idem l : isort (isort l) = isort l.
Proof. apply isort_of_sorted, isort_sorted. Qed.

Lemma isort_perm_eq l1 l2 : Permutation l1 l2 -> isort l1 = isort l2.
Proof.
  intro P. apply sorted_perm_eq; auto using isort_sorted.
  eapply perm_trans; [apply Permutation_sym, isort_perm|].
  eapply perm_trans; [exact P | apply isort_perm].
Qed.

Lemma isort_insert x l : isort (insert x l) = insert x (isort l).
Proof. change (insert x (isort l)) with (isort (x :: l)). apply isort_perm_eq, Permutation_sym, insert_perm. Qed.

Lemma sortedb_sorted l : sortedb l = true <-> StronglySorted ble l.
Proof.
  split.
  - induction l as [|x l IH]; intro H; [constructor|].
    simpl in H. destruct l as [|y l]; [constructor; constructor|].
    apply andb_true_iff in H as [Hxy Hr]. specialize (IH Hr).
    constructor; auto. inversion IH as [|? ? S F]; subst. constructor; auto.
    eapply Forall_impl; [|exact F]. intros z Hz. unfold ble in *. eapply bleb_trans; eauto.
  - induction 1 as [|x l S IH F]; simpl; auto.
    destruct l as [|y l]; auto. inversion F; subst. apply andb_true_iff; split; auto.
Qed.

Lemma In_isort x l : In x (isort l) <-> In x l.
Proof.
  split; intro H.
  - eapply Permutation_in; [apply Permutation_sym, isort_perm | exact H].
  - eapply Permutation_in; [apply isort_perm | exact H].
Qed.

Lemma NoDup_isort l : NoDup l <-> NoDup (isort l).
Proof.
  split; intro H.
  - eapply Permutation_NoDup; [apply isort_perm | exact H].
  - eapply Permutation_NoDup; [apply Permutation_sym, isort_perm | exact H].
Qed.

Lemma length_isort l : length (isort l) = length l.
Proof. symmetry. apply Permutation_length, isort_perm. Qed.
