(* C10: interleavings of threads whose steps never write the shared store.
   A thread is a list of steps over (shared store, private store); a schedule picks which thread moves next. *)
From Coq Require Import List Bool Arith Lia.
Import ListNotations.

Section Conc.
  Variables S P : Type.
  Definition step := S -> P -> S * P.
  Definition read_only (st : step) : Prop := forall s p, fst (st s p) = s.

  Definition tstate := (P * list step)%type.       (* private store, remaining steps *)

  Fixpoint run_alone (s : S) (t : list step) (p : P) : P :=
    match t with [] => p | st :: r => run_alone s r (snd (st s p)) end.

  (* thread i makes one step (nothing happens if it has finished or does not exist) *)
  Fixpoint step_thread (i : nat) (s : S) (ts : list tstate) : S * list tstate :=
    match ts with
    | [] => (s, [])
    | x :: r =>
      match i with
      | O => match x with
             | (p, []) => (s, x :: r)
             | (p, st :: k) => (fst (st s p), (snd (st s p), k) :: r)
             end
      | Datatypes.S j => (fst (step_thread j s r), x :: snd (step_thread j s r))
      end
    end.

  Fixpoint run_sched (sched : list nat) (s : S) (ts : list tstate) : S * list tstate :=
    match sched with
    | [] => (s, ts)
    | i :: r => run_sched r (fst (step_thread i s ts)) (snd (step_thread i s ts))
    end.

  Definition all_read_only (ts : list tstate) : Prop := forall x, In x ts -> forall st, In st (snd x) -> read_only st.
  Definition finished (ts : list tstate) : Prop := forall x, In x ts -> snd x = [].
  Definition final_alone (s : S) (ts : list tstate) : list P := map (fun x => run_alone s (snd x) (fst x)) ts.

  Lemma step_thread_inv i s ts :
    all_read_only ts ->
    fst (step_thread i s ts) = s /\ final_alone s (snd (step_thread i s ts)) = final_alone s ts /\
    all_read_only (snd (step_thread i s ts)).
  Proof.
    revert i. induction ts as [|x r IH]; intros i A.
    - destruct i; simpl; repeat split; auto.
    - destruct i as [|j]; simpl.
      + destruct x as [p [|st k]]; simpl.
        * repeat split; auto.
        * assert (R : read_only st) by (apply (A (p, st :: k)); simpl; auto).
          rewrite (R s p). repeat split; auto.
          intros y [<-|Hy] st' Hs; simpl in *.
          -- apply (A (p, st :: k)); simpl; auto.
          -- apply (A y); simpl; auto.
      + assert (A' : all_read_only r) by (intros y Hy; apply A; right; exact Hy).
        destruct (IH j A') as [E1 [E2 E3]]. simpl. repeat split; auto.
        * f_equal. exact E2.
        * intros y [<-|Hy]; [apply A; left; reflexivity | apply E3; exact Hy].
  Qed.

  (* every schedule leaves the shared store alone and preserves what each thread will have computed *)
  Theorem schedule_independent sched s ts :
    all_read_only ts ->
    fst (run_sched sched s ts) = s /\ final_alone s (snd (run_sched sched s ts)) = final_alone s ts.
  Proof.
    revert s ts. induction sched as [|i r IH]; intros s ts A; simpl; [auto|].
    destruct (step_thread_inv i s ts A) as [E1 [E2 E3]]. rewrite E1.
    destruct (IH s (snd (step_thread i s ts)) E3) as [F1 F2]. split; [exact F1 | rewrite F2; exact E2].
  Qed.

  (* so once all threads have finished, each holds exactly what it would hold had it run alone *)
  Theorem concurrent_equals_sequential sched s ts :
    all_read_only ts -> finished (snd (run_sched sched s ts)) ->
    map fst (snd (run_sched sched s ts)) = final_alone s ts.
  Proof.
    intros A F. destruct (schedule_independent sched s ts A) as [_ E]. rewrite <- E.
    unfold final_alone. apply map_ext_in. intros x Hx. rewrite (F x Hx). reflexivity.
  Qed.
End Conc.

(* ---- a readers-writer lock acquired only in read mode never blocks ---- *)
Inductive lock_op := RLock | RUnlock | WLock | WUnlock.
Record lock_state := mkLock { writer : bool; readers : nat }.

Definition enabled (o : lock_op) (l : lock_state) : bool :=
  match o with
  | RLock => negb (writer l)
  | WLock => negb (writer l) && Nat.eqb (readers l) 0
  | _ => true
  end.

Definition lock_step (o : lock_op) (l : lock_state) : lock_state :=
  match o with
  | RLock => mkLock (writer l) (S (readers l))
  | RUnlock => mkLock (writer l) (pred (readers l))
  | WLock => mkLock true (readers l)
  | WUnlock => mkLock false (readers l)
  end.

Definition read_mode (o : lock_op) : bool := match o with RLock | RUnlock => true | _ => false end.

Theorem read_mode_never_blocks ops :
  forallb read_mode ops = true ->
  forall o, read_mode o = true -> enabled o (fold_left (fun l o => lock_step o l) ops (mkLock false 0)) = true.
Proof.
  intros H o Ho.
  assert (W : forall l, writer l = false -> writer (fold_left (fun l o => lock_step o l) ops l) = false).
  { induction ops as [|x r IH]; intros l Hl; simpl; auto.
    simpl in H. apply andb_true_iff in H as [Hx Hr]. apply IH; auto.
    destruct x; simpl in *; try discriminate; exact Hl. }
  destruct o; simpl in *; try discriminate; auto.
  rewrite (W (mkLock false 0) eq_refl). reflexivity.
Qed.
