(* Configuration routing (v3/lint/configuration.go): a TOML document is a map from top-level keys to
   nodes; a lint named n reads the node stored under n and nothing else (none of the registered lints embeds a
   higher-scoped configuration; resolveHigherScopedReferences is part of the decoder oracle).  The TOML decoder
   (go-toml Unmarshal into the lint's struct) is an oracle. *)
From ZL Require Import Base.Bytes Base.BytesFacts Framework.Core Framework.LifecycleFacts.
Open Scope Z_scope.

Section Config.
  Variables obj inst tbl : Type.                 (* tbl: the content of a TOML table *)
  Variables sa em cs : obj -> bool.
  Variable date_of : kind -> obj -> Z.

  Inductive node := NTable (t : tbl) | NOther.   (* NOther: a scalar or array where a table is expected *)
  Definition doc := list (bytes * node).

  Definition get (c : doc) (ns : bytes) : option node := lookup ns c.

  (* what applying a node that is not a table does: today a failed type assertion (a panic), after the fix an error *)
  Variable not_table : outcome (inst + bytes).

  (* Configuration.MaybeConfigure for a Configurable lint whose decoder is unm *)
  Definition configure_via (unm : tbl -> inst -> inst + bytes) (c : doc) (ns : bytes) (i : inst) : outcome (inst + bytes) :=
    match get c ns with
    | None => Ret (inl i)
    | Some (NTable t) => Ret (unm t i)
    | Some NOther => not_table
    end.

  (* a lint whose configuration goes through the routing above (None: not Configurable) *)
  Record clint := mkClint {
    cl_meta : meta;
    cl_new : outcome inst;
    cl_unm : option (tbl -> inst -> inst + bytes);
    cl_applies : inst -> obj -> outcome bool;
    cl_exec : inst -> obj -> outcome (option result) }.

  Definition to_lint (l : clint) : lint obj inst doc :=
    mkLint (cl_meta l)
           (mkBody (match cl_unm l with Some _ => true | None => false end) (cl_new l)
                   (match cl_unm l with Some u => configure_via u | None => fun _ _ i => Ret (inl i) end)
                   (cl_applies l) (cl_exec l)).

  Definition crun (k : kind) (l : clint) (c : doc) (o : obj) := run obj inst doc sa em cs date_of k (to_lint l) c o.

  (* ---- facts ---- *)
  Theorem agree_same_run k l c c' o :
    get c (m_name (cl_meta l)) = get c' (m_name (cl_meta l)) -> crun k l c o = crun k l c' o.
  Proof.
    intro H. unfold crun.
    assert (B : run_body obj inst doc date_of k (to_lint l) c o = run_body obj inst doc date_of k (to_lint l) c' o).
    { unfold run_body, to_lint. simpl. destruct (cl_new l) as [i|e]; [|reflexivity].
      destruct (cl_unm l) as [u|]; [|reflexivity]. unfold configure_via. rewrite H. reflexivity. }
    destruct k; simpl; [|exact B|exact B]. unfold run_cert. rewrite B. reflexivity.
  Qed.

  (* none / empty / only-unrelated sections are indistinguishable *)
  Corollary unrelated_same_run k l c o :
    get c (m_name (cl_meta l)) = None -> crun k l c o = crun k l [] o.
  Proof. intro H. apply agree_same_run. rewrite H. reflexivity. Qed.

  (* setting section a to node nd *)
  Definition set_section (c : doc) (a : bytes) (nd : node) : doc := upd a nd c.

  Lemma get_set_other c a nd b : beqb b a = false -> get (set_section c a nd) b = get c b.
  Proof.
    intro H. unfold get, set_section. induction c as [|[k v] c IH]; simpl.
    - rewrite H. reflexivity.
    - destruct (beqb a k) eqn:E; simpl.
      + apply beqb_eq in E; subst. rewrite H. reflexivity.
      + destruct (beqb b k); auto.
  Qed.

  Theorem change_is_local k l c a nd o :
    m_name (cl_meta l) <> a -> crun k l (set_section c a nd) o = crun k l c o.
  Proof. intro H. apply agree_same_run. apply get_set_other. apply beqb_neq. exact H. Qed.

  (* a section that cannot be applied: exactly this lint reports fatal with the configuration-error text *)
  Theorem bad_section_fatal k l c o u i e :
    cl_unm l = Some u -> cl_new l = Ret i ->
    (k = KCert -> in_scope obj sa em cs (m_src (cl_meta l)) o = true) ->
    (match get c (m_name (cl_meta l)) with
     | Some (NTable t) => u t i = inr e
     | Some NOther => not_table = Ret (inr e)
     | None => False end) ->
    fst (crun k l c o) = Ret (Some (mkResult Fatal (config_error_details (m_name (cl_meta l)) e))).
  Proof.
    intros U N S G. unfold crun.
    assert (B : fst (run_body obj inst doc date_of k (to_lint l) c o) =
                Ret (Some (mkResult Fatal (config_error_details (m_name (cl_meta l)) e)))).
    { unfold run_body, to_lint. simpl. rewrite N, U. unfold configure_via.
      destruct (get c (m_name (cl_meta l))) as [[t|]|]; [rewrite G | rewrite G | destruct G]; reflexivity. }
    destruct k; simpl; [|exact B|exact B].
    unfold run_cert. simpl. rewrite (S eq_refl). simpl.
    destruct (run_body obj inst doc date_of KCert (to_lint l) c o) as [[x|pe] lg]; simpl in *; [exact B | discriminate].
  Qed.

  (* with the checked type assertion nothing in the configuration layer can panic *)
  Theorem configure_never_panics u c ns i :
    (forall e, not_table <> Panic e) -> forall e, configure_via u c ns i <> Panic e.
  Proof.
    intros H e. unfold configure_via. destruct (get c ns) as [[t|]|]; try discriminate. apply H.
  Qed.
End Config.
