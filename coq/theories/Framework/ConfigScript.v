(* Scripted configurable lints for the configuration correspondence (C11). Definitions only. *)
From ZL Require Import Base.Bytes Framework.Core Framework.Config Framework.Script.
Open Scope Z_scope.

(* table content: Some a = a well-typed table setting the option to a; None = a table the decoder rejects *)
Definition ctbl := option Z.
Inductive nt_behaviour := NtPanic (e : bytes) | NtErr (e : bytes).

Definition cfg_case :=
  (kind * bytes * bytes * list (bytes * option ctbl) * bytes * nt_behaviour * Z * bool * sobj * obs)%type.

Definition mk_doc (d : list (bytes * option ctbl)) : doc ctbl :=
  map (fun p => (fst p, match snd p with Some t => NTable ctbl t | None => NOther ctbl end)) d.

Definition cfg_lint (name src errmsg : bytes) (base : Z) (app : bool) : clint sobj Z ctbl :=
  mkClint sobj Z ctbl (mkMeta name [] [] src zeroT zeroT) (Ret 0)
          (Some (fun t i => match t with Some a => inl a | None => inr errmsg end))
          (fun _ _ => Ret app)
          (fun i _ => if i =? 0 then Ret (Some (mkResult base []))
                      else Ret (Some (mkResult Notice (s2b "A=" ++ [Z.to_N (48 + i)])%list))).

Definition check_cfg (c : cfg_case) : bool :=
  match c with
  | (k, name, src, d, errmsg, nt, base, app, o, ob) =>
    let ntv := match nt with NtPanic e => Panic e | NtErr e => Ret (inr e) end in
    obs_eqb (obs_of (fst (crun sobj Z ctbl o_server_auth o_email o_cs sdate ntv k (cfg_lint name src errmsg base app) (mk_doc d) o))) ob
  end.
