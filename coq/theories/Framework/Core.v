(* Executable model of zlint's framework: statuses, metadata, the lint life cycle
   (v3/lint/base.go), result sets (v3/resultset.go, v3/zlint.go).  Definitions only. *)
From ZL Require Import Base.Bytes.
Open Scope Z_scope.

(* ---- statuses (v3/lint/result.go): LintStatus is an int ---- *)
Definition status := Z.
Definition Reserved : status := 0.
Definition NA : status := 1.
Definition NE : status := 2.
Definition Pass : status := 3.
Definition Notice : status := 4.
Definition Warn : status := 5.
Definition Error : status := 6.
Definition Fatal : status := 7.

Definition defined_status (s : status) : bool := (1 <=? s) && (s <=? 7).

(* ---- instants: Z nanoseconds since the Unix epoch; Go's zero time.Time is year 1 ---- *)
Definition zeroT : Z := -62135596800 * 1000000000.
Definition is_zero (t : Z) : bool := t =? zeroT.

(* checkEffective (base.go) *)
Definition check_effective (eff ineff target : Z) : bool :=
  (is_zero eff || negb (target <? eff)) && (is_zero ineff || (target <? ineff)).

(* ---- metadata ---- *)
Record meta := mkMeta { m_name : bytes; m_desc : bytes; m_cite : bytes; m_src : bytes; m_eff : Z; m_ineff : Z }.

Inductive outcome (A : Type) := Ret (a : A) | Panic (msg : bytes).
Arguments Ret {A} a.
Arguments Panic {A} msg.

Record result := mkResult { r_status : status; r_details : bytes }.

Inductive event := EvNew | EvConfigure | EvApplies | EvExecute.

Inductive kind := KCert | KCrl | KOcsp.

Definition src_BR := s2b "CABF_BR".
Definition src_SMIME := s2b "CABF_SMIME_BR".
Definition src_CS := s2b "CABF_CS_BR".

Definition panic_details (name err : bytes) : bytes :=
  (s2b "'" ++ name ++ s2b "' panicked. Error: " ++ err)%list.

Definition config_error_details (name err : bytes) : bytes :=
  (s2b "A fatal error occurred while attempting to configure " ++ name ++
   s2b ". Please visit the [" ++ name ++
   s2b "] section of your provided configuration and compare it with the output of `zlint -exampleConfig`. Error: " ++ err)%list.

Section Lifecycle.
  (* obj: the parsed object; inst: a lint instance; cfg: a configuration *)
  Variables obj inst cfg : Type.
  (* scope predicates of util (IsServerAuthCert, IsEmailProtectionCert, IsCodeSigning) *)
  Variables is_server_auth is_email_protection is_code_signing : obj -> bool.
  (* the date each kind is judged by: NotBefore / ThisUpdate / NextUpdate *)
  Variable date_of : kind -> obj -> Z.

  Record body := mkBody {
    b_configurable : bool;
    b_new : outcome inst;                                          (* l.Lint() *)
    (* Configuration.MaybeConfigure on the instance: inl i' = ok, inr err = error text of the decoder *)
    b_configure : cfg -> bytes -> inst -> outcome (inst + bytes);
    b_applies : inst -> obj -> outcome bool;                       (* CheckApplies *)
    b_exec : inst -> obj -> outcome (option result)                (* Execute; None = nil *LintResult *)
  }.

  Record lint := mkLint { l_meta : meta; l_body : body }.

  Definition in_scope (src : bytes) (o : obj) : bool :=
    if beqb src src_BR then is_server_auth o
    else if beqb src src_SMIME then is_email_protection o
    else if beqb src src_CS then is_code_signing o
    else true.

  Definition res (s : status) : outcome (option result) := Ret (Some (mkResult s [])).

  (* the unprotected part shared by the three kinds (CertificateLint.execute minus the scope gate;
     RevocationListLint.Execute; OcspResponseLint.Execute) *)
  Definition run_body (k : kind) (l : lint) (c : cfg) (o : obj) : outcome (option result) * list event :=
    let m := l_meta l in let b := l_body l in
    match b_new b with
    | Panic e => (Panic e, [EvNew])
    | Ret i =>
      let after_cfg (i' : inst) (log : list event) :=
        match b_applies b i' o with
        | Panic e => (Panic e, log ++ [EvApplies])
        | Ret false => (res NA, log ++ [EvApplies])
        | Ret true =>
          if negb (check_effective (m_eff m) (m_ineff m) (date_of k o)) then (res NE, log ++ [EvApplies])
          else (b_exec b i' o, log ++ [EvApplies; EvExecute])
        end%list in
      if b_configurable b then
        match b_configure b c (m_name m) i with
        | Panic e => (Panic e, [EvNew; EvConfigure])
        | Ret (inr err) => (Ret (Some (mkResult Fatal (config_error_details (m_name m) err))), [EvNew; EvConfigure])
        | Ret (inl i') => after_cfg i' [EvNew; EvConfigure]
        end
      else after_cfg i [EvNew]
    end.

  (* CertificateLint.Execute: scope gate + recover *)
  Definition run_cert (l : lint) (c : cfg) (o : obj) : option result * list event :=
    if negb (in_scope (m_src (l_meta l)) o) then (Some (mkResult NA []), [])
    else match run_body KCert l c o with
         | (Panic e, log) => (Some (mkResult Fatal (panic_details (m_name (l_meta l)) e)), log)
         | (Ret r, log) => (r, log)
         end.

  (* one lint through the entry point of its kind *)
  Definition run (k : kind) (l : lint) (c : cfg) (o : obj) : outcome (option result) * list event :=
    match k with
    | KCert => let (r, log) := run_cert l c o in (Ret r, log)
    | _ => run_body k l c o
    end.

  (* ---- result sets ---- *)
  Record resultset := mkRS {
    rs_results : list (bytes * (result * meta));   (* the Results map, as an association list *)
    rs_notices : bool; rs_warnings : bool; rs_errors : bool; rs_fatals : bool;
    rs_version : Z }.

  Fixpoint upd {V} (k : bytes) (v : V) (l : list (bytes * V)) : list (bytes * V) :=
    match l with
    | [] => [(k, v)]
    | (k', v') :: r => if beqb k k' then (k, v) :: r else (k', v') :: upd k v r
    end.

  Fixpoint lookup {V} (k : bytes) (l : list (bytes * V)) : option V :=
    match l with
    | [] => None
    | (k', v) :: r => if beqb k k' then Some v else lookup k r
    end.

  Definition empty_rs : resultset := mkRS [] false false false false 0.

  Definition add_result (rs : resultset) (m : meta) (r : result) : resultset :=
    let s := r_status r in
    mkRS (upd (m_name m) (r, m) (rs_results rs))
         (rs_notices rs || (s =? Notice)) (rs_warnings rs || (s =? Warn))
         (rs_errors rs || (s =? Error)) (rs_fatals rs || (s =? Fatal)) (rs_version rs).

  (* ResultSet.execute<Kind>: a nil result or an unrecovered panic propagates to the caller *)
  Fixpoint exec_all (k : kind) (ls : list lint) (c : cfg) (o : obj) (rs : resultset) : outcome resultset :=
    match ls with
    | [] => Ret rs
    | l :: r =>
      match fst (run k l c o) with
      | Panic e => Panic e
      | Ret None => Panic (s2b "runtime error: invalid memory address or nil pointer dereference")
      | Ret (Some x) => exec_all k r c o (add_result rs (l_meta l) x)
      end
    end.

  Definition Version : Z := 3.

  (* Lint<Kind>Ex on a given list of lints of that kind (registration order) *)
  Definition lint_all (k : kind) (ls : list lint) (c : cfg) (o : obj) : outcome resultset :=
    match exec_all k ls c o empty_rs with
    | Panic e => Panic e
    | Ret rs => Ret (mkRS (rs_results rs) (rs_notices rs) (rs_warnings rs) (rs_errors rs) (rs_fatals rs) Version)
    end.
End Lifecycle.

Arguments mkBody {obj inst cfg}.
Arguments mkLint {obj inst cfg}.
Arguments l_meta {obj inst cfg}.
Arguments l_body {obj inst cfg}.
Arguments b_configurable {obj inst cfg}.
Arguments b_new {obj inst cfg}.
Arguments b_configure {obj inst cfg}.
Arguments b_applies {obj inst cfg}.
Arguments b_exec {obj inst cfg}.

