(* Decidable checks over data regenerated from the running build, with their meaning. *)
From ZL Require Import Base.Bytes Base.BytesFacts Base.Sort Framework.Core Framework.Registry Framework.RegistryFacts
     Framework.FilterFacts Framework.Script.
From Coq Require Import Sorting.Sorted Lia.
Open Scope Z_scope.

Fixpoint nodupb (l : list bytes) : bool :=
  match l with
  | [] => true
  | x :: r => negb (mem x r) && nodupb r
  end.

Lemma nodupb_sound l : nodupb l = true -> NoDup l.
Proof.
  induction l as [|x l IH]; simpl; intro H; [constructor|].
  apply andb_true_iff in H as [H1 H2]. constructor; auto.
  apply negb_true_iff in H1. apply mem_false. exact H1.
Qed.

(* one registered lint as dumped: kind, name, description, source, effective, ineffective, constructor ok, instance ok *)
Record lint_row := mkRow { lr_kind : kind; lr_name : bytes; lr_desc : bytes; lr_src : bytes; lr_eff : Z; lr_ineff : Z;
                           lr_ctor : bool; lr_inst : bool }.

Definition has_upper (s : bytes) : bool := existsb (fun c => (65 <=? c)%N && (c <=? 90)%N) s.

Definition prefix_ok (s : bytes) : bool :=
  match s with
  | c :: u :: _ :: _ => (u =? 95)%N && ((c =? 101)%N || (c =? 119)%N || (c =? 110)%N)      (* e_ w_ n_ followed by something *)
  | _ => false
  end.

Definition dates_ok (e i : Z) : bool := is_zero e || is_zero i || (e <? i).

Definition row_ok (declared : list bytes) (r : lint_row) : bool :=
  prefix_ok (lr_name r) && negb (has_upper (lr_name r)) && beqb (trim (lr_name r)) (lr_name r) &&
  negb (beqb (lr_desc r) []) &&
  mem (lr_src r) declared && negb (beqb (lr_src r) (s2b "Unknown")) &&
  lr_ctor r && lr_inst r && dates_ok (lr_eff r) (lr_ineff r).

(* meaning of row_ok *)
Lemma row_ok_spec declared r :
  row_ok declared r = true ->
  lr_name r <> [] /\ prefix_ok (lr_name r) = true /\ has_upper (lr_name r) = false /\ lr_desc r <> [] /\
  In (lr_src r) declared /\ lr_src r <> s2b "Unknown" /\ lr_ctor r = true /\ lr_inst r = true /\
  (lr_eff r <> zeroT -> lr_ineff r <> zeroT -> lr_eff r < lr_ineff r).
Proof.
  unfold row_ok. rewrite !andb_true_iff, !negb_true_iff. intros [[[[[[[[P U] T] D] S] K] C] I] Dt].
  repeat split; auto.
  - intro E. rewrite E in P. discriminate.
  - apply beqb_neq in D. exact D.
  - apply mem_In. exact S.
  - apply beqb_neq in K. exact K.
  - intros He Hi. unfold dates_ok, is_zero in Dt. apply orb_true_iff in Dt as [Dt|Dt].
    + apply orb_true_iff in Dt as [Dt|Dt]; apply Z.eqb_eq in Dt; contradiction.
    + apply Z.ltb_lt. exact Dt.
Qed.

(* the registry rebuilt from dumped registration order satisfies the invariant, whatever the entries *)
Lemma reg_of_inv entries : RInv sobj unit unit (reg_of entries).
Proof. unfold reg_of. apply register_history_inv. Qed.

(* cross-kind uniqueness as a boolean over the listing *)
Definition global_nodupb (r : sregistry) : bool := nodupb (map name_of (listing _ _ _ r)).
Lemma global_nodupb_sound r : global_nodupb r = true -> GlobalNoDup sobj unit unit r.
Proof. apply nodupb_sound. Qed.

Definition subsetb (a b : list bytes) : bool := forallb (fun x => mem x b) a.
