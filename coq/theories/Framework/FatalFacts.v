(* C02 (framework half): where a fatal status can come from. *)
From ZL Require Import Base.Bytes Base.BytesFacts Framework.Core Framework.LifecycleFacts.
Open Scope Z_scope.

Section Fatal.
  Variables obj inst cfg : Type.
  Variables sa em cs : obj -> bool.
  Variable date_of : kind -> obj -> Z.
  Notation run := (run obj inst cfg sa em cs date_of).
  Notation run_body := (run_body obj inst cfg date_of).

  (* the unprotected life cycle yields a result only as: NA / NE introduced by the framework, a configuration
     error (fatal with the configuration-error text), or what the body itself returned *)
  Lemma body_result_origin k (l : lint obj inst cfg) c o r :
    fst (run_body k l c o) = Ret (Some r) ->
    r = mkResult NA [] \/ r = mkResult NE [] \/
    (exists err, r = mkResult Fatal (config_error_details (m_name (l_meta l)) err)) \/
    (exists i, b_exec (l_body l) i o = Ret (Some r)).
  Proof.
    unfold Core.run_body. destruct (b_new (l_body l)) as [i|e]; [|simpl; discriminate].
    destruct (b_configurable (l_body l)).
    - destruct (b_configure (l_body l) c (m_name (l_meta l)) i) as [[i'|err]|e]; simpl; try discriminate.
      + destruct (b_applies (l_body l) i' o) as [[|]|e]; simpl; try discriminate.
        * destruct (negb (check_effective _ _ _)); simpl.
          -- intro H; inversion H; auto.
          -- intro H. right; right; right. eauto.
        * intro H; inversion H; auto.
      + intro H; inversion H. right; right; left. eauto.
    - destruct (b_applies (l_body l) i o) as [[|]|e]; simpl; try discriminate.
      + destruct (negb (check_effective _ _ _)); simpl.
        * intro H; inversion H; auto.
        * intro H. right; right; right. eauto.
      + intro H; inversion H; auto.
  Qed.

  (* a fatal result of a certificate lint is an explicit decision of the body, a configuration error, or the
     report of a recovered panic - and the last case needs a panic somewhere in the lint's own code *)
  Theorem cert_fatal_origin (l : lint obj inst cfg) c o r :
    fst (run KCert l c o) = Ret (Some r) -> r_status r = Fatal ->
    (exists i, b_exec (l_body l) i o = Ret (Some r)) \/
    (exists err, r = mkResult Fatal (config_error_details (m_name (l_meta l)) err)) \/
    (exists e, fst (run_body KCert l c o) = Panic e /\ r = mkResult Fatal (panic_details (m_name (l_meta l)) e)).
  Proof.
    simpl. unfold Core.run_cert. destruct (negb (in_scope obj sa em cs (m_src (l_meta l)) o)).
    - simpl. intro H; inversion H; subst. discriminate.
    - destruct (run_body KCert l c o) as [[x|e] lg] eqn:E; simpl.
      + intros H S. inversion H; subst x.
        assert (E' : fst (run_body KCert l c o) = Ret (Some r)) by (rewrite E; reflexivity).
        destruct (body_result_origin KCert l c o r E') as [->|[->|[X|X]]]; try discriminate; auto.
      + intros H S. inversion H; subst. right; right. exists e. auto.
  Qed.

  (* so if no part of the lint's own code panics, no result is a recovered-panic report *)
  Theorem no_panic_no_panic_report (l : lint obj inst cfg) c o r :
    (forall e, fst (run_body KCert l c o) <> Panic e) ->
    fst (run KCert l c o) = Ret (Some r) -> r_status r = Fatal ->
    (exists i, b_exec (l_body l) i o = Ret (Some r)) \/
    (exists err, r = mkResult Fatal (config_error_details (m_name (l_meta l)) err)).
  Proof.
    intros NP H S. destruct (cert_fatal_origin l c o r H S) as [X|[X|[e [P _]]]]; auto.
    exfalso. apply (NP e). exact P.
  Qed.

  (* CRL / OCSP: there is no recovery net; linting returns normally exactly when nothing panics *)
  Theorem plain_returns_iff_no_panic k (l : lint obj inst cfg) c o :
    k <> KCert -> ((exists r, fst (run k l c o) = Ret r) <-> forall e, fst (run_body k l c o) <> Panic e).
  Proof.
    intro K. destruct k; [contradiction| |]; simpl; (split; [intros [r H] e; rewrite H; discriminate |
      intro H; destruct (fst (run_body _ l c o)) as [r|e] eqn:E; [eauto | exfalso; apply (H e); reflexivity]]).
  Qed.
End Fatal.
