(* Filter selects exactly the documented set (C08) and keeps lints untouched (C07 relies on it). *)
From ZL Require Import Base.Bytes Base.BytesFacts Base.Sort Framework.Core Framework.Registry Framework.RegistryFacts.
From Coq Require Import Sorting.Permutation Sorting.Sorted Lia.

Lemma nodup_app_disjoint {A} (a b : list A) : NoDup (a ++ b) -> forall x, In x a -> In x b -> False.
Proof.
  induction a as [|y a IH]; simpl; intros H x Ha Hb; [destruct Ha|].
  inversion H as [|? ? Hn Hd]; subst. destruct Ha as [->|Ha].
  - apply Hn. apply in_or_app. right. exact Hb.
  - eapply IH; eauto.
Qed.

Lemma nodup_app_l {A} (a b : list A) : NoDup (a ++ b) -> NoDup a.
Proof.
  induction a as [|y a IH]; simpl; intro H; [constructor|].
  inversion H as [|? ? Hn Hd]; subst. constructor; auto. intro X. apply Hn. apply in_or_app. left. exact X.
Qed.

Lemma nodup_app_r {A} (a b : list A) : NoDup (a ++ b) -> NoDup b.
Proof. induction a as [|y a IH]; simpl; intro H; auto. inversion H; subst. auto. Qed.

Section FilterFacts.
  Variables obj inst cfg : Type.
  Notation lint := (lint obj inst cfg).
  Notation lookup_tbl := (lookup_tbl obj inst cfg).
  Notation registry := (registry obj inst cfg).
  Notation RInv := (RInv obj inst cfg).
  Notation LkInv := (LkInv obj inst cfg).
  Notation names := (names obj inst cfg).
  Notation listing := (listing obj inst cfg).
  Notation lints_of := (lints_of obj inst cfg).
  Notation tbl := (tbl obj inst cfg).
  Notation set_tbl := (set_tbl obj inst cfg).
  Notation find_kind := (find_kind obj inst cfg).
  Notation by_name := (by_name obj inst cfg).
  Notation known_name := (known_name obj inst cfg).
  Notation filter_loop := (filter_loop obj inst cfg).
  Notation filter_registry := (filter_registry obj inst cfg).
  Notation names_to_map := (names_to_map obj inst cfg).
  Notation names_to_map_aux := (names_to_map_aux obj inst cfg).
  Notation find_name := (find_name obj inst cfg).
  Notation register := (register obj inst cfg).
  Notation register_lk := (register_lk obj inst cfg).
  Notation new_registry := (new_registry obj inst cfg).

  Definition kind_eqb (a b : kind) : bool :=
    match a, b with KCert, KCert | KCrl, KCrl | KOcsp, KOcsp => true | _, _ => false end.

  Lemma kind_eqb_eq a b : kind_eqb a b = true <-> a = b.
  Proof. destruct a, b; simpl; split; intro H; congruence. Qed.

  (* cross-kind uniqueness of names: enforced per kind by the code, across kinds by the C12 data obligation *)
  Definition GlobalNoDup (r : registry) : Prop := NoDup (map name_of (listing r)).

  Lemma global_nodup_names (r : registry) : RInv r -> (GlobalNoDup r <-> NoDup (names r)).
  Proof.
    intro I. unfold GlobalNoDup. rewrite (names_listing obj inst cfg r I). apply NoDup_isort.
  Qed.

  Lemma by_name_find (r : registry) k n : RInv r -> by_name (tbl k r) n = find_name n (lints_of k r).
  Proof. intro I. apply (inv_byname _ _ _ _ (tbl_inv obj inst cfg k r I)). Qed.

  Lemma find_kind_some (r : registry) n k l :
    RInv r -> find_kind r n = Some (k, l) -> In l (lints_of k r) /\ name_of l = n.
  Proof.
    intros I. unfold Registry.find_kind.
    change (rg_cert r) with (tbl KCert r). change (rg_ocsp r) with (tbl KOcsp r). change (rg_crl r) with (tbl KCrl r).
    rewrite !(by_name_find r _ n I).
    destruct (find_name n (lints_of KCert r)) eqn:E1.
    { intro H; inversion H; subst. apply find_name_some in E1. exact E1. }
    destruct (find_name n (lints_of KOcsp r)) eqn:E2.
    { intro H; inversion H; subst. apply find_name_some in E2. exact E2. }
    destruct (find_name n (lints_of KCrl r)) eqn:E3; [|discriminate].
    intro H; inversion H; subst. apply find_name_some in E3. exact E3.
  Qed.

  Lemma find_kind_in (r : registry) k l :
    RInv r -> GlobalNoDup r -> In l (lints_of k r) -> find_kind r (name_of l) = Some (k, l).
  Proof.
    intros I G H.
    unfold GlobalNoDup, Registry.listing in G. rewrite !map_app in G.
    change (lk_lints (rg_cert r)) with (lints_of KCert r) in G.
    change (lk_lints (rg_ocsp r)) with (lints_of KOcsp r) in G.
    change (lk_lints (rg_crl r)) with (lints_of KCrl r) in G.
    assert (N1 := nodup_app_l _ _ G).
    assert (G2 := nodup_app_r _ _ G).
    assert (N2 := nodup_app_l _ _ G2).
    assert (N3 := nodup_app_r _ _ G2).
    unfold Registry.find_kind.
    change (rg_cert r) with (tbl KCert r). change (rg_ocsp r) with (tbl KOcsp r). change (rg_crl r) with (tbl KCrl r).
    rewrite !(by_name_find r _ _ I).
    assert (M : In (name_of l) (map name_of (lints_of k r))) by (apply in_map; exact H).
    destruct k.
    - rewrite (find_name_in obj inst cfg _ _ N1 H). reflexivity.
    - assert (E1 : find_name (name_of l) (lints_of KCert r) = None).
      { apply find_name_none. intro X. eapply (nodup_app_disjoint _ _ G); [exact X|]. apply in_or_app. right. exact M. }
      assert (E2 : find_name (name_of l) (lints_of KOcsp r) = None).
      { apply find_name_none. intro X. eapply (nodup_app_disjoint _ _ G2); [exact X | exact M]. }
      rewrite E1, E2, (find_name_in obj inst cfg _ _ N3 H). reflexivity.
    - assert (E1 : find_name (name_of l) (lints_of KCert r) = None).
      { apply find_name_none. intro X. eapply (nodup_app_disjoint _ _ G); [exact X|]. apply in_or_app. left. exact M. }
      rewrite E1, (find_name_in obj inst cfg _ _ N2 H). reflexivity.
  Qed.

  (* ---- the loop ---- *)
  Section Loop.
    Variable r : registry.
    Variable o : filter_opts.
    Variables sx si nx ni : option (list bytes).
    Hypothesis Ir : RInv r.

    Definition pick_kind (k : kind) (n : bytes) : list lint :=
      match find_kind r n with
      | Some (k', l) => if kind_eqb k k' && passes o sx si nx ni (src_of l) n then [l] else []
      | None => []
      end.

    Definition selected_of (k : kind) (ns : list bytes) : list lint := flat_map (pick_kind k) ns.

    Lemma lints_of_set_tbl_same k (acc : registry) t : lints_of k (set_tbl k acc t) = lk_lints t.
    Proof. destruct k; reflexivity. Qed.

    Lemma lints_of_set_tbl_other k k' (acc : registry) t : k <> k' -> lints_of k' (set_tbl k acc t) = lints_of k' acc.
    Proof. destruct k, k'; intro H; try reflexivity; congruence. Qed.

    Lemma cfg_set_tbl k (acc : registry) t : rg_cfg (set_tbl k acc t) = rg_cfg acc.
    Proof. destruct k; reflexivity. Qed.

    Lemma loop_spec ns : forall acc : registry,
      RInv acc -> NoDup ns -> (forall n, In n ns -> In n (names r)) ->
      (forall n k, In n ns -> ~ In n (map name_of (lints_of k acc))) ->
      exists acc', filter_loop r o sx si nx ni ns acc = inl acc' /\ RInv acc' /\ rg_cfg acc' = rg_cfg acc /\
                   forall k, lints_of k acc' = (lints_of k acc ++ selected_of k ns)%list.
    Proof.
      induction ns as [|n rest IH]; intros acc Ia ND Hin Hfresh.
      - exists acc. split; [reflexivity|]. split; [exact Ia|]. split; [reflexivity|]. intro k. simpl. rewrite app_nil_r. reflexivity.
      - inversion ND as [|? ? Hn ND']; subst.
        assert (Kn : known_name r n = true) by (apply (in_names obj inst cfg r n Ir); apply Hin; left; reflexivity).
        cbn [Registry.filter_loop].
        destruct (find_kind r n) as [[k l]|] eqn:Ef.
        2:{ exfalso. unfold Registry.known_name in Kn. unfold Registry.find_kind in Ef.
            destruct (Registry.by_name obj inst cfg (rg_cert r) n); [discriminate|].
            destruct (Registry.by_name obj inst cfg (rg_ocsp r) n); [discriminate|].
            destruct (Registry.by_name obj inst cfg (rg_crl r) n); discriminate. }
        destruct (find_kind_some r n k l Ir Ef) as [Hl Hname].
        assert (Sel : forall k0, selected_of k0 (n :: rest) = (pick_kind k0 n ++ selected_of k0 rest)%list) by reflexivity.
        destruct (passes o sx si nx ni (src_of l) n) eqn:Ep.
        + (* registered into the fresh registry *)
          assert (Hreg : exists t', register_lk (tbl k acc) l = inl t' /\ LkInv t' /\ lk_lints t' = (lints_of k acc ++ [l])%list).
          { assert (Nn : n <> []).
            { intro X. apply (inv_nonempty _ _ _ _ (tbl_inv obj inst cfg k r Ir)).
              rewrite <- X, <- Hname. apply in_map. exact Hl. }
            assert (R : exists t', register_lk (tbl k acc) l = inl t').
            { unfold Registry.register_lk. rewrite Hname. destruct n as [|c nm]; [congruence|].
              rewrite (by_name_find acc k _ Ia).
              rewrite (proj2 (find_name_none obj inst cfg _ _) (Hfresh _ k (or_introl eq_refl))).
              eexists. reflexivity. }
            destruct R as [t' R]. exists t'. split; [exact R|].
            destruct (register_lk_ok obj inst cfg _ _ _ (tbl_inv obj inst cfg k acc Ia) R) as [It' [Hl' _]].
            split; [exact It' | exact Hl']. }
          destruct Hreg as [t' [Hr [It' Hlt']]].
          unfold Registry.register. rewrite Hr.
          set (acc1 := set_tbl k acc t').
          assert (Ia1 : RInv acc1) by (apply set_tbl_inv; auto).
          destruct (IH acc1 Ia1 ND') as [acc' [Hloop [Iacc' [Hcfg Hl']]]].
          { intros m Hm. apply Hin. right. exact Hm. }
          { intros m k0 Hm. destruct (kind_eqb k k0) eqn:Ek.
            - apply kind_eqb_eq in Ek. subst k0. unfold acc1. rewrite lints_of_set_tbl_same, Hlt', map_app, in_app_iff.
              simpl. rewrite Hname. intros [X|[X|[]]]; [apply (Hfresh m k (or_intror Hm)); exact X | subst m; contradiction].
            - unfold acc1. rewrite lints_of_set_tbl_other.
              + apply Hfresh. right. exact Hm.
              + intro X. subst k0. destruct k; discriminate. }
          exists acc'. split; [exact Hloop|]. split; [exact Iacc'|]. split.
          { rewrite Hcfg. unfold acc1. apply cfg_set_tbl. }
          intro k0. rewrite Hl', Sel. unfold pick_kind at 1. rewrite Ef, Ep, andb_true_r.
          destruct (kind_eqb k0 k) eqn:Ek.
          * apply kind_eqb_eq in Ek. subst k0. unfold acc1. rewrite lints_of_set_tbl_same, Hlt', <- app_assoc. reflexivity.
          * unfold acc1. rewrite lints_of_set_tbl_other; [reflexivity|].
            intro X. subst k0. destruct k; discriminate.
        + destruct (IH acc Ia ND') as [acc' [Hloop [Iacc' [Hcfg Hl']]]].
          { intros m Hm. apply Hin. right. exact Hm. }
          { intros m k0 Hm. apply Hfresh. right. exact Hm. }
          exists acc'. split; [exact Hloop|]. split; [exact Iacc'|]. split; [exact Hcfg|].
          intro k0. rewrite Hl', Sel. unfold pick_kind at 1. rewrite Ef, Ep, andb_false_r. reflexivity.
    Qed.
  End Loop.

  (* ---- name-list validation ---- *)
  Lemma names_to_map_aux_ok (r : registry) ns : forall acc m,
    names_to_map_aux r ns acc = inl m ->
    (forall n, In n ns -> known_name r (trim n) = true) /\ (forall x, In x m <-> In x acc \/ In x (map trim ns)).
  Proof.
    induction ns as [|n ns IH]; intros acc m H; simpl in H.
    - inversion H; subst. split; [intros ? []|]. intro x. simpl. tauto.
    - destruct (known_name r (trim n)) eqn:K; [|discriminate].
      destruct (IH _ _ H) as [A B]. split.
      + intros x [<-|Hx]; auto.
      + intro x. rewrite B, add_set_in. simpl. intuition.
  Qed.

  Lemma names_to_map_aux_err (r : registry) ns : forall acc b,
    names_to_map_aux r ns acc = inr b ->
    exists pre n post, ns = (pre ++ n :: post)%list /\ b = trim n /\ known_name r (trim n) = false /\
                       forall p, In p pre -> known_name r (trim p) = true.
  Proof.
    induction ns as [|n ns IH]; intros acc b H; simpl in H; [discriminate|].
    destruct (known_name r (trim n)) eqn:K.
    - destruct (IH _ _ H) as [pre [x [post [E [Hb [Hk Hp]]]]]].
      exists (n :: pre), x, post. subst. repeat split; auto; intros p [<-|Hq]; auto.
    - inversion H; subst. exists [], n, ns. repeat split; auto; intros ? [].
  Qed.

  Definition in_map_opt (m : option (list bytes)) (x : bytes) : bool :=
    match m with Some l => mem x l | None => false end.

  Lemma names_to_map_mem (r : registry) ns mo x :
    names_to_map r ns = inl mo -> in_map_opt mo x = mem x (map trim ns) /\ (mo = None <-> ns = []).
  Proof.
    unfold Registry.names_to_map. destruct ns as [|n ns].
    - intro H; inversion H; subst. simpl. split; [reflexivity | tauto].
    - destruct (names_to_map_aux r (n :: ns) []) as [m|b] eqn:E; [|discriminate].
      intro H; inversion H; subst. split; [|split; discriminate].
      destruct (names_to_map_aux_ok r _ _ _ E) as [_ B]. simpl.
      destruct (mem x m) eqn:M1; destruct (mem x (map trim (n :: ns))) eqn:M2; auto.
      + apply mem_In, B in M1. destruct M1 as [[]|M1]. apply mem_In in M1. congruence.
      + apply mem_In in M2. assert (In x m) by (apply B; right; exact M2). apply mem_In in H0. congruence.
  Qed.

  Lemma names_to_map_nonempty (r : registry) ns m : names_to_map r ns = inl (Some m) -> m <> [].
  Proof.
    unfold Registry.names_to_map. destruct ns as [|n ns]; [discriminate|].
    destruct (names_to_map_aux r (n :: ns) []) as [m'|b] eqn:E; [|discriminate].
    intro H; inversion H; subst. destruct (names_to_map_aux_ok r _ _ _ E) as [_ B].
    intro X. subst. apply (proj2 (B (trim n))). right. left. reflexivity.
  Qed.

  (* ---- the documented selection ---- *)
  Definition selected (o : filter_opts) (l : lint) : bool :=
    negb (mem (src_of l) (fo_exclude_sources o)) &&
    (match fo_include_sources o with [] => true | s => mem (src_of l) s end) &&
    (match fo_name_filter o with Some f => f (name_of l) | None => true end) &&
    negb (mem (name_of l) (map trim (fo_exclude_names o))) &&
    (match fo_include_names o with [] => true | ns => mem (name_of l) (map trim ns) end).

  Lemma passes_selected (r : registry) o nx ni l :
    names_to_map r (fo_exclude_names o) = inl nx -> names_to_map r (fo_include_names o) = inl ni ->
    passes o (source_map (fo_exclude_sources o)) (source_map (fo_include_sources o)) nx ni (src_of l) (name_of l) = selected o l.
  Proof.
    intros Hx Hi. unfold Registry.passes, selected.
    destruct (names_to_map_mem r _ _ (name_of l) Hx) as [Mx Nx].
    destruct (names_to_map_mem r _ _ (name_of l) Hi) as [Mi Ni].
    assert (A1 : (match source_map (fo_exclude_sources o) with Some m => mem (src_of l) m | None => false end)
                 = mem (src_of l) (fo_exclude_sources o)).
    { unfold Registry.source_map. destruct (fo_exclude_sources o); reflexivity. }
    assert (A2 : (match source_map (fo_include_sources o) with Some m => mem (src_of l) m | None => true end)
                 = match fo_include_sources o with [] => true | s0 => mem (src_of l) s0 end).
    { unfold Registry.source_map. destruct (fo_include_sources o); reflexivity. }
    assert (A3 : (match nx with Some m => mem (name_of l) m | None => false end)
                 = mem (name_of l) (map trim (fo_exclude_names o))) by exact Mx.
    assert (A4 : (match ni with Some m => mem (name_of l) m | None => true end)
                 = match fo_include_names o with [] => true | ns => mem (name_of l) (map trim ns) end).
    { destruct ni as [m|].
      - unfold in_map_opt in Mi. rewrite Mi. destruct (fo_include_names o) eqn:E; [|reflexivity].
        exfalso. assert (Some m = None) by (apply Ni; reflexivity). discriminate.
      - rewrite (proj1 Ni eq_refl). reflexivity. }
    rewrite A1, A2, A3, A4. reflexivity.
  Qed.

  Lemma StronglySorted_filter {A} (R : A -> A -> Prop) f l : StronglySorted R l -> StronglySorted R (filter f l).
  Proof.
    induction 1 as [|x l S IH F]; simpl; [constructor|].
    destruct (f x); auto. constructor; auto.
    rewrite Forall_forall in *. intros y Hy. apply filter_In in Hy as [Hy _]. auto.
  Qed.

  Lemma selected_of_names (r : registry) o sx si nx ni k ns :
    RInv r ->
    map name_of (selected_of r o sx si nx ni k ns) =
    filter (fun n => match pick_kind r o sx si nx ni k n with [] => false | _ => true end) ns.
  Proof.
    intro I. induction ns as [|n ns IH]; simpl; auto.
    unfold selected_of in *. rewrite map_app, IH.
    unfold pick_kind at 1 3. destruct (find_kind r n) as [[k' l]|] eqn:E; simpl; auto.
    destruct (kind_eqb k k' && passes o sx si nx ni (src_of l) n); simpl; auto.
    f_equal. apply (find_kind_some r n k' l I E).
  Qed.

  (* ---- C08: the filtered registry ---- *)
  Theorem filter_exact (r r' : registry) o :
    RInv r -> GlobalNoDup r -> filter_registry r o = inl (Some r') ->
    RInv r' /\ rg_cfg r' = rg_cfg r /\
    (forall k l, In l (lints_of k r') <-> In l (lints_of k r) /\ selected o l = true) /\
    (forall k, StronglySorted ble (map name_of (lints_of k r'))).
  Proof.
    intros I G. unfold Registry.filter_registry.
    destruct (opts_empty o); [discriminate|].
    destruct (names_to_map r (fo_exclude_names o)) as [nx|b] eqn:Ex; [|discriminate].
    destruct (names_to_map r (fo_include_names o)) as [ni|b] eqn:Ei; [|discriminate].
    set (sx := source_map (fo_exclude_sources o)). set (si := source_map (fo_include_sources o)).
    assert (L := loop_spec r o sx si nx ni I (names r) (new_registry (rg_cfg r)) (new_registry_inv obj inst cfg _)
                  (proj1 (global_nodup_names r I) G) (fun n H => H) (fun n k _ X => match k return In n (map name_of (lints_of k (new_registry (rg_cfg r)))) -> False with KCert | KCrl | KOcsp => fun X => X end X)).
    destruct L as [acc' [Hloop [Ia [Hc Hl]]]].
    assert (Main : filter_loop r o sx si nx ni (names r) (new_registry (rg_cfg r)) = inl r' ->
      RInv r' /\ rg_cfg r' = rg_cfg r /\
      (forall k l, In l (lints_of k r') <-> In l (lints_of k r) /\ selected o l = true) /\
      (forall k, StronglySorted ble (map name_of (lints_of k r')))).
    { rewrite Hloop. intro H; inversion H; subst acc'. clear H.
      split; [exact Ia|]. split; [rewrite Hc; reflexivity|]. split.
      - intros k l. rewrite Hl.
        assert (E0 : lints_of k (new_registry (rg_cfg r)) = []) by (destruct k; reflexivity).
        rewrite E0. simpl. unfold selected_of. rewrite in_flat_map. split.
        + intros [n [Hn Hp]]. unfold pick_kind in Hp. destruct (find_kind r n) as [[k' l']|] eqn:E; [|destruct Hp].
          destruct (kind_eqb k k') eqn:Ek; simpl in Hp; [|destruct Hp].
          destruct (passes o sx si nx ni (src_of l') n) eqn:Ep; [|destruct Hp].
          destruct Hp as [<-|[]]. apply kind_eqb_eq in Ek. subst k'.
          destruct (find_kind_some r n k l' I E) as [Hin Hname]. split; auto.
          rewrite <- (passes_selected r o nx ni l' Ex Ei). rewrite Hname. exact Ep.
        + intros [Hin Hsel]. exists (name_of l). split.
          * rewrite (names_listing obj inst cfg r I), In_isort. unfold Registry.listing.
            rewrite !map_app, !in_app_iff. destruct k; [left | right; right | right; left]; apply in_map; exact Hin.
          * unfold pick_kind. rewrite (find_kind_in r k l I G Hin).
            rewrite (proj2 (kind_eqb_eq k k) eq_refl). simpl.
            unfold sx, si. rewrite (passes_selected r o nx ni l Ex Ei), Hsel. left. reflexivity.
      - intro k. rewrite Hl.
        assert (E0 : lints_of k (new_registry (rg_cfg r)) = []) by (destruct k; reflexivity).
        rewrite E0. simpl. rewrite (selected_of_names r o sx si nx ni k _ I).
        apply StronglySorted_filter. apply names_sorted. }
    destruct (fo_name_filter o).
    - destruct (negb (Nat.eqb (opt_len nx) 0) || negb (Nat.eqb (opt_len ni) 0))%bool; [discriminate|].
      destruct (filter_loop r o sx si nx ni (names r) (new_registry (rg_cfg r))) eqn:E; [|discriminate].
      intro H; inversion H; subst. apply Main. reflexivity.
    - destruct (filter_loop r o sx si nx ni (names r) (new_registry (rg_cfg r))) eqn:E; [|discriminate].
      intro H; inversion H; subst. apply Main. reflexivity.
  Qed.

  (* the error behaviour, and totality otherwise *)
  Theorem filter_outcome (r : registry) o :
    RInv r -> GlobalNoDup r ->
    if opts_empty o then filter_registry r o = inl None
    else match names_to_map r (fo_exclude_names o) with
         | inr n => filter_registry r o = inr (FUnknownName n)
         | inl _ =>
           match names_to_map r (fo_include_names o) with
           | inr n => filter_registry r o = inr (FUnknownName n)
           | inl _ =>
             match fo_name_filter o, fo_exclude_names o, fo_include_names o with
             | Some _, _ :: _, _ | Some _, _, _ :: _ => filter_registry r o = inr FExclusive
             | _, _, _ => exists r', filter_registry r o = inl (Some r')
             end
           end
         end.
  Proof.
    intros I G. unfold Registry.filter_registry. destruct (opts_empty o); [reflexivity|].
    destruct (names_to_map r (fo_exclude_names o)) as [nx|b] eqn:Ex; [|reflexivity].
    destruct (names_to_map r (fo_include_names o)) as [ni|b] eqn:Ei; [|reflexivity].
    set (sx := source_map (fo_exclude_sources o)). set (si := source_map (fo_include_sources o)).
    assert (L := loop_spec r o sx si nx ni I (names r) (new_registry (rg_cfg r)) (new_registry_inv obj inst cfg _)
                  (proj1 (global_nodup_names r I) G) (fun n H => H) (fun n k _ X => match k return In n (map name_of (lints_of k (new_registry (rg_cfg r)))) -> False with KCert | KCrl | KOcsp => fun X => X end X)).
    destruct L as [acc' [Hloop _]]. rewrite Hloop.
    assert (Lx : opt_len nx = 0%nat <-> fo_exclude_names o = []).
    { destruct (names_to_map_mem r _ _ [] Ex) as [_ N]. destruct nx as [m|]; simpl.
      - pose proof (names_to_map_nonempty r _ _ Ex). split; intro H0.
        + destruct m; [congruence | discriminate].
        + apply N in H0. discriminate.
      - split; auto. intros _. apply N. reflexivity. }
    assert (Li : opt_len ni = 0%nat <-> fo_include_names o = []).
    { destruct (names_to_map_mem r _ _ [] Ei) as [_ N]. destruct ni as [m|]; simpl.
      - pose proof (names_to_map_nonempty r _ _ Ei). split; intro H0.
        + destruct m; [congruence | discriminate].
        + apply N in H0. discriminate.
      - split; auto. intros _. apply N. reflexivity. }
    destruct (fo_name_filter o).
    - destruct (fo_exclude_names o) as [|x xs] eqn:E1.
      + rewrite (proj2 Lx eq_refl). simpl.
        destruct (fo_include_names o) as [|y ys] eqn:E2.
        * rewrite (proj2 Li eq_refl). simpl. eauto.
        * destruct (Nat.eqb (opt_len ni) 0) eqn:Z; simpl; [|reflexivity].
          apply PeanoNat.Nat.eqb_eq, Li in Z. discriminate.
      + destruct (Nat.eqb (opt_len nx) 0) eqn:Z; simpl; [|reflexivity].
        apply PeanoNat.Nat.eqb_eq, Lx in Z. discriminate.
    - destruct (fo_exclude_names o); destruct (fo_include_names o); eauto.
  Qed.
End FilterFacts.
