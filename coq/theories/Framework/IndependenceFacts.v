(* C07: a lint's verdict does not depend on which other lints run. *)
From ZL Require Import Base.Bytes Base.BytesFacts Base.Sort Framework.Core Framework.Registry Framework.RegistryFacts
     Framework.LifecycleFacts Framework.FilterFacts.
From Coq Require Import Sorting.Sorted Lia.
Open Scope Z_scope.

Section Independence.
  Variables obj inst cfg : Type.
  Variables sa em cs : obj -> bool.
  Variable date_of : kind -> obj -> Z.
  Notation lint := (lint obj inst cfg).
  Notation registry := (registry obj inst cfg).
  Notation run := (run obj inst cfg sa em cs date_of).
  Notation lint_all := (lint_all obj inst cfg sa em cs date_of).
  Notation collect := (collect obj inst cfg sa em cs date_of).
  Notation lints_of := (lints_of obj inst cfg).
  Notation names_of ls := (map (fun l : lint => m_name (l_meta l)) ls).

  Lemma collect_in k ls c o es :
    collect k ls c o = Ret es ->
    forall l, In l ls -> exists x, fst (run k l c o) = Ret (Some x) /\ In (m_name (l_meta l), (x, l_meta l)) es.
  Proof.
    revert es. induction ls as [|a ls IH]; intros es H l Hl; simpl in *; [destruct Hl|].
    destruct (fst (run k a c o)) as [[x|]|e] eqn:E; try discriminate.
    destruct (collect k ls c o) as [t|e]; try discriminate.
    inversion H; subst. destruct Hl as [->|Hl].
    - exists x. split; auto. left. reflexivity.
    - destruct (IH t eq_refl l Hl) as [y [A B]]. exists y. split; auto. right. exact B.
  Qed.

  Lemma collect_sub k ls ls' c o es :
    collect k ls c o = Ret es -> (forall l, In l ls' -> In l ls) ->
    exists es', collect k ls' c o = Ret es' /\
      forall e, In e es' <-> exists l x, In l ls' /\ fst (run k l c o) = Ret (Some x) /\ e = (m_name (l_meta l), (x, l_meta l)).
  Proof.
    intros H. induction ls' as [|a ls' IH]; intro Sub; simpl.
    - exists []. split; auto. intro e. split; [intros [] | intros [l [x [[] _]]]].
    - destruct (collect_in k ls c o es H a (Sub a (or_introl eq_refl))) as [x [Hx _]]. rewrite Hx.
      destruct IH as [es' [Hc He]]; [intros l Hl; apply Sub; right; exact Hl|]. rewrite Hc.
      eexists. split; [reflexivity|]. intro e. simpl. rewrite He. split.
      + intros [<-|[l [y [A [B C]]]]]; [exists a, x; auto | exists l, y; auto].
      + intros [l [y [[->|A] [B C]]]].
        * left. rewrite Hx in B. inversion B; subst. reflexivity.
        * right. exists l, y. auto.
  Qed.

  (* the general statement: any sub-list of lints (same values), any order *)
  Theorem sublist_independent k ls ls' c o rs :
    NoDup (names_of ls) -> NoDup (names_of ls') -> (forall l, In l ls' -> In l ls) ->
    lint_all k ls c o = Ret rs ->
    exists rs', lint_all k ls' c o = Ret rs' /\
      (forall n v, In (n, v) (rs_results rs') <-> In (n, v) (rs_results rs) /\ In n (names_of ls')) /\
      (rs_notices rs' = true -> rs_notices rs = true) /\ (rs_warnings rs' = true -> rs_warnings rs = true) /\
      (rs_errors rs' = true -> rs_errors rs = true) /\ (rs_fatals rs' = true -> rs_fatals rs = true).
  Proof.
    intros ND ND' Sub H. rewrite (lint_all_spec obj inst cfg sa em cs date_of k ls c o ND) in H.
    destruct (collect k ls c o) as [es|e] eqn:Ec; [|discriminate]. inversion H; subst rs; clear H.
    destruct (collect_sub k ls ls' c o es Ec Sub) as [es' [Hc' He']].
    rewrite (lint_all_spec obj inst cfg sa em cs date_of k ls' c o ND'), Hc'.
    eexists. split; [reflexivity|]. simpl.
    assert (Incl : forall e, In e es' -> In e es).
    { intros e He. apply He' in He as [l [x [A [B ->]]]].
      destruct (collect_in k ls c o es Ec l (Sub l A)) as [y [B' C]]. rewrite B in B'. inversion B'; subst. exact C. }
    split.
    - intros n v. split.
      + intro Hin. split; [apply Incl; exact Hin|].
        apply He' in Hin as [l [x [A [B E]]]]. inversion E; subst.
        apply (in_map (fun l : lint => m_name (l_meta l))). exact A.
      + intros [Hin Hn]. apply in_map_iff in Hn as [l [Hl A]]. subst n.
        destruct (collect_in k ls c o es Ec l (Sub l A)) as [y [B C]].
        (* the entry of l in the full run is unique by NoDup of names *)
        assert (U : v = (y, l_meta l)).
        { pose proof (collect_names obj inst cfg sa em cs date_of k ls c o es Ec) as Hn.
          rewrite <- Hn in ND. clear -ND Hin C.
          induction es as [|[n0 v0] es IH]; simpl in *; [destruct Hin|].
          inversion ND as [|? ? Hnot ND']; subst.
          destruct Hin as [Hin|Hin]; destruct C as [C|C].
          - inversion Hin; inversion C; subst. congruence.
          - inversion Hin; subst. exfalso. apply Hnot. apply (in_map fst) in C. exact C.
          - inversion C; subst. exfalso. apply Hnot. apply (in_map fst) in Hin. exact Hin.
          - apply IH; auto. }
        subst v. apply He'. exists l, y. auto.
    - repeat split; intro F; apply has_status_iff in F as [n [r [m [I S]]]]; apply has_status_iff;
        exists n, r, m; split; auto.
  Qed.

  (* C07 for Filter *)
  Theorem filter_independent (r r' : registry) fo k o rs :
    RInv obj inst cfg r -> GlobalNoDup obj inst cfg r -> filter_registry obj inst cfg r fo = inl (Some r') ->
    lint_all k (lints_of k r) (rg_cfg r) o = Ret rs ->
    exists rs', lint_all k (lints_of k r') (rg_cfg r') o = Ret rs' /\
      (forall n v, In (n, v) (rs_results rs') <->
                   In (n, v) (rs_results rs) /\ exists l, In l (lints_of k r) /\ selected obj inst cfg fo l = true /\ name_of l = n) /\
      (rs_notices rs' = true -> rs_notices rs = true) /\ (rs_warnings rs' = true -> rs_warnings rs = true) /\
      (rs_errors rs' = true -> rs_errors rs = true) /\ (rs_fatals rs' = true -> rs_fatals rs = true).
  Proof.
    intros I G F H.
    destruct (filter_exact obj inst cfg r r' fo I G F) as [I' [Hc [Hsel _]]].
    assert (ND : NoDup (names_of (lints_of k r))) by apply (inv_nodup _ _ _ _ (tbl_inv obj inst cfg k r I)).
    assert (ND' : NoDup (names_of (lints_of k r'))) by apply (inv_nodup _ _ _ _ (tbl_inv obj inst cfg k r' I')).
    assert (Sub : forall l, In l (lints_of k r') -> In l (lints_of k r)) by (intros l Hl; apply Hsel in Hl; tauto).
    rewrite Hc.
    destruct (sublist_independent k _ _ (rg_cfg r) o rs ND ND' Sub H) as [rs' [A [B C]]].
    exists rs'. split; [exact A|]. split; [|exact C].
    intros n v. rewrite B. split.
    - intros [X Y]. split; auto. apply in_map_iff in Y as [l [E Hl]]. exists l.
      apply Hsel in Hl as [Hl Hs]. auto.
    - intros [X [l [Hl [Hs E]]]]. split; auto. subst n.
      apply (in_map (fun l : lint => m_name (l_meta l))). apply Hsel. auto.
  Qed.
End Independence.
