(* Facts about the life-cycle and result-set model (C01, C03, C04). *)
From ZL Require Import Base.Bytes Base.BytesFacts Framework.Core.
From Coq Require Import Lia.
Open Scope Z_scope.

(* ---- the window (C03) ---- *)
Lemma window_exact e i t :
  check_effective e i t = true <-> (e = zeroT \/ e <= t) /\ (i = zeroT \/ t < i).
Proof.
  unfold check_effective, is_zero.
  rewrite andb_true_iff, !orb_true_iff, negb_true_iff, !Z.eqb_eq, !Z.ltb_lt, Z.ltb_ge. tauto.
Qed.

Lemma window_boundaries e i s :
  e <> zeroT -> i <> zeroT -> e < i -> 0 < s -> s <= i - e ->
  check_effective e i e = true /\ check_effective e i (i - s) = true /\
  check_effective e i (e - s) = false /\ check_effective e i i = false.
Proof.
  intros He Hi Hlt Hs Hs2. repeat split.
  - apply window_exact. lia.
  - apply window_exact. lia.
  - destruct (check_effective e i (e - s)) eqn:E; auto. apply window_exact in E. lia.
  - destruct (check_effective e i i) eqn:E; auto. apply window_exact in E. lia.
Qed.

Section Facts.
  Variables obj inst cfg : Type.
  Variables is_server_auth is_email_protection is_code_signing : obj -> bool.
  Variable date_of : kind -> obj -> Z.
  Notation lint := (lint obj inst cfg).
  Notation run_body := (run_body obj inst cfg date_of).
  Notation run_cert := (run_cert obj inst cfg is_server_auth is_email_protection is_code_signing date_of).
  Notation run := (run obj inst cfg is_server_auth is_email_protection is_code_signing date_of).
  Notation in_scope := (in_scope obj is_server_auth is_email_protection is_code_signing).
  Notation exec_all := (exec_all obj inst cfg is_server_auth is_email_protection is_code_signing date_of).
  Notation lint_all := (lint_all obj inst cfg is_server_auth is_email_protection is_code_signing date_of).

  Definition in_window (k : kind) (l : lint) (o : obj) : bool :=
    check_effective (m_eff (l_meta l)) (m_ineff (l_meta l)) (date_of k o).

  (* the configured instance, when construction and configuration succeed *)
  Definition configured (l : lint) (c : cfg) : option inst :=
    match b_new (l_body l) with
    | Panic _ => None
    | Ret i =>
      if b_configurable (l_body l) then
        match b_configure (l_body l) c (m_name (l_meta l)) i with
        | Ret (inl i') => Some i'
        | _ => None
        end
      else Some i
    end.

  Definition is_prefix {A} (p l : list A) : Prop := exists s, l = (p ++ s)%list.

  (* ---- C03: silent outside the window ---- *)
  Lemma body_silent_outside k l c o r log :
    in_window k l o = false -> run_body k l c o = (Ret (Some r), log) ->
    (r_status r = NA \/ r_status r = NE \/ r_status r = Fatal) /\ ~ In EvExecute log.
  Proof.
    unfold in_window, Core.run_body. intros W H.
    destruct (b_new (l_body l)) as [i|e]; [|inversion H].
    destruct (b_configurable (l_body l)).
    - destruct (b_configure (l_body l) c (m_name (l_meta l)) i) as [[i'|err]|e]; try (inversion H; fail).
      + destruct (b_applies (l_body l) i' o) as [[|]|e]; try (inversion H; fail).
        * rewrite W in H. simpl in H. inversion H; subst. simpl. split; [auto|]. intros [X|[X|[X|[]]]]; discriminate.
        * inversion H; subst. simpl. split; [auto|]. intros [X|[X|[X|[]]]]; discriminate.
      + inversion H; subst. simpl. split; [auto|]. intros [X|[X|[]]]; discriminate.
    - destruct (b_applies (l_body l) i o) as [[|]|e]; try (inversion H; fail).
      + rewrite W in H. simpl in H. inversion H; subst. simpl. split; [auto|]. intros [X|[X|[]]]; discriminate.
      + inversion H; subst. simpl. split; [auto|]. intros [X|[X|[]]]; discriminate.
  Qed.

  Lemma body_log_no_exec_outside k l c o :
    in_window k l o = false -> ~ In EvExecute (snd (run_body k l c o)).
  Proof.
    unfold in_window, Core.run_body. intros W.
    destruct (b_new (l_body l)) as [i|e]; simpl; [|intros [X|[]]; discriminate].
    destruct (b_configurable (l_body l)).
    - destruct (b_configure (l_body l) c (m_name (l_meta l)) i) as [[i'|err]|e]; simpl;
        try (intros [X|[X|[]]]; discriminate).
      destruct (b_applies (l_body l) i' o) as [[|]|e]; try rewrite W; simpl; intros [X|[X|[X|[]]]]; discriminate.
    - destruct (b_applies (l_body l) i o) as [[|]|e]; try rewrite W; simpl; intros [X|[X|[]]]; discriminate.
  Qed.

  Theorem silent_outside k l c o r log :
    in_window k l o = false -> run k l c o = (Ret (Some r), log) ->
    (r_status r = NA \/ r_status r = NE \/ r_status r = Fatal) /\ ~ In EvExecute log.
  Proof.
    intros W H. destruct k; simpl in H.
    - unfold Core.run_cert in H. destruct (negb (in_scope (m_src (l_meta l)) o)).
      + inversion H; subst. simpl. split; auto.
      + destruct (run_body KCert l c o) as [[x|e] lg] eqn:E.
        * inversion H; subst. eapply body_silent_outside; eauto.
        * inversion H; subst. simpl. split; auto.
          pose proof (body_log_no_exec_outside KCert l c o W) as X. rewrite E in X. exact X.
    - eapply body_silent_outside; eauto.
    - eapply body_silent_outside; eauto.
  Qed.

  (* ---- C04 ---- *)
  Theorem scope_gate l c o :
    in_scope (m_src (l_meta l)) o = false -> run_cert l c o = (Some (mkResult NA []), []).
  Proof. intro H. unfold Core.run_cert. rewrite H. reflexivity. Qed.

  Theorem inapplicable_body k l c o i :
    configured l c = Some i -> b_applies (l_body l) i o = Ret false ->
    fst (run_body k l c o) = Ret (Some (mkResult NA [])) /\ ~ In EvExecute (snd (run_body k l c o)).
  Proof.
    unfold configured, Core.run_body. intros C A.
    destruct (b_new (l_body l)) as [i0|e]; [|discriminate].
    destruct (b_configurable (l_body l)).
    - destruct (b_configure (l_body l) c (m_name (l_meta l)) i0) as [[i'|err]|e]; try discriminate.
      inversion C; subst. rewrite A. simpl. split; auto. intros [X|[X|[X|[]]]]; discriminate.
    - inversion C; subst. rewrite A. simpl. split; auto. intros [X|[X|[]]]; discriminate.
  Qed.

  Theorem inapplicable k l c o i :
    configured l c = Some i -> b_applies (l_body l) i o = Ret false ->
    fst (run k l c o) = Ret (Some (mkResult NA [])) /\ ~ In EvExecute (snd (run k l c o)).
  Proof.
    intros C A. destruct (inapplicable_body k l c o i C A) as [H1 H2].
    destruct k; simpl; auto.
    unfold Core.run_cert. destruct (negb (in_scope (m_src (l_meta l)) o)); simpl; auto.
    destruct (run_body KCert l c o) as [[x|e] lg]; simpl in *; [|discriminate]. inversion H1; subst. auto.
  Qed.

  Theorem verdict_stands_body k l c o i :
    configured l c = Some i -> b_applies (l_body l) i o = Ret true -> in_window k l o = true ->
    fst (run_body k l c o) = b_exec (l_body l) i o.
  Proof.
    unfold configured, Core.run_body, in_window. intros C A W.
    destruct (b_new (l_body l)) as [i0|e]; [|discriminate].
    destruct (b_configurable (l_body l)).
    - destruct (b_configure (l_body l) c (m_name (l_meta l)) i0) as [[i'|err]|e]; try discriminate.
      inversion C; subst. rewrite A, W. reflexivity.
    - inversion C; subst. rewrite A, W. reflexivity.
  Qed.

  (* what recover turns a body outcome into *)
  Definition recovered (l : lint) (r : outcome (option result)) : option result :=
    match r with
    | Ret x => x
    | Panic e => Some (mkResult Fatal (panic_details (m_name (l_meta l)) e))
    end.

  Theorem verdict_stands k l c o i :
    (k = KCert -> in_scope (m_src (l_meta l)) o = true) ->
    configured l c = Some i -> b_applies (l_body l) i o = Ret true -> in_window k l o = true ->
    fst (run k l c o) = match k with KCert => Ret (recovered l (b_exec (l_body l) i o)) | _ => b_exec (l_body l) i o end.
  Proof.
    intros S C A W. pose proof (verdict_stands_body k l c o i C A W) as H.
    destruct k; simpl; auto.
    unfold Core.run_cert. rewrite (S eq_refl). simpl.
    destruct (run_body KCert l c o) as [[x|e] lg]; simpl in *; rewrite <- H; reflexivity.
  Qed.

  Theorem log_order k l c o :
    is_prefix (snd (run k l c o))
      (if b_configurable (l_body l) then [EvNew; EvConfigure; EvApplies; EvExecute] else [EvNew; EvApplies; EvExecute]).
  Proof.
    assert (B : forall k, is_prefix (snd (run_body k l c o))
      (if b_configurable (l_body l) then [EvNew; EvConfigure; EvApplies; EvExecute] else [EvNew; EvApplies; EvExecute])).
    { intro k0. unfold Core.run_body.
      destruct (b_new (l_body l)) as [i|e].
      2:{ simpl. destruct (b_configurable (l_body l)); eexists; simpl; reflexivity. }
      destruct (b_configurable (l_body l)).
      - destruct (b_configure (l_body l) c (m_name (l_meta l)) i) as [[i'|err]|e]; simpl;
          try (eexists; simpl; reflexivity).
        destruct (b_applies (l_body l) i' o) as [[|]|e]; simpl; try (eexists; simpl; reflexivity).
        destruct (negb (check_effective _ _ _)); simpl; eexists; simpl; reflexivity.
      - destruct (b_applies (l_body l) i o) as [[|]|e]; simpl; try (eexists; simpl; reflexivity).
        destruct (negb (check_effective _ _ _)); simpl; eexists; simpl; reflexivity. }
    destruct k; simpl; auto.
    unfold Core.run_cert. destruct (negb (in_scope (m_src (l_meta l)) o)); simpl.
    - eexists; simpl; reflexivity.
    - specialize (B KCert). destruct (run_body KCert l c o) as [[x|e] lg]; simpl in *; auto.
  Qed.

  (* the framework only introduces NA, NE and Fatal: any other status comes from the body *)
  Theorem status_origin k l c o r :
    fst (run k l c o) = Ret (Some r) ->
    r_status r = NA \/ r_status r = NE \/ r_status r = Fatal \/
    exists i, configured l c = Some i /\ b_exec (l_body l) i o = Ret (Some r).
  Proof.
    assert (B : forall k r, fst (run_body k l c o) = Ret (Some r) ->
      r_status r = NA \/ r_status r = NE \/ r_status r = Fatal \/
      exists i, configured l c = Some i /\ b_exec (l_body l) i o = Ret (Some r)).
    { intros k0 r0. unfold Core.run_body, configured.
      destruct (b_new (l_body l)) as [i|e]; [|simpl; discriminate].
      destruct (b_configurable (l_body l)).
      - destruct (b_configure (l_body l) c (m_name (l_meta l)) i) as [[i'|err]|e]; simpl; try discriminate.
        + destruct (b_applies (l_body l) i' o) as [[|]|e]; simpl; try discriminate.
          * destruct (negb (check_effective _ _ _)); simpl.
            -- intro H; inversion H; subst; simpl; auto.
            -- intro H. right; right; right. exists i'. auto.
          * intro H; inversion H; subst; simpl; auto.
        + intro H; inversion H; subst; simpl; auto.
      - destruct (b_applies (l_body l) i o) as [[|]|e]; simpl; try discriminate.
        + destruct (negb (check_effective _ _ _)); simpl.
          * intro H; inversion H; subst; simpl; auto.
          * intro H. right; right; right. exists i. auto.
        + intro H; inversion H; subst; simpl; auto. }
    destruct k; simpl; try apply B.
    unfold Core.run_cert. destruct (negb (in_scope (m_src (l_meta l)) o)); simpl.
    - intro H; inversion H; subst; simpl; auto.
    - specialize (B KCert). destruct (run_body KCert l c o) as [[x|e] lg]; simpl in *.
      + intro H; inversion H; subst. apply B. reflexivity.
      + intro H; inversion H; subst; simpl; auto.
  Qed.

  (* ---- C01: result sets ---- *)
  Definition entry := (bytes * (result * meta))%type.

  Fixpoint collect (k : kind) (ls : list lint) (c : cfg) (o : obj) : outcome (list entry) :=
    match ls with
    | [] => Ret []
    | l :: r =>
      match fst (run k l c o) with
      | Panic e => Panic e
      | Ret None => Panic (s2b "runtime error: invalid memory address or nil pointer dereference")
      | Ret (Some x) =>
        match collect k r c o with
        | Ret t => Ret ((m_name (l_meta l), (x, l_meta l)) :: t)
        | Panic e => Panic e
        end
      end
    end.

  Definition has_status (s : Z) (es : list entry) : bool := existsb (fun e => r_status (fst (snd e)) =? s) es.

  Lemma upd_fresh {V} k (v : V) l : ~ In k (map fst l) -> upd k v l = (l ++ [(k, v)])%list.
  Proof.
    induction l as [|[k' v'] l IH]; simpl; auto. intro H.
    destruct (beqb k k') eqn:E.
    - apply beqb_eq in E. exfalso. apply H. left. auto.
    - f_equal. apply IH. intro X. apply H. right. exact X.
  Qed.

  Lemma exec_all_spec k ls c o rs0 :
    NoDup (map (fun l : lint => m_name (l_meta l)) ls) ->
    (forall l, In l ls -> ~ In (m_name (l_meta l)) (map fst (rs_results rs0))) ->
    match collect k ls c o with
    | Panic e => exec_all k ls c o rs0 = Panic e
    | Ret es =>
      exec_all k ls c o rs0 =
      Ret (mkRS (rs_results rs0 ++ es)
                (rs_notices rs0 || has_status Notice es) (rs_warnings rs0 || has_status Warn es)
                (rs_errors rs0 || has_status Error es) (rs_fatals rs0 || has_status Fatal es) (rs_version rs0))
    end.
  Proof.
    revert rs0. induction ls as [|l ls IH]; intros rs0 ND F; simpl.
    - rewrite app_nil_r, !orb_false_r. destruct rs0; reflexivity.
    - destruct (fst (run k l c o)) as [[x|]|e]; auto.
      inversion ND as [|? ? Hn ND']; subst.
      specialize (IH (add_result rs0 (l_meta l) x) ND').
      assert (Fr : ~ In (m_name (l_meta l)) (map fst (rs_results rs0))) by (apply F; left; reflexivity).
      assert (F' : forall l0, In l0 ls -> ~ In (m_name (l_meta l0)) (map fst (rs_results (add_result rs0 (l_meta l) x)))).
      { intros l0 H0. simpl. rewrite (upd_fresh _ _ _ Fr), map_app, in_app_iff. simpl.
        intros [X|[X|[]]]; [apply (F l0 (or_intror H0)); exact X|].
        apply Hn. rewrite X. apply (in_map (fun l : lint => m_name (l_meta l))). exact H0. }
      specialize (IH F'). destruct (collect k ls c o) as [es|e]; auto.
      rewrite IH. simpl. rewrite (upd_fresh _ _ _ Fr), <- app_assoc. simpl.
      f_equal. rewrite <- !orb_assoc. reflexivity.
  Qed.

  Theorem lint_all_spec k ls c o :
    NoDup (map (fun l : lint => m_name (l_meta l)) ls) ->
    lint_all k ls c o =
    match collect k ls c o with
    | Panic e => Panic e
    | Ret es => Ret (mkRS es (has_status Notice es) (has_status Warn es) (has_status Error es) (has_status Fatal es) Version)
    end.
  Proof.
    intro ND. unfold Core.lint_all.
    pose proof (exec_all_spec k ls c o empty_rs ND (fun _ _ X => X)) as H.
    destruct (collect k ls c o) as [es|e]; rewrite H; reflexivity.
  Qed.

  Lemma collect_names k ls c o es :
    collect k ls c o = Ret es -> map fst es = map (fun l : lint => m_name (l_meta l)) ls.
  Proof.
    revert es. induction ls as [|l ls IH]; intros es H; simpl in *.
    - inversion H. reflexivity.
    - destruct (fst (run k l c o)) as [[x|]|e]; try discriminate.
      destruct (collect k ls c o) as [t|e]; try discriminate.
      inversion H; subst. simpl. f_equal. apply IH. reflexivity.
  Qed.

  Lemma collect_entries k ls c o es :
    collect k ls c o = Ret es ->
    forall n r m, In (n, (r, m)) es -> exists l, In l ls /\ l_meta l = m /\ n = m_name m /\ fst (run k l c o) = Ret (Some r).
  Proof.
    revert es. induction ls as [|l ls IH]; intros es H n r m I; simpl in *.
    - inversion H; subst. destruct I.
    - destruct (fst (run k l c o)) as [[x|]|e] eqn:E; try discriminate.
      destruct (collect k ls c o) as [t|e]; try discriminate.
      inversion H; subst. destruct I as [I|I].
      + inversion I; subst. exists l. auto.
      + destruct (IH t eq_refl n r m I) as [l0 [A B]]. exists l0. auto.
  Qed.

  (* certificates: recover makes every run return; only a nil result can still escape *)
  Lemma cert_run_returns l c o : exists r, fst (run KCert l c o) = Ret r.
  Proof. simpl. destruct (run_cert l c o) as [r lg]. exists r. reflexivity. Qed.

  Definition no_nil (k : kind) (l : lint) (c : cfg) (o : obj) : Prop := fst (run k l c o) <> Ret None.
  Definition no_panic (k : kind) (l : lint) (c : cfg) (o : obj) : Prop := forall e, fst (run k l c o) <> Panic e.

  Theorem collect_total k ls c o :
    (forall l, In l ls -> no_nil k l c o) -> (forall l, In l ls -> no_panic k l c o) ->
    exists es, collect k ls c o = Ret es.
  Proof.
    induction ls as [|l ls IH]; intros N P; simpl; [eauto|].
    destruct (fst (run k l c o)) as [[x|]|e] eqn:E.
    - destruct IH as [es ->]; [intros; apply N; right; auto | intros; apply P; right; auto|]. eauto.
    - exfalso. apply (N l (or_introl eq_refl)). exact E.
    - exfalso. apply (P l (or_introl eq_refl) e). exact E.
  Qed.

  Lemma cert_no_panic l c o : no_panic KCert l c o.
  Proof. intros e. destruct (cert_run_returns l c o) as [r ->]. discriminate. Qed.

  Lemma has_status_iff s es : has_status s es = true <-> exists n r m, In (n, (r, m)) es /\ r_status r = s.
  Proof.
    unfold has_status. rewrite existsb_exists. split.
    - intros [[n [r m]] [I H]]. simpl in H. apply Z.eqb_eq in H. eauto.
    - intros [n [r [m [I H]]]]. exists (n, (r, m)). split; auto. simpl. apply Z.eqb_eq. exact H.
  Qed.
End Facts.

Section ResultSets.
  Variables obj inst cfg : Type.
  Variables is_server_auth is_email_protection is_code_signing : obj -> bool.
  Variable date_of : kind -> obj -> Z.
  Notation lint := (lint obj inst cfg).
  Notation run := (run obj inst cfg is_server_auth is_email_protection is_code_signing date_of).
  Notation lint_all := (lint_all obj inst cfg is_server_auth is_email_protection is_code_signing date_of).
  Notation collect := (collect obj inst cfg is_server_auth is_email_protection is_code_signing date_of).
  Notation no_nil := (no_nil obj inst cfg is_server_auth is_email_protection is_code_signing date_of).
  Notation no_panic := (no_panic obj inst cfg is_server_auth is_email_protection is_code_signing date_of).
  Notation names_of ls := (map (fun l : lint => m_name (l_meta l)) ls).

  Theorem cert_total ls c o :
    NoDup (names_of ls) -> (forall l, In l ls -> no_nil KCert l c o) ->
    exists rs, lint_all KCert ls c o = Ret rs.
  Proof.
    intros ND N. rewrite lint_all_spec by exact ND.
    destruct (collect_total obj inst cfg _ _ _ date_of KCert ls c o N) as [es ->]; [|eauto].
    intros l _. apply cert_no_panic.
  Qed.

  Theorem plain_total k ls c o :
    NoDup (names_of ls) -> (forall l, In l ls -> no_nil k l c o) -> (forall l, In l ls -> no_panic k l c o) ->
    exists rs, lint_all k ls c o = Ret rs.
  Proof.
    intros ND N P. rewrite lint_all_spec by exact ND.
    destruct (collect_total obj inst cfg _ _ _ date_of k ls c o N P) as [es ->]. eauto.
  Qed.

  (* everything C01 says about a returned result set *)
  Record well_formed (k : kind) (ls : list lint) (c : cfg) (o : obj) (rs : resultset) : Prop := {
    wf_keys : map fst (rs_results rs) = names_of ls;
    wf_entries : forall n r m, In (n, (r, m)) (rs_results rs) ->
                 exists l, In l ls /\ l_meta l = m /\ n = m_name m /\ fst (run k l c o) = Ret (Some r);
    wf_notices : rs_notices rs = true <-> exists n r m, In (n, (r, m)) (rs_results rs) /\ r_status r = Notice;
    wf_warnings : rs_warnings rs = true <-> exists n r m, In (n, (r, m)) (rs_results rs) /\ r_status r = Warn;
    wf_errors : rs_errors rs = true <-> exists n r m, In (n, (r, m)) (rs_results rs) /\ r_status r = Error;
    wf_fatals : rs_fatals rs = true <-> exists n r m, In (n, (r, m)) (rs_results rs) /\ r_status r = Fatal;
    wf_version : rs_version rs = 3
  }.

  Theorem result_set_well_formed k ls c o rs :
    NoDup (names_of ls) -> lint_all k ls c o = Ret rs -> well_formed k ls c o rs.
  Proof.
    intros ND H. rewrite lint_all_spec in H by exact ND.
    destruct (collect k ls c o) as [es|e] eqn:E; [|discriminate].
    inversion H; subst; clear H.
    constructor; simpl.
    - eapply collect_names; eauto.
    - eapply collect_entries; eauto.
    - apply has_status_iff.
    - apply has_status_iff.
    - apply has_status_iff.
    - apply has_status_iff.
    - reflexivity.
  Qed.

  Definition body_range (l : lint) (o : obj) : Prop :=
    forall i r, b_exec (l_body l) i o = Ret (Some r) -> defined_status (r_status r) = true.

  Theorem status_range k ls c o rs :
    NoDup (names_of ls) -> lint_all k ls c o = Ret rs -> (forall l, In l ls -> body_range l o) ->
    forall n r m, In (n, (r, m)) (rs_results rs) -> defined_status (r_status r) = true.
  Proof.
    intros ND H BR n r m I.
    destruct (wf_entries _ _ _ _ _ (result_set_well_formed k ls c o rs ND H) n r m I) as [l [Hl [_ [_ Hr]]]].
    destruct (status_origin obj inst cfg _ _ _ date_of k l c o r Hr) as [S|[S|[S|[i [_ Hx]]]]];
      try (rewrite S; reflexivity).
    eapply BR; eauto.
  Qed.
End ResultSets.
