(* Executable model of the registry (v3/lint/lint_lookup.go, registration.go): the redundant lookup
   tables per kind, register, Names, Sources, ByName, BySource, Filter, the WriteJSON order.
   Definitions only. *)
From ZL Require Import Base.Bytes Base.Sort Framework.Core.
Open Scope Z_scope.

Section Registry.
  Variables obj inst cfg : Type.
  Notation lint := (lint obj inst cfg).

  Definition name_of (l : lint) : bytes := m_name (l_meta l).
  Definition src_of (l : lint) : bytes := m_src (l_meta l).

  (* one linterLookupImpl + its typed tables *)
  Record lookup_tbl := mkLk {
    lk_lints : list lint;                      (* registration order *)
    lk_names : list bytes;                     (* lintNames, re-sorted on every register *)
    lk_byname : list (bytes * lint);           (* lintsByName map *)
    lk_bysource : list (bytes * list lint);    (* lintsBySource map *)
    lk_sources : list bytes                    (* sources set *)
  }.

  Definition empty_lk : lookup_tbl := mkLk [] [] [] [] [].

  Inductive reg_error := ErrNilLint | ErrNilLintPtr | ErrEmptyName | ErrDuplicate (n : bytes).

  Definition add_set (x : bytes) (l : list bytes) : list bytes := if mem x l then l else (l ++ [x])%list.

  Definition by_name (t : lookup_tbl) (n : bytes) : option lint := lookup n (lk_byname t).
  Definition by_source (t : lookup_tbl) (s : bytes) : list lint :=
    match lookup s (lk_bysource t) with Some l => l | None => [] end.

  (* <kind>LinterLookupImpl.register(lint, name, source) *)
  Definition register_lk (t : lookup_tbl) (l : lint) : lookup_tbl + reg_error :=
    let n := name_of l in let s := src_of l in
    match n with
    | [] => inr ErrEmptyName
    | _ =>
      match by_name t n with
      | Some _ => inr (ErrDuplicate n)
      | None =>
        inl (mkLk (lk_lints t ++ [l])%list
                  (isort (lk_names t ++ [n])%list)
                  (upd n l (lk_byname t))
                  (upd s (by_source t s ++ [l])%list (lk_bysource t))
                  (add_set s (lk_sources t)))
      end
    end.

  Record registry := mkReg { rg_cert : lookup_tbl; rg_ocsp : lookup_tbl; rg_crl : lookup_tbl; rg_cfg : cfg }.

  Definition tbl (k : kind) (r : registry) : lookup_tbl :=
    match k with KCert => rg_cert r | KOcsp => rg_ocsp r | KCrl => rg_crl r end.

  Definition set_tbl (k : kind) (r : registry) (t : lookup_tbl) : registry :=
    match k with
    | KCert => mkReg t (rg_ocsp r) (rg_crl r) (rg_cfg r)
    | KOcsp => mkReg (rg_cert r) t (rg_crl r) (rg_cfg r)
    | KCrl => mkReg (rg_cert r) (rg_ocsp r) t (rg_cfg r)
    end.

  Definition new_registry (c : cfg) : registry := mkReg empty_lk empty_lk empty_lk c.

  (* registryImpl.register<Kind>Lint; a nil lint / nil constructor is `None` here *)
  Definition register (k : kind) (r : registry) (l : option (option lint)) : registry + reg_error :=
    match l with
    | None => inr ErrNilLint
    | Some None => inr ErrNilLintPtr
    | Some (Some l) =>
      match register_lk (tbl k r) l with
      | inl t => inl (set_tbl k r t)
      | inr e => inr e
      end
    end.

  (* a registration history; failed registrations leave the registry unchanged *)
  Definition register_op (r : registry) (op : kind * option (option lint)) : registry :=
    match register (fst op) r (snd op) with inl r' => r' | inr _ => r end.

  Definition lints_of (k : kind) (r : registry) : list lint := lk_lints (tbl k r).

  (* registryImpl.Names *)
  Definition names (r : registry) : list bytes :=
    isort (lk_names (rg_cert r) ++ lk_names (rg_ocsp r) ++ lk_names (rg_crl r))%list.

  (* registryImpl.Sources (a set; order unspecified in Go) *)
  Definition sources (r : registry) : list bytes :=
    fold_left (fun acc s => add_set s acc)
      (lk_sources (rg_cert r) ++ lk_sources (rg_crl r) ++ lk_sources (rg_ocsp r))%list [].

  (* WriteJSON order: certificate, OCSP, CRL lints in registration order *)
  Definition listing (r : registry) : list lint :=
    (lk_lints (rg_cert r) ++ lk_lints (rg_ocsp r) ++ lk_lints (rg_crl r))%list.

  (* ---- Filter ---- *)
  Record filter_opts := mkOpts {
    fo_name_filter : option (bytes -> bool);    (* the compiled regexp, as an oracle *)
    fo_include_names : list bytes;
    fo_exclude_names : list bytes;
    fo_include_sources : list bytes;
    fo_exclude_sources : list bytes }.

  Definition opts_empty (o : filter_opts) : bool :=
    match fo_name_filter o, fo_include_names o, fo_exclude_names o, fo_include_sources o, fo_exclude_sources o with
    | None, [], [], [], [] => true
    | _, _, _, _, _ => false
    end.

  Inductive filter_error := FUnknownName (n : bytes) | FExclusive | FRegister (e : reg_error) | FInternal.

  Definition known_name (r : registry) (n : bytes) : bool :=
    match by_name (rg_cert r) n with Some _ => true | None =>
    match by_name (rg_ocsp r) n with Some _ => true | None =>
    match by_name (rg_crl r) n with Some _ => true | None => false end end end.

  (* lintNamesToMap: None = nil map *)
  Fixpoint names_to_map_aux (r : registry) (ns : list bytes) (acc : list bytes) : list bytes + bytes :=
    match ns with
    | [] => inl acc
    | n :: rest =>
      let t := trim n in
      if known_name r t then names_to_map_aux r rest (add_set t acc) else inr t
    end.

  Definition names_to_map (r : registry) (ns : list bytes) : option (list bytes) + bytes :=
    match ns with
    | [] => inl None
    | _ => match names_to_map_aux r ns [] with inl m => inl (Some m) | inr n => inr n end
    end.

  Definition source_map (l : list bytes) : option (list bytes) :=
    match l with [] => None | _ => Some l end.

  Definition opt_len (m : option (list bytes)) : nat := match m with None => 0 | Some l => length l end.

  Definition find_kind (r : registry) (n : bytes) : option (kind * lint) :=
    match by_name (rg_cert r) n with Some l => Some (KCert, l) | None =>
    match by_name (rg_ocsp r) n with Some l => Some (KOcsp, l) | None =>
    match by_name (rg_crl r) n with Some l => Some (KCrl, l) | None => None end end end.

  Definition passes (o : filter_opts) (sx si nx ni : option (list bytes)) (src name : bytes) : bool :=
    negb (match sx with Some m => mem src m | None => false end) &&
    (match si with Some m => mem src m | None => true end) &&
    (match fo_name_filter o with Some f => f name | None => true end) &&
    negb (match nx with Some m => mem name m | None => false end) &&
    (match ni with Some m => mem name m | None => true end).

  Fixpoint filter_loop (r : registry) (o : filter_opts) (sx si nx ni : option (list bytes))
           (ns : list bytes) (acc : registry) : registry + filter_error :=
    match ns with
    | [] => inl acc
    | n :: rest =>
      match find_kind r n with
      | None =>
        (* zero metadata, nil registerFunc: calling it panics if the name passes the filters *)
        if passes o sx si nx ni [] n then inr FInternal else filter_loop r o sx si nx ni rest acc
      | Some (k, l) =>
        if passes o sx si nx ni (src_of l) n then
          match register k acc (Some (Some l)) with
          | inl acc' => filter_loop r o sx si nx ni rest acc'
          | inr e => inr (FRegister e)
          end
        else filter_loop r o sx si nx ni rest acc
      end
    end.

  (* registryImpl.Filter; `inl None` = the receiver itself is returned (Empty options) *)
  Definition filter_registry (r : registry) (o : filter_opts) : option registry + filter_error :=
    if opts_empty o then inl None else
    let sx := source_map (fo_exclude_sources o) in
    let si := source_map (fo_include_sources o) in
    match names_to_map r (fo_exclude_names o) with
    | inr n => inr (FUnknownName n)
    | inl nx =>
      match names_to_map r (fo_include_names o) with
      | inr n => inr (FUnknownName n)
      | inl ni =>
        match fo_name_filter o with
        | Some _ => if (negb (Nat.eqb (opt_len nx) 0) || negb (Nat.eqb (opt_len ni) 0))%bool then inr FExclusive
                    else match filter_loop r o sx si nx ni (names r) (new_registry (rg_cfg r)) with
                         | inl x => inl (Some x) | inr e => inr e end
        | None => match filter_loop r o sx si nx ni (names r) (new_registry (rg_cfg r)) with
                  | inl x => inl (Some x) | inr e => inr e end
        end
      end
    end.

  Definition filtered (r : registry) (o : filter_opts) : registry + filter_error :=
    match filter_registry r o with
    | inl None => inl r
    | inl (Some r') => inl r'
    | inr e => inr e
    end.
End Registry.

Arguments mkLk {obj inst cfg}.
Arguments mkReg {obj inst cfg}.
Arguments lk_lints {obj inst cfg}.
Arguments lk_names {obj inst cfg}.
Arguments lk_byname {obj inst cfg}.
Arguments lk_bysource {obj inst cfg}.
Arguments lk_sources {obj inst cfg}.
Arguments rg_cert {obj inst cfg}.
Arguments rg_ocsp {obj inst cfg}.
Arguments rg_crl {obj inst cfg}.
Arguments rg_cfg {obj inst cfg}.
Arguments name_of {obj inst cfg}.
Arguments src_of {obj inst cfg}.
