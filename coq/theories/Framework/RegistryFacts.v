(* Invariants of the registry model: the redundant lookup tables agree after any registration
   history (C12), names accepted by name-list validation (C13). *)
From ZL Require Import Base.Bytes Base.BytesFacts Base.Sort Framework.Core Framework.Registry.
From Coq Require Import Sorting.Permutation Sorting.Sorted Lia.

Section Facts.
  Variables obj inst cfg : Type.
  Notation lint := (lint obj inst cfg).
  Notation lookup_tbl := (lookup_tbl obj inst cfg).
  Notation registry := (registry obj inst cfg).

  Lemma lookup_upd_same {V} k (v : V) l : lookup k (upd k v l) = Some v.
  Proof.
    induction l as [|[k' v'] l IH]; simpl.
    - rewrite beqb_refl. reflexivity.
    - destruct (beqb k k') eqn:E; simpl; rewrite ?beqb_refl, ?E; auto.
  Qed.

  Lemma lookup_upd_other {V} k k' (v : V) l : beqb k' k = false -> lookup k' (upd k v l) = lookup k' l.
  Proof.
    intro H. induction l as [|[k2 v2] l IH]; simpl.
    - rewrite H. reflexivity.
    - destruct (beqb k k2) eqn:E; simpl.
      + apply beqb_eq in E; subst. rewrite H. reflexivity.
      + destruct (beqb k' k2); auto.
  Qed.

  Lemma find_app {A} (f : A -> bool) l1 l2 :
    find f (l1 ++ l2) = match find f l1 with Some x => Some x | None => find f l2 end.
  Proof. induction l1 as [|x l1 IH]; simpl; auto. destruct (f x); auto. Qed.

  Definition find_name (n : bytes) (ls : list lint) : option lint := find (fun l => beqb n (name_of l)) ls.
  Definition with_src (s : bytes) (ls : list lint) : list lint := filter (fun l => beqb s (src_of l)) ls.

  Record LkInv (t : lookup_tbl) : Prop := {
    inv_nodup : NoDup (map name_of (lk_lints t));
    inv_nonempty : ~ In [] (map name_of (lk_lints t));
    inv_names : lk_names t = isort (map name_of (lk_lints t));
    inv_byname : forall n, by_name _ _ _ t n = find_name n (lk_lints t);
    inv_bysource : forall s, by_source _ _ _ t s = with_src s (lk_lints t);
    inv_sources : forall s, In s (lk_sources t) <-> In s (map src_of (lk_lints t));
    inv_sources_nodup : NoDup (lk_sources t)
  }.

  Lemma find_name_none n ls : find_name n ls = None <-> ~ In n (map name_of ls).
  Proof.
    unfold find_name. induction ls as [|l ls IH]; simpl.
    - split; auto.
    - destruct (beqb n (name_of l)) eqn:E.
      + split; [discriminate|]. intro H. exfalso. apply H. left. symmetry. apply beqb_eq. exact E.
      + rewrite IH. apply beqb_neq in E. split; [intros H [X|X]; [congruence|auto] | intros H X; apply H; auto].
  Qed.

  Lemma find_name_some n ls l : find_name n ls = Some l -> In l ls /\ name_of l = n.
  Proof.
    unfold find_name. intro H. apply find_some in H as [H1 H2]. split; auto.
    symmetry. apply beqb_eq. exact H2.
  Qed.

  Lemma find_name_in ls l : NoDup (map name_of ls) -> In l ls -> find_name (name_of l) ls = Some l.
  Proof.
    unfold find_name. induction ls as [|x ls IH]; simpl; intros ND [].
    - subst. rewrite beqb_refl. reflexivity.
    - inversion ND as [|? ? Hn ND']; subst.
      destruct (beqb (name_of l) (name_of x)) eqn:E.
      + apply beqb_eq in E. exfalso. apply Hn. rewrite <- E. apply in_map. exact H.
      + apply IH; auto.
  Qed.

  Lemma empty_inv : LkInv (empty_lk _ _ _).
  Proof.
    constructor; simpl; auto; try constructor; try tauto.
  Qed.

  Lemma add_set_in x s l : In s (add_set x l) <-> s = x \/ In s l.
  Proof.
    unfold add_set. destruct (mem x l) eqn:E.
    - apply mem_In in E. split; [auto | intros [->|]; auto].
    - rewrite in_app_iff. simpl. split; [intros [|[|[]]]; auto | intros [|]; auto].
  Qed.

  Lemma add_set_nodup x l : NoDup l -> NoDup (add_set x l).
  Proof.
    unfold add_set. destruct (mem x l) eqn:E; auto.
    intro H. apply mem_false in E.
    apply Permutation_NoDup with (l := x :: l); [apply Permutation_cons_append | constructor; auto].
  Qed.

  Lemma register_lk_ok t l t' :
    LkInv t -> register_lk _ _ _ t l = inl t' ->
    LkInv t' /\ lk_lints t' = (lk_lints t ++ [l])%list /\ name_of l <> [] /\ ~ In (name_of l) (map name_of (lk_lints t)).
  Proof.
    intros I H. unfold register_lk in H.
    destruct (name_of l) as [|c nm] eqn:En; [discriminate|].
    destruct (by_name _ _ _ t (c :: nm)) eqn:Eb; [discriminate|].
    inversion H; subst t'; clear H.
    rewrite (inv_byname _ I) in Eb. apply find_name_none in Eb.
    split; [|split; [reflexivity | split; [discriminate | exact Eb]]].
    constructor; simpl.
    - rewrite map_app. simpl. rewrite En.
      apply Permutation_NoDup with (l := (c :: nm) :: map name_of (lk_lints t)).
      + apply Permutation_cons_append.
      + constructor; [exact Eb | apply (inv_nodup _ I)].
    - rewrite map_app, in_app_iff. simpl. rewrite En. intros [X|[X|[]]]; [apply (inv_nonempty _ I X) | discriminate].
    - rewrite (inv_names _ I), map_app. simpl. rewrite En.
      apply isort_perm_eq. apply Permutation_app_tail. apply Permutation_sym, isort_perm.
    - intro n. unfold by_name. simpl. unfold find_name. rewrite find_app.
      destruct (beqb n (c :: nm)) eqn:E.
      + apply beqb_eq in E. subst n. rewrite lookup_upd_same.
        fold (find_name (c :: nm) (lk_lints t)). rewrite (proj2 (find_name_none _ _) Eb).
        cbn [find]. rewrite En, beqb_refl. reflexivity.
      + rewrite lookup_upd_other by exact E.
        fold (by_name _ _ _ t n). rewrite (inv_byname _ I). unfold find_name.
        destruct (find (fun l0 => beqb n (name_of l0)) (lk_lints t)); auto.
        cbn [find]. rewrite En, E. reflexivity.
    - intro s. unfold by_source. cbn [lk_bysource lk_lints]. unfold with_src. rewrite filter_app. cbn [filter].
      destruct (beqb s (src_of l)) eqn:E.
      + apply beqb_eq in E. subst s. rewrite lookup_upd_same.
        fold (by_source _ _ _ t (src_of l)). rewrite (inv_bysource _ I). reflexivity.
      + rewrite lookup_upd_other by exact E. rewrite app_nil_r.
        apply (inv_bysource _ I).
    - intro s. rewrite add_set_in, map_app, in_app_iff, (inv_sources _ I). simpl.
      split; [intros [->|]; auto | intros [|[<-|[]]]; auto].
    - apply add_set_nodup. apply (inv_sources_nodup _ I).
  Qed.

  Definition RInv (r : registry) : Prop := LkInv (rg_cert r) /\ LkInv (rg_ocsp r) /\ LkInv (rg_crl r).

  Lemma tbl_inv k r : RInv r -> LkInv (tbl _ _ _ k r).
  Proof. intros [A [B C]]. destruct k; simpl; auto. Qed.

  Lemma set_tbl_inv k r t : RInv r -> LkInv t -> RInv (set_tbl _ _ _ k r t).
  Proof. intros [A [B C]] I. destruct k; unfold RInv; simpl; auto. Qed.

  Lemma new_registry_inv c : RInv (new_registry _ _ _ c).
  Proof. repeat split; apply empty_inv. Qed.

  Lemma register_inv k r l r' : RInv r -> register _ _ _ k r l = inl r' -> RInv r'.
  Proof.
    intros I H. unfold register in H. destruct l as [[l|]|]; try discriminate.
    destruct (register_lk _ _ _ (tbl _ _ _ k r) l) as [t|e] eqn:E; [|discriminate].
    inversion H; subst. apply set_tbl_inv; auto.
    apply (register_lk_ok _ _ _ (tbl_inv k r I) E).
  Qed.

  Lemma register_op_inv r op : RInv r -> RInv (register_op _ _ _ r op).
  Proof.
    intro I. unfold register_op. destruct (register _ _ _ (fst op) r (snd op)) eqn:E; auto.
    eapply register_inv; eauto.
  Qed.

  (* C12: the invariant holds after every registration history *)
  Theorem register_history_inv c ops : RInv (fold_left (register_op _ _ _) ops (new_registry _ _ _ c)).
  Proof.
    assert (G : forall r, RInv r -> RInv (fold_left (register_op _ _ _) ops r)).
    { induction ops as [|op ops IH]; simpl; auto. intros r I. apply IH. apply register_op_inv. exact I. }
    apply G. apply new_registry_inv.
  Qed.

  (* failed registrations: the three documented errors, registry unchanged by construction *)
  Lemma register_errors k r l e :
    register _ _ _ k r l = inr e ->
    (l = None /\ e = ErrNilLint) \/ (l = Some None /\ e = ErrNilLintPtr) \/
    (exists x : lint, l = Some (Some x) /\
       ((name_of x = [] /\ e = ErrEmptyName) \/
        (name_of x <> [] /\ by_name _ _ _ (tbl _ _ _ k r) (name_of x) <> None /\ e = ErrDuplicate (name_of x)))).
  Proof.
    unfold register. destruct l as [[x|]|]; intro H.
    - right; right. exists x. split; auto. unfold register_lk in H.
      destruct (name_of x) as [|c nm] eqn:En.
      + inversion H. left; auto.
      + destruct (by_name _ _ _ (tbl _ _ _ k r) (c :: nm)) eqn:Eb; inversion H.
        right. repeat split; try discriminate. 
    - inversion H. right; left; auto.
    - inversion H. left; auto.
  Qed.

  (* lookups agree with the listing *)
  Lemma names_listing (r : registry) : RInv r -> names _ _ _ r = isort (map name_of (listing _ _ _ r)).
  Proof.
    intros [A [B C]]. unfold names, listing.
    rewrite (inv_names _ A), (inv_names _ B), (inv_names _ C), !map_app.
    apply isort_perm_eq.
    repeat apply Permutation_app; apply Permutation_sym, isort_perm.
  Qed.

  Lemma names_sorted (r : registry) : StronglySorted ble (names _ _ _ r).
  Proof. apply isort_sorted. Qed.

  Lemma in_names (r : registry) n : RInv r -> (In n (names _ _ _ r) <-> known_name _ _ _ r n = true).
  Proof.
    intro I. rewrite (names_listing r I), In_isort. unfold listing. rewrite !map_app, !in_app_iff.
    destruct I as [A [B C]]. unfold known_name.
    rewrite (inv_byname _ A), (inv_byname _ B), (inv_byname _ C).
    destruct (find_name n (lk_lints (rg_cert r))) eqn:E1.
    { split; auto. intros _. left. apply find_name_some in E1 as [H <-]. apply in_map. exact H. }
    destruct (find_name n (lk_lints (rg_ocsp r))) eqn:E2.
    { split; auto. intros _. right; left. apply find_name_some in E2 as [H <-]. apply in_map. exact H. }
    destruct (find_name n (lk_lints (rg_crl r))) eqn:E3.
    { split; auto. intros _. right; right. apply find_name_some in E3 as [H <-]. apply in_map. exact H. }
    apply find_name_none in E1, E2, E3. split; [tauto | discriminate].
  Qed.

  (* C13: a listed name is accepted by name-list validation; an unknown one is an error *)
  Theorem listed_name_accepted (r : registry) n :
    RInv r -> In n (names _ _ _ r) -> trim n = n -> names_to_map _ _ _ r [n] = inl (Some [n]).
  Proof.
    intros I H T. unfold names_to_map. simpl. rewrite T.
    rewrite (proj1 (in_names r n I) H). reflexivity.
  Qed.

  Lemma names_to_map_aux_unknown (r : registry) pre n post acc :
    known_name _ _ _ r (trim n) = false ->
    exists bad, names_to_map_aux _ _ _ r (pre ++ n :: post) acc = inr bad.
  Proof.
    intro H. revert acc. induction pre as [|p pre IH]; intro acc; simpl.
    - rewrite H. eauto.
    - destruct (known_name _ _ _ r (trim p)); eauto.
  Qed.

  Theorem unknown_name_rejected (r : registry) pre n post :
    RInv r -> ~ In (trim n) (names _ _ _ r) -> exists bad, names_to_map _ _ _ r (pre ++ n :: post) = inr bad.
  Proof.
    intros I H. assert (K : known_name _ _ _ r (trim n) = false).
    { destruct (known_name _ _ _ r (trim n)) eqn:E; auto. apply (in_names r _ I) in E. contradiction. }
    unfold names_to_map. destruct (pre ++ n :: post)%list eqn:E; [destruct pre; discriminate|].
    rewrite <- E. destruct (names_to_map_aux_unknown r pre n post [] K) as [bad ->]. eauto.
  Qed.
End Facts.
