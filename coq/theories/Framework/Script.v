(* Scripted lints: the abstract case the harness realises with instrumented mock lints registered
   through the public Register* API (and, for real lints, fills from direct calls of the lint's own
   methods).  Definitions only; used by the generated correspondence files. *)
From ZL Require Import Base.Bytes Base.Sort Framework.Core Framework.Registry.
Open Scope Z_scope.

(* the abstract object: what the framework itself looks at *)
Record sobj := mkObj { o_server_auth : bool; o_email : bool; o_cs : bool;
                       o_not_before : Z; o_this_update : Z; o_next_update : Z }.

Definition sdate (k : kind) (o : sobj) : Z :=
  match k with KCert => o_not_before o | KCrl => o_this_update o | KOcsp => o_next_update o end.

Inductive s_new := NewOk | NewPanic (e : bytes).
Inductive s_cfg := CfgNone | CfgOk | CfgErr (e : bytes) | CfgPanic (e : bytes).
Inductive s_app := AppTrue | AppFalse | AppPanic (e : bytes).
Inductive s_exe := ExeRes (s : Z) (d : bytes) | ExeNil | ExePanic (e : bytes).

Record script := mkScript { sc_meta : meta; sc_new : s_new; sc_cfg : s_cfg; sc_app : s_app; sc_exe : s_exe }.

Definition sbody (s : script) : body sobj unit unit :=
  mkBody (match sc_cfg s with CfgNone => false | _ => true end)
         (match sc_new s with NewOk => Ret tt | NewPanic e => Panic e end)
         (fun _ _ _ => match sc_cfg s with
                       | CfgNone | CfgOk => Ret (inl tt)
                       | CfgErr e => Ret (inr e)
                       | CfgPanic e => Panic e end)
         (fun _ _ => match sc_app s with AppTrue => Ret true | AppFalse => Ret false | AppPanic e => Panic e end)
         (fun _ _ => match sc_exe s with
                     | ExeRes st d => Ret (Some (mkResult st d))
                     | ExeNil => Ret None
                     | ExePanic e => Panic e end).

Definition slint (s : script) : lint sobj unit unit := mkLint (sc_meta s) (sbody s).

Definition srun (k : kind) (s : script) (o : sobj) :=
  run sobj unit unit o_server_auth o_email o_cs sdate k (slint s) tt o.

Definition slint_all (k : kind) (ss : list script) (o : sobj) :=
  lint_all sobj unit unit o_server_auth o_email o_cs sdate k (map slint ss) tt o.

(* ---- observable projections compared with the implementation ---- *)

(* one lint run: 0 = returned result, 1 = nil, 2 = panic escaping *)
Inductive obs := ObsRes (s : Z) (d : bytes) | ObsNil | ObsPanic (e : bytes).

Definition obs_of (r : outcome (option result)) : obs :=
  match r with
  | Ret (Some x) => ObsRes (r_status x) (r_details x)
  | Ret None => ObsNil
  | Panic e => ObsPanic e
  end.

Definition ev_code (e : event) : N := match e with EvNew => 0 | EvConfigure => 1 | EvApplies => 2 | EvExecute => 3 end%N.

Definition obs_eqb (a b : obs) : bool :=
  match a, b with
  | ObsRes s d, ObsRes s' d' => (s =? s') && beqb d d'
  | ObsNil, ObsNil => true
  | ObsPanic e, ObsPanic e' => beqb e e'
  | _, _ => false
  end.

Fixpoint nlist_eqb (a b : list N) : bool :=
  match a, b with
  | [], [] => true
  | x :: a', y :: b' => N.eqb x y && nlist_eqb a' b'
  | _, _ => false
  end.

(* a single-run case: kind, script, object, observed result, observed call log *)
Definition run_case := (kind * script * sobj * obs * list N)%type.

Definition check_run (c : run_case) : bool :=
  match c with
  | (k, s, o, ob, lg) =>
    let (r, log) := srun k s o in
    obs_eqb (obs_of r) ob && nlist_eqb (map ev_code log) lg
  end.

(* a whole-registry case: kind, scripts in registration order, object, observed result set *)
Inductive rs_obs :=
| RsPanic (e : bytes)
| RsOk (results : list (bytes * (Z * bytes * bytes))) (* name -> status, details, metadata name *)
       (n w e f : bool) (version : Z).

Fixpoint sort_results (l : list (bytes * (Z * bytes * bytes))) : list (bytes * (Z * bytes * bytes)) :=
  match l with
  | [] => []
  | x :: r =>
    (fix ins (y : bytes * (Z * bytes * bytes)) (s : list (bytes * (Z * bytes * bytes))) :=
       match s with
       | [] => [y]
       | z :: t => if bleb (fst y) (fst z) then y :: s else z :: ins y t
       end) x (sort_results r)
  end.

Definition res_eqb (a b : bytes * (Z * bytes * bytes)) : bool :=
  match a, b with
  | (n, (s, d, mn)), (n', (s', d', mn')) => beqb n n' && (s =? s') && beqb d d' && beqb mn mn'
  end.

Fixpoint list_eqb {A} (f : A -> A -> bool) (a b : list A) : bool :=
  match a, b with
  | [], [] => true
  | x :: a', y :: b' => f x y && list_eqb f a' b'
  | _, _ => false
  end.

Definition rs_project (r : outcome resultset) : rs_obs :=
  match r with
  | Panic e => RsPanic e
  | Ret rs => RsOk (map (fun p => (fst p, (r_status (fst (snd p)), r_details (fst (snd p)), m_name (snd (snd p))))) (rs_results rs))
                   (rs_notices rs) (rs_warnings rs) (rs_errors rs) (rs_fatals rs) (rs_version rs)
  end.

Definition rs_obs_eqb (a b : rs_obs) : bool :=
  match a, b with
  | RsPanic _, RsPanic _ => true     (* panic texts of the runtime are not compared *)
  | RsOk r n w e f v, RsOk r' n' w' e' f' v' =>
      list_eqb res_eqb (sort_results r) (sort_results r') && Bool.eqb n n' && Bool.eqb w w' &&
      Bool.eqb e e' && Bool.eqb f f' && (v =? v')
  | _, _ => false
  end.

Definition all_case := (kind * list script * sobj * rs_obs)%type.

Definition check_all (c : all_case) : bool :=
  match c with (k, ss, o, ob) => rs_obs_eqb (rs_project (slint_all k ss o)) ob end.

(* a real lint abstracted by direct calls: only the result is observable *)
Definition real_case := (kind * script * sobj * obs)%type.
Definition check_real (c : real_case) : bool :=
  match c with (k, s, o, ob) => obs_eqb (obs_of (fst (srun k s o))) ob end.

Definition window_case := (Z * Z * Z * bool)%type.
Definition check_window (c : window_case) : bool :=
  match c with (e, i, t, b) => Bool.eqb (check_effective e i t) b end.
