(* Scripted lints: the abstract case the harness realises with instrumented mock lints registered
   through the public Register* API (and, for real lints, fills from direct calls of the lint's own
   methods).  Definitions only; used by the generated correspondence files. *)
From ZL Require Import Base.Bytes Base.Sort Framework.Core Framework.Registry.
Open Scope Z_scope.

(* the abstract object: what the framework itself looks at *)
Record sobj := mkObj { o_server_auth : bool; o_email : bool; o_cs : bool;
                       o_not_before : Z; o_this_update : Z; o_next_update : Z }.

Definition sdate (k : kind) (o : sobj) : Z :=
  match k with KCert => o_not_before o | KCrl => o_this_update o | KOcsp => o_next_update o end.

Inductive s_new := NewOk | NewPanic (e : bytes).
Inductive s_cfg := CfgNone | CfgOk | CfgErr (e : bytes) | CfgPanic (e : bytes).
Inductive s_app := AppTrue | AppFalse | AppPanic (e : bytes).
Inductive s_exe := ExeRes (s : Z) (d : bytes) | ExeNil | ExePanic (e : bytes).

Record script := mkScript { sc_meta : meta; sc_new : s_new; sc_cfg : s_cfg; sc_app : s_app; sc_exe : s_exe }.

Definition sbody (s : script) : body sobj unit unit :=
  mkBody (match sc_cfg s with CfgNone => false | _ => true end)
         (match sc_new s with NewOk => Ret tt | NewPanic e => Panic e end)
         (fun _ _ _ => match sc_cfg s with
                       | CfgNone | CfgOk => Ret (inl tt)
                       | CfgErr e => Ret (inr e)
                       | CfgPanic e => Panic e end)
         (fun _ _ => match sc_app s with AppTrue => Ret true | AppFalse => Ret false | AppPanic e => Panic e end)
         (fun _ _ => match sc_exe s with
                     | ExeRes st d => Ret (Some (mkResult st d))
                     | ExeNil => Ret None
                     | ExePanic e => Panic e end).

Definition slint (s : script) : lint sobj unit unit := mkLint (sc_meta s) (sbody s).

Definition srun (k : kind) (s : script) (o : sobj) :=
  run sobj unit unit o_server_auth o_email o_cs sdate k (slint s) tt o.

Definition slint_all (k : kind) (ss : list script) (o : sobj) :=
  lint_all sobj unit unit o_server_auth o_email o_cs sdate k (map slint ss) tt o.

(* ---- observable projections compared with the implementation ---- *)

(* one lint run: 0 = returned result, 1 = nil, 2 = panic escaping *)
Inductive obs := ObsRes (s : Z) (d : bytes) | ObsNil | ObsPanic (e : bytes).

Definition obs_of (r : outcome (option result)) : obs :=
  match r with
  | Ret (Some x) => ObsRes (r_status x) (r_details x)
  | Ret None => ObsNil
  | Panic e => ObsPanic e
  end.

Definition ev_code (e : event) : N := match e with EvNew => 0 | EvConfigure => 1 | EvApplies => 2 | EvExecute => 3 end%N.

Definition obs_eqb (a b : obs) : bool :=
  match a, b with
  | ObsRes s d, ObsRes s' d' => (s =? s') && beqb d d'
  | ObsNil, ObsNil => true
  | ObsPanic e, ObsPanic e' => beqb e e'
  | _, _ => false
  end.

Fixpoint nlist_eqb (a b : list N) : bool :=
  match a, b with
  | [], [] => true
  | x :: a', y :: b' => N.eqb x y && nlist_eqb a' b'
  | _, _ => false
  end.

(* a single-run case: kind, script, object, observed result, observed call log *)
Definition run_case := (kind * script * sobj * obs * list N)%type.

Definition check_run (c : run_case) : bool :=
  match c with
  | (k, s, o, ob, lg) =>
    let (r, log) := srun k s o in
    obs_eqb (obs_of r) ob && nlist_eqb (map ev_code log) lg
  end.

(* a whole-registry case: kind, scripts in registration order, object, observed result set *)
Inductive rs_obs :=
| RsPanic (e : bytes)
| RsOk (results : list (bytes * (Z * bytes * bytes))) (* name -> status, details, metadata name *)
       (n w e f : bool) (version : Z).

Fixpoint sort_results (l : list (bytes * (Z * bytes * bytes))) : list (bytes * (Z * bytes * bytes)) :=
  match l with
  | [] => []
  | x :: r =>
    (fix ins (y : bytes * (Z * bytes * bytes)) (s : list (bytes * (Z * bytes * bytes))) :=
       match s with
       | [] => [y]
       | z :: t => if bleb (fst y) (fst z) then y :: s else z :: ins y t
       end) x (sort_results r)
  end.

Definition res_eqb (a b : bytes * (Z * bytes * bytes)) : bool :=
  match a, b with
  | (n, (s, d, mn)), (n', (s', d', mn')) => beqb n n' && (s =? s') && beqb d d' && beqb mn mn'
  end.

Fixpoint list_eqb {A} (f : A -> A -> bool) (a b : list A) : bool :=
  match a, b with
  | [], [] => true
  | x :: a', y :: b' => f x y && list_eqb f a' b'
  | _, _ => false
  end.

Definition rs_project (r : outcome resultset) : rs_obs :=
  match r with
  | Panic e => RsPanic e
  | Ret rs => RsOk (map (fun p => (fst p, (r_status (fst (snd p)), r_details (fst (snd p)), m_name (snd (snd p))))) (rs_results rs))
                   (rs_notices rs) (rs_warnings rs) (rs_errors rs) (rs_fatals rs) (rs_version rs)
  end.

Definition rs_obs_eqb (a b : rs_obs) : bool :=
  match a, b with
  | RsPanic _, RsPanic _ => true     (* panic texts of the runtime are not compared *)
  | RsOk r n w e f v, RsOk r' n' w' e' f' v' =>
      list_eqb res_eqb (sort_results r) (sort_results r') && Bool.eqb n n' && Bool.eqb w w' &&
      Bool.eqb e e' && Bool.eqb f f' && (v =? v')
  | _, _ => false
  end.

Definition all_case := (kind * list script * sobj * rs_obs)%type.

Definition check_all (c : all_case) : bool :=
  match c with (k, ss, o, ob) => rs_obs_eqb (rs_project (slint_all k ss o)) ob end.

(* a real lint abstracted by direct calls: only the result is observable *)
Definition real_case := (kind * script * sobj * obs)%type.
Definition check_real (c : real_case) : bool :=
  match c with (k, s, o, ob) => obs_eqb (obs_of (fst (srun k s o))) ob end.

Definition window_case := (Z * Z * Z * bool)%type.
Definition check_window (c : window_case) : bool :=
  match c with (e, i, t, b) => Bool.eqb (check_effective e i t) b end.

(* ---- registries of scripted lints, filter observations ---- *)
Definition sregistry := registry sobj unit unit.

Definition plain_lint (n s : bytes) : lint sobj unit unit :=
  slint (mkScript (mkMeta n [] [] s 0 0) NewOk CfgNone AppTrue (ExeRes 3 [])).

Definition reg_of (entries : list (kind * bytes * bytes)) : sregistry :=
  fold_left (register_op sobj unit unit)
            (map (fun e => match e with (k, n, s) => (k, Some (Some (plain_lint n s))) end) entries)
            (new_registry sobj unit unit tt).

Inductive fobs :=
| FSame                                              (* the receiver itself *)
| FOk (cert ocsp crl : list bytes) (srcs : list bytes) (* names per kind in execution order; source set, sorted *)
| FUnknown (n : bytes)
| FExcl
| FOther.

Definition fproject (x : option sregistry + filter_error) : fobs :=
  match x with
  | inl None => FSame
  | inl (Some r) => FOk (map name_of (lints_of _ _ _ KCert r)) (map name_of (lints_of _ _ _ KOcsp r))
                        (map name_of (lints_of _ _ _ KCrl r)) (isort (sources _ _ _ r))
  | inr (FUnknownName n) => FUnknown n
  | inr FExclusive => FExcl
  | inr _ => FOther
  end.

Definition blist_eqb := list_eqb beqb.

Definition fobs_eqb (a b : fobs) : bool :=
  match a, b with
  | FSame, FSame | FExcl, FExcl | FOther, FOther => true
  | FUnknown n, FUnknown n' => beqb n n'
  | FOk a1 a2 a3 a4, FOk b1 b2 b3 b4 => blist_eqb a1 b1 && blist_eqb a2 b2 && blist_eqb a3 b3 && blist_eqb a4 b4
  | _, _ => false
  end.

Definition filter_case := (filter_opts * fobs)%type.
Definition check_filter (r : sregistry) (c : filter_case) : bool :=
  fobs_eqb (fproject (filter_registry _ _ _ r (fst c))) (snd c).

(* registration histories: ops and the observed tables after them *)
Inductive rop := RLint (k : kind) (n s : bytes) | RNil (k : kind) | RNilPtr (k : kind).
Definition rop_op (o : rop) : kind * option (option (lint sobj unit unit)) :=
  match o with
  | RLint k n s => (k, Some (Some (plain_lint n s)))
  | RNil k => (k, None)
  | RNilPtr k => (k, Some None)
  end.

(* error codes: 0 ok, 1 nil lint, 2 nil ptr, 3 empty name, 4 duplicate *)
Definition reg_code (x : sregistry + reg_error) : N :=
  match x with inl _ => 0 | inr ErrNilLint => 1 | inr ErrNilLintPtr => 2 | inr ErrEmptyName => 3 | inr (ErrDuplicate _) => 4 end%N.

Fixpoint run_rops (r : sregistry) (ops : list rop) : sregistry * list N :=
  match ops with
  | [] => (r, [])
  | o :: rest =>
    let (k, l) := rop_op o in
    let x := register _ _ _ k r l in
    let r' := match x with inl r' => r' | inr _ => r end in
    let (rf, codes) := run_rops r' rest in (rf, reg_code x :: codes)
  end.

(* observed: error codes, and per kind (cert, ocsp, crl): order, sorted names, Names(), sources *)
Definition tables_obs := (list bytes * list bytes * list bytes)%type.   (* order, lintNames, sources(sorted) *)
Definition table_of (k : kind) (r : sregistry) : tables_obs :=
  (map name_of (lints_of _ _ _ k r), lk_names (tbl _ _ _ k r), isort (lk_sources (tbl _ _ _ k r))).
Definition tables_eqb (a b : tables_obs) : bool :=
  match a, b with (a1, a2, a3), (b1, b2, b3) => blist_eqb a1 b1 && blist_eqb a2 b2 && blist_eqb a3 b3 end.

Definition hist_case := (list rop * (list N * tables_obs * tables_obs * tables_obs * list bytes))%type.
Definition check_hist (c : hist_case) : bool :=
  match c with
  | (ops, (codes, tc, to, tl, nms)) =>
    let (r, cs) := run_rops (new_registry _ _ _ tt) ops in
    nlist_eqb cs codes && tables_eqb (table_of KCert r) tc && tables_eqb (table_of KOcsp r) to &&
    tables_eqb (table_of KCrl r) tl && blist_eqb (names _ _ _ r) nms
  end.

(* ---- filtered runs of scripted registries (C07) ---- *)
Definition sreg_of_scripts (k : kind) (ss : list script) : sregistry :=
  fold_left (register_op sobj unit unit) (map (fun s => (k, Some (Some (slint s)))) ss) (new_registry sobj unit unit tt).

Definition filtered_case := (kind * list script * filter_opts * sobj * rs_obs)%type.
Definition check_filtered (c : filtered_case) : bool :=
  match c with
  | (k, ss, fo, o, ob) =>
    match filter_registry _ _ _ (sreg_of_scripts k ss) fo with
    | inl (Some r') =>
      rs_obs_eqb (rs_project (lint_all sobj unit unit o_server_auth o_email o_cs sdate k (lints_of _ _ _ k r') tt o)) ob
    | inl None => rs_obs_eqb (rs_project (slint_all k ss o)) ob
    | inr _ => false
    end
  end.
