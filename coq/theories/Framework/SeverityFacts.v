(* C06: severity matches the lint's name. *)
From ZL Require Import Base.Bytes Base.BytesFacts Framework.Core Framework.LifecycleFacts Framework.DataChecks.
From Coq Require Import Lia.
Open Scope Z_scope.

(* what a name's prefix permits *)
Definition allowed (name : bytes) (s : Z) : bool :=
  match name with
  | c :: u :: _ =>
    (u =? 95)%N &&
    (if (c =? 101)%N then negb ((s =? Warn) || (s =? Notice))          (* e_ : never warn / info *)
     else if (c =? 119)%N then negb ((s =? Error) || (s =? Notice))    (* w_ : never error / info *)
     else if (c =? 110)%N then negb ((s =? Warn) || (s =? Error))      (* n_ : never warn / error *)
     else false)
  | _ => false
  end.

Definition pair_eqb (a b : bytes * Z) : bool := beqb (fst a) (fst b) && (snd a =? snd b).
Definition in_known (p : bytes * Z) (known : list (bytes * Z)) : bool := existsb (pair_eqb p) known.

(* the static obligation over the regenerated facts: every status constant that can flow into a result of lint n
   is permitted by n's prefix, or is a listed known finding *)
Definition static_ok (facts : list (bytes * list Z)) (known : list (bytes * Z)) : bool :=
  forallb (fun f => forallb (fun s => allowed (fst f) s || in_known (fst f, s) known) (snd f)) facts.

Lemma allowed_framework name : prefix_ok name = true -> allowed name NA = true /\ allowed name NE = true /\ allowed name Fatal = true /\ allowed name Pass = true.
Proof.
  unfold prefix_ok, allowed. destruct name as [|c [|u [|x r]]]; try discriminate.
  intro H. apply andb_true_iff in H as [U C]. rewrite U. cbn [andb].
  destruct (c =? 101)%N; [repeat split; reflexivity|].
  destruct (c =? 119)%N; [repeat split; reflexivity|].
  destruct (c =? 110)%N; [repeat split; reflexivity|]. discriminate.
Qed.

Section Severity.
  Variables obj inst cfg : Type.
  Variables sa em cs : obj -> bool.
  Variable date_of : kind -> obj -> Z.
  Notation run := (run obj inst cfg sa em cs date_of).

  (* meta-theorem: if every status the body can return lies in a set all of whose members the name permits, then no
     result of the lint - through any entry point, configuration or object - violates the naming contract *)
  Theorem severity_meta k (l : lint obj inst cfg) c o r (may : list Z) :
    prefix_ok (m_name (l_meta l)) = true ->
    (forall i r', b_exec (l_body l) i o = Ret (Some r') -> In (r_status r') may) ->
    (forall s, In s may -> allowed (m_name (l_meta l)) s = true) ->
    fst (run k l c o) = Ret (Some r) -> allowed (m_name (l_meta l)) (r_status r) = true.
  Proof.
    intros P B A H. destruct (allowed_framework _ P) as [A1 [A2 [A3 _]]].
    destruct (status_origin obj inst cfg sa em cs date_of k l c o r H) as [S|[S|[S|[i [_ E]]]]]; try (rewrite S; assumption).
    apply A. eapply B. exact E.
  Qed.
End Severity.

(* from the static obligation: every listed status of every listed lint is permitted or a known finding *)
Theorem static_ok_spec facts known name sts s :
  static_ok facts known = true -> In (name, sts) facts -> In s sts ->
  allowed name s = true \/ in_known (name, s) known = true.
Proof.
  unfold static_ok. rewrite forallb_forall. intros H I J. specialize (H _ I). simpl in H.
  rewrite forallb_forall in H. specialize (H _ J). apply orb_true_iff in H. exact H.
Qed.
