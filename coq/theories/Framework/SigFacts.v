(* C09: verdicts do not depend on the signature value.
   A parsed certificate is its to-be-signed content, the signature bytes and the one parser-computed field that
   depends on them: SelfSigned (set by the parser only when issuer = subject and the signature verifies). *)
From ZL Require Import Base.Bytes Base.BytesFacts Framework.Core Framework.LifecycleFacts.
Open Scope Z_scope.

Section Sig.
  Variable tbs : Type.                       (* everything that is signed, plus the outer algorithm identifier *)
  Variable self_issued : tbs -> bool.        (* RawSubject = RawIssuer *)
  Variable verifies : tbs -> bytes -> bool.  (* the signature verifies under the certificate's own key *)

  Record pcert := mkCert { c_tbs : tbs; c_sig : bytes; c_self_signed : bool }.

  (* the parser *)
  Definition parse (t : tbs) (sg : bytes) : pcert := mkCert t sg (self_issued t && verifies t sg).

  (* what a signature-blind observer sees: the content, the signature's length, the SelfSigned flag *)
  Definition erased (c : pcert) : tbs * nat * bool := (c_tbs c, length (c_sig c), c_self_signed c).

  Variables inst cfg : Type.
  Variables sa em cs : pcert -> bool.
  Variable date_of : kind -> pcert -> Z.
  Notation lint := (lint pcert inst cfg).

  (* a body that factors through the erased view *)
  Definition sig_blind (l : lint) : Prop :=
    forall c c', erased c = erased c' ->
      (forall i, b_applies (l_body l) i c = b_applies (l_body l) i c') /\
      (forall i, b_exec (l_body l) i c = b_exec (l_body l) i c').

  (* the framework's own reads (scope predicates, notBefore) are part of the signed content *)
  Definition framework_blind : Prop :=
    forall c c', erased c = erased c' -> sa c = sa c' /\ em c = em c' /\ cs c = cs c' /\ date_of KCert c = date_of KCert c'.

  Lemma run_blind (l : lint) c0 c c' :
    framework_blind -> sig_blind l -> erased c = erased c' ->
    run pcert inst cfg sa em cs date_of KCert l c0 c = run pcert inst cfg sa em cs date_of KCert l c0 c'.
  Proof.
    intros F B E. destruct (F c c' E) as [F1 [F2 [F3 F4]]]. destruct (B c c' E) as [B1 B2].
    simpl. unfold run_cert, in_scope. rewrite F1, F2, F3.
    assert (R : run_body pcert inst cfg date_of KCert l c0 c = run_body pcert inst cfg date_of KCert l c0 c').
    { unfold run_body. destruct (b_new (l_body l)) as [i|e]; [|reflexivity].
      destruct (b_configurable (l_body l)).
      - destruct (b_configure (l_body l) c0 (m_name (l_meta l)) i) as [[i'|err]|e]; try reflexivity.
        rewrite B1, F4, B2. reflexivity.
      - rewrite B1, F4, B2. reflexivity. }
    rewrite R. reflexivity.
  Qed.

  Theorem lint_all_blind (ls : list lint) c0 c c' :
    framework_blind -> (forall l, In l ls -> sig_blind l) -> erased c = erased c' ->
    lint_all pcert inst cfg sa em cs date_of KCert ls c0 c = lint_all pcert inst cfg sa em cs date_of KCert ls c0 c'.
  Proof.
    intros F B E. unfold lint_all.
    assert (X : forall rs, exec_all pcert inst cfg sa em cs date_of KCert ls c0 c rs = exec_all pcert inst cfg sa em cs date_of KCert ls c0 c' rs).
    { induction ls as [|l ls IH]; intro rs; [reflexivity|].
      cbn [exec_all]. rewrite (run_blind l c0 c c' F (B l (or_introl eq_refl)) E).
      destruct (fst (run pcert inst cfg sa em cs date_of KCert l c0 c')) as [[x|]|e]; try reflexivity.
      apply IH. intros l0 H0. apply B. right. exact H0. }
    rewrite X. reflexivity.
  Qed.

  (* the parser's side: a certificate that is not self-issued has SelfSigned = false whatever the signature *)
  Lemma not_self_issued_erased t sg sg' :
    self_issued t = false -> length sg = length sg' -> erased (parse t sg) = erased (parse t sg').
  Proof. intros H L. unfold erased, parse. simpl. rewrite H, L. reflexivity. Qed.

  (* C09 *)
  Theorem signature_independent (ls : list lint) c0 t sg sg' :
    framework_blind -> (forall l, In l ls -> sig_blind l) ->
    self_issued t = false -> length sg = length sg' ->
    lint_all pcert inst cfg sa em cs date_of KCert ls c0 (parse t sg) =
    lint_all pcert inst cfg sa em cs date_of KCert ls c0 (parse t sg').
  Proof. intros F B H L. apply lint_all_blind; auto. apply not_self_issued_erased; auto. Qed.

  (* and why the precondition is there: for a self-issued certificate the flag does depend on the signature *)
  Theorem self_issued_flag_depends t sg sg' :
    self_issued t = true -> verifies t sg = true -> verifies t sg' = false ->
    c_self_signed (parse t sg) <> c_self_signed (parse t sg').
  Proof. intros H V V'. unfold parse. simpl. rewrite H, V, V'. discriminate. Qed.
End Sig.
