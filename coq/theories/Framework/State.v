(* C05 (and the state half of C07/C10): lint calls with explicit hidden state.
   A call may read and write a global store and the linted object; the frame condition says it does neither
   observably.  History independence and read-onlyness follow for every sequence of earlier calls. *)
From Coq Require Import List.
Import ListNotations.

Section State.
  Variables call obj G res : Type.
  (* one top-level lint call: result, the object afterwards, the global store afterwards *)
  Variable exec : call -> obj -> G -> res * obj * G.

  Definition frame (c : call) : Prop :=
    forall o g, snd (fst (exec c o g)) = o /\ snd (exec c o g) = g /\ forall g2, fst (fst (exec c o g2)) = fst (fst (exec c o g)).

  (* running a history of earlier calls (each on its own object) *)
  Fixpoint run_history (h : list (call * obj)) (g : G) : G :=
    match h with
    | [] => g
    | (c, o) :: r => run_history r (snd (exec c o g))
    end.

  Lemma history_keeps_store h g : (forall c, frame c) -> run_history h g = g.
  Proof.
    intro F. revert g. induction h as [|[c o] h IH]; intro g; simpl; auto.
    destruct (F c o g) as [_ [E _]]. rewrite E. apply IH.
  Qed.

  (* the result of a call does not depend on what was linted before, and the object comes back unchanged *)
  Theorem history_independent :
    (forall c, frame c) ->
    forall (h : list (call * obj)) c o g0,
      fst (fst (exec c o (run_history h g0))) = fst (fst (exec c o g0)) /\
      snd (fst (exec c o (run_history h g0))) = o.
  Proof.
    intros F h c o g0. rewrite (history_keeps_store h g0 F).
    split; [reflexivity | apply (F c o g0)].
  Qed.

  (* repetition: the n-th repetition gives what the first gave *)
  Theorem repeat_same :
    (forall c, frame c) -> forall c o g0 n,
      fst (fst (exec c o (run_history (repeat (c, o) n) g0))) = fst (fst (exec c o g0)).
  Proof. intros F c o g0 n. apply history_independent. exact F. Qed.

  (* conversely, a call that leaves something behind can be observed by a later call: the frame condition is
     what has to be established about the code *)
  Definition leaks (c : call) : Prop := exists o g, snd (exec c o g) <> g.
End State.
