(* C02 / C17 / C19: the two reverse-DNS lints of v3/lints/cabf_br (w_subject_contains_malformed_arpa_ip,
   e_subject_contains_reserved_arpa_ip), modelled in full with the label indexing of reversedLabelsToIPv6 explicit
   (labels[i], labels[i-1], labels[i-2], labels[i-3] for i = 31, 27, ..., 3).  net.ParseIP is an oracle: for each name
   the harness supplies what the assembled text parses to (nothing, an IPv4 value - also for an IPv4-mapped text - or an
   IPv6 value); the reserved-address test is the model of C19 (Kernels.Ip) over the table of the build.
   Statuses: 1 NA, 3 pass, 5 warn, 6 error. *)
From ZL Require Import Base.Bytes Base.BytesFacts Kernels.Utf8 Kernels.Tld Kernels.Names Kernels.Bodies Kernels.Ip.
From Coq Require Import ZArith List Bool Lia Sorting.Permutation.
Import ListNotations.
Open Scope Z_scope.

Definition v4_suffix : bytes := s2b ".in-addr.arpa".
Definition v6_suffix : bytes := s2b ".ip6.arpa".

(* labels[i] *)
Definition lat (l : list bytes) (i : Z) : out bytes :=
  if (0 <=? i) && (i <? Z.of_nat (length l)) then Val (nth (Z.to_nat i) l []) else OOR.

(* one colon-separated group: four nibble labels, most significant first *)
Definition group (labels : list bytes) (i : Z) : out bytes :=
  bind (lat labels i) (fun a => bind (lat labels (i - 1)) (fun b => bind (lat labels (i - 2)) (fun c => bind (lat labels (i - 3)) (fun d =>
    Val (a ++ b ++ c ++ d))))).

(* groups for i = 4k-1, 4k-5, ..., 3 *)
Fixpoint groups (labels : list bytes) (k : nat) : out (list bytes) :=
  match k with
  | O => Val []
  | S k' => bind (group labels (4 * Z.of_nat k' + 3)) (fun g => bind (groups labels k') (fun r => Val (g :: r)))
  end.

Fixpoint join_colon (l : list bytes) : bytes :=
  match l with [] => [] | [x] => x | x :: r => x ++ 58%N :: join_colon r end.

Fixpoint join_dots (l : list bytes) : bytes :=
  match l with [] => [] | [x] => x | x :: r => x ++ 46%N :: join_dots r end.

(* reversedLabelsToIPv6 / reversedLabelsToIPv4: None = "not the right number of labels" (the Go functions return nil) *)
Definition assemble_v6 (labels : list bytes) : out (option bytes) :=
  if negb (Z.of_nat (length labels) =? 32) then Val None
  else bind (groups labels 8) (fun gs => Val (Some (join_colon gs))).

Definition assemble_v4 (labels : list bytes) : option bytes :=
  if negb (Z.of_nat (length labels) =? 4) then None else Some (join_dots (rev labels)).

(* what the oracle says the assembled text parses to *)
Inductive pres := PNone | P4 (v : N) | P6 (v : N).

Inductive zone := ZNone | Z4 | Z6.
Definition zone_of (lower_name : bytes) : zone :=
  if has_suffix v4_suffix lower_name then Z4 else if has_suffix v6_suffix lower_name then Z6 else ZNone.

Definition strip (suffix name : bytes) : bytes := firstn (length name - length suffix) name.

Definition labels_of (z : zone) (lower_name : bytes) : list bytes :=
  match z with
  | Z4 => split_dot (strip v4_suffix lower_name)
  | Z6 => split_dot (strip v6_suffix lower_name)
  | ZNone => []
  end.

Definition required (z : zone) : Z := match z with Z4 => 4 | Z6 => 32 | ZNone => 0 end.

(* per name: does the malformed lint complain / does the reserved lint complain *)
Definition malformed_name (name : bytes) (p : pres) : bool :=
  let n := go_lower name in
  match zone_of n with
  | ZNone => false
  | z => if negb (Z.of_nat (length (labels_of z n)) =? required z) then true
         else match p with PNone => true | _ => false end
  end.

Definition reserved_name (tbl : list net) (name : bytes) (p : pres) : bool :=
  let n := go_lower name in
  match zone_of n with
  | ZNone => false
  | z => if negb (Z.of_nat (length (labels_of z n)) =? required z) then false
         else match p, z with
              | PNone, _ => false
              | P6 _, Z4 => true
              | P4 _, Z6 => true
              | P4 v, _ => is_reserved tbl (mkAddr V4 v)
              | P6 v, _ => is_reserved tbl (mkAddr V6 v)
              end
  end.

Definition in_zone (name : bytes) : bool := match zone_of (go_lower name) with ZNone => false | _ => true end.

Definition applies (cn : bytes) (dns : list bytes) : bool := existsb in_zone (cn :: dns).

(* the two lints over the dNSNames (each with its oracle answer) *)
Definition l_malformed (cn : bytes) (names : list (bytes * pres)) : Z :=
  if negb (applies cn (map fst names)) then 1
  else if existsb (fun np => malformed_name (fst np) (snd np)) names then 5 else 3.

Definition l_reserved (tbl : list net) (cn : bytes) (names : list (bytes * pres)) : Z :=
  if negb (applies cn (map fst names)) then 1
  else if existsb (fun np => reserved_name tbl (fst np) (snd np)) names then 6 else 3.

(* ---------------- facts ---------------- *)

Lemma lat_in l i : 0 <= i < Z.of_nat (length l) -> exists x, lat l i = Val x.
Proof.
  intro H. unfold lat. assert (E : (0 <=? i) && (i <? Z.of_nat (length l)) = true).
  { apply andb_true_iff. split; [apply Z.leb_le | apply Z.ltb_lt]; lia. }
  rewrite E. eexists. reflexivity.
Qed.

Lemma group_in l i : 3 <= i < Z.of_nat (length l) -> exists x, group l i = Val x.
Proof.
  intro H. unfold group.
  destruct (lat_in l i) as [a A]; [lia|]. destruct (lat_in l (i - 1)) as [b B]; [lia|].
  destruct (lat_in l (i - 2)) as [c C]; [lia|]. destruct (lat_in l (i - 3)) as [d D]; [lia|].
  rewrite A, B, C, D. cbn [bind]. eexists. reflexivity.
Qed.

Lemma groups_in l k : 4 * Z.of_nat k <= Z.of_nat (length l) -> exists gs, groups l k = Val gs /\ length gs = k.
Proof.
  induction k as [|k IH]; intro H; cbn [groups].
  - exists []. split; reflexivity.
  - destruct (group_in l (4 * Z.of_nat k + 3)) as [g G]; [lia|].
    destruct IH as [r [R L]]; [lia|]. rewrite G, R. cbn [bind]. exists (g :: r). split; [reflexivity | cbn; congruence].
Qed.

(* the indexing of reversedLabelsToIPv6 never leaves the label list, whatever the labels are *)
Theorem assemble_v6_safe labels : assemble_v6 labels <> OOR.
Proof.
  unfold assemble_v6. destruct (Z.of_nat (length labels) =? 32) eqn:E; cbn [negb]; [|discriminate].
  apply Z.eqb_eq in E. destruct (groups_in labels 8) as [gs [G _]]; [cbn; lia|].
  rewrite G. cbn [bind]. discriminate.
Qed.

(* ... and without the length test it would: 31 labels *)
Example assemble_v6_guard_needed : groups (repeat [] 31) 8 = OOR.
Proof. vm_compute. reflexivity. Qed.

Lemma existsb_perm_a {A} (f : A -> bool) l l' : Permutation l l' -> existsb f l = existsb f l'.
Proof.
  induction 1 as [|x l l' P IH|x y l|l l' l'' P1 IH1 P2 IH2]; cbn [existsb]; auto.
  - rewrite IH. reflexivity.
  - destruct (f x), (f y); reflexivity.
  - congruence.
Qed.

(* neither verdict depends on the order of the dNSNames *)
Theorem arpa_lints_perm tbl cn names names' : Permutation names names' ->
  l_malformed cn names = l_malformed cn names' /\ l_reserved tbl cn names = l_reserved tbl cn names'.
Proof.
  intro P. unfold l_malformed, l_reserved, applies. cbn [existsb].
  rewrite (existsb_perm_a in_zone _ _ (Permutation_map fst P)).
  rewrite (existsb_perm_a _ _ _ P).
  rewrite (existsb_perm_a (fun np => reserved_name tbl (fst np) (snd np)) _ _ P). split; reflexivity.
Qed.

(* a name the malformed lint accepts and the reserved lint rejects names a reserved address of the zone's family *)
Theorem reserved_means_reserved tbl name p :
  reserved_name tbl name p = true -> malformed_name name p = false.
Proof.
  unfold reserved_name, malformed_name. destruct (zone_of (go_lower name)); [discriminate| |];
    destruct (negb _); try discriminate; destruct p; try discriminate; reflexivity.
Qed.

Example arpa_example :
  let tbl := [mkNet V4 (10 * 2 ^ 24) 8] in
  l_malformed [] [(s2b "1.0.0.10.in-addr.arpa", P4 (10 * 2 ^ 24 + 1)); (s2b "www.example.com", PNone)] = 3 /\
  l_reserved tbl [] [(s2b "1.0.0.10.in-addr.arpa", P4 (10 * 2 ^ 24 + 1))] = 6 /\
  l_malformed [] [(s2b "0.10.IN-ADDR.ARPA", PNone)] = 5 /\
  l_reserved tbl [] [(s2b "www.example.com", PNone)] = 1 /\
  assemble_v4 [s2b "1"; s2b "0"; s2b "0"; s2b "10"] = Some (s2b "10.0.0.1").
Proof. vm_compute. repeat split. Qed.
