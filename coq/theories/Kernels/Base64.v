(* Standard base64 (RFC 4648, Go's encoding/base64 StdEncoding) over byte strings as lists of N.
   DecodeString ignores '\r' and '\n' and is otherwise strict (alphabet, padding, group structure). *)
From Coq Require Import NArith List Bool Lia.
From Coq Require Import ZArith ZifyN ZifyBool.
Ltac Zify.zify_post_hook ::= Z.div_mod_to_equations.
Import ListNotations.
Open Scope N_scope.

Definition bytes := list N.

(* 6-bit value -> alphabet character *)
Definition b64_char (v : N) : N :=
  if v <? 26 then 65 + v            (* A-Z *)
  else if v <? 52 then 97 + (v - 26) (* a-z *)
  else if v <? 62 then 48 + (v - 52) (* 0-9 *)
  else if v =? 62 then 43            (* + *)
  else 47.                           (* / *)

Definition b64_val (c : N) : option N :=
  if (65 <=? c) && (c <=? 90) then Some (c - 65)
  else if (97 <=? c) && (c <=? 122) then Some (c - 97 + 26)
  else if (48 <=? c) && (c <=? 57) then Some (c - 48 + 52)
  else if c =? 43 then Some 62
  else if c =? 47 then Some 63
  else None.

Fixpoint b64_encode (bs : bytes) : bytes :=
  match bs with
  | [] => []
  | [a] => [b64_char (a / 4); b64_char ((a mod 4) * 16); 61; 61]
  | [a; b] => [b64_char (a / 4); b64_char ((a mod 4) * 16 + b / 16); b64_char ((b mod 16) * 4); 61]
  | a :: b :: c :: r =>
      b64_char (a / 4) :: b64_char ((a mod 4) * 16 + b / 16) :: b64_char ((b mod 16) * 4 + c / 64) :: b64_char (c mod 64)
      :: b64_encode r
  end.

(* strict decoding of a string without line breaks; `fuel` bounds the number of groups *)
Fixpoint b64_decode_groups (fuel : nat) (cs : bytes) : option bytes :=
  match fuel with
  | O => match cs with [] => Some [] | _ => None end
  | S f =>
    match cs with
    | [] => Some []
    | [c1; c2; 61; 61] =>
        match b64_val c1, b64_val c2 with
        | Some v1, Some v2 => if v2 mod 16 =? 0 then Some [v1 * 4 + v2 / 16] else None
        | _, _ => None
        end
    | [c1; c2; c3; 61] =>
        match b64_val c1, b64_val c2, b64_val c3 with
        | Some v1, Some v2, Some v3 =>
            if v3 mod 4 =? 0 then Some [v1 * 4 + v2 / 16; (v2 mod 16) * 16 + v3 / 4] else None
        | _, _, _ => None
        end
    | c1 :: c2 :: c3 :: c4 :: r =>
        match b64_val c1, b64_val c2, b64_val c3, b64_val c4 with
        | Some v1, Some v2, Some v3, Some v4 =>
            match b64_decode_groups f r with
            | Some t => Some ((v1 * 4 + v2 / 16) :: ((v2 mod 16) * 16 + v3 / 4) :: ((v3 mod 4) * 64 + v4) :: t)
            | None => None
            end
        | _, _, _, _ => None
        end
    | _ => None
    end
  end.

Definition strip_newlines (cs : bytes) : bytes := filter (fun c => negb ((c =? 10) || (c =? 13))) cs.

(* base64.StdEncoding.DecodeString *)
Definition b64_decode (cs : bytes) : option bytes :=
  let s := strip_newlines cs in b64_decode_groups (length s) s.

(* line wrapping as PEM armour does: a '\n' after every 64 characters (and after a final partial line) *)
Fixpoint wrap_lines (fuel : nat) (cs : bytes) : bytes :=
  match fuel with
  | O => []
  | S f => match cs with
           | [] => []
           | _ => firstn 64 cs ++ 10 :: wrap_lines f (skipn 64 cs)
           end
  end.
Definition wrap64 (cs : bytes) : bytes := wrap_lines (length cs) cs.

Definition is_bytes (bs : bytes) : Prop := Forall (fun b => b < 256) bs.

(* ================= theorems to prove ================= *)

Arguments N.div : simpl never.
Arguments N.modulo : simpl never.
Arguments N.mul : simpl never.
Arguments N.add : simpl never.
Arguments N.sub : simpl never.
Arguments N.ltb : simpl never.
Arguments N.leb : simpl never.
Arguments N.eqb : simpl never.

Theorem b64_val_char : forall v, v < 64 -> b64_val (b64_char v) = Some v.
Proof.
  intros v Hv. unfold b64_char.
  destruct (N.ltb_spec v 26) as [H1|H1];
  [|destruct (N.ltb_spec v 52) as [H2|H2];
  [|destruct (N.ltb_spec v 62) as [H3|H3];
  [|destruct (N.eqb_spec v 62) as [H4|H4]]]];
  unfold b64_val;
  repeat match goal with
  | |- context [N.leb ?a ?b] => destruct (N.leb_spec a b)
  | |- context [N.eqb ?a ?b] => destruct (N.eqb_spec a b)
  end; cbn [andb]; try (f_equal; lia); try lia.
Qed.

Lemma b64_char_ne : forall v, v < 64 -> b64_char v <> 10 /\ b64_char v <> 13 /\ b64_char v <> 61.
Proof.
  intros v Hv. unfold b64_char.
  destruct (N.ltb_spec v 26) as [H1|H1];
  [|destruct (N.ltb_spec v 52) as [H2|H2];
  [|destruct (N.ltb_spec v 62) as [H3|H3];
  [|destruct (N.eqb_spec v 62) as [H4|H4]]]]; lia.
Qed.

Definition nl_free (c : N) : Prop := c <> 10 /\ c <> 13.

Lemma nl_free_strip : forall cs, Forall nl_free cs -> strip_newlines cs = cs.
Proof.
  intros cs H. induction H as [|c cs [Hc1 Hc2] Hcs IH].
  - reflexivity.
  - unfold strip_newlines in *. cbn [filter].
    destruct (N.eqb_spec c 10) as [E|E]; [contradiction|].
    destruct (N.eqb_spec c 13) as [E'|E']; [contradiction|].
    cbn [orb negb]. now rewrite IH.
Qed.

Lemma strip_nl_free : forall cs, strip_newlines cs = cs -> Forall nl_free cs.
Proof.
  intros cs H. apply Forall_forall. intros c Hc.
  rewrite <- H in Hc. unfold strip_newlines in Hc.
  apply filter_In in Hc. destruct Hc as [_ Hc].
  unfold nl_free.
  destruct (N.eqb_spec c 10) as [E|E]; [discriminate|].
  destruct (N.eqb_spec c 13) as [E'|E']; [discriminate|].
  split; assumption.
Qed.

Lemma list_ind3 : forall (P : list N -> Prop),
  P [] -> (forall a, P [a]) -> (forall a b, P [a; b]) ->
  (forall a b c r, P r -> P (a :: b :: c :: r)) -> forall l, P l.
Proof.
  intros P H0 H1 H2 H3.
  fix IH 1. intros [|a [|b [|c r]]].
  - exact H0.
  - apply H1.
  - apply H2.
  - apply H3. apply IH.
Qed.

Lemma nl_free_char : forall v, v < 64 -> nl_free (b64_char v).
Proof. intros v Hv. destruct (b64_char_ne v Hv) as (A & B & _). split; assumption. Qed.

Lemma nl_free_61 : nl_free 61.
Proof. split; lia. Qed.

Lemma is_bytes_cons : forall a r, is_bytes (a :: r) -> a < 256 /\ is_bytes r.
Proof. intros a r H. inversion H; subst. split; assumption. Qed.

Lemma b64_encode_nl_free : forall bs, is_bytes bs -> Forall nl_free (b64_encode bs).
Proof.
  intros bs. induction bs as [|a|a b|a b c r IH] using list_ind3; intros Hb.
  - constructor.
  - apply is_bytes_cons in Hb. destruct Hb as [Ha _].
    cbn [b64_encode].
    repeat constructor; try apply nl_free_char; try apply nl_free_61; lia.
  - apply is_bytes_cons in Hb. destruct Hb as [Ha Hb].
    apply is_bytes_cons in Hb. destruct Hb as [Hb _].
    cbn [b64_encode].
    repeat constructor; try apply nl_free_char; try apply nl_free_61; lia.
  - apply is_bytes_cons in Hb. destruct Hb as [Ha Hb].
    apply is_bytes_cons in Hb. destruct Hb as [Hb Hc].
    apply is_bytes_cons in Hc. destruct Hc as [Hc Hr].
    cbn [b64_encode].
    repeat (apply Forall_cons; [apply nl_free_char; lia|]).
    apply IH; assumption.
Qed.

(* no character produced by the encoder is a line break *)
Theorem b64_encode_no_newlines : forall bs, is_bytes bs -> strip_newlines (b64_encode bs) = b64_encode bs.
Proof. intros bs H. apply nl_free_strip, b64_encode_nl_free, H. Qed.

Ltac dmatch := repeat match goal with |- context [match ?x with _ => _ end] => is_var x; destruct x end.

Lemma dg_full : forall f c1 c2 c3 c4 r, c4 <> 61 ->
  b64_decode_groups (S f) (c1 :: c2 :: c3 :: c4 :: r) =
        match b64_val c1, b64_val c2, b64_val c3, b64_val c4 with
        | Some v1, Some v2, Some v3, Some v4 =>
            match b64_decode_groups f r with
            | Some t => Some ((v1 * 4 + v2 / 16) :: ((v2 mod 16) * 16 + v3 / 4) :: ((v3 mod 4) * 64 + v4) :: t)
            | None => None
            end
        | _, _, _, _ => None
        end.
Proof.
  intros f c1 c2 c3 c4 r H. cbn [b64_decode_groups].
  generalize (b64_decode_groups f r); intro o.
  generalize (b64_val c1) (b64_val c2) (b64_val c3) (b64_val c4); intros o1 o2 o3 o4.
  dmatch; try reflexivity; try congruence.
Qed.

Lemma dg_pad1 : forall f c1 c2 c3, c3 <> 61 ->
  b64_decode_groups (S f) [c1; c2; c3; 61] =
        match b64_val c1, b64_val c2, b64_val c3 with
        | Some v1, Some v2, Some v3 =>
            if v3 mod 4 =? 0 then Some [v1 * 4 + v2 / 16; (v2 mod 16) * 16 + v3 / 4] else None
        | _, _, _ => None
        end.
Proof.
  intros f c1 c2 c3 H. cbn [b64_decode_groups].
  generalize (b64_val c1) (b64_val c2) (b64_val c3); intros o1 o2 o3.
  dmatch; try reflexivity; try congruence.
Qed.

Lemma dg_pad2 : forall f c1 c2,
  b64_decode_groups (S f) [c1; c2; 61; 61] =
        match b64_val c1, b64_val c2 with
        | Some v1, Some v2 => if v2 mod 16 =? 0 then Some [v1 * 4 + v2 / 16] else None
        | _, _ => None
        end.
Proof. reflexivity. Qed.

Lemma dec_enc : forall bs, is_bytes bs -> forall fuel, (length (b64_encode bs) <= fuel)%nat ->
  b64_decode_groups fuel (b64_encode bs) = Some bs.
Proof.
  intros bs. induction bs as [|a|a b|a b c r IH] using list_ind3; intros Hb fuel Hf.
  - destruct fuel; reflexivity.
  - apply is_bytes_cons in Hb. destruct Hb as [Ha _].
    cbn [b64_encode length] in *.
    destruct fuel as [|f]; [lia|].
    rewrite dg_pad2. rewrite !b64_val_char by lia.
    destruct (N.eqb_spec (a mod 4 * 16 mod 16) 0) as [E|E]; [|lia].
    f_equal. f_equal. lia.
  - apply is_bytes_cons in Hb. destruct Hb as [Ha Hb].
    apply is_bytes_cons in Hb. destruct Hb as [Hb _].
    cbn [b64_encode length] in *.
    destruct fuel as [|f]; [lia|].
    rewrite dg_pad1 by (apply b64_char_ne; lia).
    rewrite !b64_val_char by lia.
    destruct (N.eqb_spec (b mod 16 * 4 mod 4) 0) as [E|E]; [|lia].
    f_equal. f_equal; [lia|]. f_equal. lia.
  - apply is_bytes_cons in Hb. destruct Hb as [Ha Hb].
    apply is_bytes_cons in Hb. destruct Hb as [Hb Hc].
    apply is_bytes_cons in Hc. destruct Hc as [Hc Hr].
    cbn [b64_encode length] in *.
    destruct fuel as [|f]; [lia|].
    rewrite dg_full by (apply b64_char_ne; lia).
    rewrite !b64_val_char by lia.
    rewrite IH by (assumption || lia).
    f_equal. f_equal; [lia|]. f_equal; [lia|]. f_equal. lia.
Qed.

Theorem b64_roundtrip : forall bs, is_bytes bs -> b64_decode (b64_encode bs) = Some bs.
Proof.
  intros bs H. unfold b64_decode. cbv zeta.
  rewrite b64_encode_no_newlines by assumption.
  apply dec_enc; [assumption|apply Nat.le_refl].
Qed.

Lemma strip_app : forall xs ys, strip_newlines (xs ++ ys) = strip_newlines xs ++ strip_newlines ys.
Proof. intros xs ys. unfold strip_newlines. apply filter_app. Qed.

Lemma strip_wrap_lines : forall fuel cs, (length cs <= fuel)%nat -> Forall nl_free cs ->
  strip_newlines (wrap_lines fuel cs) = cs.
Proof.
  induction fuel as [|f IH]; intros cs Hl Hcs.
  - destruct cs; [reflexivity|cbn [length] in Hl; lia].
  - cbn [wrap_lines]. destruct cs as [|c cs']; [reflexivity|].
    remember (c :: cs') as cs eqn:Ecs.
    assert (Hsplit : firstn 64 cs ++ skipn 64 cs = cs) by apply firstn_skipn.
    assert (Hcs' := Hcs). rewrite <- Hsplit in Hcs'.
    apply Forall_app in Hcs'. destruct Hcs' as [Hf Hs].
    rewrite strip_app. rewrite (nl_free_strip _ Hf).
    change (10 :: wrap_lines f (skipn 64 cs)) with ([10] ++ wrap_lines f (skipn 64 cs)).
    rewrite strip_app.
    rewrite IH; [|
      rewrite skipn_length; subst cs; cbn [length] in *; lia | assumption].
    exact Hsplit.
Qed.

(* line breaks do not matter *)
Theorem strip_wrap64 : forall cs, strip_newlines cs = cs -> strip_newlines (wrap64 cs) = cs.
Proof.
  intros cs H. unfold wrap64. apply strip_wrap_lines; [apply Nat.le_refl|].
  apply strip_nl_free, H.
Qed.

Theorem b64_roundtrip_wrapped : forall bs, is_bytes bs -> b64_decode (wrap64 (b64_encode bs)) = Some bs.
Proof.
  intros bs H. unfold b64_decode. cbv zeta.
  rewrite strip_wrap64 by (apply b64_encode_no_newlines; assumption).
  apply dec_enc; [assumption|apply Nat.le_refl].
Qed.

