(* C02: rule bodies and helpers that index into byte strings by hand, modelled with every index and slice
   operation explicit: an access outside the string is the outcome OOR (Go's index / slice-bounds-out-of-range
   panic), never a default value.  Model only; proofs are in BodiesFacts.v.

   Modelled here (file -> definition):
     v3/lints/rfc/lint_generalized_time_does_not_include_seconds.go   checkSeconds, Execute   -> check_seconds, gen_seconds
     v3/lints/rfc/lint_generalized_time_includes_fraction_seconds.go  checkFraction, Execute  -> check_fraction, gen_fraction
     v3/lints/rfc/lint_generalized_time_not_in_zulu.go                Execute                 -> gen_not_zulu
     v3/lints/rfc/lint_incorrect_ku_encoding.go                       CheckApplies, Execute   -> ku_incorrect_encoding
     v3/lints/rfc/lint_superfluous_ku_encoding.go                     CheckApplies, Execute   -> ku_superfluous
     v3/lints/rfc/lint_key_usage_incorrect_length.go                  keyUsageIncorrectLengthBytes -> ku_incorrect_length
     v3/lints/rfc/lint_empty_sct_list.go                              Execute (after decoding) -> sct_list
     v3/util/fqdn.go                                                  GetHost, GetAuthority   -> get_host, get_authority
     v3/util/encodings.go                                             ParseBMPString          -> parse_bmp
   Statuses are the library's numbers: 1 NA, 3 pass, 6 error, 7 fatal. *)
From ZL Require Import Base.Bytes.
From Coq Require Import Lia.
Open Scope Z_scope.

Inductive out (A : Type) : Type := Val (a : A) | OOR.
Arguments Val {A} a.
Arguments OOR {A}.

Definition bind {A B} (x : out A) (f : A -> out B) : out B :=
  match x with Val a => f a | OOR => OOR end.

Definition zlen (b : bytes) : Z := Z.of_nat (length b).

(* b[i] *)
Definition at_ (b : bytes) (i : Z) : out N :=
  if (0 <=? i) && (i <? zlen b) then Val (nth (Z.to_nat i) b 0%N) else OOR.

(* b[lo:hi] *)
Definition slice (b : bytes) (lo hi : Z) : out bytes :=
  if (0 <=? lo) && (lo <=? hi) && (hi <=? zlen b)
  then Val (firstn (Z.to_nat (hi - lo)) (skipn (Z.to_nat lo) b)) else OOR.

(* strings.Index(s, string(c)) / bytes.IndexByte: -1 when absent *)
Fixpoint index_from (c : N) (b : bytes) (i : Z) : Z :=
  match b with
  | [] => -1
  | x :: r => if N.eqb x c then i else index_from c r (i + 1)
  end.
Definition index_byte (c : N) (b : bytes) : Z := index_from c b 0.

(* ---------- RFC 5280 GeneralizedTime lints ---------- *)

Definition chZ : N := 90.  Definition chPlus : N := 43.  Definition chMinus : N := 45.

(* true = the value is reported (status error) *)
Definition check_seconds (t : bytes) : out bool :=
  let n := zlen t in
  bind (at_ t (n - 1)) (fun last =>
    if N.eqb last chZ then Val (n <? 15)
    else bind (at_ t (n - 5)) (fun m5 =>
      if N.eqb m5 chMinus || N.eqb last chPlus then Val (n <? 19) else Val (n <? 14))).

Definition check_fraction (t : bytes) : out bool :=
  let n := zlen t in
  bind (at_ t (n - 1)) (fun last =>
    if N.eqb last chZ then Val (15 <? n)
    else bind (at_ t (n - 5)) (fun m5 =>
      if N.eqb m5 chMinus || N.eqb last chPlus then Val (19 <? n) else Val (14 <? n))).

Definition check_not_zulu (t : bytes) : out bool :=
  bind (at_ t (zlen t - 1)) (fun last => Val (negb (N.eqb last chZ))).

(* the three lints share one shape: applicability = one of the two validity fields is a GeneralizedTime
   (tag 24); the first field is judged first and a finding there ends the run *)
Definition gen_time_lint (chk : bytes -> out bool) (d1 d2 : Z * bytes) : out Z :=
  let g1 := fst d1 =? 24 in
  let g2 := fst d2 =? 24 in
  if negb (g1 || g2) then Val 1
  else bind (if g1 then chk (snd d1) else Val false) (fun e1 =>
         if e1 then Val 6
         else bind (if g2 then chk (snd d2) else Val false) (fun e2 => Val (if e2 then 6 else 3))).

Definition gen_seconds := gen_time_lint check_seconds.
Definition gen_fraction := gen_time_lint check_fraction.
Definition gen_not_zulu := gen_time_lint check_not_zulu.

(* ---------- keyUsage encoding lints (on the raw extension value) ---------- *)

Definition be_value (b : bytes) : Z := fold_left (fun acc x => acc * 256 + Z.of_N x) b 0.

(* big.Int.TrailingZeroBits: 0 for the value zero *)
Fixpoint tz_pos (p : positive) : Z :=
  match p with xO q => 1 + tz_pos q | _ => 0 end.
Definition trailing_zero_bits (z : Z) : Z := match z with Zpos p => tz_pos p | _ => 0 end.

Definition ku_incorrect_encoding (ku : bytes) : out Z :=
  if zlen ku =? 0 then Val 1
  else if zlen ku <? 4 then Val 7
  else bind (at_ ku 2) (fun declared =>
       bind (slice ku 3 (zlen ku)) (fun rest =>
         Val (if Z.of_N declared =? trailing_zero_bits (be_value rest) then 3 else 6))).

Definition ku_superfluous (ku : bytes) : out Z :=
  if zlen ku =? 0 then Val 1
  else bind (at_ ku (zlen ku - 1)) (fun last => Val (if N.eqb last 0 then 6 else 3)).

(* cryptobyte.String.ReadASN1BitString on the head of s: DER header (tag 3, low-tag-number form, definite minimal
   length of at most four octets), at least the unused-bits octet, at most 7 unused bits, none when there are no
   bit octets, and the unused bits themselves zero.  Returns the bit octets. *)
Definition read_der_header (s : bytes) : option (N * Z * Z) :=   (* tag, header length, content length *)
  match s with
  | tag :: l0 :: r =>
      if N.eqb (N.land tag 31) 31 then None
      else if N.eqb (N.land l0 128) 0 then Some (tag, 2, Z.of_N l0)
      else
        let k := Z.of_N (N.land l0 127) in
        if (k =? 0) || (4 <? k) then None
        else if zlen r <? k then None
        else
          let lb := firstn (Z.to_nat k) r in
          let len := be_value lb in
          (* minimal: no leading zero octet, and the long form only for lengths of 128 or more *)
          if N.eqb (nth 0 lb 0%N) 0 then None
          else if len <? 128 then None
          else Some (tag, 2 + k, len)
  | _ => None
  end.

Definition read_bit_string (s : bytes) : option (N * bytes) :=   (* unused bits, bit octets *)
  match read_der_header s with
  | Some (tag, hl, cl) =>
      if negb (N.eqb tag 3) then None
      else if zlen s <? hl + cl then None
      else
        let content := firstn (Z.to_nat cl) (skipn (Z.to_nat hl) s) in
        match content with
        | [] => None
        | pad :: bits =>
            if (7 <? Z.of_N pad) then None
            else if (zlen bits =? 0) && negb (N.eqb pad 0) then None
            else if negb (zlen bits =? 0) &&
                    negb (N.eqb (N.land (last bits 0%N) (N.shiftl 1 pad - 1)) 0) then None
            else Some (pad, bits)
        end
  | None => None
  end.

(* int64(kuBig) >> unused >= 512, the shift count being the uint8 kuBytes[2] *)
Definition ku_incorrect_length (ku : bytes) : out Z :=
  match read_bit_string ku with
  | None => Val 6
  | Some (_, bits) =>
      bind (at_ ku 2) (fun unused =>
        let v := be_value bits in
        if (2 ^ 63 <=? v) then Val 6
        else if 512 <=? Z.shiftr v (Z.of_N unused) then Val 6 else Val 3)
  end.

(* ---------- SignedCertificateTimestampList: the decoded OCTET STRING ---------- *)
Definition sct_list (o : bytes) : out Z :=
  if zlen o <? 2 then Val 7
  else bind (at_ o 0) (fun a => bind (at_ o 1) (fun b =>
         Val (if N.eqb a 0 && N.eqb b 0 then 6 else 3))).

(* ---------- util.GetHost / util.GetAuthority ---------- *)
Definition chAt : N := 64.  Definition chColon : N := 58.  Definition chSlash : N := 47.
Definition chHash : N := 35.  Definition chQuery : N := 63.

Definition get_host (auth : bytes) : out bytes :=
  let begin0 := index_byte chAt auth in
  let begin := if begin0 =? zlen auth - 1 then -1 else begin0 in
  let end0 := index_byte chColon auth in
  let end_ := if end0 =? -1 then zlen auth else end0 in
  if end_ <? begin then Val [] else slice auth (begin + 1) end_.

(* the authority is terminated by the first '/', '#' or '?' at or after position 2 of the text after the scheme *)
Fixpoint auth_end (b : bytes) (i : Z) : Z :=   (* scanning b from absolute index i; result: index of the terminator or the end *)
  match b with
  | [] => i
  | x :: r => if N.eqb x chSlash || N.eqb x chHash || N.eqb x chQuery then i else auth_end r (i + 1)
  end.

(* parse_ok, opaque: what net/url reports for the text (the library is not modelled) *)
Definition get_authority (parse_ok opaque : bool) (uri : bytes) : out bytes :=
  if negb parse_ok then Val []
  else if opaque then Val []
  else if zlen uri <? 4 then Val []
  else
    let first_colon := index_byte chColon uri in
    bind (slice uri (first_colon + 1) (zlen uri)) (fun post =>
      if negb (has_prefix [chSlash; chSlash] post) then Val []
      else
        let e := auth_end (skipn 2 post) 2 in
        slice post 2 e).

(* ---------- util.ParseBMPString: the 16-bit code units ---------- *)
Fixpoint bmp_units (fuel : nat) (b : bytes) : out (list Z) :=
  match fuel with
  | O => Val []
  | S f =>
      if zlen b =? 0 then Val []
      else bind (at_ b 0) (fun hi => bind (at_ b 1) (fun lo =>
           bind (slice b 2 (zlen b)) (fun rest =>
           bind (bmp_units f rest) (fun us => Val (Z.of_N hi * 256 + Z.of_N lo :: us)))))
  end.

(* None = the error "odd-length BMP string" *)
Definition parse_bmp (b : bytes) : out (option (list Z)) :=
  if negb (zlen b mod 2 =? 0) then Val None
  else
    let l := zlen b in
    bind (if (2 <=? l) then
            bind (at_ b (l - 1)) (fun x => bind (at_ b (l - 2)) (fun y =>
              if N.eqb x 0 && N.eqb y 0 then slice b 0 (l - 2) else Val b))
          else Val b) (fun b' =>
    bind (bmp_units (length b') b') (fun us => Val (Some us))).

(* utf16.Decode followed by Go's string conversion is library code; the harness compares code units *)

(* ---------- e_subject_dn_not_printable_characters: the rune loop over every attribute value ---------- *)
From ZL Require Import Kernels.Utf8.
Open Scope Z_scope.

(* utf8.DecodeRune on the head of s: (is the rune a control character of the two reported ranges?, size).  Only
   one- and two-byte runes can fall into U+0000..U+001F / U+007F..U+009F; an invalid encoding decodes to U+FFFD, size 1. *)
Definition ctl_rune (s : bytes) : bool * nat :=
  match rune_len s with
  | Some 1%nat => (match s with b :: _ => (b <? 32)%N || (b =? 127)%N | [] => false end, 1%nat)
  | Some 2%nat => (match s with b0 :: b1 :: _ => (b0 =? 194)%N && (b1 <=? 159)%N | _ => false end, 2%nat)
  | Some n => (false, n)
  | None => (false, 1%nat)
  end.

(* for len(bytes) > 0 { r, size := DecodeRune(bytes); if control(r) return Error; bytes = bytes[size:] } *)
Fixpoint value_has_ctl (fuel : nat) (s : bytes) : out bool :=
  match fuel with
  | O => Val false
  | S f =>
      match s with
      | [] => Val false
      | _ => let '(c, n) := ctl_rune s in
             if c then Val true
             else bind (slice s (Z.of_nat n) (zlen s)) (fun rest => value_has_ctl f rest)
      end
  end.

Fixpoint dn_not_printable (vals : list bytes) : out Z :=
  match vals with
  | [] => Val 3
  | v :: r => bind (value_has_ctl (length v) v) (fun c => if c then Val 6 else dn_not_printable r)
  end.
