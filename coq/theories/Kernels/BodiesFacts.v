(* Proofs about Kernels/Bodies.v: which inputs make each modelled body read out of range (= panic), and which
   never do. *)
From ZL Require Import Base.Bytes Kernels.Bodies.
From Coq Require Import Lia ZArith.
Open Scope Z_scope.

Definition safe {A} (x : out A) : Prop := exists a, x = Val a.

Lemma safe_val {A} (a : A) : safe (Val a).
Proof. exists a; reflexivity. Qed.

Lemma not_safe_oor {A} : ~ safe (@OOR A).
Proof. intros [a H]; discriminate. Qed.

Lemma zlen_nonneg b : 0 <= zlen b.
Proof. unfold zlen; lia. Qed.

Lemma at_in b i : 0 <= i < zlen b -> at_ b i = Val (nth (Z.to_nat i) b 0%N).
Proof.
  intros [H0 H1]. unfold at_.
  destruct (0 <=? i) eqn:A; [|apply Z.leb_gt in A; lia].
  destruct (i <? zlen b) eqn:B; [reflexivity|apply Z.ltb_ge in B; lia].
Qed.

Lemma at_out b i : ~ (0 <= i < zlen b) -> at_ b i = OOR.
Proof.
  intros H. unfold at_.
  destruct (0 <=? i) eqn:A; [|reflexivity].
  destruct (i <? zlen b) eqn:B; [|reflexivity].
  apply Z.leb_le in A. apply Z.ltb_lt in B. lia.
Qed.

Lemma slice_in b lo hi : 0 <= lo <= hi -> hi <= zlen b ->
  slice b lo hi = Val (firstn (Z.to_nat (hi - lo)) (skipn (Z.to_nat lo) b)).
Proof.
  intros [H0 H1] H2. unfold slice.
  destruct (0 <=? lo) eqn:A; [|apply Z.leb_gt in A; lia].
  destruct (lo <=? hi) eqn:B; [|apply Z.leb_gt in B; lia].
  destruct (hi <=? zlen b) eqn:C; [reflexivity|apply Z.leb_gt in C; lia].
Qed.

(* ---------- GeneralizedTime ---------- *)

Theorem check_seconds_safe : forall t, 5 <= zlen t -> safe (check_seconds t).
Proof.
  intros t H. unfold check_seconds, bind.
  rewrite (at_in t (zlen t - 1)) by lia.
  destruct (N.eqb _ chZ); [apply safe_val|].
  rewrite (at_in t (zlen t - 5)) by lia.
  destruct (_ || _); apply safe_val.
Qed.

Theorem check_fraction_safe : forall t, 5 <= zlen t -> safe (check_fraction t).
Proof.
  intros t H. unfold check_fraction, bind.
  rewrite (at_in t (zlen t - 1)) by lia.
  destruct (N.eqb _ chZ); [apply safe_val|].
  rewrite (at_in t (zlen t - 5)) by lia.
  destruct (_ || _); apply safe_val.
Qed.

Theorem check_not_zulu_safe : forall t, 1 <= zlen t -> safe (check_not_zulu t).
Proof.
  intros t H. unfold check_not_zulu, bind. rewrite (at_in t (zlen t - 1)) by lia. apply safe_val.
Qed.

(* a value that ends in 'Z' needs only one octet *)
Theorem check_seconds_safe_zulu : forall t, 1 <= zlen t -> nth (Z.to_nat (zlen t - 1)) t 0%N = chZ -> safe (check_seconds t).
Proof.
  intros t H HZ. unfold check_seconds, bind. rewrite (at_in t (zlen t - 1)) by lia. rewrite HZ.
  rewrite N.eqb_refl. apply safe_val.
Qed.

(* what the guard protects against: short values that do not end in 'Z', and empty values *)
Theorem check_seconds_short_refuted : check_seconds [48%N] = OOR /\ check_fraction [48%N; 48%N; 48%N; 48%N] = OOR /\
                                       check_not_zulu [] = OOR /\ check_seconds [] = OOR.
Proof. repeat split; reflexivity. Qed.

(* exactness on values that are long enough: seconds are missing iff the value is shorter than the form with
   seconds, in each of the three syntactic forms *)
Theorem check_seconds_exact : forall t, 5 <= zlen t ->
  let last := nth (Z.to_nat (zlen t - 1)) t 0%N in
  let m5 := nth (Z.to_nat (zlen t - 5)) t 0%N in
  check_seconds t = Val (if N.eqb last chZ then zlen t <? 15
                         else if N.eqb m5 chMinus || N.eqb last chPlus then zlen t <? 19 else zlen t <? 14).
Proof.
  intros t H last m5. unfold check_seconds, bind.
  rewrite (at_in t (zlen t - 1)) by lia. fold last.
  destruct (N.eqb last chZ); [reflexivity|].
  rewrite (at_in t (zlen t - 5)) by lia. fold m5. destruct (_ || _); reflexivity.
Qed.

Definition time_ok (d : Z * bytes) : Prop := fst d = 24 -> 5 <= zlen (snd d).

Lemma gen_time_lint_safe chk d1 d2 :
  (forall t, 5 <= zlen t -> safe (chk t)) -> time_ok d1 -> time_ok d2 -> safe (gen_time_lint chk d1 d2).
Proof.
  intros Hc H1 H2. unfold gen_time_lint, bind.
  destruct (negb _); [apply safe_val|].
  destruct (fst d1 =? 24) eqn:G1.
  - apply Z.eqb_eq in G1. destruct (Hc (snd d1) (H1 G1)) as [e1 E1]. rewrite E1.
    destruct e1; [apply safe_val|].
    destruct (fst d2 =? 24) eqn:G2; [|apply safe_val].
    apply Z.eqb_eq in G2. destruct (Hc (snd d2) (H2 G2)) as [e2 E2]. rewrite E2. apply safe_val.
  - destruct (fst d2 =? 24) eqn:G2; [|apply safe_val].
    apply Z.eqb_eq in G2. destruct (Hc (snd d2) (H2 G2)) as [e2 E2]. rewrite E2. apply safe_val.
Qed.

Theorem gen_time_lints_safe : forall d1 d2, time_ok d1 -> time_ok d2 ->
  safe (gen_seconds d1 d2) /\ safe (gen_fraction d1 d2) /\ safe (gen_not_zulu d1 d2).
Proof.
  intros d1 d2 H1 H2. repeat split; apply gen_time_lint_safe; auto.
  - apply check_seconds_safe.
  - apply check_fraction_safe.
  - intros t Ht. apply check_not_zulu_safe. lia.
Qed.

(* the lints only ever answer NA, pass or error *)
Theorem gen_time_lint_range : forall chk d1 d2 s, gen_time_lint chk d1 d2 = Val s -> s = 1 \/ s = 3 \/ s = 6.
Proof.
  intros chk d1 d2 s. unfold gen_time_lint, bind.
  destruct (negb _); [intros H; inversion H; auto|].
  destruct (if fst d1 =? 24 then chk (snd d1) else Val false) as [e1|]; [|discriminate].
  destruct e1; [intros H; inversion H; auto|].
  destruct (if fst d2 =? 24 then chk (snd d2) else Val false) as [e2|]; [|discriminate].
  destruct e2; intros H; inversion H; auto.
Qed.

(* ---------- keyUsage ---------- *)

Theorem ku_incorrect_encoding_safe : forall ku, safe (ku_incorrect_encoding ku).
Proof.
  intro ku. unfold ku_incorrect_encoding, bind.
  destruct (zlen ku =? 0); [apply safe_val|].
  destruct (zlen ku <? 4) eqn:L; [apply safe_val|]. apply Z.ltb_ge in L.
  rewrite (at_in ku 2) by lia. rewrite (slice_in ku 3 (zlen ku)) by lia. apply safe_val.
Qed.

Theorem ku_superfluous_safe : forall ku, safe (ku_superfluous ku).
Proof.
  intro ku. unfold ku_superfluous, bind.
  destruct (zlen ku =? 0) eqn:L; [apply safe_val|]. apply Z.eqb_neq in L.
  pose proof (zlen_nonneg ku). rewrite (at_in ku (zlen ku - 1)) by lia. apply safe_val.
Qed.

(* without the applicability test (an empty extension value) the body would read ku[-1] *)
Theorem ku_superfluous_guard_needed : at_ [] (zlen [] - 1) = OOR.
Proof. reflexivity. Qed.

Local Opaque Z.add.
Lemma read_der_header_len s tag hl cl : read_der_header s = Some (tag, hl, cl) -> 2 <= hl /\ 0 <= cl /\ 2 <= zlen s.
Proof.
  unfold read_der_header. destruct s as [|t [|l0 r]]; try discriminate.
  assert (HL : 2 <= zlen (t :: l0 :: r)) by (unfold zlen; simpl length; lia).
  destruct (N.eqb (N.land t 31) 31); [discriminate|].
  destruct (N.eqb (N.land l0 128) 0).
  - intros [= <- <- <-]. pose proof (N2Z.is_nonneg l0). split; [lia|split; [lia|exact HL]].
  - destruct ((Z.of_N (N.land l0 127) =? 0) || (4 <? Z.of_N (N.land l0 127))); [discriminate|].
    destruct (zlen r <? Z.of_N (N.land l0 127)); [discriminate|].
    destruct (N.eqb _ 0); [discriminate|].
    destruct (be_value _ <? 128) eqn:B; [discriminate|]. apply Z.ltb_ge in B.
    pose proof (N2Z.is_nonneg (N.land l0 127)) as K.
    intros [= <- <- <-]. split; [lia|split; [lia|exact HL]].
Qed.
Local Transparent Z.add.

Lemma length_firstn_skipn_ge (s : bytes) (hl cl : Z) :
  0 <= hl -> 0 <= cl -> hl + cl <= zlen s -> zlen (firstn (Z.to_nat cl) (skipn (Z.to_nat hl) s)) = cl.
Proof.
  intros H0 H1 H2. unfold zlen in *. rewrite firstn_length, skipn_length. lia.
Qed.

Lemma read_bit_string_len s pad bits : read_bit_string s = Some (pad, bits) -> 3 <= zlen s.
Proof.
  unfold read_bit_string. destruct (read_der_header s) as [[[tag hl] cl]|] eqn:H; [|discriminate].
  apply read_der_header_len in H. destruct H as [Hh [Hc Hs]].
  destruct (negb (N.eqb tag 3)); [discriminate|].
  destruct (zlen s <? hl + cl) eqn:L; [discriminate|]. apply Z.ltb_ge in L.
  destruct (firstn (Z.to_nat cl) (skipn (Z.to_nat hl) s)) as [|p bs] eqn:C; [discriminate|].
  intros _.
  assert (zlen (firstn (Z.to_nat cl) (skipn (Z.to_nat hl) s)) = cl) by (apply length_firstn_skipn_ge; lia).
  rewrite C in H. unfold zlen in H. simpl length in H. lia.
Qed.

Theorem ku_incorrect_length_safe : forall ku, safe (ku_incorrect_length ku).
Proof.
  intro ku. unfold ku_incorrect_length, bind.
  destruct (read_bit_string ku) as [[pad bits]|] eqn:R; [|apply safe_val].
  apply read_bit_string_len in R. rewrite (at_in ku 2) by lia.
  destruct (2 ^ 63 <=? be_value bits); [apply safe_val|].
  destruct (512 <=? _); apply safe_val.
Qed.

Theorem sct_list_safe : forall o, safe (sct_list o).
Proof.
  intro o. unfold sct_list, bind. destruct (zlen o <? 2) eqn:L; [apply safe_val|]. apply Z.ltb_ge in L.
  rewrite (at_in o 0) by lia. rewrite (at_in o 1) by lia. apply safe_val.
Qed.

(* ---------- GetHost / GetAuthority ---------- *)

Lemma index_from_range c b i : index_from c b i = -1 \/ i <= index_from c b i < i + zlen b.
Proof.
  revert i. induction b as [|x r IH]; intro i; cbn [index_from]; [left; reflexivity|].
  assert (HL : zlen (x :: r) = zlen r + 1) by (unfold zlen; simpl length; lia).
  pose proof (zlen_nonneg r).
  destruct (N.eqb x c).
  - right. lia.
  - destruct (IH (i + 1)) as [H1|H1]; [left; exact H1|right]. lia.
Qed.

Lemma index_from_hit c b i : 0 <= i -> i <= index_from c b i -> nth (Z.to_nat (index_from c b i - i)) b 0%N = c.
Proof.
  revert i. induction b as [|x r IH]; intros i Hi; cbn [index_from].
  - intros H. exfalso. lia.
  - destruct (N.eqb x c) eqn:E.
    + intros _. rewrite Z.sub_diag. cbn [Z.to_nat nth]. apply N.eqb_eq in E. exact E.
    + intros H. destruct (index_from_range c r (i + 1)) as [Hm|Hr]; [exfalso; lia|].
      specialize (IH (i + 1) ltac:(lia) ltac:(lia)).
      replace (Z.to_nat (index_from c r (i + 1) - i)) with (S (Z.to_nat (index_from c r (i + 1) - (i + 1)))) by lia.
      cbn [nth]. exact IH.
Qed.

Lemma index_byte_range c b : index_byte c b = -1 \/ 0 <= index_byte c b < zlen b.
Proof. unfold index_byte. destruct (index_from_range c b 0); [left|right]; lia. Qed.

Lemma index_byte_hit c b : 0 <= index_byte c b -> nth (Z.to_nat (index_byte c b)) b 0%N = c.
Proof. unfold index_byte. intros H. pose proof (index_from_hit c b 0 ltac:(lia) H) as E. rewrite Z.sub_0_r in E. exact E. Qed.

Theorem get_host_safe : forall auth, safe (get_host auth).
Proof.
  intro auth. unfold get_host.
  pose proof (zlen_nonneg auth) as HL.
  destruct (index_byte_range chAt auth) as [A|A]; destruct (index_byte_range chColon auth) as [C|C].
  - rewrite A, C. simpl (-1 =? -1).
    destruct (-1 =? zlen auth - 1); cbn -[slice zlen Z.add Z.ltb];
      (destruct (zlen auth <? -1) eqn:L; [apply safe_val|]; rewrite slice_in by lia; apply safe_val).
  - rewrite A. destruct (index_byte chColon auth =? -1) eqn:E; [apply Z.eqb_eq in E; lia|].
    destruct (-1 =? zlen auth - 1);
      (destruct (index_byte chColon auth <? -1) eqn:L; [apply safe_val|]; rewrite slice_in by lia; apply safe_val).
  - rewrite C. simpl (-1 =? -1).
    destruct (index_byte chAt auth =? zlen auth - 1);
      (destruct (zlen auth <? _) eqn:L; [apply safe_val|]; apply Z.ltb_ge in L; rewrite slice_in by lia; apply safe_val).
  - destruct (index_byte chColon auth =? -1) eqn:E; [apply Z.eqb_eq in E; lia|].
    (* the two indices are different positions: they hold different characters *)
    assert (index_byte chAt auth <> index_byte chColon auth).
    { intro Q. pose proof (index_byte_hit chAt auth ltac:(lia)) as H1. pose proof (index_byte_hit chColon auth ltac:(lia)) as H2.
      rewrite Q in H1. rewrite H1 in H2. discriminate. }
    destruct (index_byte chAt auth =? zlen auth - 1);
      (destruct (index_byte chColon auth <? _) eqn:L; [apply safe_val|]; apply Z.ltb_ge in L; rewrite slice_in by lia; apply safe_val).
Qed.

(* without userinfo and port the host is the whole authority *)
Theorem get_host_plain : forall auth, index_byte chAt auth = -1 -> index_byte chColon auth = -1 -> get_host auth = Val auth.
Proof.
  intros auth A C. unfold get_host. rewrite A, C. simpl (-1 =? -1).
  pose proof (zlen_nonneg auth).
  assert (E : forall b : bool, (if b then -1 else -1) = -1) by (intros []; reflexivity). rewrite E.
  destruct (zlen auth <? -1) eqn:L; [apply Z.ltb_lt in L; lia|].
  rewrite slice_in by lia. simpl. f_equal. rewrite Z.sub_0_r. unfold zlen. rewrite Nat2Z.id. apply firstn_all.
Qed.

Lemma auth_end_range b i : i <= auth_end b i <= i + zlen b.
Proof.
  revert i. induction b as [|x r IH]; intro i; simpl.
  - unfold zlen; simpl; lia.
  - destruct (_ || _); [unfold zlen; simpl length; lia|].
    specialize (IH (i + 1)). unfold zlen in *. simpl length. lia.
Qed.

Lemma has_prefix_len p s : has_prefix p s = true -> zlen p <= zlen s.
Proof.
  revert s. induction p as [|x p IH]; intros s H; [unfold zlen; simpl; lia|].
  destruct s as [|y s]; [discriminate|]. simpl in H. apply andb_prop in H. destruct H as [_ H].
  specialize (IH s H). unfold zlen in *. simpl length. lia.
Qed.

Theorem get_authority_safe : forall ok opq uri, safe (get_authority ok opq uri).
Proof.
  intros ok opq uri. unfold get_authority, bind.
  destruct (negb ok); [apply safe_val|]. destruct opq; [apply safe_val|].
  destruct (zlen uri <? 4); [apply safe_val|].
  pose proof (zlen_nonneg uri).
  destruct (index_byte_range chColon uri) as [C|C]; rewrite slice_in by lia.
  - destruct (negb (has_prefix _ _)) eqn:P; [apply safe_val|].
    apply negb_false_iff in P. apply has_prefix_len in P.
    set (post := firstn _ _) in *.
    pose proof (auth_end_range (skipn 2 post) 2) as R.
    assert (zlen (skipn 2 post) = zlen post - 2).
    { unfold zlen in *. rewrite skipn_length. simpl length in P. lia. }
    rewrite slice_in; [apply safe_val|lia|lia].
  - destruct (negb (has_prefix _ _)) eqn:P; [apply safe_val|].
    apply negb_false_iff in P. apply has_prefix_len in P.
    set (post := firstn _ _) in *.
    pose proof (auth_end_range (skipn 2 post) 2) as R.
    assert (zlen (skipn 2 post) = zlen post - 2).
    { unfold zlen in *. rewrite skipn_length. simpl length in P. lia. }
    rewrite slice_in; [apply safe_val|lia|lia].
Qed.

(* ---------- ParseBMPString ---------- *)

Lemma bmp_units_safe : forall fuel b, zlen b mod 2 = 0 -> safe (bmp_units fuel b).
Proof.
  induction fuel as [|f IH]; intros b He; simpl; [apply safe_val|].
  destruct (zlen b =? 0) eqn:L; [apply safe_val|]. apply Z.eqb_neq in L.
  pose proof (zlen_nonneg b).
  assert (2 <= zlen b).
  { destruct (Z.eq_dec (zlen b) 1) as [E|E]; [rewrite E in He; discriminate|lia]. }
  unfold bind. rewrite (at_in b 0) by lia. rewrite (at_in b 1) by lia. rewrite slice_in by lia.
  set (rest := firstn _ _).
  assert (zlen rest = zlen b - 2).
  { unfold rest, zlen. rewrite firstn_length, skipn_length. unfold zlen in *. lia. }
  destruct (IH rest) as [us E].
  - rewrite H1. rewrite <- (Z.mod_add _ 1 2) by lia. replace (zlen b - 2 + 1 * 2) with (zlen b) by lia. exact He.
  - rewrite E. apply safe_val.
Qed.

Theorem parse_bmp_safe : forall b, safe (parse_bmp b).
Proof.
  intro b. unfold parse_bmp.
  destruct (zlen b mod 2 =? 0) eqn:E; [|apply safe_val]. apply Z.eqb_eq in E. simpl negb. cbv iota.
  pose proof (zlen_nonneg b).
  destruct (2 <=? zlen b) eqn:L.
  - apply Z.leb_le in L. unfold bind at 1 2 3.
    rewrite (at_in b (zlen b - 1)) by lia. rewrite (at_in b (zlen b - 2)) by lia.
    destruct (_ && _).
    + rewrite slice_in by lia. unfold bind.
      set (b' := firstn _ _).
      assert (zlen b' = zlen b - 2).
      { unfold b', zlen. rewrite firstn_length. simpl skipn. unfold zlen in *. lia. }
      destruct (bmp_units_safe (length b') b') as [us U].
      * rewrite H0. rewrite <- (Z.mod_add _ 1 2) by lia. replace (zlen b - 2 + 1 * 2) with (zlen b) by lia. exact E.
      * rewrite U. apply safe_val.
    + unfold bind. destruct (bmp_units_safe (length b) b E) as [us U]. rewrite U. apply safe_val.
  - unfold bind. destruct (bmp_units_safe (length b) b E) as [us U]. rewrite U. apply safe_val.
Qed.

(* ---------- subject DN printable characters ---------- *)
From ZL Require Import Kernels.Utf8.
Open Scope Z_scope.

Lemma ctl_rune_size s : s <> [] -> (1 <= snd (ctl_rune s) <= length s)%nat.
Proof.
  intro NE. unfold ctl_rune.
  destruct (rune_len s) as [n|] eqn:R.
  - apply rune_len_bounds in R. destruct R as [[R1 R2] R3].
    destruct n as [|[|[|n]]]; simpl; lia.
  - simpl. destruct s; [contradiction|simpl; lia].
Qed.

Lemma value_has_ctl_safe : forall fuel s, safe (value_has_ctl fuel s).
Proof.
  induction fuel as [|f IH]; intro s; simpl; [apply safe_val|].
  destruct s as [|b r] eqn:S; [apply safe_val|]. rewrite <- S.
  assert (NE : s <> []) by (rewrite S; discriminate).
  pose proof (ctl_rune_size s NE) as B.
  destruct (ctl_rune s) as [c n] eqn:C. simpl in B.
  destruct c; [apply safe_val|].
  unfold bind. rewrite slice_in; [apply IH | unfold zlen; lia | unfold zlen; lia].
Qed.

Theorem dn_not_printable_safe : forall vals, safe (dn_not_printable vals).
Proof.
  induction vals as [|v r IH]; simpl; [apply safe_val|].
  destruct (value_has_ctl_safe (length v) v) as [c E]. unfold bind. rewrite E.
  destruct c; [apply safe_val | exact IH].
Qed.

Definition val_ctl (v : bytes) : bool := match value_has_ctl (length v) v with Val c => c | OOR => false end.

(* the verdict is "some value holds a control character": attribute values are judged as a set *)
Theorem dn_not_printable_exists : forall vals, dn_not_printable vals = Val (if existsb val_ctl vals then 6 else 3).
Proof.
  induction vals as [|v r IH]; simpl; [reflexivity|].
  unfold val_ctl at 1. destruct (value_has_ctl_safe (length v) v) as [c E]. unfold bind. rewrite E.
  destruct c; simpl; [reflexivity | exact IH].
Qed.
