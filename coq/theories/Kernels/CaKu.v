(* C06 / C20 / C02: nineteen lints about basicConstraints, keyUsage and extKeyUsage presence, criticality and bits,
   modelled in full INCLUDING their CheckApplies (several bodies dereference the extension they are gated on).

     e_basic_constraints_not_critical, e_ext_key_usage_cert_sign_without_ca, e_ext_key_usage_without_bits,
     w_ext_key_usage_not_critical, w_eku_critical_improperly                                               (rfc)
     e_ca_crl_sign_not_set, n_ca_digital_signature_not_set, e_ca_key_cert_sign_not_set, e_ca_key_usage_missing,
     e_ca_key_usage_not_critical, e_sub_cert_key_usage_cert_sign_bit_set, e_sub_cert_key_usage_crl_sign_bit_set,
     e_root_ca_key_usage_must_be_critical, e_root_ca_key_usage_present, e_root_ca_extended_key_usage_present,
     w_sub_ca_eku_critical, n_sub_ca_eku_missing, e_sub_cert_eku_missing,
     e_sub_cert_basic_constraints_not_critical                                                              (cabf_br)

   Statuses: 1 NA (CheckApplies false), 3 pass, 4 notice, 5 warn, 6 error. *)
From Coq Require Import List ZArith Bool Lia.
Import ListNotations.
Open Scope Z_scope.

Record ca_view := mkCa {
  is_ca : bool; self_signed : bool; bc_valid : bool;
  bc_ext : bool; bc_critical : bool;
  ku_ext : bool; ku_critical : bool; ku : Z;       (* the KeyUsage bit set as zcrypto numbers it *)
  eku_ext : bool; eku_critical : bool; eku_any : bool   (* anyExtendedKeyUsage is among the parsed usages *)
}.

Definition bit (k : Z) (n : Z) : bool := Z.testbit k n.
Definition kuDigitalSignature := 0. Definition kuCertSign := 5. Definition kuCRLSign := 6.

Definition root_ca v := is_ca v && self_signed v.
Definition sub_ca v := is_ca v && negb (self_signed v).
Definition subscriber v := negb (is_ca v) && negb (self_signed v).

Definition gate (applies : bool) (s : Z) : Z := if applies then s else 1.
Definition pass_if (b : bool) (finding : Z) : Z := if b then 3 else finding.

Definition k_bc_not_critical v := gate (is_ca v && bc_ext v) (pass_if (bc_critical v) 6).
Definition k_cert_sign_without_ca v := gate (ku_ext v) (pass_if (negb (bit (ku v) kuCertSign) || (bc_valid v && is_ca v)) 6).
Definition k_ku_without_bits v := gate (ku_ext v) (pass_if (negb (ku v =? 0)) 6).
Definition k_ku_not_critical v := gate (ku_ext v) (pass_if (ku_critical v) 5).
Definition k_eku_critical_improperly v := gate (eku_ext v) (pass_if (negb (eku_critical v && eku_any v)) 5).
Definition k_ca_crl_sign v := gate (is_ca v && ku_ext v) (pass_if (bit (ku v) kuCRLSign) 6).
Definition k_ca_digital_signature v := gate (is_ca v && ku_ext v) (pass_if (bit (ku v) kuDigitalSignature) 4).
Definition k_ca_cert_sign v := gate (is_ca v && ku_ext v) (pass_if (bit (ku v) kuCertSign) 6).
Definition k_ca_ku_missing v := gate (is_ca v) (pass_if (negb (ku v =? 0)) 6).
Definition k_ca_ku_not_critical v := gate (is_ca v && ku_ext v) (pass_if (ku_critical v) 6).
Definition k_sub_cert_sign v := gate (ku_ext v && negb (is_ca v)) (pass_if (negb (bit (ku v) kuCertSign)) 6).
Definition k_sub_crl_sign v := gate (ku_ext v && negb (is_ca v)) (pass_if (negb (bit (ku v) kuCRLSign)) 6).
Definition k_root_ku_critical v := gate (root_ca v && ku_ext v) (pass_if (ku_critical v) 6).
Definition k_root_ku_present v := gate (root_ca v) (pass_if (ku_ext v) 6).
Definition k_root_eku_present v := gate (root_ca v) (pass_if (negb (eku_ext v)) 6).
Definition k_sub_ca_eku_critical v := gate (sub_ca v && eku_ext v) (pass_if (negb (eku_critical v)) 5).
Definition k_sub_ca_eku_missing v := gate (sub_ca v) (pass_if (eku_ext v) 4).
Definition k_sub_cert_eku_missing v := gate (negb (is_ca v)) (pass_if (eku_ext v) 6).
Definition k_sub_cert_bc_not_critical v := gate (subscriber v && bc_ext v) (pass_if (bc_critical v) 6).

Definition all_ca_ku_lints (v : ca_view) : list Z :=
  [k_bc_not_critical v; k_cert_sign_without_ca v; k_ku_without_bits v; k_ku_not_critical v; k_eku_critical_improperly v;
   k_ca_crl_sign v; k_ca_digital_signature v; k_ca_cert_sign v; k_ca_ku_missing v; k_ca_ku_not_critical v;
   k_sub_cert_sign v; k_sub_crl_sign v; k_root_ku_critical v; k_root_ku_present v; k_root_eku_present v;
   k_sub_ca_eku_critical v; k_sub_ca_eku_missing v; k_sub_cert_eku_missing v; k_sub_cert_bc_not_critical v].

(* ---- every body runs only behind the test that makes its dereference safe: in the model the gate is explicit, and the
   statuses are among NA / pass / notice / warn / error *)
Theorem ca_ku_range v s : In s (all_ca_ku_lints v) -> s = 1 \/ s = 3 \/ s = 4 \/ s = 5 \/ s = 6.
Proof.
  unfold all_ca_ku_lints, k_bc_not_critical, k_cert_sign_without_ca, k_ku_without_bits, k_ku_not_critical, k_eku_critical_improperly, k_ca_crl_sign,
    k_ca_digital_signature, k_ca_cert_sign, k_ca_ku_missing, k_ca_ku_not_critical, k_sub_cert_sign, k_sub_crl_sign, k_root_ku_critical, k_root_ku_present,
    k_root_eku_present, k_sub_ca_eku_critical, k_sub_ca_eku_missing, k_sub_cert_eku_missing, k_sub_cert_bc_not_critical, gate, pass_if.
  cbn [In]. intro H.
  repeat (destruct H as [H|H]; [subst s; repeat match goal with |- context [if ?b then _ else _] => destruct b end; auto 6|]).
  contradiction.
Qed.

(* companions: a CA certificate's missing certSign bit is reported by the CA rule; on a non-CA certificate the same bit
   is reported by the subscriber rule and by the RFC rule at once *)
Theorem cert_sign_rules_agree v : ku_ext v = true -> is_ca v = false ->
  (k_sub_cert_sign v = 6 <-> k_cert_sign_without_ca v = 6).
Proof.
  intros Hk Hc. unfold k_sub_cert_sign, k_cert_sign_without_ca, gate, pass_if. rewrite Hk, Hc. cbn [negb andb].
  rewrite andb_false_r, orb_false_r. destruct (bit (ku v) kuCertSign); cbn [negb]; split; intro H; try discriminate; reflexivity.
Qed.

(* a CA without any key usage bit: both "missing" rules fire when the extension is there *)
Theorem ku_missing_rules v : is_ca v = true -> ku_ext v = true -> (k_ca_ku_missing v = 6 <-> k_ku_without_bits v = 6).
Proof.
  intros Hc Hk. unfold k_ca_ku_missing, k_ku_without_bits, gate, pass_if. rewrite Hc, Hk.
  destruct (ku v =? 0); cbn [negb]; split; intro H; try discriminate; reflexivity.
Qed.

(* root and CA criticality rules about keyUsage are the same test on a root *)
Theorem root_ku_critical_same v : root_ca v = true -> k_root_ku_critical v = k_ca_ku_not_critical v.
Proof.
  unfold root_ca, k_root_ku_critical, k_ca_ku_not_critical, gate, root_ca. intro H.
  apply andb_true_iff in H. destruct H as [H1 H2]. rewrite H1, H2. reflexivity.
Qed.
