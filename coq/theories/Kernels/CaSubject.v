(* C06 / C17: eight more subject / validity bodies, modelled in full: e_ca_common_name_missing, e_ca_country_name_missing,
   e_ca_organization_name_missing, e_organizational_unit_name_prohibited,
   e_sub_cert_given_name_surname_contains_correct_policy (cabf_br), e_subject_empty_without_san (rfc),
   e_subj_country_not_uppercase, e_validity_time_not_positive (community).  Statuses: 3 pass, 6 error. *)
From Coq Require Import List NArith ZArith Bool Lia Sorting.Permutation.
From ZL Require Import Base.Bytes Kernels.Scope.
Import ListNotations.
Open Scope Z_scope.

Record cs_view := mkCs {
  cs_cn_empty : bool; cs_countries : list bytes; cs_orgs : list bytes; cs_names : nat (* len(Subject.Names) *);
  cs_san_ext : bool; cs_ou : bool (* Subject.OrganizationalUnit != nil *); cs_policies : list oid; cs_nb : Z; cs_na : Z
}.

Definition err (b : bool) : Z := if b then 6 else 3.
Definition first_missing (l : list bytes) : bool := match l with [] => true | x :: _ => match x with [] => true | _ => false end end.
Definition upper_az (s : bytes) : bool := match s with [] => false | _ => forallb (fun c => ((65 <=? c) && (c <=? 90))%N) s end.
Definition ivOID : oid := [2;23;140;1;2;3].

Definition c_cn_missing v := err (cs_cn_empty v).
Definition c_country_missing v := err (first_missing (cs_countries v)).
Definition c_org_missing v := err (first_missing (cs_orgs v)).
Definition c_ou_prohibited v := err (cs_ou v).
Definition c_gn_sn_policy v := err (negb (oid_in ivOID (cs_policies v))).
Definition c_empty_without_san v := err (Nat.eqb (cs_names v) 0 && negb (cs_san_ext v)).
Definition c_country_uppercase v := err (negb (forallb upper_az (cs_countries v))).
Definition c_validity_positive v := err (cs_na v <? cs_nb v).

Definition all_ca_subject_lints v : list Z :=
  [c_cn_missing v; c_country_missing v; c_org_missing v; c_ou_prohibited v; c_gn_sn_policy v; c_empty_without_san v; c_country_uppercase v; c_validity_positive v].

Theorem country_uppercase_spec v : c_country_uppercase v = 3 <->
  forall s, In s (cs_countries v) -> s <> [] /\ forall c, In c s -> (65 <= c <= 90)%N.
Proof.
  unfold c_country_uppercase, err. destruct (forallb upper_az (cs_countries v)) eqn:E; cbn [negb].
  - split; [|reflexivity]. intros _ s Hs. rewrite forallb_forall in E. specialize (E s Hs). unfold upper_az in E.
    destruct s as [|c0 r]; [discriminate|]. split; [discriminate|]. intros c Hc. rewrite forallb_forall in E. specialize (E c Hc).
    apply andb_true_iff in E. destruct E as [E1 E2]. apply N.leb_le in E1. apply N.leb_le in E2. lia.
  - split; [discriminate|]. intro H. exfalso.
    assert (forallb upper_az (cs_countries v) = true) as X; [|congruence].
    apply forallb_forall. intros s Hs. destruct (H s Hs) as [Hne Hc]. unfold upper_az. destruct s as [|c0 r]; [contradiction|].
    apply forallb_forall. intros c Hin. specialize (Hc c Hin). apply andb_true_iff. split; apply N.leb_le; lia.
Qed.

Theorem validity_positive_spec v : c_validity_positive v = 6 <-> cs_nb v > cs_na v.
Proof. unfold c_validity_positive, err. destruct (Z.ltb_spec (cs_na v) (cs_nb v)) as [L|L]; split; intro H; try discriminate; try reflexivity; lia. Qed.

Lemma cs_existsb_perm {A} (f : A -> bool) l l' : Permutation l l' -> existsb f l = existsb f l'.
Proof.
  induction 1 as [|x l l' _ IH|x y l|l l' l'' _ IH1 _ IH2]; cbn [existsb].
  - reflexivity. - rewrite IH. reflexivity. - destruct (f x); destruct (f y); reflexivity. - congruence.
Qed.

Theorem gn_sn_policy_perm v ps : Permutation (cs_policies v) ps ->
  c_gn_sn_policy (mkCs (cs_cn_empty v) (cs_countries v) (cs_orgs v) (cs_names v) (cs_san_ext v) (cs_ou v) ps (cs_nb v) (cs_na v)) = c_gn_sn_policy v.
Proof. intro P. unfold c_gn_sn_policy, oid_in. cbn [cs_policies]. rewrite <- (cs_existsb_perm _ _ _ P). reflexivity. Qed.
