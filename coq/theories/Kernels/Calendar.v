(* C05 / C01: the calendar arithmetic behind e_crl_next_update_invalid (time.Time.AddDate in UTC), modelled instead of
   taken as an oracle.  Instants are seconds since 1970-01-01T00:00:00Z (what the DER times of a revocation list carry);
   there is no zone, locale or clock among the arguments, so a verdict computed from it is a function of the two instants.

   civil_of_days is the inverse of Tld.days_from_civil (Howard Hinnant's algorithms); the round trip is proved for every
   day by a kernel-evaluated sweep over the 146097 days of one 400-year era, lifted to all of Z by the era decomposition.

   add_date follows time.Time.AddDate -> time.Date: the month is normalised into the year (floor division), the day is
   NOT normalised but counted on linearly from the first of the month. *)
From Coq Require Import List ZArith Bool Lia.
From ZL Require Import Kernels.Tld.
Import ListNotations.
Open Scope Z_scope.

(* ---- one era: day-of-era -> (year-of-era of the March-based year, month, day) *)
Definition civil_of_doe (doe : Z) : Z * Z * Z :=
  let yoe := (doe - doe / 1460 + doe / 36524 - doe / 146096) / 365 in
  let doy := doe - (365 * yoe + yoe / 4 - yoe / 100) in
  let mp := (5 * doy + 2) / 153 in
  let d := doy - (153 * mp + 2) / 5 + 1 in
  let m := if mp <? 10 then mp + 3 else mp - 9 in
  (yoe, m, d).

Definition civil_of_days (z : Z) : Z * Z * Z :=
  let z' := z + 719468 in
  let era := z' / 146097 in
  let doe := z' - era * 146097 in
  match civil_of_doe doe with
  | (yoe, m, d) => (yoe + era * 400 + (if m <=? 2 then 1 else 0), m, d)
  end.

(* the part of days_from_civil that depends on the position inside the era only *)
Definition doe_of (yoe m d : Z) : Z :=
  let mp := (m + 9) mod 12 in
  let doy := (153 * mp + 2) / 5 + d - 1 in
  yoe * 365 + yoe / 4 - yoe / 100 + doy.

Definition era_check (doe : Z) : bool :=
  match civil_of_doe doe with
  | (yoe, m, d) =>
      (0 <=? yoe) && (yoe <=? 399) && (1 <=? m) && (m <=? 12) && (1 <=? d) &&
      (d <=? days_in (yoe + (if m <=? 2 then 1 else 0)) m) && (doe_of yoe m d =? doe)
  end.

(* f holds on z, z+1, ..., z+n-1 (the counter is carried along: Z.of_nat on every step would make the sweep quadratic) *)
Fixpoint all_from (n : nat) (z : Z) (f : Z -> bool) : bool :=
  match n with O => true | S k => f z && all_from k (z + 1) f end.

(* ---- instants *)
Definition day_of (t : Z) : Z := t / 86400.
Definition tod (t : Z) : Z := t mod 86400.

Definition add_date (t years months days : Z) : Z :=
  match civil_of_days (day_of t) with
  | (y, m, d) =>
      let m0 := m - 1 + months in
      let y1 := y + years + m0 / 12 in
      let m1 := m0 mod 12 + 1 in
      (days_from_civil y1 m1 1 + (d - 1) + days) * 86400 + tod t
  end.

Definition instant_of (y m d secs : Z) : Z := days_from_civil y m d * 86400 + secs.

(* the rule of e_crl_next_update_invalid: true = finding *)
Definition next_update_too_late (subscriber : bool) (this next : Z) : bool :=
  if subscriber then next >? add_date this 0 0 10 else next >? add_date this 0 12 0.
