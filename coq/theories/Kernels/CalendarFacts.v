From Coq Require Import List ZArith Bool Lia.
From ZL Require Import Kernels.Tld Kernels.Calendar.
Import ListNotations.
Open Scope Z_scope.

Lemma all_from_spec n : forall z f, all_from n z f = true -> forall x, z <= x < z + Z.of_nat n -> f x = true.
Proof.
  induction n as [|k IH]; intros z f H x Hx.
  - simpl in Hx. lia.
  - cbn [all_from] in H. apply andb_true_iff in H. destruct H as [Hk Hr].
    destruct (Z.eq_dec x z) as [->|Hne]; [exact Hk|].
    apply (IH (z + 1) f Hr). rewrite Nat2Z.inj_succ in Hx. lia.
Qed.

(* every day of a 400-year era: the decomposition is a valid civil date and composes back to the day *)
Lemma era_sweep : all_from (Z.to_nat 146097) 0 era_check = true.
Proof. vm_compute. reflexivity. Qed.

Lemma era_check_all doe : 0 <= doe < 146097 -> era_check doe = true.
Proof.
  intros H. apply (all_from_spec _ _ _ era_sweep). rewrite Z2Nat.id by lia. lia.
Qed.

Lemma is_leap_era e k : is_leap (k + e * 400) = is_leap k.
Proof.
  unfold is_leap.
  replace ((k + e * 400) mod 4) with (k mod 4) by (rewrite <- (Z_mod_plus_full k (e * 100) 4); f_equal; lia).
  replace ((k + e * 400) mod 100) with (k mod 100) by (rewrite <- (Z_mod_plus_full k (e * 4) 100); f_equal; lia).
  replace ((k + e * 400) mod 400) with (k mod 400) by (rewrite <- (Z_mod_plus_full k e 400); f_equal; lia).
  reflexivity.
Qed.

Lemma days_in_era e k m : days_in (k + e * 400) m = days_in k m.
Proof. unfold days_in. rewrite is_leap_era. reflexivity. Qed.

(* days_from_civil splits into era and position inside the era *)
Lemma days_from_civil_era yoe era m d :
  0 <= yoe <= 399 ->
  days_from_civil (yoe + era * 400 + (if m <=? 2 then 1 else 0)) m d = era * 146097 + doe_of yoe m d - 719468.
Proof.
  intros Hy. unfold days_from_civil, doe_of. cbv zeta.
  assert (Hq : (yoe + era * 400) / 400 = era).
  { rewrite Z.div_add by lia. rewrite Z.div_small by lia. lia. }
  destruct (m <=? 2).
  - replace (yoe + era * 400 + 1 - 1) with (yoe + era * 400) by lia. rewrite Hq.
    replace (yoe + era * 400 - era * 400) with yoe by lia. lia.
  - replace (yoe + era * 400 + 0) with (yoe + era * 400) by lia. rewrite Hq.
    replace (yoe + era * 400 - era * 400) with yoe by lia. lia.
Qed.

Record valid_date (y m d : Z) : Prop := {
  vd_month : 1 <= m <= 12;
  vd_day : 1 <= d <= days_in y m
}.

Theorem civil_of_days_valid z : match civil_of_days z with (y, m, d) => valid_date y m d end.
Proof.
  unfold civil_of_days.
  set (z' := z + 719468). set (era := z' / 146097). set (doe := z' - era * 146097).
  assert (Hd : 0 <= doe < 146097).
  { unfold doe, era. pose proof (Z.mod_pos_bound z' 146097 ltac:(lia)) as Hm. rewrite Z.mod_eq in Hm by lia. lia. }
  pose proof (era_check_all doe Hd) as Hc. unfold era_check in Hc.
  destruct (civil_of_doe doe) as [[yoe m] d].
  repeat (apply andb_true_iff in Hc; destruct Hc as [Hc ?]).
  split; [lia|].
  replace (yoe + era * 400 + (if m <=? 2 then 1 else 0)) with ((yoe + (if m <=? 2 then 1 else 0)) + era * 400) by lia.
  rewrite days_in_era. lia.
Qed.

Theorem days_from_civil_of_days z : match civil_of_days z with (y, m, d) => days_from_civil y m d = z end.
Proof.
  unfold civil_of_days.
  set (z' := z + 719468). set (era := z' / 146097). set (doe := z' - era * 146097).
  assert (Hd : 0 <= doe < 146097).
  { unfold doe, era. pose proof (Z.mod_pos_bound z' 146097 ltac:(lia)) as Hm. rewrite Z.mod_eq in Hm by lia. lia. }
  pose proof (era_check_all doe Hd) as Hc. unfold era_check in Hc.
  destruct (civil_of_doe doe) as [[yoe m] d].
  repeat (apply andb_true_iff in Hc; destruct Hc as [Hc ?]).
  rewrite days_from_civil_era by lia.
  assert (doe_of yoe m d = doe) by lia. unfold doe, z' in *. lia.
Qed.

Theorem civil_date z : match civil_of_days z with (y, m, d) => valid_date y m d /\ days_from_civil y m d = z end.
Proof.
  pose proof (civil_of_days_valid z) as Hv. pose proof (days_from_civil_of_days z) as Hr.
  destruct (civil_of_days z) as [[y m] d]. exact (conj Hv Hr).
Qed.

(* days_from_civil counts the day of the month linearly (what time.Date does with an out-of-range day) *)
Lemma days_from_civil_day y m d k : days_from_civil y m (d + k) = days_from_civil y m d + k.
Proof. unfold days_from_civil. cbv zeta. lia. Qed.

Lemma split_instant t : t = day_of t * 86400 + tod t.
Proof. unfold day_of, tod. pose proof (Z.div_mod t 86400 ltac:(lia)). lia. Qed.

(* ---- AddDate *)
Theorem add_date_days t n : add_date t 0 0 n = t + 86400 * n.
Proof.
  unfold add_date.
  pose proof (days_from_civil_of_days (day_of t)) as Hr.
  pose proof (civil_of_days_valid (day_of t)) as Hv.
  destruct (civil_of_days (day_of t)) as [[y m] d]. destruct Hv as [Hm _].
  assert (H0 : (m - 1 + 0) / 12 = 0) by (apply Z.div_small; lia).
  assert (H1 : (m - 1 + 0) mod 12 + 1 = m) by (rewrite Z.mod_small by lia; lia).
  cbv zeta. rewrite H0, H1. replace (y + 0 + 0) with y by lia.
  replace (days_from_civil y m 1 + (d - 1) + n) with (days_from_civil y m (1 + (d - 1)) + n) by (rewrite days_from_civil_day; lia).
  replace (1 + (d - 1)) with d by lia. rewrite Hr.
  rewrite (split_instant t) at 3. lia.
Qed.

Theorem add_date_12_months t :
  match civil_of_days (day_of t) with (y, m, d) => add_date t 0 12 0 = instant_of (y + 1) m d (tod t) end.
Proof.
  unfold add_date, instant_of.
  pose proof (civil_of_days_valid (day_of t)) as Hv.
  destruct (civil_of_days (day_of t)) as [[y m] d]. destruct Hv as [Hm _].
  assert (H0 : (m - 1 + 12) / 12 = 1).
  { replace (m - 1 + 12) with (m - 1 + 1 * 12) by lia. rewrite Z.div_add by lia. rewrite Z.div_small by lia. lia. }
  assert (H1 : (m - 1 + 12) mod 12 + 1 = m).
  { replace (m - 1 + 12) with (m - 1 + 1 * 12) by lia. rewrite Z_mod_plus_full. rewrite Z.mod_small by lia. lia. }
  cbv zeta. rewrite H0, H1. replace (y + 0 + 1) with (y + 1) by lia.
  replace (days_from_civil (y + 1) m 1 + (d - 1) + 0) with (days_from_civil (y + 1) m (1 + (d - 1))) by (rewrite days_from_civil_day; lia).
  replace (1 + (d - 1)) with d by lia. reflexivity.
Qed.

(* the subscriber rule is exactly "more than 864000 seconds"; the CA rule is "later than the same civil date and time
   of day one year on" (29 February counts on into 1 March, as the day is not normalised) *)
Theorem subscriber_rule_exact this next : next_update_too_late true this next = true <-> next > this + 864000.
Proof. unfold next_update_too_late. rewrite add_date_days. rewrite Z.gtb_lt. lia. Qed.

Theorem ca_rule_exact this next :
  match civil_of_days (day_of this) with
  | (y, m, d) => next_update_too_late false this next = true <-> next > instant_of (y + 1) m d (tod this)
  end.
Proof.
  pose proof (add_date_12_months this) as H. unfold next_update_too_late.
  destruct (civil_of_days (day_of this)) as [[y m] d]. rewrite H. rewrite Z.gtb_lt. lia.
Qed.

(* non-vacuity and the leap-day case: 2024-02-29T12:00:00Z + 12 months = 2025-03-01T12:00:00Z *)
Example leap_day_year : add_date 1709208000 0 12 0 = 1740830400.
Proof. vm_compute. reflexivity. Qed.
Example civil_example : civil_of_days 19782 = (2024, 2, 29).
Proof. vm_compute. reflexivity. Qed.
Example ten_days_example : next_update_too_late true 1709596800 (1709596800 + 864000) = false /\ next_update_too_late true 1709596800 (1709596800 + 864001) = true.
Proof. vm_compute. split; reflexivity. Qed.
