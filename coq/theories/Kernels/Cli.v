(* The command-line tool (v3/cmd/zlint/main.go, v3/formattedoutput): input decoding by format, fail-closed
   behaviour, output = what the library computes, summary counts.  Parsers, the linter, the JSON marshaller
   and the PEM armour are oracles (Section variables); base64 is Kernels/Base64. *)
From ZL Require Import Base.Bytes Base.BytesFacts Kernels.StatusJson.
Open Scope Z_scope.

Inductive format := FPem | FDer | FBase64 | FUnknown.

Definition ascii_lower (s : bytes) : bytes := map lower_ascii s.

(* strings.ToLower(format) then the switch in doLint *)
Definition format_of_flag (s : bytes) : format :=
  let l := ascii_lower s in
  if beqb l (s2b "pem") then FPem else if beqb l (s2b "der") then FDer else if beqb l (s2b "base64") then FBase64 else FUnknown.

(* per-file override by suffix *)
Definition file_format (flag : format) (path : bytes) : format :=
  if has_suffix (s2b ".der") path then FDer else if has_suffix (s2b ".pem") path then FPem else flag.

Section Cli.
  Variables cert crl results : Type.
  Variable pem_decode : bytes -> option (bytes * bytes).      (* first block: type, DER *)
  Variable b64_decode : bytes -> option bytes.
  Variable parse_cert : bytes -> option cert.
  Variable parse_crl : bytes -> option crl.
  Variable lint_cert : cert -> results.                       (* zlint.LintCertificateEx with the selected registry *)
  Variable lint_crl : crl -> results.
  Variable marshal : results -> bytes.                        (* json.Marshal(ResultSet.Results) *)

  Inductive fail := EDecode | EPemType | EParse | EFormat.

  (* doLint for one input: the bytes written to stdout, or the failure (log.Fatal: exit status 1, nothing printed) *)
  Definition do_lint (f : format) (input : bytes) : bytes + fail :=
    let cert_path (der : bytes) :=
      match parse_cert der with Some c => inl (marshal (lint_cert c) ++ [10%N])%list | None => inr EParse end in
    match f with
    | FPem =>
      match pem_decode input with
      | None => inr EDecode
      | Some (ty, der) =>
        if beqb ty (s2b "CERTIFICATE") then cert_path der
        else if beqb ty (s2b "X509 CRL") then
          match parse_crl der with Some r => inl (marshal (lint_crl r) ++ [10%N])%list | None => inr EParse end
        else inr EPemType
      end
    | FDer => cert_path input
    | FBase64 => match b64_decode input with Some der => cert_path der | None => inr EDecode end
    | FUnknown => inr EFormat
    end.

  (* several inputs: outputs are printed in order; the first failure ends the process with a non-zero status *)
  Fixpoint run_inputs (ins : list (format * bytes)) : list bytes * Z :=
    match ins with
    | [] => ([], 0)
    | (f, x) :: r =>
      match do_lint f x with
      | inr _ => ([], 1)
      | inl out => let (outs, code) := run_inputs r in (out :: outs, code)
      end
    end.

  (* ---- facts ---- *)
  Theorem same_as_library f input out :
    do_lint f input = inl out ->
    (exists c, out = (marshal (lint_cert c) ++ [10%N])%list) \/ (exists r, out = (marshal (lint_crl r) ++ [10%N])%list).
  Proof.
    unfold do_lint. destruct f.
    - destruct (pem_decode input) as [[ty der]|]; [|discriminate].
      destruct (beqb ty (s2b "CERTIFICATE")).
      + destruct (parse_cert der); [|discriminate]. intro H; inversion H. left. eauto.
      + destruct (beqb ty (s2b "X509 CRL")); [|discriminate].
        destruct (parse_crl der); [|discriminate]. intro H; inversion H. right. eauto.
    - destruct (parse_cert input); [|discriminate]. intro H; inversion H. left. eauto.
    - destruct (b64_decode input); [|discriminate]. destruct (parse_cert b); [|discriminate]. intro H; inversion H. left. eauto.
    - discriminate.
  Qed.

  (* the same certificate in the three encodings gives the same output *)
  Theorem format_independent der pem b64 :
    pem_decode pem = Some (s2b "CERTIFICATE", der) -> b64_decode b64 = Some der ->
    do_lint FPem pem = do_lint FDer der /\ do_lint FBase64 b64 = do_lint FDer der.
  Proof.
    intros P B. unfold do_lint. rewrite P, B. split; reflexivity.
  Qed.

  (* fail closed: undecodable or unparseable input produces no output and a non-zero status *)
  Theorem fail_closed_cert f input :
    (match f with
     | FPem => match pem_decode input with Some (ty, der) => beqb ty (s2b "CERTIFICATE") = true /\ parse_cert der = None | None => True end
     | FDer => parse_cert input = None
     | FBase64 => match b64_decode input with Some der => parse_cert der = None | None => True end
     | FUnknown => True end) ->
    exists e, do_lint f input = inr e.
  Proof.
    unfold do_lint. destruct f; intro H.
    - destruct (pem_decode input) as [[ty der]|]; [|eauto]. destruct H as [H1 H2]. rewrite H1, H2. eauto.
    - rewrite H. eauto.
    - destruct (b64_decode input); [rewrite H|]; eauto.
    - eauto.
  Qed.

  Theorem run_inputs_exit ins outs :
    run_inputs ins = (outs, 0) <-> (length outs = length ins /\ Forall2 (fun i o => do_lint (fst i) (snd i) = inl o) ins outs).
  Proof.
    revert outs. induction ins as [|[f x] r IH]; intro outs; simpl.
    - split.
      + intro H; inversion H; subst. split; [reflexivity | constructor].
      + intros [_ H]. inversion H. reflexivity.
    - destruct (do_lint f x) as [out|e] eqn:E.
      + destruct (run_inputs r) as [os code] eqn:R. split.
        * intro H; inversion H; subst. destruct (proj1 (IH os) eq_refl) as [L F]. split; [simpl; congruence | constructor; auto].
        * intros [L F]. inversion F as [|? o ? os' Ho Fr]; subst. simpl in Ho. rewrite E in Ho. inversion Ho; subst.
          simpl in L. assert (X : (os, code) = (os', 0)) by (apply IH; split; [congruence | exact Fr]). inversion X; subst. reflexivity.
      + split; [discriminate|]. intros [_ F]. inversion F as [|? o ? os' Ho Fr]; subst. simpl in Ho. rewrite E in Ho. discriminate.
  Qed.
End Cli.

(* ---- summary tables: one row per level above pass, with the count of the printed results ---- *)
Definition count_status (s : Z) (sts : list Z) : nat := length (filter (fun x => x =? s) sts).
Definition summary_rows (sts : list Z) : list (bytes * nat) := map (fun s => (label s, count_status s sts)) [4; 5; 6; 7].

Theorem summary_counts sts :
  summary_rows sts = [(s2b "info", count_status 4 sts); (s2b "warn", count_status 5 sts);
                      (s2b "error", count_status 6 sts); (s2b "fatal", count_status 7 sts)].
Proof. reflexivity. Qed.

(* ---- correspondence cases: one input per case, the oracles' answers supplied by the harness ---- *)
(* flag string, path (empty = standard input), PEM block (type, DER parses as certificate, as CRL), base64 decodes
   (and the result parses), the raw input parses as a DER certificate; observed: 0 = failure, 1 = the library's
   certificate result was printed, 2 = the library's CRL result was printed *)
Definition cli_case := (bytes * bytes * option (bytes * bool * bool) * option bool * bool * Z)%type.

Definition check_cli (c : cli_case) : bool :=
  match c with
  | (flag, path, pem, b64, raw_ok, observed) =>
    let f := match path with [] => format_of_flag flag | _ => file_format (format_of_flag flag) path end in
    let parse_cert (der : bytes) : option N :=
      match der with
      | [0%N] => if raw_ok then Some 1%N else None
      | [1%N] => match pem with Some (_, ok, _) => if ok then Some 1%N else None | None => None end
      | [2%N] => match b64 with Some ok => if ok then Some 1%N else None | None => None end
      | _ => None
      end in
    let parse_crl (der : bytes) : option N := match pem with Some (_, _, ok) => if ok then Some 2%N else None | None => None end in
    let r := do_lint N N N (fun _ => match pem with Some (ty, _, _) => Some (ty, [1%N]) | None => None end)
                     (fun _ => match b64 with Some _ => Some [2%N] | None => None end)
                     parse_cert parse_crl (fun x => x) (fun x => x) (fun x => [x]) f [0%N] in
    match r with
    | inl [1%N; 10%N] => observed =? 1
    | inl [2%N; 10%N] => observed =? 2
    | inl _ => false
    | inr _ => observed =? 0
    end
  end.
