(* C17 / C20: four more lints that relate the subject common name(s) to the subjectAltName entries, modelled in full:
   e_subject_common_name_not_exactly_from_san, e_subject_common_name_not_from_san (retired; case-insensitive),
   n_contains_redacted_dnsname, e_ev_not_wildcard.  Statuses: 1 NA, 3 pass, 4 notice, 6 error.
   Oracles: the text form of an iPAddress entry (net.IP.String), the public-suffix parser's accept / reject of a name,
   strings.EqualFold (a parameter; the correspondence instantiates it with ASCII folding on ASCII names). *)
From ZL Require Import Base.Bytes Base.BytesFacts.
From Coq Require Import ZArith List Bool Sorting.Permutation.
Import ListNotations.
Open Scope Z_scope.

Record cview := mkCview {
  cv_cns : list bytes;           (* subject commonName values, in subject order *)
  cv_dns : list bytes;           (* SAN dNSName entries *)
  cv_ips : list bytes;           (* SAN iPAddress entries in text form *)
  cv_parse_ok : list bool;       (* public-suffix parser accepted the dNSName (same order as cv_dns) *)
  cv_cn_parse_ok : bool;         (* ... the last common name *)
  cv_is_ca : bool;
  cv_subscriber : bool;
  cv_ev : bool
}.

Definition last_cn (v : cview) : bytes := last (cv_cns v) [].

(* e_subject_common_name_not_exactly_from_san: every common name is, octet for octet, a dNSName or the text of an
   iPAddress entry; the details name the first one that is not *)
Definition missing (v : cview) (cn : bytes) : bool := negb (mem cn (cv_dns v) || mem cn (cv_ips v)).

Definition l_cn_exact (v : cview) : Z * bytes :=
  if negb (match cv_cns v with [] => false | _ => true end) || cv_is_ca v then (1, [])
  else match find (missing v) (cv_cns v) with
       | Some cn => (6, cn)
       | None => (3, [])
       end.

Section Fold.
Variable fold_eq : bytes -> bytes -> bool.

(* e_subject_common_name_not_from_san: the (last) common name equals a dNSName up to case, or an address text exactly *)
Definition l_cn_from_san (v : cview) : Z :=
  if beqb (last_cn v) [] || cv_is_ca v then 1
  else if existsb (fold_eq (last_cn v)) (cv_dns v) || mem (last_cn v) (cv_ips v) then 3 else 6.
End Fold.

(* n_contains_redacted_dnsname *)
Definition strip_wildcard (d : bytes) : bytes := match d with 42%N :: 46%N :: r => r | _ => d end.
Definition redacted (d : bytes) : bool := match strip_wildcard d with 63%N :: 46%N :: _ => true | _ => false end.

Definition l_redacted (v : cview) : Z :=
  if negb (cv_subscriber v) then 1
  else if (negb (beqb (last_cn v) []) && redacted (last_cn v)) || existsb redacted (cv_dns v) then 4 else 3.

(* e_ev_not_wildcard: a name the public-suffix parser accepts, containing '*', and not under .onion *)
Definition has_star (d : bytes) : bool := existsb (N.eqb 42) d.
Definition onion_suffix : bytes := s2b ".onion".
Definition wild (okd : bool * bytes) : bool := fst okd && has_star (snd okd) && negb (has_suffix onion_suffix (snd okd)).

Definition l_ev_wildcard (v : cview) : Z :=
  if negb (cv_ev v) then 1
  else if existsb wild (combine (cv_parse_ok v) (cv_dns v) ++ [(cv_cn_parse_ok v, last_cn v)]) then 6 else 3.

(* ---------------- facts ---------------- *)

Lemma cs_mem_perm x l l' : Permutation l l' -> mem x l = mem x l'.
Proof.
  intro P. destruct (mem x l) eqn:A; destruct (mem x l') eqn:B; try reflexivity.
  - apply mem_In in A. apply (Permutation_in _ P) in A. apply mem_In in A. congruence.
  - apply mem_In in B. apply (Permutation_in _ (Permutation_sym P)) in B. apply mem_In in B. congruence.
Qed.

Lemma cs_existsb_perm {A} (f : A -> bool) l l' : Permutation l l' -> existsb f l = existsb f l'.
Proof.
  induction 1 as [|x l l' P IH|x y l|l l' l'' P1 IH1 P2 IH2]; cbn [existsb]; auto.
  - rewrite IH. reflexivity.
  - destruct (f x), (f y); reflexivity.
  - congruence.
Qed.

Lemma cs_find_ext {A} (f g : A -> bool) l : (forall x, f x = g x) -> find f l = find g l.
Proof. intro E. induction l as [|x l IH]; cbn [find]; [reflexivity|]. rewrite E, IH. reflexivity. Qed.

(* the SAN entries in another order: the dNSNames (with their parser verdicts) and the addresses permuted *)
Definition reordered (v v' : cview) : Prop :=
  cv_cns v = cv_cns v' /\ cv_cn_parse_ok v = cv_cn_parse_ok v' /\ cv_is_ca v = cv_is_ca v' /\
  cv_subscriber v = cv_subscriber v' /\ cv_ev v = cv_ev v' /\
  length (cv_parse_ok v) = length (cv_dns v) /\ length (cv_parse_ok v') = length (cv_dns v') /\
  Permutation (combine (cv_parse_ok v) (cv_dns v)) (combine (cv_parse_ok v') (cv_dns v')) /\
  Permutation (cv_ips v) (cv_ips v').

Lemma cs_combine_snd {A B} (a : list A) (b : list B) : length a = length b -> map snd (combine a b) = b.
Proof.
  revert b. induction a as [|x a IH]; intros [|y b] L; cbn in *; try discriminate; [reflexivity|].
  f_equal. apply IH. congruence.
Qed.

Lemma reordered_dns v v' : reordered v v' -> Permutation (cv_dns v) (cv_dns v').
Proof.
  intros (_ & _ & _ & _ & _ & L & L' & P & _).
  rewrite <- (cs_combine_snd _ _ L), <- (cs_combine_snd _ _ L'). apply Permutation_map. exact P.
Qed.

(* status AND details of the exact-match lint do not depend on the order of the SAN entries *)
Theorem l_cn_exact_perm v v' : reordered v v' -> l_cn_exact v = l_cn_exact v'.
Proof.
  intro R. pose proof (reordered_dns v v' R) as Pd.
  destruct R as (C & _ & CA & _ & _ & _ & _ & _ & Pi).
  unfold l_cn_exact. rewrite <- C, <- CA.
  destruct (negb (match cv_cns v with [] => false | _ => true end) || cv_is_ca v); [reflexivity|].
  rewrite (cs_find_ext (missing v) (missing v')); [reflexivity|].
  intro cn. unfold missing. rewrite (cs_mem_perm cn _ _ Pd), (cs_mem_perm cn _ _ Pi). reflexivity.
Qed.

Theorem l_cn_from_san_perm fold_eq v v' : reordered v v' -> l_cn_from_san fold_eq v = l_cn_from_san fold_eq v'.
Proof.
  intro R. pose proof (reordered_dns v v' R) as Pd.
  destruct R as (C & _ & CA & _ & _ & _ & _ & _ & Pi).
  unfold l_cn_from_san, last_cn. rewrite <- C, <- CA.
  rewrite (cs_existsb_perm _ _ _ Pd), (cs_mem_perm _ _ _ Pi). reflexivity.
Qed.

Theorem l_redacted_perm v v' : reordered v v' -> l_redacted v = l_redacted v'.
Proof.
  intro R. pose proof (reordered_dns v v' R) as Pd.
  destruct R as (C & _ & _ & S & _).
  unfold l_redacted, last_cn. rewrite <- C, <- S, (cs_existsb_perm _ _ _ Pd). reflexivity.
Qed.

Theorem l_ev_wildcard_perm v v' : reordered v v' -> l_ev_wildcard v = l_ev_wildcard v'.
Proof.
  intros (C & CP & _ & _ & E & _ & _ & P & _).
  unfold l_ev_wildcard, last_cn. rewrite <- C, <- CP, <- E.
  rewrite !existsb_app, (cs_existsb_perm _ _ _ P). reflexivity.
Qed.

(* what the exact-match lint decides: pass iff every common name is listed octet for octet *)
Theorem l_cn_exact_spec v : cv_cns v <> [] -> cv_is_ca v = false ->
  (fst (l_cn_exact v) = 3 <-> forall cn, In cn (cv_cns v) -> In cn (cv_dns v) \/ In cn (cv_ips v)).
Proof.
  intros NE CA. unfold l_cn_exact. rewrite CA.
  destruct (cv_cns v) as [|c0 cs] eqn:E; [contradiction|]. cbn [negb orb].
  destruct (find (missing v) (c0 :: cs)) as [cn|] eqn:F; cbn [fst].
  - split; [discriminate|]. intro H. apply find_some in F. destruct F as [I M].
    unfold missing in M. apply negb_true_iff in M. apply orb_false_iff in M. destruct M as [M1 M2].
    destruct (H cn I) as [A|A]; apply mem_In in A; congruence.
  - split; [|reflexivity]. intros _ cn I.
    pose proof (find_none _ _ F cn I) as M. unfold missing in M. apply negb_false_iff in M.
    apply orb_true_iff in M. destruct M as [M|M]; apply mem_In in M; auto.
Qed.

(* exact is stricter than case-insensitive: for a single common name, whatever passes the exact lint passes the older one
   (given that folding is reflexive) *)
Theorem exact_implies_from_san fold_eq v cn :
  (forall x, fold_eq x x = true) -> cv_cns v = [cn] -> cn <> [] -> cv_is_ca v = false ->
  fst (l_cn_exact v) = 3 -> l_cn_from_san fold_eq v = 3.
Proof.
  intros FR C NE CA H. unfold l_cn_exact in H. unfold l_cn_from_san, last_cn. rewrite C in *. rewrite CA in *.
  cbn [last negb orb find] in *.
  assert (B : beqb cn [] = false) by (apply beqb_neq; exact NE). rewrite B. cbn [orb].
  destruct (missing v cn) eqn:M; cbn [fst] in H; [discriminate|].
  unfold missing in M. apply negb_false_iff in M. apply orb_true_iff in M. destruct M as [M|M].
  - assert (X : existsb (fold_eq cn) (cv_dns v) = true).
    { apply existsb_exists. exists cn. split; [apply mem_In; exact M | apply FR]. }
    rewrite X. reflexivity.
  - rewrite M, orb_true_r. reflexivity.
Qed.

Example cn_example :
  let v := mkCview [s2b "www.example.com"] [s2b "a.example.com"; s2b "WWW.example.com"] [s2b "10.0.0.1"] [true; true] true false true false in
  l_cn_exact v = (6, s2b "www.example.com") /\ l_redacted v = 3 /\ l_ev_wildcard v = 1.
Proof. vm_compute. repeat split. Qed.
