(* C06 / C20 / C02: twenty lints of the form "extension X, when present (in a certificate of role R), must / must not be
   marked critical", modelled as one table-driven rule with its CheckApplies (all twenty bodies dereference the extension
   the gate tests for).  Statuses: 1 NA, 3 pass, 5 warn, 6 error. *)
From Coq Require Import List ZArith Bool Lia.
Import ListNotations.
Open Scope Z_scope.

(* extension indices: 0 authorityInfoAccess, 1 authorityKeyIdentifier, 2 cRLDistributionPoints, 3 freshestCRL,
   4 issuerAltName, 5 nameConstraints, 6 policyConstraints, 7 policyMappings, 8 subjectDirectoryAttributes,
   9 subjectKeyIdentifier, 10 inhibitAnyPolicy, 11 subjectInfoAccess, 12 certificatePolicies, 13 extKeyUsage *)
Record crit_view := mkCrit { cr_is_ca : bool; cr_self_signed : bool; cr_exts : list (bool * bool) (* present, critical *) }.

Inductive role := AnyCert | SubCA | Subscriber.
Record rule := mkRule { r_role : role; r_ext : nat; r_must_be_critical : bool; r_finding : Z }.

Definition role_ok (r : role) (v : crit_view) : bool :=
  match r with
  | AnyCert => true
  | SubCA => cr_is_ca v && negb (cr_self_signed v)
  | Subscriber => negb (cr_is_ca v) && negb (cr_self_signed v)
  end.

Definition ext_of (v : crit_view) (i : nat) : bool * bool := nth i (cr_exts v) (false, false).

Definition crit_lint (r : rule) (v : crit_view) : Z :=
  if role_ok (r_role r) v && fst (ext_of v (r_ext r))
  then (if Bool.eqb (snd (ext_of v (r_ext r))) (r_must_be_critical r) then 3 else r_finding r)
  else 1.

Definition crit_table : list rule :=
  [ mkRule AnyCert 0 false 6     (* e_ext_aia_marked_critical *)
  ; mkRule AnyCert 1 false 6     (* e_ext_authority_key_identifier_critical *)
  ; mkRule AnyCert 2 false 5     (* w_ext_crl_distribution_marked_critical *)
  ; mkRule AnyCert 3 false 6     (* e_ext_freshest_crl_marked_critical *)
  ; mkRule AnyCert 4 false 5     (* w_ext_ian_critical *)
  ; mkRule AnyCert 5 true 6      (* e_ext_name_constraints_not_critical *)
  ; mkRule AnyCert 6 true 6      (* e_ext_policy_constraints_not_critical *)
  ; mkRule AnyCert 7 true 5      (* w_ext_policy_map_not_critical *)
  ; mkRule AnyCert 8 false 6     (* e_ext_subject_directory_attr_critical *)
  ; mkRule AnyCert 9 false 6     (* e_ext_subject_key_identifier_critical *)
  ; mkRule AnyCert 10 true 6     (* e_inhibit_any_policy_not_critical *)
  ; mkRule AnyCert 11 false 6    (* e_subject_info_access_marked_critical *)
  ; mkRule SubCA 0 false 6       (* e_sub_ca_aia_marked_critical *)
  ; mkRule SubCA 12 false 5      (* w_sub_ca_certificate_policies_marked_critical *)
  ; mkRule SubCA 2 false 6       (* e_sub_ca_crl_distribution_points_marked_critical *)
  ; mkRule SubCA 5 true 5        (* w_sub_ca_name_constraints_not_critical *)
  ; mkRule Subscriber 0 false 6  (* e_sub_cert_aia_marked_critical *)
  ; mkRule AnyCert 12 false 5    (* w_sub_cert_certificate_policies_marked_critical: no role test in its CheckApplies *)
  ; mkRule AnyCert 2 false 6     (* e_sub_cert_crl_distribution_points_marked_critical: likewise *)
  ; mkRule Subscriber 13 false 6 (* e_eku_critical *) ].

Definition all_crit_lints (v : crit_view) : list Z := map (fun r => crit_lint r v) crit_table.

Theorem crit_range r v : r_finding r = 5 \/ r_finding r = 6 -> crit_lint r v = 1 \/ crit_lint r v = 3 \/ crit_lint r v = 5 \/ crit_lint r v = 6.
Proof.
  intro H. unfold crit_lint. destruct (role_ok (r_role r) v && fst (ext_of v (r_ext r))); [|auto].
  destruct (Bool.eqb (snd (ext_of v (r_ext r))) (r_must_be_critical r)); [auto|]. destruct H as [-> | ->]; auto.
Qed.

(* two rules about the same extension that demand the same marking: wherever both apply, both find or both pass *)
Theorem same_marking_rules_agree r1 r2 v :
  r_ext r1 = r_ext r2 -> r_must_be_critical r1 = r_must_be_critical r2 -> r_finding r1 <> 3 -> r_finding r2 <> 3 ->
  crit_lint r1 v <> 1 -> crit_lint r2 v <> 1 -> (crit_lint r1 v = 3 <-> crit_lint r2 v = 3).
Proof.
  intros He Hm Hf1 Hf2. unfold crit_lint. rewrite He, Hm.
  destruct (role_ok (r_role r1) v && fst (ext_of v (r_ext r2))); [|intros H; contradiction].
  destruct (role_ok (r_role r2) v && fst (ext_of v (r_ext r2))); [|intros _ H; contradiction].
  intros _ _. destruct (Bool.eqb (snd (ext_of v (r_ext r2))) (r_must_be_critical r2)); tauto.
Qed.

(* the table never asks for opposite markings of one extension: all twenty rules can be satisfied together *)
Definition consistent (t : list rule) : bool :=
  forallb (fun a => forallb (fun b => negb (Nat.eqb (r_ext a) (r_ext b)) || Bool.eqb (r_must_be_critical a) (r_must_be_critical b)) t) t.

Theorem table_consistent : consistent crit_table = true.
Proof. vm_compute. reflexivity. Qed.

Theorem findings_are_warn_or_error : forallb (fun r => (r_finding r =? 5) || (r_finding r =? 6)) crit_table = true.
Proof. vm_compute. reflexivity. Qed.

(* a marking that satisfies every rule: critical exactly where some rule demands it *)
Definition good_marking : list (bool * bool) :=
  map (fun i => (true, existsb (fun r => Nat.eqb (r_ext r) i && r_must_be_critical r) crit_table)) (seq 0 14).

Theorem good_marking_passes : forall ca ss, forallb (fun s => (s =? 1) || (s =? 3)) (all_crit_lints (mkCrit ca ss good_marking)) = true.
Proof. intros [|] [|]; vm_compute; reflexivity. Qed.
