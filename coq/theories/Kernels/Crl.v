(* C01 / C02 / C05: eight of the ten revocation-list lints and the OCSP-response lint, modelled in full as functions of
   the parsed view (the other two CRL lints re-decode the raw list with library decoders only).  Revocation lists and
   OCSP responses are linted without a recovery net, so these bodies must be total: as Gallina functions of the view
   they are, and the correspondence ties them to the code.

     e_cab_crl_reason_code_not_critical, e_cab_crl_has_valid_reason_code, e_crl_next_update_invalid   (cabf_br;
       the last one with its calendar arithmetic - time.AddDate of 10 days / 12 months - modelled in Kernels/Calendar.v)
     e_crl_unique_revoked_certificate                                                                 (community)
     e_crl_has_authority_key_identifier, e_crl_has_next_update, e_crl_missing_crl_number,
     e_crl_has_valid_reason_code                                                                      (rfc)
     e_this_update_not_after_produced_at                                                              (rfc, OCSP)

   Statuses: 1 NA, 3 pass, 5 warn, 6 error. *)
From Coq Require Import List ZArith Bool Lia Sorting.Permutation.
From ZL Require Import Kernels.Calendar.
Import ListNotations.
Open Scope Z_scope.

Record crl_entry := mkEntry {
  ce_serial : Z;
  ce_reason : option Z;          (* the reasonCode entry extension, when present *)
  ce_reason_critical : bool      (* an entry extension with the reasonCode OID is marked critical *)
}.

Record crl_view := mkCrlView {
  cv_entries : list crl_entry;
  cv_next_present : bool;        (* nextUpdate is present *)
  cv_this : Z;                   (* thisUpdate, seconds since 1970-01-01T00:00:00Z *)
  cv_next : Z;                   (* nextUpdate, likewise (meaningless when absent) *)
  cv_has_aki : bool;
  cv_has_number : bool;
  cv_subscriber_crl : bool       (* configuration of e_crl_next_update_invalid (default true) *)
}.

Definition verdict (finding : Z) (applies : bool) (found : bool) : Z :=
  if negb applies then 1 else if found then finding else 3.

Definition nonempty {A} (l : list A) : bool := match l with [] => false | _ => true end.
Definition memz (x : Z) (l : list Z) : bool := existsb (Z.eqb x) l.

Definition c_reason_not_critical (v : crl_view) : Z :=
  verdict 6 (nonempty (cv_entries v))
    (existsb (fun e => match ce_reason e with Some _ => ce_reason_critical e | None => false end) (cv_entries v)).

Definition br_valid_reasons : list Z := [1; 3; 4; 5; 9].
Definition c_cab_valid_reason (v : crl_view) : Z :=
  verdict 6 (nonempty (cv_entries v))
    (existsb (fun e => match ce_reason e with Some c => negb (memz c br_valid_reasons) | None => false end) (cv_entries v)).

Definition c_next_update_invalid (v : crl_view) : Z :=
  verdict 6 (cv_next_present v) (next_update_too_late (cv_subscriber_crl v) (cv_this v) (cv_next v)).

Fixpoint has_dup_z (l : list Z) : bool :=
  match l with [] => false | x :: r => memz x r || has_dup_z r end.
Definition c_unique_serials (v : crl_view) : Z := verdict 5 true (has_dup_z (map ce_serial (cv_entries v))).

Definition c_has_aki (v : crl_view) : Z := verdict 6 true (negb (cv_has_aki v)).
Definition c_has_next_update (v : crl_view) : Z := verdict 6 true (negb (cv_next_present v)).
Definition c_has_number (v : crl_view) : Z := verdict 6 true (negb (cv_has_number v)).

(* RFC 5280 reason codes: the first entry (in list order) that uses 0 gives a warning, the first that uses 7 or a
   value above 10 an error - whichever comes first decides *)
Fixpoint c_rfc_valid_reason_entries (es : list crl_entry) : Z :=
  match es with
  | [] => 3
  | e :: r => match ce_reason e with
              | Some c => if c =? 0 then 5 else if (c =? 7) || (10 <? c) then 6 else c_rfc_valid_reason_entries r
              | None => c_rfc_valid_reason_entries r
              end
  end.
Definition c_rfc_valid_reason (v : crl_view) : Z :=
  if nonempty (cv_entries v) then c_rfc_valid_reason_entries (cv_entries v) else 1.

Definition all_crl_lints (v : crl_view) : list Z :=
  [c_reason_not_critical v; c_cab_valid_reason v; c_next_update_invalid v; c_unique_serials v;
   c_has_aki v; c_has_next_update v; c_has_number v; c_rfc_valid_reason v].

(* OCSP: thisUpdate must not be after producedAt (instants in nanoseconds) *)
Definition o_this_update_not_after_produced_at (this_update produced_at : Z) : Z :=
  if produced_at <? this_update then 6 else 3.

(* ---------------- facts ---------------- *)

Theorem crl_lints_range : forall v s, In s (all_crl_lints v) -> s = 1 \/ s = 3 \/ s = 5 \/ s = 6.
Proof.
  intros v s H. unfold all_crl_lints in H. simpl in H.
  destruct H as [H|[H|[H|[H|[H|[H|[H|[H|[]]]]]]]]]; subst s;
    unfold c_reason_not_critical, c_cab_valid_reason, c_next_update_invalid, c_unique_serials, c_has_aki, c_has_next_update, c_has_number, verdict;
    try (repeat match goal with |- context [if ?b then _ else _] => destruct b end; auto; fail).
  unfold c_rfc_valid_reason. destruct (nonempty (cv_entries v)); [|auto].
  induction (cv_entries v) as [|e r IH]; simpl; [auto|].
  destruct (ce_reason e) as [c|]; [|exact IH].
  destruct (c =? 0); [auto|]. destruct ((c =? 7) || (10 <? c)); [auto | exact IH].
Qed.

Lemma existsb_perm {A} (f : A -> bool) xs ys : Permutation xs ys -> existsb f xs = existsb f ys.
Proof.
  induction 1 as [|x l l' P IH|x y l|l l' l'' P1 IH1 P2 IH2]; simpl; auto.
  - rewrite IH. reflexivity.
  - destruct (f x), (f y); reflexivity.
  - congruence.
Qed.

Lemma memz_In x l : memz x l = true <-> In x l.
Proof.
  unfold memz. rewrite existsb_exists. split.
  - intros [y [I E]]. apply Z.eqb_eq in E. subst. exact I.
  - intro I. exists x. split; [exact I | apply Z.eqb_refl].
Qed.

Lemma has_dup_z_NoDup l : has_dup_z l = false <-> NoDup l.
Proof.
  induction l as [|x r IH]; simpl; [split; [constructor | reflexivity]|].
  rewrite orb_false_iff, IH. split.
  - intros [M N]. constructor; [|exact N]. intro I. apply memz_In in I. congruence.
  - intro H. inversion H; subst. split; [|assumption].
    destruct (memz x r) eqn:M; [apply memz_In in M; contradiction | reflexivity].
Qed.

Lemma has_dup_z_perm l l' : Permutation l l' -> has_dup_z l = has_dup_z l'.
Proof.
  intro P. destruct (has_dup_z l) eqn:A; destruct (has_dup_z l') eqn:B; try reflexivity.
  - apply has_dup_z_NoDup in B. apply (Permutation_NoDup (Permutation_sym P)) in B. apply has_dup_z_NoDup in B. congruence.
  - apply has_dup_z_NoDup in A. apply (Permutation_NoDup P) in A. apply has_dup_z_NoDup in A. congruence.
Qed.

Definition with_entries (v : crl_view) (es : list crl_entry) : crl_view :=
  mkCrlView es (cv_next_present v) (cv_this v) (cv_next v) (cv_has_aki v) (cv_has_number v) (cv_subscriber_crl v).

Lemma nonempty_perm {A} (l l' : list A) : Permutation l l' -> nonempty l = nonempty l'.
Proof.
  intro P. destruct l as [|x r]; destruct l' as [|y s]; try reflexivity.
  - apply Permutation_nil in P. discriminate.
  - apply Permutation_sym, Permutation_nil in P. discriminate.
Qed.

(* seven of the eight verdicts do not depend on the order of the revoked-certificate entries *)
Theorem crl_lints_entry_order : forall v es', Permutation (cv_entries v) es' ->
  firstn 7 (all_crl_lints (with_entries v es')) = firstn 7 (all_crl_lints v).
Proof.
  intros v es' P. assert (PS := Permutation_sym P).
  unfold all_crl_lints. cbn [firstn].
  unfold c_reason_not_critical, c_cab_valid_reason, c_next_update_invalid, c_unique_serials, c_has_aki, c_has_next_update, c_has_number.
  cbn [with_entries cv_entries cv_next_present cv_this cv_next cv_has_aki cv_has_number cv_subscriber_crl].
  rewrite (nonempty_perm _ _ PS), !(existsb_perm _ es' (cv_entries v) PS).
  rewrite (has_dup_z_perm (map ce_serial es') (map ce_serial (cv_entries v)) (Permutation_map _ PS)). reflexivity.
Qed.

(* the RFC reason-code lint reports something exactly when some entry uses 0, 7 or a value above 10 - whether it is a
   warning or an error depends on which such entry comes first *)
Definition rfc_offends (e : crl_entry) : bool :=
  match ce_reason e with Some c => (c =? 0) || (c =? 7) || (10 <? c) | None => false end.

Theorem c_rfc_valid_reason_finding : forall es, (c_rfc_valid_reason_entries es =? 3) = negb (existsb rfc_offends es).
Proof.
  induction es as [|e r IH]; simpl; [reflexivity|]. unfold rfc_offends at 1.
  destruct (ce_reason e) as [c|]; [|exact IH].
  destruct (c =? 0); [reflexivity|]. simpl. destruct ((c =? 7) || (10 <? c)); [reflexivity | exact IH].
Qed.

Theorem c_rfc_valid_reason_order_dependent :
  exists es es', Permutation es es' /\ c_rfc_valid_reason_entries es <> c_rfc_valid_reason_entries es'.
Proof.
  exists [mkEntry 1 (Some 0) false; mkEntry 2 (Some 7) false], [mkEntry 2 (Some 7) false; mkEntry 1 (Some 0) false].
  split; [apply perm_swap | vm_compute; discriminate].
Qed.
