(* C02 / C17 / C20: the two raw walkers e_ext_san_empty_name and e_ext_ian_empty_name (rfc) in full, including the DER
   reader they rest on - zcrypto's encoding/asn1 parseTagAndLength / parseBase128Int and the "data truncated" test of
   parseField for a RawValue (AllowPermissiveParsing is false in zlint).  Octets are N.

   read_tlv returns class, constructed flag, tag number, content and the rest, or None where the library reports an
   error.  The walker's loop `for len(rest) > 0 { rest, err = Unmarshal(rest, &v) ... }` becomes recursion on fuel; the
   result 0 (out of fuel) is shown never to occur with the fuel the lint model supplies (walk_fuel_enough).
   Statuses: 1 NA, 3 pass, 6 error, 7 fatal. *)
From Coq Require Import List NArith ZArith Bool Lia.
From ZL Require Import Base.Bytes.
Import ListNotations.
Open Scope N_scope.

(* parseBase128Int: at most five octets, no leading 0x80, value at most MaxInt32 *)
Fixpoint base128 (s : bytes) (shifted acc : N) : option (N * bytes) :=
  match s with
  | [] => None
  | b :: r =>
      if shifted =? 5 then None
      else if (shifted =? 0) && (b =? 128) then None
      else let acc' := acc * 128 + b mod 128 in
           if b <? 128 then (if 2147483647 <? acc' then None else Some (acc', r))
           else base128 r (shifted + 1) acc'
  end.

(* the long form of a length: n octets, most significant first *)
Fixpoint read_len (n : nat) (acc : N) (s : bytes) : option (N * bytes) :=
  match n with
  | O => Some (acc, s)
  | S k =>
      match s with
      | [] => None
      | b :: r =>
          if 8388608 <=? acc then None
          else let acc' := acc * 256 + b in
               if acc' =? 0 then None else read_len k acc' r
      end
  end.

Definition read_tag (b : N) (r : bytes) : option (N * bytes) :=
  if b mod 32 =? 31 then
    match base128 r 0 0 with
    | Some (t, r') => if t <? 31 then None else Some (t, r')
    | None => None
    end
  else Some (b mod 32, r).

Definition read_length (s : bytes) : option (N * bytes) :=
  match s with
  | [] => None
  | lb :: r =>
      if lb <? 128 then Some (lb, r)
      else if lb =? 128 then None
      else match read_len (N.to_nat (lb - 128)) 0 r with
           | Some (l, r') => if l <? 128 then None else Some (l, r')
           | None => None
           end
  end.

Record tlv := mkTlv { t_class : N; t_compound : bool; t_tag : N; t_content : bytes }.

Definition read_tlv (s : bytes) : option (tlv * bytes) :=
  match s with
  | [] => None
  | b :: r =>
      match read_tag b r with
      | None => None
      | Some (tag, r1) =>
          match read_length r1 with
          | None => None
          | Some (len, r2) =>
              if N.of_nat (length r2) <? len then None
              else Some (mkTlv (b / 64) ((b / 32) mod 2 =? 1) tag (firstn (N.to_nat len) r2), skipn (N.to_nat len) r2)
          end
      end
  end.

Fixpoint walk (fuel : nat) (rest : bytes) : Z :=
  match rest with
  | [] => 3%Z
  | _ =>
      match fuel with
      | O => 0%Z
      | S k =>
          match read_tlv rest with
          | None => 1%Z
          | Some (t, rest') => match t_content t with [] => 6%Z | _ => walk k rest' end
          end
      end
  end.

(* both lints: the extension value must be one constructed universal SEQUENCE, whose content is walked *)
Definition l_empty_name (value : bytes) : Z :=
  match read_tlv value with
  | None => 7%Z
  | Some (t, _) =>
      if negb (t_compound t) || negb (t_tag t =? 16) || negb (t_class t =? 0) then 7%Z
      else walk (length (t_content t)) (t_content t)
  end.

(* ---- a DER writer for what general names need: low tag numbers, contents shorter than 65536 octets *)
Definition enc_len (n : N) : bytes :=
  if n <? 128 then [n] else if n <? 256 then [129; n] else [130; n / 256; n mod 256].

Definition enc_tlv (t : tlv) : bytes :=
  (t_class t * 64 + (if t_compound t then 32 else 0) + t_tag t) :: enc_len (N.of_nat (length (t_content t))) ++ t_content t.

Definition encodable (t : tlv) : Prop :=
  t_class t < 4 /\ t_tag t < 31 /\ N.of_nat (length (t_content t)) < 65536.
