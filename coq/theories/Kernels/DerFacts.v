From Coq Require Import List NArith ZArith Bool Lia ZifyN ZifyNat ZifyBool Sorting.Permutation.
From ZL Require Import Base.Bytes Kernels.Der.
Import ListNotations.
Open Scope N_scope.
Ltac Zify.zify_post_hook ::= Z.div_mod_to_equations.

(* ---- every successful read consumes at least two octets: the walker's loop terminates *)
Lemma base128_shrinks s : forall sh acc t r, base128 s sh acc = Some (t, r) -> (length r < length s)%nat.
Proof.
  induction s as [|b s IH]; intros sh acc t r H; cbn [base128] in H; [discriminate|].
  destruct (sh =? 5); [discriminate|].
  destruct ((sh =? 0) && (b =? 128)); [discriminate|].
  destruct (b <? 128).
  - destruct (2147483647 <? acc * 128 + b mod 128); [discriminate|]. inversion H; subst. cbn [length]. lia.
  - apply IH in H. cbn [length]. lia.
Qed.

Lemma read_len_shrinks n : forall acc s l r, read_len n acc s = Some (l, r) -> (length r <= length s)%nat.
Proof.
  induction n as [|k IH]; intros acc s l r H; cbn [read_len] in H.
  - inversion H; subst. lia.
  - destruct s as [|b s]; [discriminate|].
    destruct (8388608 <=? acc); [discriminate|].
    destruct (acc * 256 + b =? 0); [discriminate|].
    apply IH in H. cbn [length]. lia.
Qed.

Lemma read_tag_shrinks b r t r1 : read_tag b r = Some (t, r1) -> (length r1 <= length r)%nat.
Proof.
  unfold read_tag. destruct (b mod 32 =? 31).
  - destruct (base128 r 0 0) as [[t' r']|] eqn:E; [|discriminate].
    destruct (t' <? 31); [discriminate|]. intro H. inversion H; subst. apply base128_shrinks in E. lia.
  - intro H. inversion H; subst. lia.
Qed.

Lemma read_length_shrinks s l r : read_length s = Some (l, r) -> (length r < length s)%nat.
Proof.
  unfold read_length. destruct s as [|lb s]; [discriminate|].
  destruct (lb <? 128).
  - intro H. inversion H; subst. cbn [length]. lia.
  - destruct (lb =? 128); [discriminate|].
    destruct (read_len (N.to_nat (lb - 128)) 0 s) as [[l' r']|] eqn:E; [|discriminate].
    destruct (l' <? 128); [discriminate|]. intro H. inversion H; subst. apply read_len_shrinks in E. cbn [length]. lia.
Qed.

Theorem read_tlv_shrinks s t rest : read_tlv s = Some (t, rest) -> (length rest + 2 <= length s)%nat.
Proof.
  unfold read_tlv. destruct s as [|b r]; [discriminate|].
  destruct (read_tag b r) as [[tag r1]|] eqn:E1; [|discriminate].
  destruct (read_length r1) as [[len r2]|] eqn:E2; [|discriminate].
  destruct (N.of_nat (length r2) <? len); [discriminate|].
  intro H. inversion H; subst. apply read_tag_shrinks in E1. apply read_length_shrinks in E2.
  rewrite skipn_length. cbn [length]. lia.
Qed.

Theorem walk_fuel_enough fuel : forall rest, (length rest <= fuel)%nat -> walk fuel rest <> 0%Z.
Proof.
  induction fuel as [|k IH]; intros rest H.
  - destruct rest; [cbn; discriminate|cbn [length] in H; lia].
  - destruct rest as [|b r]; [cbn; discriminate|].
    cbn [walk]. destruct (read_tlv (b :: r)) as [[t rest']|] eqn:E; [|discriminate].
    destruct (t_content t); [discriminate|].
    apply IH. apply read_tlv_shrinks in E. lia.
Qed.

Theorem empty_name_total value : l_empty_name value <> 0%Z.
Proof.
  unfold l_empty_name. destruct (read_tlv value) as [[t r]|]; [|discriminate].
  destruct (negb (t_compound t) || negb (t_tag t =? 16) || negb (t_class t =? 0)); [discriminate|].
  apply walk_fuel_enough. lia.
Qed.

(* ---- reading back what the writer wrote *)
Lemma read_length_enc n rest : n < 65536 -> read_length (enc_len n ++ rest) = Some (n, rest).
Proof.
  intro Hn. unfold enc_len, read_length.
  destruct (N.ltb_spec n 128) as [H1|H1].
  - cbn [app]. destruct (N.ltb_spec n 128); [reflexivity|lia].
  - destruct (N.ltb_spec n 256) as [H2|H2]; cbn [app].
    + change (129 <? 128) with false. change (129 =? 128) with false. cbv iota.
      change (N.to_nat (129 - 128)) with 1%nat. cbn [read_len].
      change (8388608 <=? 0) with false. cbv iota.
      replace (0 * 256 + n) with n by lia.
      destruct (N.eqb_spec n 0); [lia|]. destruct (N.ltb_spec n 128); [lia|reflexivity].
    + change (130 <? 128) with false. change (130 =? 128) with false. cbv iota.
      change (N.to_nat (130 - 128)) with 2%nat. cbn [read_len].
      change (8388608 <=? 0) with false. cbv iota.
      replace (0 * 256 + n / 256) with (n / 256) by lia.
      destruct (N.eqb_spec (n / 256) 0) as [E|E]; [lia|].
      destruct (N.leb_spec 8388608 (n / 256)); [lia|].
      replace (n / 256 * 256 + n mod 256) with n by lia.
      destruct (N.eqb_spec n 0); [lia|]. destruct (N.ltb_spec n 128); [lia|reflexivity].
Qed.

Lemma head_octet cls (c : bool) tag : cls < 4 -> tag < 31 ->
  let b := cls * 64 + (if c then 32 else 0) + tag in
  b mod 32 = tag /\ b / 64 = cls /\ ((b / 32) mod 2 =? 1) = c.
Proof.
  intros Hc Ht b. unfold b. destruct c.
  - repeat split; lia.
  - repeat split; lia.
Qed.

Theorem read_enc_tlv t rest : encodable t -> read_tlv (enc_tlv t ++ rest) = Some (t, rest).
Proof.
  intros (Hc & Ht & Hl). destruct t as [cls c tag content]. cbn [t_class t_compound t_tag t_content] in *.
  unfold enc_tlv. cbn [t_class t_compound t_tag t_content app].
  destruct (head_octet cls c tag Hc Ht) as (Hm & Hd & Hb).
  unfold read_tlv, read_tag. rewrite Hm.
  destruct (N.eqb_spec tag 31); [lia|].
  rewrite <- app_assoc. rewrite read_length_enc by exact Hl.
  rewrite app_length.
  destruct (N.ltb_spec (N.of_nat (length content + length rest)) (N.of_nat (length content))); [lia|].
  rewrite Nat2N.id. rewrite Hd, Hb.
  rewrite firstn_app, Nat.sub_diag, firstn_all. cbn [firstn]. rewrite app_nil_r.
  rewrite skipn_app, Nat.sub_diag, skipn_all. cbn [skipn app]. reflexivity.
Qed.

(* ---- the walker on a well-formed list of general names: Error iff some name is empty, whatever the order *)
Definition is_empty (t : tlv) : bool := match t_content t with [] => true | _ => false end.

Lemma walk_items items : Forall encodable items -> forall fuel,
  (length (List.concat (map enc_tlv items)) <= fuel)%nat ->
  walk fuel (List.concat (map enc_tlv items)) = if existsb is_empty items then 6%Z else 3%Z.
Proof.
  induction 1 as [|t items Ht Hall IH]; intros fuel Hf.
  - cbn. destruct fuel; reflexivity.
  - cbn [map List.concat existsb]. cbn [map List.concat] in Hf.
    assert (Hne : exists b r, enc_tlv t ++ List.concat (map enc_tlv items) = b :: r) by (unfold enc_tlv; cbn [app]; eauto).
    destruct Hne as (b & r & Eb).
    destruct fuel as [|k]; [rewrite Eb in Hf; cbn [length] in Hf; lia|].
    pose proof (read_enc_tlv t (List.concat (map enc_tlv items)) Ht) as Hr.
    rewrite Eb in *. cbn [walk]. rewrite Hr.
    unfold is_empty at 1. destruct (t_content t) eqn:Ec; [reflexivity|]. cbn [orb].
    apply IH. apply read_tlv_shrinks in Hr. lia.
Qed.

Definition san_value (items : list tlv) : bytes := enc_tlv (mkTlv 0 true 16 (List.concat (map enc_tlv items))).

Theorem empty_name_spec items :
  Forall encodable items -> N.of_nat (length (List.concat (map enc_tlv items))) < 65536 ->
  l_empty_name (san_value items) = if existsb is_empty items then 6%Z else 3%Z.
Proof.
  intros Hall Hlen. unfold l_empty_name, san_value.
  rewrite <- (app_nil_r (enc_tlv _)).
  rewrite read_enc_tlv.
  - cbn [t_compound t_tag t_class t_content negb orb]. change (16 =? 16) with true. change (0 =? 0) with true. cbn [negb orb].
    apply walk_items; [exact Hall|lia].
  - repeat split; cbn [t_class t_tag t_content]; lia.
Qed.

Lemma d_existsb_perm {A} (f : A -> bool) l l' : Permutation l l' -> existsb f l = existsb f l'.
Proof.
  induction 1 as [|x l l' _ IH|x y l|l l' l'' _ IH1 _ IH2]; cbn [existsb].
  - reflexivity.
  - rewrite IH. reflexivity.
  - destruct (f x); destruct (f y); reflexivity.
  - congruence.
Qed.

Lemma concat_length_perm (l l' : list tlv) : Permutation l l' ->
  length (List.concat (map enc_tlv l)) = length (List.concat (map enc_tlv l')).
Proof.
  induction 1 as [|x l l' _ IH|x y l|l l' l'' _ IH1 _ IH2]; cbn [map List.concat].
  - reflexivity.
  - rewrite !app_length, IH. reflexivity.
  - rewrite !app_length. lia.
  - congruence.
Qed.

Theorem empty_name_perm items items' :
  Permutation items items' -> Forall encodable items -> N.of_nat (length (List.concat (map enc_tlv items))) < 65536 ->
  l_empty_name (san_value items') = l_empty_name (san_value items).
Proof.
  intros P Hall Hlen.
  rewrite (empty_name_spec items Hall Hlen).
  rewrite (empty_name_spec items').
  - rewrite (d_existsb_perm is_empty _ _ P). reflexivity.
  - apply Forall_forall. intros x Hx. rewrite Forall_forall in Hall. apply Hall. apply (Permutation_in _ (Permutation_sym P)). exact Hx.
  - rewrite <- (concat_length_perm _ _ P). exact Hlen.
Qed.

(* non-vacuity: dNSName "a.example", an empty rfc822Name and a directoryName holding an empty RDNSequence, in two orders *)
Example empty_after_directory :
  l_empty_name (san_value [mkTlv 2 true 4 [48; 0]; mkTlv 2 false 2 (s2b "a.example"); mkTlv 2 false 1 []]) = 6%Z /\
  l_empty_name (san_value [mkTlv 2 false 1 []; mkTlv 2 true 4 [48; 0]; mkTlv 2 false 2 (s2b "a.example")]) = 6%Z /\
  l_empty_name (san_value [mkTlv 2 true 4 [48; 0]; mkTlv 2 false 2 (s2b "a.example")]) = 3%Z.
Proof. vm_compute. repeat split; reflexivity. Qed.
