(* C02 / C05 / C16-style exactness for the DSA key lints (cabf_br), modelled in full as functions of the four integers
   of the key (the parser guarantees P, Q, G, Y > 0):

     e_dsa_correct_order_in_subgroup        Y^Q mod P = 1                      (big.Int.Exp)
     e_dsa_unique_correct_representation    2 <= Y <= P - 2
     e_dsa_improper_modulus_or_divisor_size (L, N) in {(2048,224), (2048,256), (3072,256)}
     e_dsa_shorter_than_2048_bits           L >= 2048 and N >= 244   (sic: the code says 244, not 224)

   Statuses: 3 pass, 6 error.  mod_exp is the square-and-multiply the model RUNS (Zpow_mod of the standard library);
   mod_exp_spec says it is the power modulo P, so the statements below are about the mathematical predicate. *)
From Coq Require Import ZArith Bool Lia Zpow_facts.
Open Scope Z_scope.

Record dsa_key := mkDsa { dP : Z; dQ : Z; dG : Z; dY : Z }.

Definition bitlen (x : Z) : Z := if x <=? 0 then 0 else Z.log2 x + 1.

Definition mod_exp (y q p : Z) : Z := Zpow_mod y q p.

Definition l_subgroup (k : dsa_key) : Z := if mod_exp (dY k) (dQ k) (dP k) =? 1 then 3 else 6.
Definition l_unique_rep (k : dsa_key) : Z := if (dY k <? 2) || (dP k - 2 <? dY k) then 6 else 3.
Definition l_size (k : dsa_key) : Z :=
  let L := bitlen (dP k) in let N := bitlen (dQ k) in
  if ((L =? 2048) && (N =? 224)) || ((L =? 2048) && (N =? 256)) || ((L =? 3072) && (N =? 256)) then 3 else 6.
Definition l_short (k : dsa_key) : Z :=
  if (2048 <=? bitlen (dP k)) && (244 <=? bitlen (dQ k)) then 3 else 6.

Definition all_dsa_lints (k : dsa_key) : list Z := (l_subgroup k :: l_unique_rep k :: l_size k :: l_short k :: nil)%list.

Definition well_formed (k : dsa_key) : Prop := 0 < dP k /\ 0 < dQ k /\ 0 < dG k /\ 0 < dY k.

Lemma mod_exp_spec y q p : p <> 0 -> mod_exp y q p = (y ^ q) mod p.
Proof. intros H. unfold mod_exp. apply Zpow_mod_correct. exact H. Qed.

(* the subgroup lint decides exactly "Y^Q is congruent to 1 modulo P" *)
Theorem subgroup_spec k : well_formed k -> (l_subgroup k = 3 <-> (dY k ^ dQ k) mod dP k = 1).
Proof.
  intros (Hp & _). unfold l_subgroup. rewrite mod_exp_spec by lia.
  destruct (Z.eqb_spec ((dY k ^ dQ k) mod dP k) 1) as [E|E]; split; intro H; try assumption; try reflexivity; try discriminate.
  contradiction.
Qed.

(* it depends on Y only through its residue modulo P: reducing Y first (what an "optimised" body would do) is sound
   for THIS lint ... *)
Theorem subgroup_residue k : well_formed k ->
  l_subgroup (mkDsa (dP k) (dQ k) (dG k) (dY k mod dP k)) = l_subgroup k.
Proof.
  intros (Hp & Hq & _). unfold l_subgroup. cbn [dP dQ dY]. rewrite !mod_exp_spec by lia.
  replace ((dY k mod dP k) ^ dQ k mod dP k) with (dY k ^ dQ k mod dP k); [reflexivity|].
  apply Zpower_mod. lia.
Qed.

(* ... while the representation lint is about Y itself: it passes only canonical representatives, so a body that
   reduced Y IN the key would change its neighbour's verdict *)
Theorem unique_rep_spec k : l_unique_rep k = 3 <-> 2 <= dY k <= dP k - 2.
Proof.
  unfold l_unique_rep.
  destruct (Z.ltb_spec (dY k) 2) as [H1|H1]; destruct (Z.ltb_spec (dP k - 2) (dY k)) as [H2|H2]; cbn [orb]; split; intro H; try discriminate; try reflexivity; lia.
Qed.

Theorem unique_rep_canonical k : l_unique_rep k = 3 -> dY k mod dP k = dY k.
Proof. intro H. apply unique_rep_spec in H. apply Z.mod_small. lia. Qed.

Theorem reduce_changes_neighbour : exists k, well_formed k /\
  l_unique_rep k = 6 /\ l_unique_rep (mkDsa (dP k) (dQ k) (dG k) (dY k mod dP k)) = 3.
Proof. exists (mkDsa 23 11 2 (23 + 4)). repeat split; try lia; vm_compute; reflexivity. Qed.

(* P = 1 (which the parser accepts) is decided, not a failure: every power is 0 modulo 1 *)
Theorem subgroup_p_one k : dP k = 1 -> l_subgroup k = 6.
Proof. intros H. unfold l_subgroup. rewrite mod_exp_spec by lia. rewrite H. rewrite Z.mod_1_r. reflexivity. Qed.

Lemma bitlen_pos x : 0 < x -> forall n, 0 <= n -> (bitlen x = n + 1 <-> 2 ^ n <= x < 2 ^ (n + 1)).
Proof.
  intros Hx n Hn. unfold bitlen. destruct (Z.leb_spec x 0); [lia|].
  split.
  - intro E. assert (Z.log2 x = n) by lia. subst n. apply Z.log2_spec. lia.
  - intro B. f_equal. apply Z.log2_unique; lia.
Qed.

Theorem size_spec k : l_size k = 3 <->
  (bitlen (dP k) = 2048 /\ bitlen (dQ k) = 224) \/ (bitlen (dP k) = 2048 /\ bitlen (dQ k) = 256) \/ (bitlen (dP k) = 3072 /\ bitlen (dQ k) = 256).
Proof.
  unfold l_size. cbv zeta.
  destruct (Z.eqb_spec (bitlen (dP k)) 2048) as [E1|E1]; destruct (Z.eqb_spec (bitlen (dP k)) 3072) as [E2|E2];
  destruct (Z.eqb_spec (bitlen (dQ k)) 224) as [E3|E3]; destruct (Z.eqb_spec (bitlen (dQ k)) 256) as [E4|E4]; cbn [andb orb];
  split; intro H; try discriminate; try reflexivity; try lia.
Qed.

Theorem short_spec k : l_short k = 3 <-> 2048 <= bitlen (dP k) /\ 244 <= bitlen (dQ k).
Proof.
  unfold l_short. destruct (Z.leb_spec 2048 (bitlen (dP k))) as [E1|E1]; destruct (Z.leb_spec 244 (bitlen (dQ k))) as [E2|E2]; cbn [andb];
  split; intro H; try discriminate; try reflexivity; lia.
Qed.

(* the two size lints are not nested: a 2048/224 key - which the size lint accepts - is "too short" for the other *)
Theorem size_lints_disagree k : bitlen (dP k) = 2048 -> bitlen (dQ k) = 224 -> l_size k = 3 /\ l_short k = 6.
Proof.
  intros HP HQ. split; [apply size_spec; left; split; assumption|].
  unfold l_short. rewrite HP, HQ. reflexivity.
Qed.

Theorem dsa_lints_range k s : List.In s (all_dsa_lints k) -> s = 3 \/ s = 6.
Proof.
  unfold all_dsa_lints, l_subgroup, l_unique_rep, l_size, l_short. cbv zeta. cbn [List.In].
  intros [H|[H|[H|[H|[]]]]]; subst s;
  match goal with |- context [if ?b then _ else _] => destruct b end; auto.
Qed.

Example small_group : all_dsa_lints (mkDsa 23 11 2 4) = (3 :: 3 :: 6 :: 6 :: nil)%list.
Proof. vm_compute. reflexivity. Qed.
