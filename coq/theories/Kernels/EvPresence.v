(* C20 / C06: five EV guideline lints about what an EV subscriber certificate must (not) carry, modelled in full at the
   level of their bodies: e_ev_business_category_missing, e_ev_country_name_missing, e_ev_organization_name_missing,
   e_ev_serial_number_missing, e_ev_san_ip_address_present.  Statuses: 3 pass, 6 error. *)
From Coq Require Import List ZArith Bool Lia Sorting.Permutation.
From ZL Require Import Kernels.Scope Kernels.SubjPresence.
Import ListNotations.
Open Scope Z_scope.

Record ev_view := mkEv { ev_types : list oid; ev_serials : nat (* len(Subject.SerialNumber) *); ev_ips : nat (* len(IPAddresses) *) }.

Definition oBusiness : oid := [2;5;4;15].
Definition ev_has (v : ev_view) (o : oid) : bool := oid_in o (ev_types v).

Definition e_business v := err (negb (ev_has v oBusiness)).
Definition e_country v := err (negb (ev_has v oC)).
Definition e_org v := err (negb (ev_has v oO)).
Definition e_serial v := err (Nat.eqb (ev_serials v) 0).
Definition e_san_ip v := err (negb (Nat.eqb (ev_ips v) 0)).

Definition all_ev_lints v : list Z := [e_business v; e_country v; e_org v; e_serial v; e_san_ip v].

(* the EV country / organization rules are the same tests as the IV / OV policy rules of the TLS BRs on the same subject *)
Theorem ev_country_is_policy_rule (sv : subj_view) (v : ev_view) : ev_types v = s_types sv -> e_country v = l_requires_country sv.
Proof. intro H. unfold e_country, l_requires_country, ev_has, has. rewrite H. reflexivity. Qed.

Theorem ev_org_is_ov_rule (sv : subj_view) (v : ev_view) : ev_types v = s_types sv -> e_org v = l_ov_requires_org sv.
Proof. intro H. unfold e_org, l_ov_requires_org, ev_has, has. rewrite H. reflexivity. Qed.

Theorem ev_lints_perm v ts : Permutation (ev_types v) ts -> all_ev_lints (mkEv ts (ev_serials v) (ev_ips v)) = all_ev_lints v.
Proof.
  intro P. unfold all_ev_lints, e_business, e_country, e_org, e_serial, e_san_ip, ev_has, oid_in. cbn [ev_types ev_serials ev_ips].
  rewrite <- !(p_existsb_perm _ _ _ P). reflexivity.
Qed.
