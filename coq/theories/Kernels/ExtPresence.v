(* C20 / C06: ten lints of the form "a certificate of role R must / must not carry extension X", one table-driven rule with
   its CheckApplies.  Extension indices as in Kernels/Crit.v (0 authorityInfoAccess, 2 cRLDistributionPoints,
   9 subjectKeyIdentifier, 12 certificatePolicies).  Statuses: 1 NA, 3 pass, 5 warn, 6 error. *)
From Coq Require Import List ZArith Bool Lia.
From ZL Require Import Kernels.Crit.
Import ListNotations.
Open Scope Z_scope.

Inductive prole := PAnyCA | PSubCA | PRoot | PNonCA | PSubscriber.
Record prule := mkPRule { pr_role : prole; pr_ext : nat; pr_must_be_present : bool; pr_finding : Z }.

Definition prole_ok (r : prole) (v : crit_view) : bool :=
  match r with
  | PAnyCA => cr_is_ca v
  | PSubCA => cr_is_ca v && negb (cr_self_signed v)
  | PRoot => cr_is_ca v && cr_self_signed v
  | PNonCA => negb (cr_is_ca v)
  | PSubscriber => negb (cr_is_ca v) && negb (cr_self_signed v)
  end.

Definition presence_lint (r : prule) (v : crit_view) : Z :=
  if prole_ok (pr_role r) v
  then (if Bool.eqb (fst (ext_of v (pr_ext r))) (pr_must_be_present r) then 3 else pr_finding r)
  else 1.

Definition presence_table : list prule :=
  [ mkPRule PSubCA 0 true 6        (* e_sub_ca_aia_missing *)
  ; mkPRule PSubCA 0 true 5        (* w_sub_ca_aia_missing: the same test at the other severity *)
  ; mkPRule PSubCA 12 true 6       (* e_sub_ca_certificate_policies_missing *)
  ; mkPRule PSubCA 2 true 6        (* e_sub_ca_crl_distribution_points_missing *)
  ; mkPRule PNonCA 0 true 6        (* e_sub_cert_aia_missing *)
  ; mkPRule PNonCA 12 true 6       (* e_sub_cert_certificate_policies_missing *)
  ; mkPRule PAnyCA 9 true 6        (* e_ext_subject_key_identifier_missing_ca *)
  ; mkPRule PNonCA 9 true 5        (* w_ext_subject_key_identifier_missing_sub_cert (RFC 5280: SHOULD be there) *)
  ; mkPRule PSubscriber 9 false 5  (* w_ext_subject_key_identifier_not_recommended_subscriber (BRs: NOT RECOMMENDED) *)
  ; mkPRule PRoot 12 false 5 ].    (* w_root_ca_contains_cert_policy *)

Definition all_presence_ext_lints (v : crit_view) : list Z := map (fun r => presence_lint r v) presence_table.

(* the two subordinate-CA AIA lints are one test *)
Theorem sub_ca_aia_same_test v : (presence_lint (nth 0 presence_table (mkPRule PRoot 0 true 0)) v = 3 <->
                                  presence_lint (nth 1 presence_table (mkPRule PRoot 0 true 0)) v = 3).
Proof. cbn [nth presence_table]. unfold presence_lint. cbn [pr_role pr_ext pr_must_be_present pr_finding].
  destruct (prole_ok PSubCA v); [|split; discriminate].
  destruct (Bool.eqb (fst (ext_of v 0)) true); split; intro H; try reflexivity; discriminate.
Qed.

(* the RFC 5280 recommendation and the BR recommendation about subjectKeyIdentifier in a subscriber certificate are
   opposite: whatever a subscriber certificate does, exactly one of the two lints warns (the sources disagree; the
   lints are faithful to their sources and have different effective dates) *)
Theorem subscriber_ski_always_warned v : prole_ok PSubscriber v = true ->
  (presence_lint (mkPRule PNonCA 9 true 5) v = 5 /\ presence_lint (mkPRule PSubscriber 9 false 5) v = 3) \/
  (presence_lint (mkPRule PNonCA 9 true 5) v = 3 /\ presence_lint (mkPRule PSubscriber 9 false 5) v = 5).
Proof.
  unfold presence_lint, prole_ok. cbn [pr_role pr_ext pr_must_be_present pr_finding]. intro H. rewrite H.
  apply andb_true_iff in H. destruct H as [H1 _]. rewrite H1.
  destruct (fst (ext_of v 9)); cbn [Bool.eqb]; auto.
Qed.

Theorem presence_range r v : pr_finding r = 5 \/ pr_finding r = 6 ->
  presence_lint r v = 1 \/ presence_lint r v = 3 \/ presence_lint r v = 5 \/ presence_lint r v = 6.
Proof.
  intro H. unfold presence_lint. destruct (prole_ok (pr_role r) v); [|auto].
  destruct (Bool.eqb (fst (ext_of v (pr_ext r))) (pr_must_be_present r)); [auto|]. destruct H as [-> | ->]; auto.
Qed.
