(* C17 / C20: seventeen more general-name lints, modelled in full.

     e_ext_san_directory_name_present, e_ext_san_edi_party_name_present, e_ext_san_other_name_present,
     e_ext_san_registered_id_present, e_ext_san_rfc822_name_present, e_ext_san_uniform_resource_identifier_present,
     e_ext_san_missing, w_ext_san_critical_with_subject_dn                                        (cabf_br)
     e_ext_san_no_entries, e_ext_ian_no_entries, e_ext_ian_space_dns_name,
     e_ext_san_not_critical_without_subject                                                        (rfc)
     e_ian_bare_wildcard, e_ian_dns_name_includes_null_char, e_ian_dns_name_starts_with_period,
     e_ian_wildcard_not_first, w_ian_iana_pub_suffix_empty                                         (community)

   Statuses: 1 NA, 3 pass, 5 warn, 6 error. *)
From ZL Require Import Base.Bytes Kernels.Names.
Open Scope Z_scope.

Record gview := mkGview {
  gv_tls : bool;              (* in scope of the TLS BRs (gate of the cabf_br source) *)
  gv_is_ca : bool;
  gv_subject_nonempty : bool; (* the subject has at least one attribute *)
  gv_san_ext : bool;
  gv_san_critical : bool;
  gv_san_value : bytes;       (* the raw extension value *)
  gv_present : list bool;     (* directoryName, ediPartyName, otherName, registeredID, rfc822Name, URI parsed from the SAN *)
  gv_ian_ext : bool;
  gv_ian_value : bytes;
  gv_ian_dns : list bytes
}.

(* util.IsEmptyASN1Sequence: fewer than two octets, or exactly 30 00 *)
Definition empty_asn1_sequence (v : bytes) : bool :=
  (Z.of_nat (length v) <? 2) || beqb v [48%N; 0%N].

Definition present (v : gview) (i : nat) : bool := nth i (gv_present v) false.
Definition brg (v : gview) (s : Z) : Z := if gv_tls v then s else 1.

Definition g_presence (i : nat) (v : gview) : Z := brg v (verdict 6 (gv_san_ext v) (present v i)).
Definition g_san_missing (v : gview) : Z := brg v (verdict 6 (negb (gv_is_ca v)) (negb (gv_san_ext v))).
Definition g_san_critical_with_subject (v : gview) : Z :=
  brg v (verdict 5 (gv_san_ext v) (gv_san_critical v && gv_subject_nonempty v)).
Definition g_san_no_entries (v : gview) : Z := verdict 6 (gv_san_ext v) (empty_asn1_sequence (gv_san_value v)).
Definition g_ian_no_entries (v : gview) : Z := verdict 6 (gv_ian_ext v) (empty_asn1_sequence (gv_ian_value v)).
Definition g_ian_space (v : gview) : Z := verdict 6 (gv_ian_ext v) (existsb is_space (gv_ian_dns v)).
Definition g_san_not_critical_without_subject (v : gview) : Z :=
  verdict 6 (gv_san_ext v) (negb (gv_subject_nonempty v) && negb (gv_san_critical v)).
Definition g_ian_bare_wildcard (v : gview) : Z := verdict 6 (gv_ian_ext v) (existsb ends_with_star (gv_ian_dns v)).
Definition g_ian_null_char (v : gview) : Z := verdict 6 (gv_ian_ext v) (existsb has_nul (gv_ian_dns v)).
Definition g_ian_starts_period (v : gview) : Z := verdict 6 (gv_ian_ext v) (existsb starts_with_period (gv_ian_dns v)).
Definition g_ian_wildcard_not_first (v : gview) : Z := verdict 6 (gv_ian_ext v) (existsb star_after_first (gv_ian_dns v)).
(* "fewer than three labels" - the rule the issuerAltName copy applies (its SAN twin asks the public-suffix list) *)
Definition few_labels (d : bytes) : bool := Z.of_nat (length (split_dot d)) <? 3.
Definition g_ian_pub_suffix (v : gview) : Z := verdict 5 (gv_ian_ext v) (existsb few_labels (gv_ian_dns v)).

Definition all_gn_lints (v : gview) : list Z :=
  [g_presence 0 v; g_presence 1 v; g_presence 2 v; g_presence 3 v; g_presence 4 v; g_presence 5 v;
   g_san_missing v; g_san_critical_with_subject v; g_san_no_entries v; g_ian_no_entries v; g_ian_space v;
   g_san_not_critical_without_subject v; g_ian_bare_wildcard v; g_ian_null_char v; g_ian_starts_period v;
   g_ian_wildcard_not_first v; g_ian_pub_suffix v].

(* the issuerAltName copies of the five community / RFC rules, seen as the SAN rules applied to another list *)
Definition as_san_view (v : gview) : nview := mkNview true (gv_tls v) (gv_ian_ext v) [] false (gv_ian_dns v).

(* ---------- six lints that walk the raw GeneralNames: IA5 content of dNSNames and URIs, empty names ----------
     e_ext_san_dns_not_ia5_string, e_ext_ian_dns_not_ia5_string, e_ext_san_uri_not_ia5, e_ext_ian_uri_not_ia5,
     e_ext_san_empty_name, e_ext_ian_empty_name                                                    (rfc)
   A GeneralNames value is the list of its members (tag number, content octets), in order. *)
Record rview := mkRview {
  rv_san_ext : bool;
  rv_san : list (Z * bytes);
  rv_ian_ext : bool;
  rv_ian : list (Z * bytes)
}.

Definition not_ia5 (b : bytes) : bool := existsb (fun c => (127 <? c)%N) b.
Definition tagged_not_ia5 (tag : Z) (ns : list (Z * bytes)) : bool :=
  existsb (fun n => (fst n =? tag) && not_ia5 (snd n)) ns.
Definition has_empty_name (ns : list (Z * bytes)) : bool :=
  existsb (fun n => match snd n with [] => true | _ => false end) ns.

Definition r_san_dns_not_ia5 (v : rview) : Z := verdict 6 (rv_san_ext v) (tagged_not_ia5 2 (rv_san v)).
Definition r_ian_dns_not_ia5 (v : rview) : Z := verdict 6 (rv_ian_ext v) (tagged_not_ia5 2 (rv_ian v)).
Definition r_san_uri_not_ia5 (v : rview) : Z := verdict 6 (rv_san_ext v) (tagged_not_ia5 6 (rv_san v)).
Definition r_ian_uri_not_ia5 (v : rview) : Z := verdict 6 (rv_ian_ext v) (tagged_not_ia5 6 (rv_ian v)).
Definition r_san_empty_name (v : rview) : Z := verdict 6 (rv_san_ext v) (has_empty_name (rv_san v)).
Definition r_ian_empty_name (v : rview) : Z := verdict 6 (rv_ian_ext v) (has_empty_name (rv_ian v)).

Definition all_raw_lints (v : rview) : list Z :=
  [r_san_dns_not_ia5 v; r_ian_dns_not_ia5 v; r_san_uri_not_ia5 v; r_ian_uri_not_ia5 v; r_san_empty_name v; r_ian_empty_name v].
