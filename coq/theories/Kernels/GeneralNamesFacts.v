From ZL Require Import Base.Bytes Kernels.Order Kernels.Names Kernels.NamesFacts.
From ZL Require Import Kernels.GeneralNames.
From Coq Require Import Sorting.Permutation Lia.
Open Scope Z_scope.

Definition with_ian_dns (v : gview) (d : list bytes) : gview :=
  mkGview (gv_tls v) (gv_is_ca v) (gv_subject_nonempty v) (gv_san_ext v) (gv_san_critical v) (gv_san_value v) (gv_present v)
          (gv_ian_ext v) (gv_ian_value v) d.

(* C17: none of the seventeen verdicts depends on the order of the issuerAltName dNSNames (the SAN side enters only
   through presence flags and the raw value) *)
Theorem gn_lints_perm : forall v d', Permutation (gv_ian_dns v) d' -> all_gn_lints (with_ian_dns v d') = all_gn_lints v.
Proof.
  intros v d' P. assert (PS := Permutation_sym P).
  unfold all_gn_lints, g_presence, g_san_missing, g_san_critical_with_subject, g_san_no_entries, g_ian_no_entries, g_ian_space,
         g_san_not_critical_without_subject, g_ian_bare_wildcard, g_ian_null_char, g_ian_starts_period, g_ian_wildcard_not_first,
         g_ian_pub_suffix, brg, present.
  cbn [with_ian_dns gv_tls gv_is_ca gv_subject_nonempty gv_san_ext gv_san_critical gv_san_value gv_present gv_ian_ext gv_ian_value gv_ian_dns].
  rewrite !(existsb_perm _ d' (gv_ian_dns v) PS). reflexivity.
Qed.

(* C20: the issuerAltName copy of each community / RFC rule is the subjectAltName rule applied to the other list:
   on the same names, with both extensions present, the twins give the same status *)
Theorem gn_twins_agree : forall v (n : nview),
  nv_san_ext n = gv_ian_ext v -> nv_dns n = gv_ian_dns v ->
  g_ian_bare_wildcard v = l_bare_wildcard n /\ g_ian_null_char v = l_null_char n /\
  g_ian_starts_period v = l_starts_period n /\ g_ian_wildcard_not_first v = l_wildcard_not_first n /\
  g_ian_space v = l_space_name n.
Proof.
  intros v n E D. unfold g_ian_bare_wildcard, g_ian_null_char, g_ian_starts_period, g_ian_wildcard_not_first, g_ian_space,
    l_bare_wildcard, l_null_char, l_starts_period, l_wildcard_not_first, l_space_name. rewrite E, D. repeat split.
Qed.

(* ... except the "bare public suffix" pair, whose copies implement different rules: a two-label name that is not a
   public suffix is reported by the issuerAltName copy only (the recorded C20 finding) *)
Theorem gn_pub_suffix_copy_differs :
  g_ian_pub_suffix (mkGview true false true true false [] [] true [] [s2b "example.com"]) = 5.
Proof. reflexivity. Qed.

Theorem gn_lints_range : forall v s, In s (all_gn_lints v) -> s = 1 \/ s = 3 \/ s = 5 \/ s = 6.
Proof.
  intros v s H. unfold all_gn_lints in H. simpl in H.
  unfold g_presence, g_san_missing, g_san_critical_with_subject, g_san_no_entries, g_ian_no_entries, g_ian_space,
         g_san_not_critical_without_subject, g_ian_bare_wildcard, g_ian_null_char, g_ian_starts_period, g_ian_wildcard_not_first,
         g_ian_pub_suffix, brg, verdict in H.
  repeat (destruct H as [H|H]; [subst s; repeat match goal with |- context [if ?b then _ else _] => destruct b end; auto|]).
  destruct H.
Qed.

(* the two criticality rules never both fire *)
Theorem san_criticality_rules_exclusive : forall v,
  ~ (g_san_critical_with_subject v = 5 /\ g_san_not_critical_without_subject v = 6).
Proof.
  intros v [A B]. unfold g_san_critical_with_subject, g_san_not_critical_without_subject, brg, verdict in *.
  destruct (gv_tls v); [|discriminate]. destruct (gv_san_ext v); simpl in *; [|discriminate].
  destruct (gv_san_critical v), (gv_subject_nonempty v); simpl in *; discriminate.
Qed.

(* ---------- the raw GeneralNames walkers ---------- *)
Theorem raw_lints_perm : forall v san' ian', Permutation (rv_san v) san' -> Permutation (rv_ian v) ian' ->
  all_raw_lints (mkRview (rv_san_ext v) san' (rv_ian_ext v) ian') = all_raw_lints v.
Proof.
  intros v san' ian' P Q. assert (PS := Permutation_sym P). assert (QS := Permutation_sym Q).
  unfold all_raw_lints, r_san_dns_not_ia5, r_ian_dns_not_ia5, r_san_uri_not_ia5, r_ian_uri_not_ia5, r_san_empty_name, r_ian_empty_name,
         tagged_not_ia5, has_empty_name.
  cbn [rv_san_ext rv_san rv_ian_ext rv_ian].
  rewrite !(existsb_perm _ san' (rv_san v) PS), !(existsb_perm _ ian' (rv_ian v) QS). reflexivity.
Qed.

(* C20: with both extensions present and the same members, the subjectAltName and issuerAltName copies agree *)
Theorem raw_twins_agree : forall v, rv_san_ext v = rv_ian_ext v -> rv_san v = rv_ian v ->
  r_san_dns_not_ia5 v = r_ian_dns_not_ia5 v /\ r_san_uri_not_ia5 v = r_ian_uri_not_ia5 v /\ r_san_empty_name v = r_ian_empty_name v.
Proof.
  intros v E N. unfold r_san_dns_not_ia5, r_ian_dns_not_ia5, r_san_uri_not_ia5, r_ian_uri_not_ia5, r_san_empty_name, r_ian_empty_name.
  rewrite E, N. repeat split.
Qed.
