(* C18, the "future regenerations" dimension: v3/cmd/zlint-gtld-update/main.go, the program that rewrites the
   delegation table (util/gtld_map.go) from the two ICANN documents.  Modelled: delegatedGTLDs, validateGTLDs, the
   line reader of getTLDData and the merge of renderGTLDMap; the table it prints is a key -> entry association in
   which a later entry of the same name replaces an earlier one (a Go map), entries of the gTLD document win over
   the entries derived from the plain TLD list, and the template's own closing entry for "onion" comes last.
   Not modelled (oracles on the Go side): HTTP, encoding/json, text/template, go/format. *)
From ZL Require Import Base.Bytes Base.BytesFacts Framework.Core Kernels.Utf8 Kernels.Tld.
From Coq Require Import Lia.
Open Scope Z_scope.

Record gentry := mkG { g_name : bytes; g_deleg : bytes; g_removal : bytes }.

Definition date_parses (s : bytes) : bool := match parse_date s with Some _ => true | None => false end.

(* delegatedGTLDs: entries that were never delegated are dropped *)
Definition delegated (es : list gentry) : list gentry := filter (fun e => negb (beqb (g_deleg e) [])) es.

(* validateGTLDs: every entry has a parseable delegation date and an empty or parseable removal date *)
Definition gentry_valid (e : gentry) : bool :=
  date_parses (g_deleg e) && (beqb (g_removal e) [] || date_parses (g_removal e)).

Definition validate (es : list gentry) : bool := forallb gentry_valid es.

(* the map: association list, a put replaces the entry of the same key in place or appends *)
Fixpoint put (k : bytes) (e : gentry) (m : list (bytes * gentry)) : list (bytes * gentry) :=
  match m with
  | [] => [(k, e)]
  | (k', e') :: r => if beqb k k' then (k, e) :: r else (k', e') :: put k e r
  end.

Fixpoint get (k : bytes) (m : list (bytes * gentry)) : option gentry :=
  match m with
  | [] => None
  | (k', e') :: r => if beqb k k' then Some e' else get k r
  end.

Definition put_all (es : list gentry) (m : list (bytes * gentry)) : list (bytes * gentry) :=
  fold_left (fun acc e => put (g_name e) e acc) es m.

Definition put_missing (es : list gentry) (m : list (bytes * gentry)) : list (bytes * gentry) :=
  fold_left (fun acc e => match get (g_name e) acc with Some _ => acc | None => put (g_name e) e acc end) es m.

(* getTLDData: one name per line; blank lines and lines starting with '#' are skipped; the name is lower-cased (not
   trimmed); every such entry gets the delegation date of .com and no removal date *)
Definition blank_line (l : bytes) : bool := forallb ascii_space l.
Definition comment_line (l : bytes) : bool := match l with 35%N :: _ => true | _ => false end.
Definition default_deleg : bytes := s2b "1985-01-01".

Definition tld_entries (body : bytes) : list gentry :=
  map (fun l => mkG (go_lower l) default_deleg [])
      (filter (fun l => negb (blank_line l) && negb (comment_line l)) (split_on 10 body)).

(* the template's closing entry *)
Definition onion_entry : gentry := mkG (s2b "onion") (s2b "2015-02-18") [].

(* renderGTLDMap: None = the program stops with an error and writes nothing *)
Definition render (gs : list gentry) (tld_body : bytes) : option (list (bytes * gentry)) :=
  let d := delegated gs in
  if validate d then Some (put_missing (tld_entries tld_body) (put_all d []) ++ [(g_name onion_entry, onion_entry)])
  else None.

(* what the property asks of an entry of the printed table, as far as the generator itself can promise it *)
Definition printed_ok (ke : bytes * gentry) : bool :=
  beqb (fst ke) (g_name (snd ke)) && gentry_valid (snd ke).
