(* Facts about the table generator model (C18, future regenerations). *)
From ZL Require Import Base.Bytes Base.BytesFacts Framework.Core Kernels.Utf8 Kernels.Tld Kernels.GtldUpdate.
From Coq Require Import Lia.
Open Scope Z_scope.

(* validateGTLDs accepts a list exactly when every entry of it is acceptable *)
Theorem validate_iff es : validate es = true <-> forall e, In e es -> gentry_valid e = true.
Proof. unfold validate. apply forallb_forall. Qed.

(* one bad entry anywhere in the list is enough: nothing after it, and nothing before it, rescues the list *)
Theorem validate_rejects es1 e es2 : gentry_valid e = false -> validate (es1 ++ e :: es2) = false.
Proof.
  intro H. unfold validate. rewrite forallb_app. cbn [forallb]. rewrite H.
  rewrite Bool.andb_false_r. reflexivity.
Qed.

Lemma delegated_In e es : In e (delegated es) <-> In e es /\ g_deleg e <> [].
Proof.
  unfold delegated. rewrite filter_In. split; intros [A B]; split; auto.
  - intro E. rewrite E in B. cbn in B. discriminate.
  - destruct (beqb (g_deleg e) []) eqn:Q; [|reflexivity]. apply beqb_eq in Q. contradiction.
Qed.

(* the invariant of the map while it is filled *)
Definition map_ok (m : list (bytes * gentry)) : Prop := forall ke, In ke m -> printed_ok ke = true.

Lemma put_In k e m ke : In ke (put k e m) -> ke = (k, e) \/ In ke m.
Proof.
  induction m as [|[k' e'] r IH]; cbn [put].
  - intros [H|[]]. left. symmetry. exact H.
  - destruct (beqb k k') eqn:Q.
    + intros [H|H]; [left; symmetry; exact H | right; right; exact H].
    + intros [H|H]; [right; left; exact H|]. destruct (IH H) as [A|A]; [left; exact A | right; right; exact A].
Qed.

Lemma put_ok k e m : map_ok m -> printed_ok (k, e) = true -> map_ok (put k e m).
Proof.
  intros M P ke I. destruct (put_In _ _ _ _ I) as [A|A]; [subst; exact P | apply M; exact A].
Qed.

Lemma printed_ok_self e : gentry_valid e = true -> printed_ok (g_name e, e) = true.
Proof. intro V. unfold printed_ok. cbn [fst snd]. rewrite beqb_refl, V. reflexivity. Qed.

Lemma put_all_ok es : forall m, map_ok m -> (forall e, In e es -> gentry_valid e = true) -> map_ok (put_all es m).
Proof.
  unfold put_all. induction es as [|e es IH]; intros m M V; cbn [fold_left]; [exact M|].
  apply IH.
  - apply put_ok; [exact M | apply printed_ok_self; apply V; left; reflexivity].
  - intros x I. apply V. right. exact I.
Qed.

Lemma put_missing_ok es : forall m, map_ok m -> (forall e, In e es -> gentry_valid e = true) -> map_ok (put_missing es m).
Proof.
  unfold put_missing. induction es as [|e es IH]; intros m M V; cbn [fold_left]; [exact M|].
  apply IH.
  - destruct (get (g_name e) m); [exact M|].
    apply put_ok; [exact M | apply printed_ok_self; apply V; left; reflexivity].
  - intros x I. apply V. right. exact I.
Qed.

Lemma default_deleg_parses : date_parses default_deleg = true.
Proof. vm_compute. reflexivity. Qed.

Lemma tld_entries_valid body e : In e (tld_entries body) -> gentry_valid e = true.
Proof.
  unfold tld_entries. rewrite in_map_iff. intros [l [E _]]. subst e.
  unfold gentry_valid. cbn [g_deleg g_removal]. rewrite default_deleg_parses. reflexivity.
Qed.

Lemma onion_ok : printed_ok (g_name onion_entry, onion_entry) = true.
Proof. vm_compute. reflexivity. Qed.

(* whatever the two documents say: when the generator writes a table at all, every entry of it is keyed by its own
   name, has a parseable delegation date and an empty or parseable removal date *)
Theorem render_entries_ok gs body m : render gs body = Some m -> forall ke, In ke m -> printed_ok ke = true.
Proof.
  unfold render. destruct (validate (delegated gs)) eqn:V; [|discriminate].
  intros [= <-] ke I. apply in_app_iff in I. destruct I as [I|[I|[]]].
  - revert ke I. apply put_missing_ok.
    + apply put_all_ok; [intros x [] | apply validate_iff; exact V].
    + intros e. apply tld_entries_valid.
  - subst ke. exact onion_ok.
Qed.

Theorem render_entries_spelled gs body m : render gs body = Some m ->
  forall ke, In ke m ->
    fst ke = g_name (snd ke) /\ date_parses (g_deleg (snd ke)) = true /\
    (g_removal (snd ke) = [] \/ date_parses (g_removal (snd ke)) = true).
Proof.
  intros R ke I. pose proof (render_entries_ok gs body m R ke I) as P.
  unfold printed_ok, gentry_valid in P.
  apply Bool.andb_true_iff in P. destruct P as [K P].
  apply Bool.andb_true_iff in P. destruct P as [D Rm].
  apply beqb_eq in K. split; [exact K|]. split; [exact D|].
  apply Bool.orb_true_iff in Rm. destruct Rm as [E|E]; [left; apply beqb_eq; exact E | right; exact E].
Qed.

(* ... and it fails closed: a delegated entry with a date that does not parse, anywhere in the gTLD document, and
   the generator writes nothing *)
Theorem render_fails_closed gs body e :
  In e gs -> g_deleg e <> [] -> gentry_valid e = false -> render gs body = None.
Proof.
  intros I D B. unfold render.
  destruct (validate (delegated gs)) eqn:V; [|reflexivity].
  rewrite validate_iff in V. rewrite (V e) in B; [discriminate|].
  apply delegated_In. split; assumption.
Qed.

(* conversely, with acceptable dates throughout it does write a table *)
Theorem render_succeeds gs body :
  (forall e, In e gs -> g_deleg e <> [] -> gentry_valid e = true) -> exists m, render gs body = Some m.
Proof.
  intro H. unfold render.
  assert (V : validate (delegated gs) = true).
  { apply validate_iff. intros e I. apply delegated_In in I. destruct I as [I D]. apply H; assumption. }
  rewrite V. eexists. reflexivity.
Qed.

(* entries of the gTLD document win over entries derived from the plain list: a name both documents carry keeps the
   dates of the gTLD document *)
Lemma get_put_same k e m : get k (put k e m) = Some e.
Proof.
  induction m as [|[k' e'] r IH]; cbn [put get].
  - rewrite beqb_refl. reflexivity.
  - destruct (beqb k k') eqn:Q; cbn [get]; rewrite ?beqb_refl, ?Q; [reflexivity | exact IH].
Qed.

Lemma get_put_other k k' e m : beqb k' k = false -> get k' (put k e m) = get k' m.
Proof.
  intro N. induction m as [|[k2 e2] r IH]; cbn [put get].
  - rewrite N. reflexivity.
  - destruct (beqb k k2) eqn:Q; cbn [get].
    + apply beqb_eq in Q. subst k2. rewrite N. reflexivity.
    + destruct (beqb k' k2); [reflexivity | exact IH].
Qed.

Lemma put_missing_keeps es : forall m k e, get k m = Some e -> get k (put_missing es m) = Some e.
Proof.
  unfold put_missing. induction es as [|x es IH]; intros m k e G; cbn [fold_left]; [exact G|].
  apply IH. destruct (get (g_name x) m) eqn:Gx; [exact G|].
  destruct (beqb k (g_name x)) eqn:Q.
  - apply beqb_eq in Q. subst k. rewrite Gx in G. discriminate.
  - rewrite get_put_other; assumption.
Qed.

(* non-vacuity: a document pair that is accepted, and one that is refused *)
Example render_example_ok :
  exists m, render [mkG (s2b "abarth") (s2b "2015-06-26") (s2b "2023-06-05"); mkG (s2b "never") [] []]
                   (s2b "# comment" ++ [10%N] ++ s2b "COM" ++ [10%N] ++ s2b "abarth" ++ [10%N]) = Some m /\ length m = 3%nat.
Proof. eexists. split; [vm_compute; reflexivity | reflexivity]. Qed.

Example render_example_refused :
  render [mkG (s2b "abarth") (s2b "2015-06-26") []; mkG (s2b "bad") (s2b "2015-06-31") []] [] = None.
Proof. vm_compute. reflexivity. Qed.
