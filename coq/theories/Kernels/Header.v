(* C16-style exactness / C20 companions for seven lints about the certificate's fixed fields, modelled in full:

     e_serial_number_longer_than_20_octets (the DER length of the INTEGER, computed from the number),
     e_serial_number_not_positive, e_cert_contains_unique_identifier, e_cert_unique_identifier_version_not_2_or_3,
     e_cert_extensions_version_not_3                                                                         (rfc)
     e_sub_cert_or_sub_ca_using_sha1, e_invalid_certificate_version                                           (cabf_br)

   Statuses: 3 pass, 6 error. *)
From Coq Require Import List ZArith Bool Lia.
Import ListNotations.
Open Scope Z_scope.
Ltac Zify.zify_post_hook ::= Z.div_mod_to_equations.

Record header_view := mkHeader {
  h_serial : Z; h_version : Z; h_sha1 : bool;   (* SignatureAlgorithm is SHA1WithRSA, DSAWithSHA1 or ECDSAWithSHA1 *)
  h_uid : bool;                                  (* an issuer or subject unique identifier is present *)
  h_exts : nat                                   (* len(Extensions) *)
}.

Definition bitlen (x : Z) : Z := if x <=? 0 then 0 else Z.log2 x + 1.

(* content octets of the DER INTEGER (two's complement, minimal) *)
Definition der_int_len (n : Z) : Z :=
  if n =? 0 then 1 else if 0 <? n then bitlen n / 8 + 1 else bitlen (- n - 1) / 8 + 1.

Definition err (b : bool) : Z := if b then 6 else 3.
Definition h_serial_too_long v := err (20 <? der_int_len (h_serial v)).
Definition h_serial_not_positive v := err (h_serial v <=? 0).
Definition h_using_sha1 v := err (h_sha1 v).
Definition h_contains_uid v := err (h_uid v).
Definition h_uid_version v := err (h_uid v && negb (h_version v =? 2) && negb (h_version v =? 3)).
Definition h_exts_version v := err (negb (h_version v =? 3) && negb (Nat.eqb (h_exts v) 0)).
Definition h_invalid_version v := err (negb (h_version v =? 3)).

Definition all_header_lints v : list Z :=
  [h_serial_too_long v; h_serial_not_positive v; h_using_sha1 v; h_contains_uid v; h_uid_version v; h_exts_version v; h_invalid_version v].

Lemma bitlen_ge x k : 0 < x -> 0 <= k -> (k < bitlen x <-> 2 ^ k <= x).
Proof.
  intros Hx Hk. unfold bitlen. destruct (Z.leb_spec x 0) as [L|L]; [lia|].
  split.
  - intro H. assert (k <= Z.log2 x) by lia. apply Z.log2_le_pow2; lia.
  - intro H. apply Z.log2_le_pow2 in H; lia.
Qed.

(* a positive serial number is too long exactly from 2^159 on (20 octets hold 159 value bits and the sign) *)
Theorem serial_too_long_positive v : 0 < h_serial v -> (h_serial_too_long v = 6 <-> 2 ^ 159 <= h_serial v).
Proof.
  intro Hp. unfold h_serial_too_long, err, der_int_len.
  destruct (Z.eqb_spec (h_serial v) 0) as [E0|E0]; [lia|]. destruct (Z.ltb_spec 0 (h_serial v)) as [L0|L0]; [|lia].
  rewrite <- (bitlen_ge (h_serial v) 159 Hp ltac:(lia)).
  assert (Hb : 0 <= bitlen (h_serial v)) by (unfold bitlen; destruct (h_serial v <=? 0); [lia|pose proof (Z.log2_nonneg (h_serial v)); lia]).
  destruct (Z.ltb_spec 20 (bitlen (h_serial v) / 8 + 1)) as [L|L]; split; intro H; try discriminate; try reflexivity.
  - lia.
  - exfalso. lia.
Qed.

(* companions *)
Theorem exts_version_implies_invalid_version v : h_exts_version v = 6 -> h_invalid_version v = 6.
Proof. unfold h_exts_version, h_invalid_version, err. destruct (h_version v =? 3); cbn [negb andb]; [discriminate|reflexivity]. Qed.

Theorem uid_version_implies_contains_uid v : h_uid_version v = 6 -> h_contains_uid v = 6.
Proof. unfold h_uid_version, h_contains_uid, err. destruct (h_uid v); cbn [andb]; [reflexivity|discriminate]. Qed.

Example serial_boundary :
  h_serial_too_long (mkHeader (2 ^ 159 - 1) 3 false false 0%nat) = 3 /\ h_serial_too_long (mkHeader (2 ^ 159) 3 false false 0%nat) = 6 /\
  h_serial_too_long (mkHeader (- 2 ^ 159) 3 false false 0%nat) = 3 /\ h_serial_too_long (mkHeader (- 2 ^ 159 - 1) 3 false false 0%nat) = 6 /\
  h_serial_too_long (mkHeader 0 3 false false 0%nat) = 3.
Proof. vm_compute. repeat split; reflexivity. Qed.
