(* Reserved-address classification (C19): v3/util/ip.go over Go's net.IP / net.IPNet semantics.
   An address is its family and numeric value AFTER Go's To4 normalisation (a 16-byte IPv4-mapped
   address is the V4 value), so the 4-byte and mapped forms are one value by construction.
   A network is (family, base value, prefix length). *)
From Coq Require Import NArith ZArith List Bool Lia ZifyN ZifyBool.
Import ListNotations.
Open Scope N_scope.

Inductive fam := V4 | V6.
Definition fam_eqb (a b : fam) : bool := match a, b with V4, V4 | V6, V6 => true | _, _ => false end.
Definition width (f : fam) : N := match f with V4 => 32 | V6 => 128 end.

Record addr := mkAddr { a_fam : fam; a_val : N }.
Record net := mkNet { n_fam : fam; n_base : N; n_len : N }.

Definition addr_ok (a : addr) : Prop := a_val a < 2 ^ width (a_fam a).
Definition net_ok (n : net) : Prop := n_len n <= width (n_fam n) /\ n_base n < 2 ^ width (n_fam n).

(* the prefix of x under a len-bit mask *)
Definition prefix (f : fam) (len x : N) : N := x / 2 ^ (width f - len).

(* IPNet.Contains (after To4 normalisation of both sides) *)
Definition contains (n : net) (a : addr) : bool :=
  fam_eqb (n_fam n) (a_fam a) && (prefix (n_fam n) (n_len n) (a_val a) =? prefix (n_fam n) (n_len n) (n_base n)).

(* canonical CIDR: no host bits set in the base (what net.ParseCIDR and the certificate parser produce
   for contiguous masks applied to the address) *)
Definition canonical (n : net) : Prop := n_base n mod 2 ^ (width (n_fam n) - n_len n) = 0.

(* net.IP.IsGlobalUnicast *)
Definition is_global_unicast (a : addr) : bool :=
  match a_fam a with
  | V4 => let x := a_val a in
          negb (x =? 4294967295) && negb (x =? 0) && negb (x / 2 ^ 24 =? 127) &&
          negb (x / 2 ^ 28 =? 14) && negb (x / 2 ^ 16 =? 43518)       (* 169.254 = 0xA9FE *)
  | V6 => let x := a_val a in
          negb (x =? 0) && negb (x =? 1) && negb (x / 2 ^ 120 =? 255) && negb (x / 2 ^ 118 =? 1018)  (* fe80::/10 = 0x3FA *)
  end.

Definition base_addr (n : net) : addr := mkAddr (n_fam n) (n_base n).

(* util.IsIANAReserved over the table of networks carried by the code *)
Definition is_reserved (tbl : list net) (a : addr) : bool :=
  negb (is_global_unicast a) || existsb (fun t => contains t a) tbl.

(* the first address of the range: the stated address with the bits outside the mask cleared (IP.Mask).  An iPAddress
   name constraint is address||mask and need not have them cleared. *)
Definition first_addr (n : net) : addr :=
  mkAddr (n_fam n) (n_base n / 2 ^ (width (n_fam n) - n_len n) * 2 ^ (width (n_fam n) - n_len n)).

(* util.IntersectsIANAReserved *)
Definition intersects (tbl : list net) (n : net) : bool :=
  negb (is_global_unicast (base_addr n)) || negb (is_global_unicast (first_addr n)) ||
  existsb (fun t => contains t (base_addr n) || contains n (base_addr t)) tbl.

(* B inside A *)
Definition subnet (b a : net) : bool :=
  fam_eqb (n_fam a) (n_fam b) && (n_len a <=? n_len b) && contains a (base_addr b).

(* the address classes IsGlobalUnicast excludes, cut so that each piece can sit inside one table network;
   :: and ::1 are handled by the canonical-base argument and are not listed *)
Definition class_nets : list net :=
  [ mkNet V4 0 32; mkNet V4 4294967295 32; mkNet V4 (127 * 2 ^ 24) 8; mkNet V4 (43518 * 2 ^ 16) 16;
    mkNet V6 (255 * 2 ^ 120) 8; mkNet V6 (1018 * 2 ^ 118) 10 ] ++
  map (fun k => mkNet V4 ((224 + N.of_nat k) * 2 ^ 24) 8) (seq 0 16).

(* data obligations over the regenerated table *)
Definition table_wf (tbl : list net) : bool :=
  forallb (fun t => (n_len t <=? width (n_fam t)) && (n_base t <? 2 ^ width (n_fam t)) &&
                    (n_base t mod 2 ^ (width (n_fam t) - n_len t) =? 0)) tbl.
Definition table_closed (tbl : list net) : bool :=
  forallb (fun c => existsb (fun t => subnet c t) tbl) class_nets.
(* every address of block b is reserved because b sits inside a table network or inside a class *)
Definition block_reserved (tbl : list net) (b : net) : bool :=
  existsb (fun t => subnet b t) (tbl ++ class_nets).


(* ================= helper lemmas ================= *)
Ltac Zify.zify_post_hook ::= Z.div_mod_to_equations.
Arguments N.pow : simpl never.
Arguments N.div : simpl never.
Arguments N.modulo : simpl never.

Lemma fam_eqb_eq : forall a b, fam_eqb a b = true <-> a = b.
Proof. intros a b; destruct a, b; cbn; split; congruence. Qed.

Lemma contains_iff : forall n a, contains n a = true <->
  n_fam n = a_fam a /\
  a_val a / 2 ^ (width (n_fam n) - n_len n) = n_base n / 2 ^ (width (n_fam n) - n_len n).
Proof.
  intros n a. unfold contains, prefix.
  rewrite andb_true_iff, fam_eqb_eq, N.eqb_eq. reflexivity.
Qed.

Lemma coarsen : forall W la lb x y, la <= lb -> lb <= W ->
  x / 2 ^ (W - lb) = y / 2 ^ (W - lb) -> x / 2 ^ (W - la) = y / 2 ^ (W - la).
Proof.
  intros W la lb x y Hab HbW E.
  replace (W - la) with ((W - lb) + (lb - la)) by lia.
  rewrite N.pow_add_r.
  rewrite <- !N.div_div by (apply N.pow_nonzero; lia).
  rewrite E. reflexivity.
Qed.

Lemma contains_base : forall n, contains n (base_addr n) = true.
Proof. intros n. apply contains_iff. cbn [base_addr a_fam a_val]. split; reflexivity. Qed.

Lemma wf_ok : forall tbl t, table_wf tbl = true -> In t tbl -> net_ok t /\ canonical t.
Proof.
  intros tbl t Hwf Hin. unfold table_wf in Hwf.
  rewrite forallb_forall in Hwf. specialize (Hwf t Hin).
  apply andb_true_iff in Hwf. destruct Hwf as [Hwf Hc].
  apply andb_true_iff in Hwf. destruct Hwf as [Hl Hb].
  apply N.leb_le in Hl. apply N.ltb_lt in Hb. apply N.eqb_eq in Hc.
  unfold net_ok, canonical. auto.
Qed.

Lemma class_wf : table_wf class_nets = true.
Proof. vm_compute. reflexivity. Qed.

Lemma base_ok : forall n, net_ok n -> addr_ok (base_addr n).
Proof. intros n [_ H]. unfold addr_ok. cbn [base_addr a_fam a_val]. exact H. Qed.

Lemma class_v4 : forall v, v < 2 ^ 32 ->
  existsb (fun c => contains c (mkAddr V4 v)) class_nets = negb (is_global_unicast (mkAddr V4 v)).
Proof.
  intros v. cbv -[N.div N.eqb orb andb negb N.lt]. intros Hv.
  repeat match goal with
  | |- context [N.div (Npos ?a) (Npos ?b)] =>
      let r := eval vm_compute in (N.div (Npos a) (Npos b)) in
      change (N.div (Npos a) (Npos b)) with r
  end.
  lia.
Qed.

Lemma class_v6 : forall v, v < 2 ^ 128 ->
  (is_global_unicast (mkAddr V6 v) = false <->
   v = 0 \/ v = 1 \/ existsb (fun c => contains c (mkAddr V6 v)) class_nets = true).
Proof.
  intros v. cbv -[N.div N.eqb orb andb negb N.lt]. intros Hv.
  repeat match goal with
  | |- context [N.div (Npos ?a) (Npos ?b)] =>
      let r := eval vm_compute in (N.div (Npos a) (Npos b)) in
      change (N.div (Npos a) (Npos b)) with r
  end.
  lia.
Qed.

Lemma existsb_absorb : forall (A : Type) (g h : A -> bool) (l : list A),
  (forall t, h t = true -> g t = true) ->
  existsb (fun t => g t || h t) l = existsb g l.
Proof.
  intros A g h l H. induction l as [|t l IH]; cbn [existsb]; [reflexivity|].
  rewrite IH. specialize (H t). destruct (g t), (h t); cbn; auto.
  discriminate (H eq_refl).
Qed.


(* ================= theorems to prove ================= *)

(* two blocks sharing an address are nested *)
Theorem nest : forall (a b : net) (x : addr),
  net_ok a -> net_ok b -> contains a x = true -> contains b x = true -> n_len a <= n_len b ->
  contains a (base_addr b) = true.
Proof.
  intros a b x [Ha _] [Hb _] Hax Hbx Hle.
  apply contains_iff in Hax. apply contains_iff in Hbx. apply contains_iff.
  destruct Hax as [Fa Ea]. destruct Hbx as [Fb Eb].
  cbn [base_addr a_fam a_val].
  assert (Fab : n_fam a = n_fam b) by congruence.
  split; [exact Fab|].
  rewrite <- Ea. rewrite Fab. symmetry.
  apply (coarsen (width (n_fam b)) (n_len a) (n_len b)); assumption.
Qed.

Theorem subnet_contains : forall (b a : net) (x : addr),
  net_ok a -> net_ok b -> subnet b a = true -> contains b x = true -> contains a x = true.
Proof.
  intros b a x Ha [Hb _] Hs Hbx. unfold subnet in Hs.
  apply andb_true_iff in Hs. destruct Hs as [Hs Hc].
  apply andb_true_iff in Hs. destruct Hs as [Hf Hl].
  apply N.leb_le in Hl. apply fam_eqb_eq in Hf.
  apply contains_iff in Hc. apply contains_iff in Hbx. apply contains_iff.
  cbn [base_addr a_fam a_val] in Hc.
  destruct Hc as [_ Ec]. destruct Hbx as [Fb Eb].
  split; [congruence|].
  rewrite <- Ec. rewrite Hf.
  apply (coarsen (width (n_fam b)) (n_len a) (n_len b)); assumption.
Qed.

(* a table network containing x makes any canonical/ok network containing x intersect *)
Lemma intersects_via_table : forall tbl a x t,
  table_wf tbl = true -> net_ok a -> In t tbl ->
  contains a x = true -> contains t x = true -> intersects tbl a = true.
Proof.
  intros tbl a x t Hwf Ha Hin Hax Htx.
  destruct (wf_ok tbl t Hwf Hin) as [Ht _].
  unfold intersects. apply orb_true_iff. right.
  apply existsb_exists. exists t. split; [exact Hin|].
  apply orb_true_iff.
  destruct (N.le_ge_cases (n_len t) (n_len a)) as [Hle|Hle].
  - left. apply (nest t a x); assumption.
  - right. apply (nest a t x); assumption.
Qed.

(* an address that is not global unicast is ::, ::1 or inside a class network, and conversely *)
Theorem not_global_unicast_iff : forall x, addr_ok x ->
  (is_global_unicast x = false <->
   x = mkAddr V6 0 \/ x = mkAddr V6 1 \/ existsb (fun c => contains c x) class_nets = true).
Proof.
  intros [f v] Hok. unfold addr_ok in Hok. cbn [a_fam a_val] in Hok. destruct f.
  - rewrite (class_v4 v Hok). split.
    + intros H. right. right. rewrite H. reflexivity.
    + intros [H|[H|H]]; try discriminate H.
      apply negb_true_iff in H. exact H.
  - rewrite (class_v6 v Hok). split.
    + intros [H|[H|H]]; [left|right;left|right;right]; congruence.
    + intros [H|[H|H]]; [left|right;left|right;right]; congruence.
Qed.

Lemma reserved_of_table : forall tbl t x, In t tbl -> contains t x = true -> is_reserved tbl x = true.
Proof.
  intros tbl t x Hin Htx. unfold is_reserved. apply orb_true_iff. right.
  apply existsb_exists. exists t. auto.
Qed.

(* every address of a block that passes block_reserved is reserved *)
Theorem block_all_reserved : forall tbl b x,
  table_wf tbl = true -> net_ok b -> addr_ok x -> block_reserved tbl b = true -> contains b x = true ->
  is_reserved tbl x = true.
Proof.
  intros tbl b x Hwf Hb Hx Hbr Hbx. unfold block_reserved in Hbr.
  apply existsb_exists in Hbr. destruct Hbr as [t [Hin Hs]].
  apply in_app_or in Hin. destruct Hin as [Hin|Hin].
  - destruct (wf_ok tbl t Hwf Hin) as [Ht _].
    apply (reserved_of_table tbl t x Hin).
    apply (subnet_contains b t x); assumption.
  - destruct (wf_ok class_nets t class_wf Hin) as [Ht _].
    assert (Htx : contains t x = true) by (apply (subnet_contains b t x); assumption).
    unfold is_reserved. apply orb_true_iff. left. apply negb_true_iff.
    apply (not_global_unicast_iff x Hx). right. right.
    apply existsb_exists. exists t. auto.
Qed.

Lemma first_addr_ok : forall a, net_ok a -> addr_ok (first_addr a).
Proof.
  intros a [_ Hb]. unfold addr_ok, first_addr. cbn [a_fam a_val].
  set (k := width (n_fam a) - n_len a).
  assert (Hnz : 2 ^ k <> 0) by (apply N.pow_nonzero; lia).
  pose proof (N.mul_div_le (n_base a) (2 ^ k) Hnz) as H. lia.
Qed.

Lemma contains_first : forall a, contains a (first_addr a) = true.
Proof.
  intros a. apply contains_iff. unfold first_addr. cbn [a_fam a_val]. split; [reflexivity|].
  apply N.div_mul. apply N.pow_nonzero. lia.
Qed.

(* a range that holds :: starts at :: *)
Lemma first_zero : forall a v, v < 2 -> (v = 1 -> width (n_fam a) - n_len a <> 0) ->
  v / 2 ^ (width (n_fam a) - n_len a) = n_base a / 2 ^ (width (n_fam a) - n_len a) ->
  a_val (first_addr a) = 0.
Proof.
  intros a v Hv Hk E. unfold first_addr. cbn [a_val].
  set (k := width (n_fam a) - n_len a) in *.
  assert (Hz : v / 2 ^ k = 0).
  { apply N.div_small.
    destruct (N.eq_dec v 1) as [H1|H1].
    - specialize (Hk H1). subst v. apply N.pow_gt_1; lia.
    - assert (v = 0) by lia. subst v. apply N.neq_0_lt_0. apply N.pow_nonzero. lia. }
  rewrite <- E, Hz. reflexivity.
Qed.

(* completeness: a network containing a reserved address intersects reserved space - whether or not its stated address
   is its first address *)
Theorem intersects_complete : forall tbl a x,
  table_wf tbl = true -> table_closed tbl = true -> net_ok a -> addr_ok x ->
  contains a x = true -> is_reserved tbl x = true -> intersects tbl a = true.
Proof.
  intros tbl a x Hwf Hcl Ha Hx Hax Hres.
  unfold is_reserved in Hres. apply orb_true_iff in Hres. destruct Hres as [Hng|Hex].
  - apply negb_true_iff in Hng. apply (not_global_unicast_iff x Hx) in Hng.
    destruct Hng as [H0|[H1|Hc]].
    + subst x. apply contains_iff in Hax. cbn [a_fam a_val] in Hax. destruct Hax as [Fa Ea].
      assert (Hb : a_val (first_addr a) = 0).
      { apply (first_zero a 0); [lia|intros; discriminate|exact Ea]. }
      unfold intersects. apply orb_true_iff. left. apply orb_true_iff. right.
      unfold first_addr in *. cbn [a_val] in Hb. rewrite Fa in *. rewrite Hb. vm_compute. reflexivity.
    + subst x. apply contains_iff in Hax. cbn [a_fam a_val] in Hax. destruct Hax as [Fa Ea].
      unfold intersects. apply orb_true_iff. left.
      destruct (N.eq_dec (width (n_fam a) - n_len a) 0) as [Hk|Hk].
      * apply orb_true_iff. left. unfold base_addr. rewrite Fa.
        rewrite Hk in Ea. change (2 ^ 0) with 1 in Ea. rewrite !N.div_1_r in Ea.
        rewrite <- Ea. vm_compute. reflexivity.
      * assert (Hb : a_val (first_addr a) = 0).
        { apply (first_zero a 1); [lia|intros; exact Hk|exact Ea]. }
        apply orb_true_iff. right.
        unfold first_addr in *. cbn [a_val] in Hb. rewrite Fa in *. rewrite Hb. vm_compute. reflexivity.
    + apply existsb_exists in Hc. destruct Hc as [c [Hcin Hcx]].
      unfold table_closed in Hcl. rewrite forallb_forall in Hcl. specialize (Hcl c Hcin).
      apply existsb_exists in Hcl. destruct Hcl as [t [Htin Hs]].
      destruct (wf_ok tbl t Hwf Htin) as [Ht _].
      destruct (wf_ok class_nets c class_wf Hcin) as [Hcok _].
      apply (intersects_via_table tbl a x t); try assumption.
      apply (subnet_contains c t x); assumption.
  - apply existsb_exists in Hex. destruct Hex as [t [Htin Htx]].
    apply (intersects_via_table tbl a x t); assumption.
Qed.

(* soundness of intersects: it only fires when the network really contains a reserved address *)
Lemma intersects_sound_aux : forall tbl a,
  table_wf tbl = true -> net_ok a -> intersects tbl a = true ->
  exists x, addr_ok x /\ contains a x = true /\ is_reserved tbl x = true.
Proof.
  intros tbl a Hwf Ha Hi. unfold intersects in Hi.
  apply orb_true_iff in Hi. destruct Hi as [Hng|Hex].
  - apply orb_true_iff in Hng. destruct Hng as [Hng|Hng].
    + exists (base_addr a). split; [apply base_ok; exact Ha|]. split; [apply contains_base|].
      unfold is_reserved. rewrite Hng. reflexivity.
    + exists (first_addr a). split; [apply first_addr_ok; exact Ha|]. split; [apply contains_first|].
      unfold is_reserved. rewrite Hng. reflexivity.
  - apply existsb_exists in Hex. destruct Hex as [t [Htin Hor]].
    destruct (wf_ok tbl t Hwf Htin) as [Ht _].
    apply orb_true_iff in Hor. destruct Hor as [H|H].
    + exists (base_addr a). split; [apply base_ok; exact Ha|]. split; [apply contains_base|].
      apply (reserved_of_table tbl t); assumption.
    + exists (base_addr t). split; [apply base_ok; exact Ht|]. split; [exact H|].
      apply (reserved_of_table tbl t); [assumption|apply contains_base].
Qed.

(* monotonicity under super-nets *)
Theorem intersects_monotone : forall tbl a b,
  table_wf tbl = true -> table_closed tbl = true -> net_ok a -> net_ok b ->
  subnet b a = true -> intersects tbl b = true -> intersects tbl a = true.
Proof.
  intros tbl a b Hwf Hcl Ha Hb Hs Hi.
  destruct (intersects_sound_aux tbl b Hwf Hb Hi) as [y [Hy [Hby Hry]]].
  apply (intersects_complete tbl a y); try assumption.
  apply (subnet_contains b a y); assumption.
Qed.

(* a single-address network answers like the address test *)
Theorem intersects_single : forall tbl x,
  table_wf tbl = true -> addr_ok x ->
  intersects tbl (mkNet (a_fam x) (a_val x) (width (a_fam x))) = is_reserved tbl x.
Proof.
  intros tbl [f v] Hwf Hx. cbn [a_fam a_val]. unfold intersects, is_reserved.
  assert (Hf : first_addr (mkNet f v (width f)) = mkAddr f v).
  { unfold first_addr. cbn [n_fam n_base n_len]. rewrite N.sub_diag. change (2 ^ 0) with 1.
    rewrite N.div_1_r, N.mul_1_r. reflexivity. }
  rewrite Hf. cbn [base_addr n_fam n_base]. rewrite orb_diag. f_equal.
  apply existsb_absorb. intros t H.
  apply contains_iff in H. apply contains_iff.
  cbn [base_addr a_fam a_val n_fam n_base n_len] in *.
  destruct H as [Ff E]. rewrite N.sub_diag in E. change (2 ^ 0) with 1 in E.
  rewrite !N.div_1_r in E. split; [congruence|]. rewrite E. reflexivity.
Qed.

(* soundness of intersects: it only fires when the network really contains a reserved address *)
Theorem intersects_sound : forall tbl a,
  table_wf tbl = true -> net_ok a -> intersects tbl a = true ->
  exists x, addr_ok x /\ contains a x = true /\ is_reserved tbl x = true.
Proof. exact intersects_sound_aux. Qed.


(* two spellings of one range get one answer *)
Lemma same_range_contains : forall a b x, n_fam a = n_fam b -> n_len a = n_len b ->
  contains a (base_addr b) = true -> contains a x = contains b x.
Proof.
  intros a b x Ff Fl H. apply contains_iff in H. cbn [base_addr a_fam a_val] in H. destruct H as [_ E].
  unfold contains, prefix. rewrite <- Ff, <- Fl. rewrite E. reflexivity.
Qed.

Theorem intersects_spelling : forall tbl a b,
  table_wf tbl = true -> table_closed tbl = true -> net_ok a -> net_ok b ->
  n_fam a = n_fam b -> n_len a = n_len b -> contains a (base_addr b) = true ->
  intersects tbl a = intersects tbl b.
Proof.
  intros tbl a b Hwf Hcl Ha Hb Ff Fl H.
  assert (S : forall x, contains a x = contains b x) by (intro x; apply same_range_contains; assumption).
  destruct (intersects tbl a) eqn:Ia; destruct (intersects tbl b) eqn:Ib; try reflexivity.
  - destruct (intersects_sound_aux tbl a Hwf Ha Ia) as [x [Hx [Cx Rx]]].
    rewrite S in Cx. rewrite (intersects_complete tbl b x Hwf Hcl Hb Hx Cx Rx) in Ib. discriminate.
  - destruct (intersects_sound_aux tbl b Hwf Hb Ib) as [x [Hx [Cx Rx]]].
    rewrite <- S in Cx. rewrite (intersects_complete tbl a x Hwf Hcl Ha Hx Cx Rx) in Ia. discriminate.
Qed.

(* ---- the three lints (SAN iPAddress, common name, name constraints) ---- *)
Definition lint_ips (tbl : list net) (ips : list addr) : bool := existsb (is_reserved tbl) ips.      (* true = error *)
Definition lint_nets (tbl : list net) (ns : list net) : bool := existsb (intersects tbl) ns.

Theorem lint_ips_iff : forall tbl ips, lint_ips tbl ips = true <-> exists x, In x ips /\ is_reserved tbl x = true.
Proof. intros. unfold lint_ips. apply existsb_exists. Qed.

Theorem lint_nets_iff : forall tbl ns, lint_nets tbl ns = true <-> exists n, In n ns /\ intersects tbl n = true.
Proof. intros. unfold lint_nets. apply existsb_exists. Qed.
