(* C05 / C17: e_key_usage_and_extended_key_usage_inconsistent modelled in full.  The table (extended key usage ->
   permitted key-usage combinations) is data dumped from the running build; key usages are bit sets (Z), combined
   with bitwise or.  Statuses: 3 pass, 6 error. *)
From Coq Require Import List ZArith Bool Lia Sorting.Permutation.
Import ListNotations.
Open Scope Z_scope.

Definition table := list (Z * list Z).

Fixpoint lookup (t : table) (e : Z) : option (list Z) :=
  match t with
  | [] => None
  | (e', ks) :: r => if e =? e' then Some ks else lookup r e
  end.

Definition memz (x : Z) (l : list Z) : bool := existsb (Z.eqb x) l.

(* one step of multiPurpose: the combinations seen so far, each joined with every combination of this EKU, plus
   this EKU's own combinations *)
Definition merge (mp ks : list Z) : list Z := mp ++ flat_map (fun m => map (Z.lor m) ks) mp ++ ks.

(* None: an EKU without a table entry was met - the lint passes whatever the key usage *)
Fixpoint multi (t : table) (ekus : list Z) (mp : list Z) : option (list Z) :=
  match ekus with
  | [] => Some mp
  | e :: r => match lookup t e with
              | None => None
              | Some ks => multi t r (merge mp ks)
              end
  end.

Definition multi_purpose (t : table) (ekus : list Z) (ku : Z) : Z :=
  match multi t ekus [] with
  | None => 3
  | Some mp => if memz ku mp then 3 else 6
  end.

Definition strict_purpose (t : table) (ekus : list Z) (ku : Z) : Z :=
  if existsb (fun e => match lookup t e with Some ks => negb (memz ku ks) | None => false end) ekus then 6 else 3.

(* Execute: more than one EKU -> multi-purpose rule, otherwise the strict one *)
Definition ku_eku_lint (t : table) (ekus : list Z) (ku : Z) : Z :=
  if (1 <? Z.of_nat (length ekus)) then multi_purpose t ekus ku else strict_purpose t ekus ku.

(* ---------------- facts ---------------- *)

Lemma memz_In x l : memz x l = true <-> In x l.
Proof.
  unfold memz. rewrite existsb_exists. split.
  - intros [y [I E]]. apply Z.eqb_eq in E. subst. exact I.
  - intro I. exists x. split; [exact I | apply Z.eqb_refl].
Qed.

Lemma In_merge x mp ks :
  In x (merge mp ks) <-> In x mp \/ In x ks \/ exists m k, In m mp /\ In k ks /\ x = Z.lor m k.
Proof.
  unfold merge. rewrite !in_app_iff, in_flat_map. split.
  - intros [H|[[m [Im H]]|H]]; auto.
    apply in_map_iff in H. destruct H as [k [E Ik]]. right; right. exists m, k. auto.
  - intros [H|[H|[m [k [Im [Ik E]]]]]]; auto.
    right; left. exists m. split; [exact Im|]. apply in_map_iff. exists k. auto.
Qed.

Definition seteq (a b : list Z) : Prop := forall x, In x a <-> In x b.

Lemma seteq_refl a : seteq a a.  Proof. intro x; tauto. Qed.
Lemma seteq_sym a b : seteq a b -> seteq b a.  Proof. intros H x; specialize (H x); tauto. Qed.
Lemma seteq_trans a b c : seteq a b -> seteq b c -> seteq a c.
Proof. intros H1 H2 x; specialize (H1 x); specialize (H2 x); tauto. Qed.

Lemma merge_seteq mp mp' ks ks' : seteq mp mp' -> seteq ks ks' -> seteq (merge mp ks) (merge mp' ks').
Proof.
  intros Hm Hk x. rewrite !In_merge. split.
  - intros [H|[H|[m [k [Im [Ik E]]]]]].
    + left. apply Hm. exact H.
    + right; left. apply Hk. exact H.
    + right; right. exists m, k. split; [apply Hm; exact Im|]. split; [apply Hk; exact Ik | exact E].
  - intros [H|[H|[m [k [Im [Ik E]]]]]].
    + left. apply Hm. exact H.
    + right; left. apply Hk. exact H.
    + right; right. exists m, k. split; [apply Hm; exact Im|]. split; [apply Hk; exact Ik | exact E].
Qed.

(* merging two EKUs' combinations in either order gives the same set *)
Lemma merge_swap_sub mp a b x : In x (merge (merge mp a) b) -> In x (merge (merge mp b) a).
Proof.
  intro H. apply In_merge in H. apply In_merge.
  destruct H as [H|[H|[m [k [Im [Ik E]]]]]].
  - apply In_merge in H. destruct H as [H|[H|[m [k [Im [Ik E]]]]]].
    + left. apply In_merge. left. exact H.
    + right; left. exact H.
    + right; right. exists m, k. split; [apply In_merge; left; exact Im|]. split; [exact Ik | exact E].
  - left. apply In_merge. right; left. exact H.
  - apply In_merge in Im. destruct Im as [Im|[Im|[m' [k' [Im' [Ik' E']]]]]].
    + left. apply In_merge. right; right. exists m, k. auto.
    + right; right. exists k, m. split; [apply In_merge; right; left; exact Ik|]. split; [exact Im | rewrite Z.lor_comm; exact E].
    + right; right. exists (Z.lor m' k), k'. split.
      { apply In_merge. right; right. exists m', k. auto. }
      split; [exact Ik'|]. subst x m. rewrite <- !Z.lor_assoc. f_equal. apply Z.lor_comm.
Qed.

Lemma merge_swap mp a b : seteq (merge (merge mp a) b) (merge (merge mp b) a).
Proof. intro x. split; apply merge_swap_sub. Qed.

Definition oseteq (a b : option (list Z)) : Prop :=
  match a, b with
  | None, None => True
  | Some x, Some y => seteq x y
  | _, _ => False
  end.

Lemma multi_seteq t ekus : forall mp mp', seteq mp mp' -> oseteq (multi t ekus mp) (multi t ekus mp').
Proof.
  induction ekus as [|e r IH]; intros mp mp' H; simpl; [exact H|].
  destruct (lookup t e) as [ks|]; [|exact I].
  apply IH. apply merge_seteq; [exact H | apply seteq_refl].
Qed.

Lemma oseteq_trans a b c : oseteq a b -> oseteq b c -> oseteq a c.
Proof.
  destruct a, b, c; simpl; try tauto. apply seteq_trans.
Qed.

(* the set of authorised combinations does not depend on the order of the extended key usages *)
Theorem multi_perm t ekus ekus' : Permutation ekus ekus' -> forall mp, oseteq (multi t ekus mp) (multi t ekus' mp).
Proof.
  induction 1 as [|e l l' P IH|a b l|l l' l'' P1 IH1 P2 IH2]; intro mp; simpl.
  - apply seteq_refl.
  - destruct (lookup t e); [apply IH | exact I].
  - destruct (lookup t b) as [kb|] eqn:B; destruct (lookup t a) as [ka|] eqn:A; simpl; try exact I.
    apply multi_seteq. apply merge_swap.
  - eapply oseteq_trans; [apply IH1 | apply IH2].
Qed.

Lemma memz_seteq a b x : seteq a b -> memz x a = memz x b.
Proof.
  intro H. destruct (memz x a) eqn:A; destruct (memz x b) eqn:B; try reflexivity.
  - apply memz_In in A. apply H in A. apply memz_In in A. congruence.
  - apply memz_In in B. apply H in B. apply memz_In in B. congruence.
Qed.

Theorem multi_purpose_perm t ekus ekus' ku : Permutation ekus ekus' -> multi_purpose t ekus ku = multi_purpose t ekus' ku.
Proof.
  intro P. unfold multi_purpose. pose proof (multi_perm t ekus ekus' P []) as H.
  destruct (multi t ekus []) as [a|]; destruct (multi t ekus' []) as [b|]; simpl in H; try contradiction; [|reflexivity].
  rewrite (memz_seteq a b ku H). reflexivity.
Qed.

Lemma existsb_perm' {A} (f : A -> bool) xs ys : Permutation xs ys -> existsb f xs = existsb f ys.
Proof.
  induction 1 as [|x l l' P IH|x y l|l l' l'' P1 IH1 P2 IH2]; simpl; auto.
  - rewrite IH. reflexivity.
  - destruct (f x), (f y); reflexivity.
  - congruence.
Qed.

(* the whole lint: its verdict does not depend on the order in which the extended key usages are listed *)
Theorem ku_eku_lint_perm t ekus ekus' ku : Permutation ekus ekus' -> ku_eku_lint t ekus ku = ku_eku_lint t ekus' ku.
Proof.
  intro P. unfold ku_eku_lint. rewrite (Permutation_length P).
  destruct (1 <? Z.of_nat (length ekus')); [apply multi_purpose_perm; exact P|].
  unfold strict_purpose. rewrite (existsb_perm' _ ekus ekus' P). reflexivity.
Qed.

(* ... nor on the order in which a table entry lists its combinations (Go iterates over a map) *)
Theorem multi_table_order t t' ekus :
  (forall e, match lookup t e, lookup t' e with Some a, Some b => seteq a b | None, None => True | _, _ => False end) ->
  forall mp mp', seteq mp mp' -> oseteq (multi t ekus mp) (multi t' ekus mp').
Proof.
  intro H. induction ekus as [|e r IH]; intros mp mp' Hm; simpl; [exact Hm|].
  specialize (H e) as He. destruct (lookup t e) as [a|]; destruct (lookup t' e) as [b|]; try contradiction; [|exact I].
  apply IH. apply merge_seteq; assumption.
Qed.

(* what the multi-purpose rule authorises: exactly the joins of one combination from each EKU of some non-empty
   sub-selection; here the two-EKU case, which is the one met in practice *)
Theorem multi_two t a b ka kb x :
  lookup t a = Some ka -> lookup t b = Some kb ->
  (exists mp, multi t [a; b] [] = Some mp /\
     (In x mp <-> In x ka \/ In x kb \/ exists m k, In m ka /\ In k kb /\ x = Z.lor m k)).
Proof.
  intros A B. simpl. rewrite A, B. eexists. split; [reflexivity|].
  rewrite In_merge. rewrite !In_merge. simpl. split.
  - intros [[H|[H|[m [k [[] _]]]]]|[H|[m [k [Im [Ik E]]]]]]; auto; try contradiction.
    apply In_merge in Im. destruct Im as [[]|[Im|[m' [k' [[] _]]]]].
    right; right. exists m, k. auto.
  - intros [H|[H|[m [k [Im [Ik E]]]]]].
    + left; right; left; exact H.
    + right; left; exact H.
    + right; right. exists m, k. split; [apply In_merge; right; left; exact Im|]. auto.
Qed.
