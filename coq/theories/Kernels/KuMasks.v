(* C20 / C06, exact on a finite domain: five RFC 5280 / RFC 8813 key-usage bodies that depend on the nine key-usage bits
   only: e_rsa_allowed_ku_ca, e_rsa_allowed_ku_ee, e_rsa_allowed_ku_no_encipherment_ca, e_ecdsa_allowed_ku,
   n_ecdsa_ee_invalid_ku.  Statuses: 3 pass, 4 notice, 6 error.  Every statement for all 0 <= k < 512, by sweep. *)
From Coq Require Import List ZArith Bool Lia.
From ZL Require Import Kernels.Tld Kernels.Calendar Kernels.CalendarFacts Kernels.SmimeKu.
Import ListNotations.
Open Scope Z_scope.

Definition any_of (k m : Z) : bool := negb (Z.land k m =? 0).

Definition m_rsa_ca k := if any_of k (16 + 128 + 256) then 6 else 3.
Definition m_rsa_ee k := if any_of k (16 + 32 + 64 + 128 + 256) then 6 else 3.
Definition m_rsa_ca_no_enc k := if any_of k (32 + 64) && any_of k (4 + 8) then 6 else 3.
Definition m_ecdsa k := if any_of k (4 + 8) then 6 else 3.
Definition m_ecdsa_ee k := if any_of k (Z.lxor 511 (1 + 2 + 16)) then 4 else 3.

Definition all_ku_mask_lints k : list Z := [m_rsa_ca k; m_rsa_ee k; m_rsa_ca_no_enc k; m_ecdsa k; m_ecdsa_ee k].

Definition chk_masks (k : Z) : bool :=
  (* what is forbidden to an RSA CA key is forbidden to an RSA subscriber key *)
  (negb (m_rsa_ca k =? 6) || (m_rsa_ee k =? 6)) &&
  (* the ECDSA error always comes with the ECDSA subscriber notice *)
  (negb (m_ecdsa k =? 6) || (m_ecdsa_ee k =? 4)) &&
  (* the subscriber notice is silent exactly on subsets of digitalSignature, contentCommitment, keyAgreement *)
  Bool.eqb (m_ecdsa_ee k =? 3) (memz k [0; 1; 2; 3; 16; 17; 18; 19]).

Lemma sweep_masks : all_from (Z.to_nat 512) 0 chk_masks = true.
Proof. vm_compute. reflexivity. Qed.

Lemma chk_masks_holds k : 0 <= k < 512 -> chk_masks k = true.
Proof. intro H. apply (all_from_spec _ _ _ sweep_masks). rewrite Z2Nat.id by lia. lia. Qed.

Theorem rsa_ca_error_implies_ee_error k : 0 <= k < 512 -> m_rsa_ca k = 6 -> m_rsa_ee k = 6.
Proof.
  intros H S. pose proof (chk_masks_holds k H) as C. unfold chk_masks in C.
  repeat (apply andb_true_iff in C; destruct C as [C ?]).
  rewrite S in C. cbn in C. apply Z.eqb_eq in C. exact C.
Qed.

Theorem ecdsa_error_implies_ee_notice k : 0 <= k < 512 -> m_ecdsa k = 6 -> m_ecdsa_ee k = 4.
Proof.
  intros H S. pose proof (chk_masks_holds k H) as C. unfold chk_masks in C.
  repeat (apply andb_true_iff in C; destruct C as [C ?]).
  match goal with Hx : (negb (m_ecdsa k =? 6) || (m_ecdsa_ee k =? 4)) = true |- _ => rewrite S in Hx; cbn in Hx; apply Z.eqb_eq in Hx; exact Hx end.
Qed.
