(* C17 / C02: fourteen lints that scan the subject common name and the SAN dNSNames, modelled in full (status as a
   function of the names).  Model only; proofs in NamesFacts.v.

     e_dnsname_label_too_long, e_dnsname_empty_label, e_dnsname_bad_character_in_label      (cabf_br, CN when not empty / not an IP)
     e_dnsname_left_label_wildcard_correct, e_dnsname_wildcard_only_in_left_label           (cabf_br, CN always)
     e_rfc_dnsname_empty_label, e_rfc_dnsname_label_too_long                                (rfc, SAN only)
     e_san_bare_wildcard, n_san_dns_name_duplicate, e_san_dns_name_includes_null_char,
     e_san_dns_name_starts_with_period, e_san_wildcard_not_first                            (community)
     e_ext_san_dns_name_too_long, e_ext_san_space_dns_name                                  (rfc)

   Statuses: 1 NA, 3 pass, 4 notice, 6 error. *)
From ZL Require Import Base.Bytes.
Open Scope Z_scope.

Definition chDot : N := 46.  Definition chStar : N := 42.  Definition chQ : N := 63.

(* strings.Split(s, "."): always at least one label *)
Fixpoint split_dot_aux (s : bytes) (cur : bytes) : list bytes :=
  match s with
  | [] => [rev cur]
  | c :: r => if N.eqb c chDot then rev cur :: split_dot_aux r [] else split_dot_aux r (c :: cur)
  end.
Definition split_dot (s : bytes) : list bytes := split_dot_aux s [].

Definition blen (b : bytes) : Z := Z.of_nat (length b).
Definition contains_byte (c : N) (b : bytes) : bool := existsb (N.eqb c) b.

(* ---- per-name predicates ---- *)
Definition label_too_long (d : bytes) : bool := existsb (fun l => 63 <? blen l) (split_dot d).
Definition has_empty_label (d : bytes) : bool := existsb (fun l => match l with [] => true | _ => false end) (split_dot d).

(* [A-Za-z0-9*_-] *)
Definition label_char (c : N) : bool :=
  ((65 <=? c) && (c <=? 90) || (97 <=? c) && (c <=? 122) || (48 <=? c) && (c <=? 57) || (c =? 42) || (c =? 95) || (c =? 45))%N.

(* ([A-Za-z0-9*_-]+\.)*[A-Za-z0-9*_-]*  : every label of allowed characters, all but the last non-empty *)
Fixpoint labels_ok (ls : list bytes) : bool :=
  match ls with
  | [] => true
  | [l] => forallb label_char l
  | l :: r => match l with [] => false | _ => forallb label_char l && labels_ok r end
  end.
Definition tail_ok (s : bytes) : bool := labels_ok (split_dot s).

(* (\?\.)* : '?' is not a label character, so stripping greedily loses nothing *)
Fixpoint strip_q (fuel : nat) (s : bytes) : bytes :=
  match fuel with
  | O => s
  | S f => match s with
           | a :: b :: r => if N.eqb a chQ && N.eqb b chDot then strip_q f r else s
           | _ => s
           end
  end.

(* ^(\*\.)?(\?\.)*([A-Za-z0-9*_-]+\.)*[A-Za-z0-9*_-]*$ *)
Definition proper_characters (d : bytes) : bool :=
  tail_ok (strip_q (length d) d) ||
  match d with
  | a :: b :: r => N.eqb a chStar && N.eqb b chDot && tail_ok (strip_q (length r) r)
  | _ => false
  end.

Definition left_wildcard_incorrect (d : bytes) : bool :=
  match split_dot d with
  | l :: _ => contains_byte chStar l && negb (beqb l [chStar])
  | [] => false
  end.

Definition wildcard_not_in_left (d : bytes) : bool :=
  match split_dot d with
  | _ :: r => existsb (contains_byte chStar) r
  | [] => false
  end.

Definition ends_with_star (d : bytes) : bool := has_suffix [chStar] d.
Definition has_nul (d : bytes) : bool := contains_byte 0%N d.
Definition starts_with_period (d : bytes) : bool := has_prefix [chDot] d.
Definition star_after_first (d : bytes) : bool := match d with [] => false | _ :: r => contains_byte chStar r end.
Definition name_too_long (d : bytes) : bool := 253 <? blen d.
Definition is_space (d : bytes) : bool := beqb d [32%N].

(* strings.ToLower on ASCII names *)
Definition lower_ascii (d : bytes) : bytes := map (fun c => if (65 <=? c)%N && (c <=? 90)%N then (c + 32)%N else c) d.
Fixpoint has_dup (l : list bytes) : bool :=
  match l with
  | [] => false
  | x :: r => mem x r || has_dup r
  end.

(* ---- the view of a certificate these lints use ---- *)
Record nview := mkNview {
  nv_subscriber : bool;    (* neither a CA nor self-signed *)
  nv_tls : bool;           (* in scope of the CA/B Forum TLS BRs (gate of the cabf_br source) *)
  nv_san_ext : bool;       (* the subjectAltName extension is present *)
  nv_cn : bytes;
  nv_cn_is_ip : bool;      (* net.ParseIP accepts the common name (library oracle) *)
  nv_dns : list bytes
}.

Definition names_exist (v : nview) : bool := negb (match nv_cn v with [] => true | _ => false end) || negb (match nv_dns v with [] => true | _ => false end).
Definition cn_if_name (v : nview) : list bytes :=
  match nv_cn v with [] => [] | _ => if nv_cn_is_ip v then [] else [nv_cn v] end.

Definition verdict (finding : Z) (applies : bool) (found : bool) : Z :=
  if negb applies then 1 else if found then finding else 3.

(* cabf_br source: out of TLS scope is NA before anything else *)
Definition br (v : nview) (s : Z) : Z := if nv_tls v then s else 1.

Definition l_label_too_long v := br v (verdict 6 (nv_subscriber v && names_exist v) (existsb label_too_long (cn_if_name v ++ nv_dns v))).
Definition l_empty_label v := br v (verdict 6 (nv_subscriber v && names_exist v) (existsb has_empty_label (cn_if_name v ++ nv_dns v))).
Definition l_bad_character v := br v (verdict 6 (nv_subscriber v && names_exist v) (existsb (fun d => negb (proper_characters d)) (cn_if_name v ++ nv_dns v))).
Definition l_left_wildcard v := br v (verdict 6 true (existsb left_wildcard_incorrect (nv_cn v :: nv_dns v))).
Definition l_wildcard_left_only v := br v (verdict 6 true (existsb wildcard_not_in_left (nv_cn v :: nv_dns v))).
Definition l_rfc_empty_label v := verdict 6 (nv_subscriber v && names_exist v) (existsb has_empty_label (nv_dns v)).
Definition l_rfc_label_too_long v := verdict 6 (nv_subscriber v && names_exist v) (existsb label_too_long (nv_dns v)).
Definition l_bare_wildcard v := verdict 6 (nv_san_ext v) (existsb ends_with_star (nv_dns v)).
Definition l_duplicate v := verdict 4 (nv_san_ext v) (has_dup (map lower_ascii (nv_dns v))).
Definition l_null_char v := verdict 6 (nv_san_ext v) (existsb has_nul (nv_dns v)).
Definition l_starts_period v := verdict 6 (nv_san_ext v) (existsb starts_with_period (nv_dns v)).
Definition l_wildcard_not_first v := verdict 6 (nv_san_ext v) (existsb star_after_first (nv_dns v)).
Definition l_name_too_long v := verdict 6 (nv_san_ext v && negb (match nv_dns v with [] => true | _ => false end)) (existsb name_too_long (nv_dns v)).
Definition l_space_name v := verdict 6 (nv_san_ext v) (existsb is_space (nv_dns v)).

Definition all_name_lints (v : nview) : list Z :=
  [l_label_too_long v; l_empty_label v; l_bad_character v; l_left_wildcard v; l_wildcard_left_only v; l_rfc_empty_label v; l_rfc_label_too_long v;
   l_bare_wildcard v; l_duplicate v; l_null_char v; l_starts_period v; l_wildcard_not_first v; l_name_too_long v; l_space_name v].
