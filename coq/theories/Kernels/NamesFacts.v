(* Proofs about Kernels/Names.v: names are judged as a set (C17), the status range, agreement of the BR / RFC twins
   on the same names (C20). *)
From ZL Require Import Base.Bytes Base.BytesFacts Kernels.Order Kernels.Names.
From Coq Require Import Sorting.Permutation Lia.
Open Scope Z_scope.

Definition with_dns (v : nview) (d : list bytes) : nview :=
  mkNview (nv_subscriber v) (nv_tls v) (nv_san_ext v) (nv_cn v) (nv_cn_is_ip v) d.

Lemma has_dup_NoDup l : has_dup l = false <-> NoDup l.
Proof.
  induction l as [|x r IH]; simpl.
  - split; [constructor | reflexivity].
  - rewrite orb_false_iff, IH. split.
    + intros [M N]. constructor; [apply mem_false; exact M | exact N].
    + intros H. inversion H; subst. split; [apply mem_false; assumption | assumption].
Qed.

Lemma has_dup_perm l l' : Permutation l l' -> has_dup l = has_dup l'.
Proof.
  intro P. destruct (has_dup l) eqn:A; destruct (has_dup l') eqn:B; try reflexivity.
  - apply has_dup_NoDup in B. apply (Permutation_NoDup (Permutation_sym P)) in B. apply has_dup_NoDup in B. congruence.
  - apply has_dup_NoDup in A. apply (Permutation_NoDup P) in A. apply has_dup_NoDup in A. congruence.
Qed.

Lemma nil_perm {A} (l l' : list A) : Permutation l l' ->
  match l with [] => true | _ => false end = match l' with [] => true | _ => false end.
Proof.
  intro P. destruct l as [|x r]; destruct l' as [|y s]; try reflexivity.
  - apply Permutation_nil in P. discriminate.
  - apply Permutation_sym, Permutation_nil in P. discriminate.
Qed.

Lemma names_exist_perm v d' : Permutation (nv_dns v) d' -> names_exist (with_dns v d') = names_exist v.
Proof. intro P. unfold names_exist, with_dns; simpl. rewrite (nil_perm _ _ P). reflexivity. Qed.

(* every one of the fourteen verdicts is unchanged by any permutation of the SAN dNSNames *)
Theorem name_lints_perm : forall v d', Permutation (nv_dns v) d' -> all_name_lints (with_dns v d') = all_name_lints v.
Proof.
  intros v d' P.
  assert (PS := Permutation_sym P).
  unfold all_name_lints.
  unfold l_label_too_long, l_empty_label, l_bad_character, l_left_wildcard, l_wildcard_left_only, l_rfc_empty_label, l_rfc_label_too_long,
         l_bare_wildcard, l_duplicate, l_null_char, l_starts_period, l_wildcard_not_first, l_name_too_long, l_space_name, br.
  rewrite (names_exist_perm v d' P).
  change (nv_tls (with_dns v d')) with (nv_tls v). change (nv_subscriber (with_dns v d')) with (nv_subscriber v).
  change (nv_san_ext (with_dns v d')) with (nv_san_ext v). change (cn_if_name (with_dns v d')) with (cn_if_name v).
  change (nv_cn (with_dns v d')) with (nv_cn v). change (nv_dns (with_dns v d')) with d'.
  rewrite (nil_perm _ _ PS).
  rewrite !(existsb_perm _ (cn_if_name v ++ d') (cn_if_name v ++ nv_dns v) (Permutation_app_head _ PS)).
  rewrite !(existsb_perm _ (nv_cn v :: d') (nv_cn v :: nv_dns v) (perm_skip _ PS)).
  rewrite !(existsb_perm _ d' (nv_dns v) PS).
  rewrite (has_dup_perm (map lower_ascii d') (map lower_ascii (nv_dns v)) (Permutation_map _ PS)).
  reflexivity.
Qed.

(* each verdict is NA, pass, notice or error *)
Theorem name_lints_range : forall v s, In s (all_name_lints v) -> s = 1 \/ s = 3 \/ s = 4 \/ s = 6.
Proof.
  intros v s H. unfold all_name_lints in H. simpl in H.
  unfold l_label_too_long, l_empty_label, l_bad_character, l_left_wildcard, l_wildcard_left_only, l_rfc_empty_label, l_rfc_label_too_long,
         l_bare_wildcard, l_duplicate, l_null_char, l_starts_period, l_wildcard_not_first, l_name_too_long, l_space_name, br, verdict in H.
  repeat (destruct H as [H|H]; [subst s; repeat match goal with |- context [if ?b then _ else _] => destruct b end; auto|]).
  destruct H.
Qed.

(* C20: a BR lint and its RFC twin agree when the certificate is in TLS scope and the common name adds nothing
   (empty, an IP address, or one of the SAN names) *)
Theorem twins_agree : forall v,
  nv_tls v = true -> (forall n, In n (cn_if_name v) -> In n (nv_dns v)) ->
  l_label_too_long v = l_rfc_label_too_long v /\ l_empty_label v = l_rfc_empty_label v.
Proof.
  intros v T H. unfold l_label_too_long, l_rfc_label_too_long, l_empty_label, l_rfc_empty_label, br. rewrite T.
  assert (E : forall f, existsb f (cn_if_name v ++ nv_dns v) = existsb f (nv_dns v)).
  { intro f. rewrite existsb_app. destruct (existsb f (cn_if_name v)) eqn:X; [|reflexivity].
    apply existsb_exists in X. destruct X as [n [I F]]. simpl. symmetry. apply existsb_exists. exists n. split; [apply H; exact I | exact F]. }
  rewrite !E. split; reflexivity.
Qed.

(* what the predicates mean *)
Lemma split_dot_aux_nonempty s cur : split_dot_aux s cur <> [].
Proof. revert cur. induction s as [|c r IH]; intro cur; simpl; [discriminate|]. destruct (N.eqb c chDot); [discriminate | apply IH]. Qed.

Theorem split_dot_nonempty : forall s, split_dot s <> [].
Proof. intro s. apply split_dot_aux_nonempty. Qed.

(* joining the labels with dots gives the name back *)
Fixpoint join_dot (ls : list bytes) : bytes :=
  match ls with
  | [] => []
  | [l] => l
  | l :: r => l ++ chDot :: join_dot r
  end.

Lemma join_split_aux s cur : join_dot (split_dot_aux s cur) = rev cur ++ s.
Proof.
  revert cur. induction s as [|c r IH]; intro cur; simpl.
  - rewrite app_nil_r. reflexivity.
  - destruct (N.eqb c chDot) eqn:E.
    + apply N.eqb_eq in E. subst c.
      pose proof (split_dot_aux_nonempty r []) as NE.
      destruct (split_dot_aux r []) as [|l ls] eqn:S; [contradiction|].
      change (join_dot (rev cur :: l :: ls)) with (rev cur ++ chDot :: join_dot (l :: ls)).
      rewrite <- S, IH. reflexivity.
    + rewrite IH. simpl. rewrite <- app_assoc. reflexivity.
Qed.

Theorem join_split : forall s, join_dot (split_dot s) = s.
Proof. intro s. unfold split_dot. rewrite join_split_aux. reflexivity. Qed.

Lemma split_dot_aux_no_dot s cur l : In l (split_dot_aux s cur) -> ~ In chDot cur -> ~ In chDot l.
Proof.
  revert cur l. induction s as [|c r IH]; intros cur l I NC; simpl in I.
  - destruct I as [I|[]]. subst l. intro X. apply in_rev in X. contradiction.
  - destruct (N.eqb c chDot) eqn:E.
    + destruct I as [I|I].
      * subst l. intro X. apply in_rev in X. contradiction.
      * apply (IH [] l I). intros [].
    + apply (IH (c :: cur) l I). intros [X|X]; [subst c; rewrite N.eqb_refl in E; discriminate | contradiction].
Qed.

(* no label contains a dot *)
Theorem split_dot_labels : forall s l, In l (split_dot s) -> ~ In chDot l.
Proof. intros s l I. apply (split_dot_aux_no_dot s [] l I). intros []. Qed.
