(* C17 / C20 / C06: six lints about the FORM of the nameConstraints extension (rfc), modelled in full with their
   CheckApplies (the extension is present), over the fourteen subtree lists of the parsed certificate in the order
   permitted / excluded of dNSName, rfc822Name, iPAddress, directoryName, ediPartyName, registeredID, x400Address; each
   subtree is its (minimum, maximum) pair.

     e_name_constraint_maximum_not_absent, e_name_constraint_minimum_non_zero, w_name_constraint_on_edi_party_name,
     w_name_constraint_on_registered_id, w_name_constraint_on_x400, e_ext_name_constraints_not_in_ca

   The maximum lint is modelled AS WRITTEN: its third loop visits the permitted dNSNames a second time instead of the
   permitted rfc822Names (nc_max_skips_permitted_email).  Statuses: 1 NA, 3 pass, 5 warn, 6 error. *)
From Coq Require Import List ZArith Bool Lia Sorting.Permutation.
Import ListNotations.
Open Scope Z_scope.

Record nc_view := mkNc { nc_ext : bool; nc_is_ca : bool; nc_lists : list (list (Z * Z)) (* fourteen lists of (min, max) *) }.

Definition cat (v : nc_view) (i : nat) : list (Z * Z) := nth i (nc_lists v) [].
Definition any_max (l : list (Z * Z)) : bool := existsb (fun s => negb (snd s =? 0)) l.
Definition any_min (l : list (Z * Z)) : bool := existsb (fun s => negb (fst s =? 0)) l.
Definition nonnil (l : list (Z * Z)) : bool := match l with [] => false | _ => true end.
Definition gate (v : nc_view) (s : Z) : Z := if nc_ext v then s else 1.

(* the lists the maximum lint visits, in its order: index 2 (permitted rfc822Name) is missing, index 0 appears twice *)
Definition max_visited : list nat := [0; 1; 0; 3; 4; 5; 6; 7; 8; 9; 10; 11; 12; 13]%nat.
Definition min_visited : list nat := seq 0 14.

Definition n_max v := gate v (if existsb (fun i => any_max (cat v i)) max_visited then 6 else 3).
Definition n_min v := gate v (if existsb (fun i => any_min (cat v i)) min_visited then 6 else 3).
Definition n_edi v := gate v (if nonnil (cat v 8) || nonnil (cat v 9) then 5 else 3).
Definition n_regid v := gate v (if nonnil (cat v 10) || nonnil (cat v 11) then 5 else 3).
Definition n_x400 v := gate v (if nonnil (cat v 12) || nonnil (cat v 13) then 5 else 3).
Definition n_not_in_ca v := gate v (if nc_is_ca v then 3 else 6).

Definition all_nc_form_lints v : list Z := [n_max v; n_min v; n_edi v; n_regid v; n_x400 v; n_not_in_ca v].

(* the minimum lint is total over the fourteen lists: Error iff some subtree anywhere has a non-zero minimum *)
Theorem n_min_spec v : nc_ext v = true -> length (nc_lists v) = 14%nat ->
  (n_min v = 6 <-> exists l s, In l (nc_lists v) /\ In s l /\ fst s <> 0).
Proof.
  intros He Hl. unfold n_min, gate. rewrite He.
  destruct (existsb (fun i => any_min (cat v i)) min_visited) eqn:E.
  - split; [|reflexivity]. intros _. apply existsb_exists in E. destruct E as (i & Hi & Ha).
    unfold any_min in Ha. apply existsb_exists in Ha. destruct Ha as (s & Hs & Hn).
    exists (cat v i), s. split; [|split; [exact Hs|]].
    + unfold cat. apply nth_In. unfold min_visited in Hi. apply in_seq in Hi. lia.
    + apply negb_true_iff in Hn. apply Z.eqb_neq in Hn. exact Hn.
  - split; [discriminate|]. intros (l & s & Hl1 & Hs & Hn). exfalso.
    destruct (In_nth _ _ [] Hl1) as (i & Hi & Hnth).
    assert (existsb (fun i => any_min (cat v i)) min_visited = true) as X; [|congruence].
    apply existsb_exists. exists i. split; [unfold min_visited; apply in_seq; lia|].
    unfold any_min, cat. rewrite Hnth. apply existsb_exists. exists s. split; [exact Hs|].
    apply negb_true_iff. apply Z.eqb_neq. exact Hn.
Qed.

(* the maximum lint is NOT: a maximum on a permitted rfc822Name subtree goes unreported *)
Theorem nc_max_skips_permitted_email : exists v, nc_ext v = true /\ length (nc_lists v) = 14%nat /\
  (exists l s, In l (nc_lists v) /\ In s l /\ snd s <> 0) /\ n_max v = 3.
Proof.
  exists (mkNc true true [[]; []; [(0, 5)]; []; []; []; []; []; []; []; []; []; []; []]).
  split; [reflexivity|]. split; [reflexivity|]. split; [|vm_compute; reflexivity].
  exists [(0, 5)], (0, 5). cbn. split; [tauto|]. split; [tauto|]. discriminate.
Qed.

(* the order of the subtrees inside each list is immaterial *)
Lemma n_existsb_perm {A} (f : A -> bool) l l' : Permutation l l' -> existsb f l = existsb f l'.
Proof.
  induction 1 as [|x l l' _ IH|x y l|l l' l'' _ IH1 _ IH2]; cbn [existsb].
  - reflexivity. - rewrite IH. reflexivity. - destruct (f x); destruct (f y); reflexivity. - congruence.
Qed.

Lemma nonnil_perm l l' : Permutation l l' -> nonnil l = nonnil l'.
Proof.
  intro P. destruct l; destruct l'; try reflexivity.
  - apply Permutation_nil in P. discriminate.
  - apply Permutation_sym in P. apply Permutation_nil in P. discriminate.
Qed.

Theorem nc_form_perm v ls' :
  Forall2 (@Permutation (Z * Z)) (nc_lists v) ls' ->
  all_nc_form_lints (mkNc (nc_ext v) (nc_is_ca v) ls') = all_nc_form_lints v.
Proof.
  intro F.
  assert (Hcat : forall i, Permutation (cat v i) (nth i ls' [])).
  { intro i. unfold cat. revert i. induction F as [|a b la lb Hab _ IH]; intro i; destruct i; cbn [nth]; try apply Permutation_refl; auto. }
  unfold all_nc_form_lints, n_max, n_min, n_edi, n_regid, n_x400, n_not_in_ca, gate, cat. cbn [nc_ext nc_is_ca nc_lists].
  assert (Hmax : forall vis, existsb (fun i => any_max (nth i ls' [])) vis = existsb (fun i => any_max (cat v i)) vis).
  { intro vis. induction vis as [|i vis IHv]; [reflexivity|]. cbn [existsb]. rewrite IHv. f_equal. unfold any_max. symmetry. apply n_existsb_perm. apply Hcat. }
  assert (Hmin : forall vis, existsb (fun i => any_min (nth i ls' [])) vis = existsb (fun i => any_min (cat v i)) vis).
  { intro vis. induction vis as [|i vis IHv]; [reflexivity|]. cbn [existsb]. rewrite IHv. f_equal. unfold any_min. symmetry. apply n_existsb_perm. apply Hcat. }
  rewrite Hmax, Hmin. unfold cat.
  rewrite <- !(nonnil_perm _ _ (Hcat _)). reflexivity.
Qed.
