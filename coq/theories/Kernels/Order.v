(* C17: verdicts of list-scanning lints do not depend on the order of the list.
   Names are judged as sets: a rule of the form "finding if any element offends, else NA if any element cannot be
   parsed, else pass" is invariant under permutation.  The public-suffix parser is an oracle: each name arrives
   with its parse result. *)
From ZL Require Import Base.Bytes Base.BytesFacts.
From Coq Require Import Sorting.Permutation Lia.
Open Scope Z_scope.

Lemma existsb_perm {A} (f : A -> bool) xs ys : Permutation xs ys -> existsb f xs = existsb f ys.
Proof.
  induction 1 as [|x l l' P IH|x y l|l l' l'' P1 IH1 P2 IH2]; simpl; auto.
  - rewrite IH. reflexivity.
  - destruct (f x), (f y); reflexivity.
  - congruence.
Qed.

Lemma forallb_perm {A} (f : A -> bool) xs ys : Permutation xs ys -> forallb f xs = forallb f ys.
Proof.
  induction 1 as [|x l l' P IH|x y l|l l' l'' P1 IH1 P2 IH2]; simpl; auto.
  - rewrite IH. reflexivity.
  - destruct (f x), (f y); reflexivity.
  - congruence.
Qed.

(* a parsed DNS name: the oracle's answer (None = the public-suffix parser rejects it) *)
Record pname := mkPname { pn_raw : bytes; pn_parsed : option (bytes * bytes) (* SLD, TRD *) }.

Definition sNA : Z := 1.
Definition sPass : Z := 3.

(* the order-independent evaluation the seven label lints now use: finding wins, then NA, then pass *)
Definition eval3 (finding : Z) (offends : bytes * bytes -> bool) (names : list pname) : Z :=
  if existsb (fun n => match pn_parsed n with Some p => offends p | None => false end) names then finding
  else if existsb (fun n => match pn_parsed n with None => true | Some _ => false end) names then sNA
  else sPass.

Theorem eval3_perm finding offends xs ys : Permutation xs ys -> eval3 finding offends xs = eval3 finding offends ys.
Proof.
  intro P. unfold eval3. rewrite (existsb_perm _ xs ys P).
  rewrite (existsb_perm (fun n => match pn_parsed n with None => true | Some _ => false end) xs ys P). reflexivity.
Qed.

(* the evaluation they used before the fix: stop at the first name that is unparseable or offends *)
Fixpoint na_first (finding : Z) (offends : bytes * bytes -> bool) (names : list pname) : Z :=
  match names with
  | [] => sPass
  | n :: r => match pn_parsed n with
              | None => sNA
              | Some p => if offends p then finding else na_first finding offends r
              end
  end.

Definition hyphen_sld (p : bytes * bytes) : bool := has_prefix [45%N] (fst p) || has_suffix [45%N] (fst p).
Definition underscore_sld (p : bytes * bytes) : bool := existsb (N.eqb 95) (fst p).
Definition underscore_trd (p : bytes * bytes) : bool := existsb (N.eqb 95) (snd p).
Definition wildcard_sld (p : bytes * bytes) : bool := beqb (fst p) [42%N].

(* the old evaluation is order dependent: the documented witness *)
Theorem na_first_refuted :
  exists xs ys, Permutation xs ys /\ na_first 6 hyphen_sld xs <> na_first 6 hyphen_sld ys.
Proof.
  exists [mkPname (s2b "-bad.com") (Some (s2b "-bad", [])); mkPname (s2b "co.uk") None],
         [mkPname (s2b "co.uk") None; mkPname (s2b "-bad.com") (Some (s2b "-bad", []))].
  split; [apply perm_swap | vm_compute; discriminate].
Qed.

(* the seven lints: the RFC variants look at the SAN dNSNames; the BR variants also at a non-empty, non-IP common name *)
Definition lint_rfc (finding : Z) (offends : bytes * bytes -> bool) (san : list pname) : Z := eval3 finding offends san.
Definition lint_br (finding : Z) (offends : bytes * bytes -> bool) (cn : option pname) (san : list pname) : Z :=
  eval3 finding offends (match cn with Some n => n :: san | None => san end).

Theorem lint_rfc_perm finding offends xs ys : Permutation xs ys -> lint_rfc finding offends xs = lint_rfc finding offends ys.
Proof. apply eval3_perm. Qed.

Theorem lint_br_perm finding offends cn xs ys : Permutation xs ys -> lint_br finding offends cn xs = lint_br finding offends cn ys.
Proof. intro P. unfold lint_br. apply eval3_perm. destruct cn; [constructor|]; exact P. Qed.

(* C20: on the same names (common name empty, an IP, or one of the SAN names) the two variants agree *)
Theorem rfc_br_agree finding offends cn san :
  (match cn with Some n => In n san | None => True end) ->
  lint_br finding offends cn san = lint_rfc finding offends san.
Proof.
  unfold lint_br, lint_rfc, eval3. destruct cn as [n|]; [|reflexivity]. intro I.
  set (f := fun n0 => match pn_parsed n0 with Some p => offends p | None => false end).
  set (g := fun n0 : pname => match pn_parsed n0 with None => true | Some _ => false end).
  change (existsb f (n :: san)) with (f n || existsb f san)%bool.
  change (existsb g (n :: san)) with (g n || existsb g san)%bool.
  assert (Hf : f n = true -> existsb f san = true) by (intro H; apply existsb_exists; exists n; auto).
  assert (Hg : g n = true -> existsb g san = true) by (intro H; apply existsb_exists; exists n; auto).
  destruct (f n) eqn:Ef; [rewrite (Hf eq_refl); reflexivity|]. cbn [orb].
  destruct (existsb f san); [reflexivity|].
  destruct (g n) eqn:Eg; [rewrite (Hg eq_refl); reflexivity | reflexivity].
Qed.

(* ---- extensions: lookup by OID does not depend on the order when no OID repeats ---- *)
Fixpoint find_ext {V} (o : list Z) (es : list (list Z * V)) : option V :=
  match es with
  | [] => None
  | (o', v) :: r => if (fix eq (a b : list Z) := match a, b with [], [] => true | x :: a', y :: b' => (x =? y) && eq a' b' | _, _ => false end) o o'
                    then Some v else find_ext o r
  end.

Definition oid_eqb : list Z -> list Z -> bool :=
  fix eq (a b : list Z) := match a, b with [], [] => true | x :: a', y :: b' => (x =? y) && eq a' b' | _, _ => false end.

Lemma oid_eqb_eq a b : oid_eqb a b = true <-> a = b.
Proof.
  revert b; induction a as [|x a IH]; intros [|y b]; simpl; split; intro H; try congruence; auto.
  - apply andb_true_iff in H as [H1 H2]. apply Z.eqb_eq in H1. apply IH in H2. congruence.
  - inversion H; subst. rewrite Z.eqb_refl. simpl. apply IH. reflexivity.
Qed.

Lemma find_ext_in {V} o (es : list (list Z * V)) v :
  NoDup (map fst es) -> In (o, v) es -> find_ext o es = Some v.
Proof.
  induction es as [|[o' v'] es IH]; simpl; intros ND I; [destruct I|].
  inversion ND as [|? ? Hn ND']; subst.
  fold oid_eqb. destruct (oid_eqb o o') eqn:E.
  - apply oid_eqb_eq in E. subst o'. destruct I as [I|I]; [inversion I; reflexivity|].
    exfalso. apply Hn. apply (in_map fst) in I. exact I.
  - destruct I as [I|I]; [inversion I; subst; rewrite (proj2 (oid_eqb_eq o o) eq_refl) in E; discriminate|].
    apply IH; auto.
Qed.

Lemma find_ext_none {V} o (es : list (list Z * V)) : find_ext o es = None <-> ~ In o (map fst es).
Proof.
  induction es as [|[o' v'] es IH]; simpl; [tauto|]. fold oid_eqb.
  destruct (oid_eqb o o') eqn:E.
  - apply oid_eqb_eq in E. subst. split; [discriminate | intro H; exfalso; apply H; left; reflexivity].
  - rewrite IH. split; [intros H [X|X]; [subst; rewrite (proj2 (oid_eqb_eq o o) eq_refl) in E; discriminate | auto] | intros H X; apply H; right; exact X].
Qed.

Theorem find_ext_perm {V} o (es es' : list (list Z * V)) :
  NoDup (map fst es) -> Permutation es es' -> find_ext o es = find_ext o es'.
Proof.
  intros ND P.
  assert (ND' : NoDup (map fst es')) by (eapply Permutation_NoDup; [apply Permutation_map; exact P | exact ND]).
  destruct (find_ext o es) as [v|] eqn:E.
  - assert (I : In (o, v) es).
    { clear -E. induction es as [|[o' v'] es IH]; simpl in *; [discriminate|]. fold oid_eqb in E.
      destruct (oid_eqb o o') eqn:X; [apply oid_eqb_eq in X; inversion E; subst; left; reflexivity | right; apply IH; exact E]. }
    symmetry. apply find_ext_in; auto. eapply Permutation_in; eauto.
  - symmetry. apply find_ext_none. apply find_ext_none in E. intro X. apply E.
    eapply Permutation_in; [apply Permutation_sym, Permutation_map; exact P | exact X].
Qed.
