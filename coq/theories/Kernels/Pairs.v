(* C20: duplicated rules never contradict each other.  The RFC/BR label pairs are in Kernels/Order.v
   (rfc_br_agree).  Here: the URI-host pair (both copies as written, url.Parse as an oracle giving Opaque and Host,
   util.IsFQDNOrIP as an oracle), mirror-image rules in general, and the error/warning limit pairs. *)
From ZL Require Import Base.Bytes Base.BytesFacts.
From Coq Require Import Lia.
Open Scope Z_scope.

Definition sPass : Z := 3.
Definition sWarn : Z := 5.
Definition sError : Z := 6.

(* one URI as the two lints see it: url.Parse succeeded?, Opaque, Host *)
Record puri := mkUri { u_ok : bool; u_opaque : bytes; u_host : bytes }.

Section UriHost.
  Variable is_fqdn_or_ip : bytes -> bool.      (* util.IsFQDNOrIP *)
  Variable get_host : bytes -> bytes.          (* util.GetHost: strips user-info and port *)

  (* e_ext_san_uri_host_not_fqdn_or_ip, per non-empty URI: true = error *)
  Definition san_uri_bad (u : puri) : bool :=
    if negb (u_ok u) then true
    else match u_opaque u with
         | [] => match u_host u with [] => true | h => negb (is_fqdn_or_ip h) end
         | _ => false
         end.

  (* the issuerAltName copy after the repair: the same rule *)
  Definition ian_uri_bad (u : puri) : bool := san_uri_bad u.

  (* the copy as it was: no opaque case, host stripped of user-info and port first *)
  Definition ian_uri_bad_old (u : puri) : bool :=
    if negb (u_ok u) then true else negb (is_fqdn_or_ip (get_host (u_host u))).

  Definition lint_uris (bad : puri -> bool) (us : list puri) : Z := if existsb bad us then sError else sPass.

  Theorem uri_host_pair_agrees us : lint_uris san_uri_bad us = lint_uris ian_uri_bad us.
  Proof. reflexivity. Qed.

  (* the old copy contradicted its twin on every opaque URI whose (empty) host is not an FQDN or IP *)
  Theorem uri_host_old_refuted :
    is_fqdn_or_ip (get_host []) = false ->
    exists u, lint_uris san_uri_bad [u] <> lint_uris ian_uri_bad_old [u].
  Proof.
    intro H. exists (mkUri true (s2b "a@b.com") []). unfold lint_uris, san_uri_bad, ian_uri_bad_old. simpl. rewrite H. discriminate.
  Qed.
End UriHost.

(* mirror-image rules: one rule applied to two fields gives one answer when the fields carry the same content *)
Theorem mirror_agree {A B} (rule : A -> B) (subject_side issuer_side : A) :
  subject_side = issuer_side -> rule subject_side = rule issuer_side.
Proof. intros ->. reflexivity. Qed.

(* an error-level limit with a stricter warning-level companion: the error always comes with the warning *)
Definition limit_lint (finding : Z) (limit x : Z) : Z := if limit <? x then finding else sPass.

Theorem limit_error_implies_warning hi lo x :
  lo <= hi -> limit_lint sError hi x = sError -> limit_lint sWarn lo x = sWarn.
Proof.
  unfold limit_lint. intros L. destruct (hi <? x) eqn:E; [|discriminate]. intros _.
  apply Z.ltb_lt in E. assert (lo < x) by lia. apply Z.ltb_lt in H. rewrite H. reflexivity.
Qed.

Definition limits_case := (Z * Z * Z * Z * Z)%type.   (* measured value, error limit, warning limit, observed e_, observed w_ *)
Definition check_limits (c : limits_case) : bool :=
  match c with (x, hi, lo, se, sw) => (limit_lint sError hi x =? se) && (limit_lint sWarn lo x =? sw) end.
