(* C17 / C20 / C06: four lints about the certificatePolicies extension (rfc), modelled in full with their CheckApplies,
   over what the parser extracted: the policy identifiers in order; per policy the userNotice noticeRef numbers
   (present or not) and organization lengths; per policy the tags of the explicitText values.

     e_ext_cert_policy_duplicate, w_ext_cert_policy_contains_noticeref,
     e_ext_cert_policy_explicit_text_ia5_string, w_ext_cert_policy_explicit_text_not_utf8

   Statuses: 1 NA, 3 pass, 5 warn, 6 error. *)
From Coq Require Import List ZArith Bool Lia Sorting.Permutation.
From ZL Require Import Kernels.Scope.
Import ListNotations.
Open Scope Z_scope.

Record pol_view := mkPol {
  p_ext : bool;
  p_ids : list oid;
  p_numbers : list (list bool);          (* NoticeRefNumbers: per policy, per notice: the number list is non-nil *)
  p_orgs : list (list nat);              (* NoticeRefOrgnization: per policy, per notice: length of the organization *)
  p_texts : list (option (list Z))       (* ExplicitTexts: per policy, None for a nil list, else the tags *)
}.

Fixpoint has_dup_oid (l : list oid) : bool :=
  match l with [] => false | x :: r => existsb (oid_eqb x) r || has_dup_oid r end.

Definition texts_gate (v : pol_view) : bool := existsb (fun t => match t with Some _ => true | None => false end) (p_texts v).
Definition all_tags (v : pol_view) : list Z := List.concat (map (fun t => match t with Some l => l | None => [] end) (p_texts v)).

Definition q_duplicate v := if p_ext v then (if has_dup_oid (p_ids v) then 6 else 3) else 1.
Definition q_noticeref v :=
  if p_ext v then
    (if existsb (fun l => existsb (fun b => b) l) (p_numbers v) || existsb (fun l => existsb (fun n => negb (Nat.eqb n 0)) l) (p_orgs v) then 5 else 3)
  else 1.
Definition q_ia5 v := if texts_gate v then (if existsb (Z.eqb 22) (all_tags v) then 6 else 3) else 1.
Definition q_not_utf8 v := if texts_gate v then (if existsb (fun t => negb (t =? 12)) (all_tags v) then 5 else 3) else 1.

Definition all_policy_lints v : list Z := [q_duplicate v; q_noticeref v; q_ia5 v; q_not_utf8 v].

Lemma oid_eqb_sym a : forall b, oid_eqb a b = oid_eqb b a.
Proof.
  induction a as [|x a IH]; intros [|y b]; cbn [oid_eqb]; try reflexivity.
  rewrite IH, (Z.eqb_sym x y). reflexivity.
Qed.

Lemma q_existsb_perm {A} (f : A -> bool) l l' : Permutation l l' -> existsb f l = existsb f l'.
Proof.
  induction 1 as [|x l l' _ IH|x y l|l l' l'' _ IH1 _ IH2]; cbn [existsb].
  - reflexivity. - rewrite IH. reflexivity. - destruct (f x); destruct (f y); reflexivity. - congruence.
Qed.

(* the duplicate test does not depend on the order of the policies *)
Theorem has_dup_oid_perm l l' : Permutation l l' -> has_dup_oid l = has_dup_oid l'.
Proof.
  induction 1 as [|x l l' P IH|x y l|l l' l'' _ IH1 _ IH2]; cbn [has_dup_oid].
  - reflexivity.
  - rewrite IH, (q_existsb_perm _ _ _ P). reflexivity.
  - cbn [existsb]. rewrite (oid_eqb_sym y x).
    destruct (oid_eqb x y); destruct (existsb (oid_eqb y) l); destruct (existsb (oid_eqb x) l); destruct (has_dup_oid l); reflexivity.
  - congruence.
Qed.

Theorem duplicate_perm v ids' : Permutation (p_ids v) ids' ->
  q_duplicate (mkPol (p_ext v) ids' (p_numbers v) (p_orgs v) (p_texts v)) = q_duplicate v.
Proof. intro P. unfold q_duplicate. cbn [p_ext p_ids]. rewrite (has_dup_oid_perm _ _ P). reflexivity. Qed.

(* companion rules about the explicitText string type: the IA5String error always comes with the not-UTF8 warning *)
Theorem ia5_implies_not_utf8 v : q_ia5 v = 6 -> q_not_utf8 v = 5.
Proof.
  unfold q_ia5, q_not_utf8. destruct (texts_gate v); [|discriminate].
  destruct (existsb (Z.eqb 22) (all_tags v)) eqn:E; [|discriminate]. intros _.
  apply existsb_exists in E. destruct E as (t & Hin & Ht). apply Z.eqb_eq in Ht. subst t.
  assert (existsb (fun t => negb (t =? 12)) (all_tags v) = true) as X by (apply existsb_exists; exists 22; split; [exact Hin|reflexivity]).
  rewrite X. reflexivity.
Qed.
