(* C02: util.ParseQcStatem (v3/util/qc_stmt.go) - the discipline of its dynamic result type.  Six ETSI lints assert the
   result to a concrete statement type without the comma-ok form (s.(util.EtsiQcPds), s.(util.Etsi423QcType),
   s.(util.EtsiQcRetentionPeriod)); they do so only when the statement is present (CheckApplies) and carries no error
   text.  The ASN.1 decoder is an oracle: each element of the extension's outer sequence is abstracted to whether it
   decodes as a statement, which statement it is, and whether its info field decodes (and re-encodes) cleanly. *)
From Coq Require Import List Bool.
Import ListNotations.

Inductive qkind := KCompliance | KLimit | KRetention | KSscd | KPds | KType | KOther.

Definition qkind_eqb (a b : qkind) : bool :=
  match a, b with
  | KCompliance, KCompliance | KLimit, KLimit | KRetention, KRetention | KSscd, KSscd | KPds, KPds | KType, KType | KOther, KOther => true
  | _, _ => false
  end.

Lemma kind_eqb_eq a b : qkind_eqb a b = true <-> a = b.
Proof. destruct a, b; cbn; split; intro H; try reflexivity; try discriminate. Qed.

(* one element of the outer sequence: undecodable as a statement (with or without info field, or with trailing octets,
   or the "internal error" case), or a statement of some qkind whose info field is clean or not *)
Inductive item := IBad | IStmt (k : qkind) (clean : bool).

(* what a caller can observe of the result: the dynamic type (None = the unexported base struct), IsPresent(), and
   whether GetErrorInfo() is empty *)
Record result := mkR { r_dyn : option qkind; r_present : bool; r_noerr : bool }.

Fixpoint scan (items : list item) (sought : qkind) : result :=
  match items with
  | [] => mkR None false true
  | IBad :: _ => mkR None false false
  | IStmt k clean :: rest =>
    if qkind_eqb k sought then
      match k with
      | KType => if clean then mkR (Some KType) true true else mkR None true false
      | KOther => mkR None true true
      | _ => mkR (Some k) true clean
      end
    else scan rest sought
  end.

(* outer : None = the extension value is not a sequence of elements (or has trailing octets) *)
Definition parse_qc (outer : option (list item)) (sought : qkind) : result :=
  match outer with
  | None => mkR None true false
  | Some items => scan items sought
  end.

(* the assertions are safe: present, no error text, and one of the six statement kinds sought - then the dynamic type
   is the sought statement's type *)
Theorem scan_typed items sought :
  sought <> KOther -> r_present (scan items sought) = true -> r_noerr (scan items sought) = true ->
  r_dyn (scan items sought) = Some sought.
Proof.
  intro NO. induction items as [|it rest IH]; cbn [scan].
  - cbn. discriminate.
  - destruct it as [|k clean]; [cbn; discriminate|].
    destruct (qkind_eqb k sought) eqn:E.
    + apply kind_eqb_eq in E. subst k.
      destruct sought; try (cbn; intros _ _; reflexivity); try contradiction;
        destruct clean; cbn; intros P H; try reflexivity; discriminate.
    + exact IH.
Qed.

Theorem parse_qc_typed outer sought :
  sought <> KOther -> r_present (parse_qc outer sought) = true -> r_noerr (parse_qc outer sought) = true ->
  r_dyn (parse_qc outer sought) = Some sought.
Proof.
  destruct outer as [items|]; cbn [parse_qc]; [apply scan_typed|].
  cbn. intros _ _ H. discriminate.
Qed.

(* the guard is needed: without "no error text" the Type statement with an undecodable info field is present and is
   not the typed statement *)
Example guard_needed : let r := parse_qc (Some [IStmt KType false]) KType in r_present r = true /\ r_dyn r = None.
Proof. cbn. split; reflexivity. Qed.

(* and without "present" nothing typed comes back *)
Example absent_untyped : r_dyn (parse_qc (Some [IStmt KPds true]) KType) = None.
Proof. reflexivity. Qed.

Example typed_example : parse_qc (Some [IStmt KCompliance true; IStmt KPds true; IBad]) KPds = mkR (Some KPds) true true.
Proof. reflexivity. Qed.
