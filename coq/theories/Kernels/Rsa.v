(* RSA key-quality lints (C16): v3/util/primes.go, the fourteen lints named in the property, and
   checkPrimeFactorsTooClose of lints/community/lint_rsa_fermat_factorization.go, over Z.
   The parser guarantees N > 0 and 1 <= E < 2^63 (E is a Go int). *)
From Coq Require Import ZArith List Bool Lia Znumtheory.
Import ListNotations.
Open Scope Z_scope.

(* big.Int.BitLen for n >= 0 *)
Definition bitlen (n : Z) : Z := if n <=? 0 then 0 else Z.log2 n + 1.

(* statuses *)
Definition sPass : Z := 3.
Definition sWarn : Z := 5.
Definition sError : Z := 6.

(* ---- util.PrimeNoSmallerThan752 over the table carried by the code ---- *)
Definition trial (primes : list Z) (n : Z) : bool := forallb (fun p => negb (n mod p =? 0)) primes.

(* data obligation over the regenerated table: every entry lies in [2,751] and every d in [2,751] is
   divisible by some entry *)
Definition range_2_751 : list Z := map (fun k => Z.of_nat k + 2) (seq 0 750).
Definition primes_complete (primes : list Z) : bool :=
  forallb (fun p => (2 <=? p) && (p <=? 751)) primes &&
  forallb (fun d => existsb (fun p => d mod p =? 0) primes) range_2_751.

(* ---- the lints' Execute on (N, e) ---- *)
Definition lint_mod_min (minbits : Z) (n : Z) : Z := if bitlen n <? minbits then sError else sPass.
Definition lint_mod_div8 (n : Z) : Z := if negb (bitlen n mod 8 =? 0) then sError else sPass.
Definition lint_mod_odd (n : Z) : Z := if n mod 2 =? 1 then sPass else sWarn.
Definition lint_mod_factors (primes : list Z) (n : Z) : Z := if trial primes n then sPass else sWarn.
Definition lint_exp_odd (e : Z) : Z := if e mod 2 =? 1 then sPass else sError.
Definition lint_exp_too_small (e : Z) : Z := if 3 <=? e then sPass else sError.
Definition lint_exp_one (e : Z) : Z := if e =? 1 then sError else sPass.
Definition lint_exp_range (e : Z) : Z := if (65537 <=? e) && (e <? 2 ^ 256) then sPass else sWarn.

(* ---- checkPrimeFactorsTooClose ---- *)
Fixpoint fermat_loop (fuel : nat) (n a b2 : Z) : option (Z * Z) :=
  match fuel with
  | O => None
  | S f =>
    let bb := Z.sqrt b2 in
    if b2 =? bb * bb then Some (a + bb, a - bb)
    else let a' := a + 1 in fermat_loop f n a' (a' * a' - n)
  end.

Definition fermat (n rounds : Z) : option (Z * Z) :=
  let a := Z.sqrt n + 1 in fermat_loop (Z.to_nat rounds) n a (a * a - n).

Definition lint_fermat (n rounds : Z) : Z := match fermat n rounds with Some _ => sError | None => sPass end.

(* ================= helper lemmas ================= *)

Lemma bitlen_pos : forall n, 0 < n -> bitlen n = Z.log2 n + 1.
Proof.
  intros n Hn. unfold bitlen. destruct (Z.leb_spec n 0) as [Hle|Hgt]; [lia|reflexivity].
Qed.

Lemma even_true_mod : forall n, Z.even n = true <-> n mod 2 = 0.
Proof.
  intros n. rewrite Z.even_spec. split.
  - intros [m Hm]. subst n. rewrite Z.mul_comm. apply Z_mod_mult.
  - intros Hm. exists (n / 2). pose proof (Z.div_mod n 2) as Hdm. lia.
Qed.

Lemma mod2_cases : forall n, n mod 2 = 0 \/ n mod 2 = 1.
Proof.
  intros n. pose proof (Z.mod_pos_bound n 2) as Hb. lia.
Qed.

Lemma trial_false_iff : forall primes n,
  trial primes n = false <-> exists p, In p primes /\ n mod p = 0.
Proof.
  intros primes n. unfold trial. induction primes as [|p ps IH].
  - cbn [forallb]. split; [discriminate|]. intros [p [Hin _]]. destruct Hin.
  - cbn [forallb]. rewrite andb_false_iff, IH. split.
    + intros [Hp | [p' [Hin Hm]]].
      * exists p. split; [left; reflexivity|].
        apply negb_false_iff in Hp. apply Z.eqb_eq in Hp. exact Hp.
      * exists p'. split; [right; exact Hin|exact Hm].
    + intros [p' [[Heq | Hin] Hm]].
      * subst p'. left. apply negb_false_iff. apply Z.eqb_eq. exact Hm.
      * right. exists p'. split; assumption.
Qed.

Lemma in_range_2_751 : forall d, 2 <= d < 752 -> In d range_2_751.
Proof.
  intros d Hd. unfold range_2_751. apply in_map_iff.
  exists (Z.to_nat (d - 2)). split.
  - rewrite Z2Nat.id by lia. lia.
  - apply in_seq. split; [lia|].
    change (0 + 750)%nat with (Z.to_nat 750). apply Z2Nat.inj_lt; lia.
Qed.

Lemma fermat_loop_sound : forall fuel n a b2 p q,
  b2 = a * a - n -> fermat_loop fuel n a b2 = Some (p, q) -> p * q = n.
Proof.
  induction fuel as [|f IH]; intros n a b2 p q Hb2 Hrun.
  - cbn [fermat_loop] in Hrun. discriminate.
  - cbn [fermat_loop] in Hrun. cbv zeta in Hrun.
    destruct (Z.eqb_spec b2 (Z.sqrt b2 * Z.sqrt b2)) as [Heq|Hne].
    + injection Hrun as Hp Hq. subst p q.
      set (bb := Z.sqrt b2) in *.
      replace ((a + bb) * (a - bb)) with (a * a - bb * bb) by ring. lia.
    + eapply IH; [|exact Hrun]. reflexivity.
Qed.

Lemma fermat_loop_complete : forall fuel n t s a b2,
  0 <= s -> n = t * t - s * s -> a <= t -> b2 = a * a - n -> t - a < Z.of_nat fuel ->
  fermat_loop fuel n a b2 <> None.
Proof.
  induction fuel as [|f IH]; intros n t s a b2 Hs Hn Hat Hb2 Hfuel.
  - cbn [Z.of_nat] in Hfuel. lia.
  - cbn [fermat_loop]. cbv zeta.
    destruct (Z.eqb_spec b2 (Z.sqrt b2 * Z.sqrt b2)) as [Heq|Hne].
    + discriminate.
    + assert (Hlt : a < t).
      { destruct (Z.eq_dec a t) as [Heqa|Hnea]; [|lia].
        exfalso. apply Hne. subst a.
        assert (Hb : b2 = s * s) by lia.
        rewrite Hb. rewrite Z.sqrt_square by exact Hs. reflexivity. }
      apply (IH n t s (a + 1)); try assumption; try reflexivity; lia.
Qed.

(* ================= theorems to prove ================= *)

Theorem bitlen_lt_pow2 : forall n k, 0 < n -> 0 < k -> (bitlen n < k <-> n < 2 ^ (k - 1)).
Proof.
  intros n k Hn Hk. rewrite (bitlen_pos n Hn).
  rewrite (Z.log2_lt_pow2 n (k - 1) Hn). lia.
Qed.

Theorem lint_mod_min_iff : forall minbits n, 0 < n -> 0 < minbits ->
  (lint_mod_min minbits n = sError <-> n < 2 ^ (minbits - 1)).
Proof.
  intros minbits n Hn Hm. unfold lint_mod_min, sError, sPass.
  pose proof (bitlen_lt_pow2 n minbits Hn Hm) as Hb.
  destruct (Z.ltb_spec (bitlen n) minbits) as [Hlt|Hge].
  - split; intros _; [apply Hb; exact Hlt|reflexivity].
  - split; intros H; [discriminate|]. apply Hb in H. lia.
Qed.

Theorem lint_mod_div8_iff : forall n, lint_mod_div8 n = sError <-> bitlen n mod 8 <> 0.
Proof.
  intros n. unfold lint_mod_div8, sError, sPass.
  destruct (Z.eqb_spec (bitlen n mod 8) 0) as [Heq|Hne]; cbn [negb].
  - split; intros H; [discriminate|]. exfalso. apply H. exact Heq.
  - split; intros _; [exact Hne|reflexivity].
Qed.

Theorem lint_mod_odd_iff : forall n, lint_mod_odd n = sWarn <-> Z.even n = true.
Proof.
  intros n. unfold lint_mod_odd, sWarn, sPass. rewrite even_true_mod.
  pose proof (mod2_cases n) as Hc.
  destruct (Z.eqb_spec (n mod 2) 1) as [Heq|Hne].
  - split; intros H; [discriminate|]. lia.
  - split; intros _; [lia|reflexivity].
Qed.

Theorem trial_iff : forall primes, primes_complete primes = true ->
  forall n, trial primes n = false <-> exists d, 2 <= d < 752 /\ (d | n).
Proof.
  intros primes Hpc n. unfold primes_complete in Hpc.
  apply andb_true_iff in Hpc. destruct Hpc as [Hrange Hcover].
  rewrite forallb_forall in Hrange. rewrite forallb_forall in Hcover.
  rewrite trial_false_iff. split.
  - intros [p [Hin Hmod]]. exists p.
    specialize (Hrange p Hin). apply andb_true_iff in Hrange.
    destruct Hrange as [Hlo Hhi]. apply Z.leb_le in Hlo. apply Z.leb_le in Hhi.
    split; [lia|]. apply Z.mod_divide; [lia|exact Hmod].
  - intros [d [Hd Hdiv]].
    specialize (Hcover d (in_range_2_751 d Hd)).
    apply existsb_exists in Hcover. destruct Hcover as [p [Hin Hmod]].
    apply Z.eqb_eq in Hmod.
    specialize (Hrange p Hin). apply andb_true_iff in Hrange.
    destruct Hrange as [Hlo Hhi]. apply Z.leb_le in Hlo. apply Z.leb_le in Hhi.
    exists p. split; [exact Hin|].
    apply Z.mod_divide; [lia|].
    apply Z.divide_trans with d; [|exact Hdiv].
    apply Z.mod_divide; [lia|exact Hmod].
Qed.

Theorem lint_mod_factors_iff : forall primes, primes_complete primes = true ->
  forall n, lint_mod_factors primes n = sWarn <-> exists d, 2 <= d < 752 /\ (d | n).
Proof.
  intros primes Hpc n. rewrite <- (trial_iff primes Hpc n).
  unfold lint_mod_factors, sWarn, sPass.
  destruct (trial primes n).
  - split; intros H; discriminate.
  - split; intros _; reflexivity.
Qed.

Theorem lint_exp_odd_iff : forall e, 0 <= e -> (lint_exp_odd e = sError <-> Z.even e = true).
Proof.
  intros e _. unfold lint_exp_odd, sError, sPass. rewrite even_true_mod.
  pose proof (mod2_cases e) as Hc.
  destruct (Z.eqb_spec (e mod 2) 1) as [Heq|Hne].
  - split; intros H; [discriminate|]. lia.
  - split; intros _; [lia|reflexivity].
Qed.

Theorem lint_exp_too_small_iff : forall e, lint_exp_too_small e = sError <-> e < 3.
Proof.
  intros e. unfold lint_exp_too_small, sError, sPass.
  destruct (Z.leb_spec 3 e) as [Hle|Hlt].
  - split; intros H; [discriminate|lia].
  - split; intros _; [exact Hlt|reflexivity].
Qed.

Theorem lint_exp_one_iff : forall e, lint_exp_one e = sError <-> e = 1.
Proof.
  intros e. unfold lint_exp_one, sError, sPass.
  destruct (Z.eqb_spec e 1) as [Heq|Hne].
  - split; intros _; [exact Heq|reflexivity].
  - split; intros H; [discriminate|]. exfalso. apply Hne. exact H.
Qed.

(* for an exponent the parser accepts (a Go int) the upper bound 2^256 is vacuous *)
Theorem lint_exp_range_iff : forall e, e < 2 ^ 63 -> (lint_exp_range e = sWarn <-> e < 65537).
Proof.
  intros e He. unfold lint_exp_range, sWarn, sPass.
  assert (Hpow : 2 ^ 63 < 2 ^ 256) by (apply Z.pow_lt_mono_r; lia).
  remember (2 ^ 256) as big eqn:Hbig. remember (2 ^ 63) as small eqn:Hsmall.
  destruct (Z.leb_spec 65537 e) as [Hle|Hlt]; destruct (Z.ltb_spec e big) as [Hlt2|Hge2];
    cbn [andb].
  - split; intros H; [discriminate|lia].
  - lia.
  - split; intros _; [exact Hlt|reflexivity].
  - split; intros _; [exact Hlt|reflexivity].
Qed.

(* any reported factorisation multiplies back to the modulus *)
Theorem fermat_sound : forall n rounds p q, 0 < n -> fermat n rounds = Some (p, q) -> p * q = n.
Proof.
  intros n rounds p q _ Hrun. unfold fermat in Hrun. cbv zeta in Hrun.
  eapply fermat_loop_sound; [|exact Hrun]. reflexivity.
Qed.

(* a product of two factors of equal parity whose mean is within `rounds` steps above the square root is found *)
Theorem fermat_complete : forall n rounds p q,
  n = p * q -> 0 < q -> q < p -> Z.even (p + q) = true -> (p + q) / 2 - (Z.sqrt n + 1) < rounds ->
  fermat n rounds <> None.
Proof.
  intros n rounds p q Hn Hq Hqp Hev Hrounds.
  apply Z.even_spec in Hev. destruct Hev as [t Ht].
  assert (Hdiv : (p + q) / 2 = t).
  { rewrite Ht. rewrite Z.mul_comm. apply Z.div_mul. lia. }
  rewrite Hdiv in Hrounds.
  set (s := p - t).
  assert (Hp : p = t + s) by (unfold s; lia).
  assert (Hqe : q = t - s) by (unfold s; lia).
  assert (Hspos : 0 < s) by (unfold s; lia).
  assert (Htpos : 0 < t) by lia.
  assert (Hnts : n = t * t - s * s).
  { rewrite Hn, Hp, Hqe. ring. }
  assert (Hsq : Z.sqrt n < t).
  { assert (Hn0 : 0 <= n) by nia.
    assert (Hlt : n < t * t) by nia.
    apply Z.sqrt_lt_square; [exact Hn0|lia|exact Hlt]. }
  unfold fermat. cbv zeta.
  apply (fermat_loop_complete (Z.to_nat rounds) n t s (Z.sqrt n + 1)).
  - lia.
  - exact Hnts.
  - lia.
  - reflexivity.
  - rewrite Z2Nat.id by lia. lia.
Qed.

Theorem fermat_no_rounds : forall n rounds, rounds <= 0 -> fermat n rounds = None.
Proof.
  intros n rounds Hr. unfold fermat. cbv zeta.
  replace (Z.to_nat rounds) with 0%nat.
  - reflexivity.
  - symmetry. destruct rounds as [|r|r]; [reflexivity|lia|reflexivity].
Qed.

