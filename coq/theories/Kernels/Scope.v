(* Scope predicates of v3/util (ca.go, cs.go, san.go, smime_policies.go) over the fields they read. *)
From ZL Require Import Base.Bytes.
From Coq Require Import Lia.
Open Scope Z_scope.

Definition oid := list Z.

Fixpoint oid_eqb (a b : oid) : bool :=
  match a, b with
  | [], [] => true
  | x :: a', y :: b' => (x =? y) && oid_eqb a' b'
  | _, _ => false
  end.

Definition oid_in (o : oid) (l : list oid) : bool := existsb (oid_eqb o) l.

(* zcrypto x509.ExtKeyUsage constants *)
Definition ekuAny : Z := 0.
Definition ekuServerAuth : Z := 1.
Definition ekuEmailProtection : Z := 4.

Record scope_view := mkScopeView {
  sv_ekus : list Z;                 (* ExtKeyUsage *)
  sv_unknown_ekus : nat;            (* len(UnknownExtKeyUsage) *)
  sv_policies : list oid;           (* PolicyIdentifiers *)
  sv_emails : list bytes;           (* EmailAddresses *)
  sv_smtp_othernames : list nat     (* len(Value.Bytes) of each otherName of type id-on-SmtpUTF8Mailbox *)
}.

Definition br_policies : list oid := [[2;23;140;1;2;1]; [2;23;140;1;2;2]; [2;23;140;1;2;3]; [2;23;140;1;1]].
Definition cs_policies : list oid := [[2;23;140;1;3]; [2;23;140;1;4;1]].
Definition smime_policies : list oid :=
  [[2;23;140;1;5;1;1]; [2;23;140;1;5;2;1]; [2;23;140;1;5;3;1]; [2;23;140;1;5;4;1];
   [2;23;140;1;5;1;2]; [2;23;140;1;5;2;2]; [2;23;140;1;5;3;2]; [2;23;140;1;5;4;2];
   [2;23;140;1;5;1;3]; [2;23;140;1;5;2;3]; [2;23;140;1;5;3;3]; [2;23;140;1;5;4;3]].

Definition no_ekus (v : scope_view) : bool :=
  match sv_ekus v, sv_unknown_ekus v with [], O => true | _, _ => false end.

Definition is_server_auth (v : scope_view) : bool :=
  no_ekus v || existsb (fun e => (e =? ekuAny) || (e =? ekuServerAuth)) (sv_ekus v) ||
  existsb (fun p => oid_in p br_policies) (sv_policies v).

Definition has_email_san (v : scope_view) : bool :=
  existsb (fun e => match e with [] => false | _ => true end) (sv_emails v) ||
  existsb (fun n => negb (Nat.eqb n 0)) (sv_smtp_othernames v).

Definition is_smime_br (v : scope_view) : bool := existsb (fun p => oid_in p smime_policies) (sv_policies v).

Definition is_email_protection (v : scope_view) : bool :=
  (has_email_san v && (no_ekus v || existsb (fun e => (e =? ekuAny) || (e =? ekuEmailProtection)) (sv_ekus v))) ||
  is_smime_br v.

Definition is_code_signing (v : scope_view) : bool := existsb (fun p => oid_in p cs_policies) (sv_policies v).

Definition scope_case := (scope_view * (bool * bool * bool))%type.
Definition check_scope (c : scope_case) : bool :=
  match c with (v, (a, b, d)) =>
    Bool.eqb (is_server_auth v) a && Bool.eqb (is_email_protection v) b && Bool.eqb (is_code_signing v) d end.

(* ---- the declarative reading ("no ... indication") ---- *)
Lemma oid_eqb_eq a b : oid_eqb a b = true <-> a = b.
Proof.
  revert b; induction a as [|x a IH]; intros [|y b]; simpl; split; intro H; try congruence; auto.
  - apply andb_true_iff in H as [H1 H2]. apply Z.eqb_eq in H1. apply IH in H2. congruence.
  - inversion H; subst. rewrite Z.eqb_refl. simpl. apply IH. reflexivity.
Qed.

Lemma oid_in_In o l : oid_in o l = true <-> In o l.
Proof.
  unfold oid_in. rewrite existsb_exists. split.
  - intros [x [H1 H2]]. apply oid_eqb_eq in H2. subst. exact H1.
  - intro H. exists o. split; auto. apply oid_eqb_eq. reflexivity.
Qed.

Theorem server_auth_iff v :
  is_server_auth v = true <->
  (sv_ekus v = [] /\ sv_unknown_ekus v = O) \/ In ekuAny (sv_ekus v) \/ In ekuServerAuth (sv_ekus v) \/
  exists p, In p (sv_policies v) /\ In p br_policies.
Proof.
  unfold is_server_auth, no_ekus. rewrite !orb_true_iff, !existsb_exists. split.
  - intros [[H|[e [He Hx]]]|[p [Hp Hq]]].
    + destruct (sv_ekus v); [destruct (sv_unknown_ekus v); [auto|discriminate]|discriminate].
    + apply orb_true_iff in Hx as [Hx|Hx]; apply Z.eqb_eq in Hx; subst; auto.
    + right; right; right. exists p. split; auto. apply oid_in_In. exact Hq.
  - intros [[H1 H2]|[H|[H|[p [Hp Hq]]]]].
    + left; left. rewrite H1, H2. reflexivity.
    + left; right. exists ekuAny. split; auto.
    + left; right. exists ekuServerAuth. split; auto.
    + right. exists p. split; auto. apply oid_in_In. exact Hq.
Qed.

Theorem code_signing_iff v :
  is_code_signing v = true <-> exists p, In p (sv_policies v) /\ In p cs_policies.
Proof.
  unfold is_code_signing. rewrite existsb_exists. split; intros [p [H1 H2]]; exists p; split; auto; apply oid_in_In; auto.
Qed.

Theorem email_protection_iff v :
  is_email_protection v = true <->
  (has_email_san v = true /\
   ((sv_ekus v = [] /\ sv_unknown_ekus v = O) \/ In ekuAny (sv_ekus v) \/ In ekuEmailProtection (sv_ekus v))) \/
  exists p, In p (sv_policies v) /\ In p smime_policies.
Proof.
  unfold is_email_protection, is_smime_br, no_ekus. rewrite !orb_true_iff, andb_true_iff, orb_true_iff, !existsb_exists. split.
  - intros [[H1 [H|[e [He Hx]]]]|[p [Hp Hq]]].
    + left. split; auto. destruct (sv_ekus v); [destruct (sv_unknown_ekus v); [auto|discriminate]|discriminate].
    + left. split; auto. apply orb_true_iff in Hx as [Hx|Hx]; apply Z.eqb_eq in Hx; subst; auto.
    + right. exists p. split; auto. apply oid_in_In. exact Hq.
  - intros [[H1 [[H2 H3]|[H|H]]]|[p [Hp Hq]]].
    + left. split; auto. left. rewrite H2, H3. reflexivity.
    + left. split; auto. right. exists ekuAny. split; auto.
    + left. split; auto. right. exists ekuEmailProtection. split; auto.
    + right. exists p. split; auto. apply oid_in_In. exact Hq.
Qed.
