(* C20 / C06 / C16-style exactness on a finite domain: the six S/MIME key-usage bodies (cabf_smime_br), functions of the
   nine key-usage bits only:

     e_rsa_key_usage_strict, e_rsa_key_usage_legacy_multipurpose, e_rsa_other_key_usages,
     e_ecpublickey_key_usages, e_ec_other_key_usages, e_edwardspublickey_key_usages

   KeyUsage bits as zcrypto numbers them: 1 digitalSignature, 2 contentCommitment, 4 keyEncipherment, 8 dataEncipherment,
   16 keyAgreement, 32 certSign, 64 cRLSign, 128 encipherOnly, 256 decipherOnly.  Statuses: 1 NA, 3 pass, 6 error.
   The statements below hold for every value 0 <= k < 512, each proved by a kernel-evaluated sweep of the whole domain. *)
From Coq Require Import List ZArith Bool Lia.
From ZL Require Import Kernels.Tld Kernels.Calendar Kernels.CalendarFacts.
Import ListNotations.
Open Scope Z_scope.

Definition has (k b : Z) : bool := negb (Z.land k b =? 0).
Definition outside (k allowed : Z) : bool := negb (Z.land k (Z.lxor 511 allowed) =? 0).

Definition by_type (k a b : Z) (only_a only_b both : Z) : Z :=
  match has k a, has k b with
  | true, false => if outside k only_a then 6 else 3
  | false, true => if outside k only_b then 6 else 3
  | true, true => if outside k both then 6 else 3
  | false, false => 1
  end.

Definition s_rsa_strict k := by_type k 1 4 (1 + 2) 4 (1 + 2 + 4).
Definition s_rsa_legacy k := by_type k 1 4 (1 + 2) (4 + 8) (1 + 2 + 4 + 8).
Definition s_rsa_other k := if negb (has k 1 || has k 4) then (if k =? 0 then 1 else 6) else 3.
Definition s_ec k := by_type k 1 16 (1 + 2) (16 + 128 + 256) (1 + 2 + 16 + 128 + 256).
Definition s_ec_other k := if negb (has k 1 || has k 16) then (if k =? 0 then 1 else 6) else 3.
Definition s_edwards k := if negb (has k 1) then 6 else if outside k (1 + 2) then 6 else 3.

Definition all_smime_ku_lints k : list Z := [s_rsa_strict k; s_rsa_legacy k; s_rsa_other k; s_ec k; s_ec_other k; s_edwards k].

Definition memz (x : Z) (l : list Z) : bool := existsb (Z.eqb x) l.

(* one boolean per statement, swept over 0..511 *)
Definition chk_all (k : Z) : bool :=
  (* the strict generation accepts exactly these five values *)
  Bool.eqb (s_rsa_strict k =? 3) (memz k [1; 3; 4; 5; 7]) &&
  (* strict implies legacy / multipurpose *)
  (negb (s_rsa_strict k =? 3) || (s_rsa_legacy k =? 3)) &&
  (* the type lint answers NA exactly when the "other usages" lint does not pass: together they judge every value *)
  Bool.eqb (s_rsa_strict k =? 1) (negb (s_rsa_other k =? 3)) &&
  Bool.eqb (s_rsa_legacy k =? 1) (negb (s_rsa_other k =? 3)) &&
  Bool.eqb (s_ec k =? 1) (negb (s_ec_other k =? 3)) &&
  (* Edwards keys: signing only *)
  Bool.eqb (s_edwards k =? 3) (memz k [1; 3]) &&
  (* certSign / cRLSign never pass any of the type lints *)
  (negb (has k 32 || has k 64) || (negb (s_rsa_strict k =? 3) && negb (s_rsa_legacy k =? 3) && negb (s_ec k =? 3) && negb (s_edwards k =? 3))).

Lemma sweep_512 : all_from (Z.to_nat 512) 0 chk_all = true.
Proof. vm_compute. reflexivity. Qed.

Lemma chk_all_holds k : 0 <= k < 512 -> chk_all k = true.
Proof. intro H. apply (all_from_spec _ _ _ sweep_512). rewrite Z2Nat.id by lia. lia. Qed.

Theorem rsa_strict_accepts k : 0 <= k < 512 -> (s_rsa_strict k = 3 <-> In k [1; 3; 4; 5; 7]).
Proof.
  intro H. pose proof (chk_all_holds k H) as C. unfold chk_all in C.
  repeat (apply andb_true_iff in C; destruct C as [C ?]).
  apply eqb_prop in C. rewrite <- Z.eqb_eq. rewrite C. unfold memz. rewrite existsb_exists.
  split.
  - intros (x & Hin & Hx). apply Z.eqb_eq in Hx. subst x. exact Hin.
  - intro Hin. exists k. split; [exact Hin|apply Z.eqb_refl].
Qed.

Theorem rsa_strict_implies_legacy k : 0 <= k < 512 -> s_rsa_strict k = 3 -> s_rsa_legacy k = 3.
Proof.
  intros H S. pose proof (chk_all_holds k H) as C. unfold chk_all in C.
  repeat (apply andb_true_iff in C; destruct C as [C ?]).
  match goal with Hx : (negb (s_rsa_strict k =? 3) || (s_rsa_legacy k =? 3)) = true |- _ => rewrite S in Hx; cbn in Hx; apply Z.eqb_eq in Hx; exact Hx end.
Qed.

Theorem type_and_other_partition k : 0 <= k < 512 -> (s_rsa_strict k = 1 <-> s_rsa_other k <> 3).
Proof.
  intro H. pose proof (chk_all_holds k H) as C. unfold chk_all in C.
  repeat (apply andb_true_iff in C; destruct C as [C ?]).
  match goal with Hx : Bool.eqb (s_rsa_strict k =? 1) (negb (s_rsa_other k =? 3)) = true |- _ => apply eqb_prop in Hx; rewrite <- Z.eqb_eq, Hx, negb_true_iff, Z.eqb_neq; tauto end.
Qed.
