(* Model of v3/lint/source.go: LintSource.FromString, SourceList.FromString.
   `acc` is the table of strings FromString's switch accepts; it is regenerated from the build. *)
From ZL Require Import Base.Bytes Base.BytesFacts.

Definition from_string (acc : list bytes) (s : bytes) : option bytes :=
  let t := trim s in if mem t acc then Some t else None.

Inductive parse_res := POk (l : list bytes) | PErr (bad : bytes).

Fixpoint parse_elems (acc : list bytes) (vals : list bytes) : parse_res :=
  match vals with
  | [] => POk []
  | v :: r =>
    let t := trim v in
    match t with
    | [] => parse_elems acc r
    | _ =>
      match from_string acc t with
      | None => PErr t
      | Some x => match parse_elems acc r with POk l => POk (x :: l) | PErr e => PErr e end
      end
    end
  end.

(* SourceList.FromString *)
Definition parse_sources (acc : list bytes) (raw : bytes) : parse_res := parse_elems acc (split_on 44 raw).

(* the elements that count: trimmed, non-blank *)
Definition elements (raw : bytes) : list bytes :=
  filter (fun t => match t with [] => false | _ => true end) (map trim (split_on 44 raw)).

Definition listed_ok (acc : list bytes) (s : bytes) : bool :=
  match parse_sources acc s with POk [x] => beqb x s | _ => false end.

(* ---- facts ---- *)

Lemma parse_elems_ok acc vals l :
  parse_elems acc vals = POk l <->
  (forall e, In e (filter (fun t => match t with [] => false | _ => true end) (map trim vals)) -> mem (trim e) acc = true) /\
  l = map trim (filter (fun t => match t with [] => false | _ => true end) (map trim vals)).
Proof.
  revert l; induction vals as [|v r IH]; intro l; simpl.
  - split; [intro H; inversion H; split; [intros e []|reflexivity] | intros [_ ->]; reflexivity].
  - destruct (trim v) as [|c t] eqn:Et.
    + apply IH.
    + unfold from_string. destruct (mem (trim (c :: t)) acc) eqn:Em.
      * destruct (parse_elems acc r) as [l'|bad] eqn:Er.
        -- split.
           ++ intro H; inversion H; subst. destruct (proj1 (IH l') eq_refl) as [Ha Hl]. split.
              ** intros e [<-|He]; [exact Em | apply Ha; exact He].
              ** simpl. f_equal. exact Hl.
           ++ intros [Ha ->]. simpl. f_equal. f_equal.
              destruct (proj1 (IH l') eq_refl) as [_ Hl]. exact Hl.
        -- split; [discriminate|]. intros [Ha Hl]. exfalso.
           assert (X : PErr bad = POk (map trim (filter (fun t0 => match t0 with [] => false | _ => true end) (map trim r)))).
           { apply (proj2 (IH _)). split; [|reflexivity]. intros e He. apply Ha. right. exact He. }
           discriminate.
      * split; [discriminate|]. intros [Ha _]. exfalso.
        specialize (Ha (c :: t) (or_introl eq_refl)). congruence.
Qed.

Lemma parse_elems_err acc vals :
  (exists e, In e (filter (fun t => match t with [] => false | _ => true end) (map trim vals)) /\ mem (trim e) acc = false)
  <-> exists bad, parse_elems acc vals = PErr bad.
Proof.
  split.
  - intros [e [He Hm]]. destruct (parse_elems acc vals) as [l|bad] eqn:E; [|eauto].
    apply parse_elems_ok in E as [Ha _]. rewrite (Ha e He) in Hm. discriminate.
  - intros [bad E].
    induction vals as [|v r IH]; simpl in *; [discriminate|].
    destruct (trim v) as [|c t] eqn:Et; [apply IH; exact E|].
    unfold from_string in E. destruct (mem (trim (c :: t)) acc) eqn:Em.
    + destruct (parse_elems acc r) as [l'|bad'] eqn:Er; [discriminate|].
      destruct (IH E) as [e [He Hm]]. exists e. split; [right; exact He | exact Hm].
    + exists (c :: t). split; [left; reflexivity | exact Em].
Qed.

Theorem parse_sources_ok acc raw l :
  parse_sources acc raw = POk l <->
  (forall e, In e (elements raw) -> mem (trim e) acc = true) /\ l = map trim (elements raw).
Proof. apply parse_elems_ok. Qed.

Theorem parse_sources_err acc raw :
  (exists e, In e (elements raw) /\ mem (trim e) acc = false) <-> exists bad, parse_sources acc raw = PErr bad.
Proof. apply parse_elems_err. Qed.

(* every source for which the data obligation `listed_ok` holds is accepted on its own *)
Theorem listed_all_accepted acc listed :
  forallb (listed_ok acc) listed = true ->
  forall s, In s listed -> parse_sources acc s = POk [s].
Proof.
  intros H s Hs. rewrite forallb_forall in H. specialize (H s Hs). unfold listed_ok in H.
  destruct (parse_sources acc s) as [[|x [|y l]]|bad]; try discriminate.
  apply beqb_eq in H. subst. reflexivity.
Qed.
