(* Status labels and their JSON codec (v3/lint/result.go), result-set JSON shape (v3/resultset.go). *)
From ZL Require Import Base.Bytes Base.BytesFacts Framework.Core.
From Coq Require Import Lia.
Open Scope Z_scope.

(* LintStatus.String *)
Definition label (s : Z) : bytes :=
  match s with
  | 0 => s2b "reserved" | 1 => s2b "NA" | 2 => s2b "NE" | 3 => s2b "pass"
  | 4 => s2b "info" | 5 => s2b "warn" | 6 => s2b "error" | 7 => s2b "fatal"
  | _ => []
  end.

Definition all_statuses : list Z := [0; 1; 2; 3; 4; 5; 6; 7].

(* StatusLabelToLintStatus: built from String() over the eight constants *)
Definition label_table : list (bytes * Z) := map (fun s => (label s, s)) all_statuses.

Fixpoint assoc (k : bytes) (l : list (bytes * Z)) : option Z :=
  match l with [] => None | (k', v) :: r => if beqb k k' then Some v else assoc k r end.

Definition strip_quotes (raw : bytes) : bytes := filter (fun c => negb (c =? 34)%N) raw.

(* LintStatus.UnmarshalJSON on the raw token *)
Definition parse_label (raw : bytes) : option Z := assoc (strip_quotes raw) label_table.

(* LintStatus.MarshalJSON: json.Marshal(String()) - labels are plain ASCII, so quoting is all it does *)
Definition marshal_status (s : Z) : bytes := (34%N :: label s ++ [34%N])%list.

Definition in_range (s : Z) : bool := (0 <=? s) && (s <=? 7).

Lemma in_range_cases s : in_range s = true -> s = 0 \/ s = 1 \/ s = 2 \/ s = 3 \/ s = 4 \/ s = 5 \/ s = 6 \/ s = 7.
Proof. unfold in_range. rewrite andb_true_iff, !Z.leb_le. lia. Qed.

Theorem labels_distinct s s' : in_range s = true -> in_range s' = true -> label s = label s' -> s = s'.
Proof.
  intros H H'. apply in_range_cases in H. apply in_range_cases in H'.
  destruct H as [->|[->|[->|[->|[->|[->|[->| ->]]]]]]]; destruct H' as [->|[->|[->|[->|[->|[->|[->| ->]]]]]]];
    vm_compute; intro E; try reflexivity; discriminate E.
Qed.

Theorem label_roundtrip s : in_range s = true -> parse_label (marshal_status s) = Some s.
Proof.
  intro H. apply in_range_cases in H.
  destruct H as [->|[->|[->|[->|[->|[->|[->| ->]]]]]]]; vm_compute; reflexivity.
Qed.

Lemma assoc_in k l v : assoc k l = Some v -> In (k, v) l.
Proof.
  induction l as [|[k' v'] l IH]; simpl; [discriminate|].
  destruct (beqb k k') eqn:E.
  - intro H; inversion H; subst. apply beqb_eq in E. subst. left. reflexivity.
  - intro H. right. apply IH. exact H.
Qed.

Theorem parse_label_sound raw s : parse_label raw = Some s -> in_range s = true /\ strip_quotes raw = label s.
Proof.
  unfold parse_label. intro H. apply assoc_in in H. unfold label_table in H. apply in_map_iff in H as [x [E I]].
  inversion E; subst. split; [|reflexivity].
  simpl in I. destruct I as [<-|[<-|[<-|[<-|[<-|[<-|[<-|[<-|[]]]]]]]]]; reflexivity.
Qed.

Theorem out_of_range_label s : in_range s = false -> label s = [] /\ parse_label (marshal_status s) = None.
Proof.
  intro H. assert (L : label s = []).
  { unfold in_range in H. destruct s as [|p|p]; try reflexivity.
    - discriminate.
    - destruct p as [[[|p|]|[|p|]|]|[[|p|]|[|p|]|]|]; try reflexivity; simpl in H; try discriminate;
        destruct p; try reflexivity; discriminate. }
  split; [exact L|]. unfold marshal_status. rewrite L. vm_compute. reflexivity.
Qed.

(* ---- result sets through JSON, with encoding/json's string codec as an oracle ---- *)
Section RoundTrip.
  (* what a Go string becomes after json.Marshal + json.Unmarshal (validated against encoding/json: Utf8.sanitize) *)
  Variable str_codec : bytes -> bytes.

  (* the JSON document of one result: the raw status token, and the details string if non-empty (omitempty) *)
  Record jresult := mkJ { j_status_raw : bytes; j_details : option bytes }.

  Definition encode_result (r : result) : jresult :=
    mkJ (marshal_status (r_status r)) (match r_details r with [] => None | d => Some d end).

  Definition decode_result (j : jresult) : option result :=
    match parse_label (j_status_raw j) with
    | None => None
    | Some s => Some (mkResult s (match j_details j with None => [] | Some d => str_codec d end))
    end.

  Hypothesis codec_nil : str_codec [] = [].

  Theorem result_roundtrip r :
    in_range (r_status r) = true ->
    decode_result (encode_result r) = Some (mkResult (r_status r) (str_codec (r_details r))).
  Proof.
    intro H. unfold decode_result, encode_result. simpl. rewrite (label_roundtrip _ H).
    destruct (r_details r); [rewrite codec_nil|]; reflexivity.
  Qed.

  Theorem result_out_of_range_rejected r : in_range (r_status r) = false -> decode_result (encode_result r) = None.
  Proof.
    intro H. unfold decode_result, encode_result. simpl. destruct (out_of_range_label _ H) as [_ ->]. reflexivity.
  Qed.
End RoundTrip.
