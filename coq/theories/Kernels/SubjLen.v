(* C17 / C20 / C02: the fourteen "subject attribute too long" lints of v3/lints/rfc (lint_subject_*_max_length.go,
   lint_subject_*_recommended_max_length.go), modelled in full: the lint is NA without a value, reports its finding when
   some value has more characters than the limit, passes otherwise.  Characters are counted as utf8.RuneCountInString
   counts them: an octet that does not start a well-formed sequence counts as one. *)
From ZL Require Import Base.Bytes Base.BytesFacts Kernels.Utf8.
From Coq Require Import ZArith List Bool Lia Sorting.Permutation.
Import ListNotations.
Open Scope Z_scope.

Fixpoint rune_count_aux (fuel : nat) (s : bytes) : Z :=
  match fuel, s with
  | _, [] => 0
  | O, _ => 0
  | S f, _ :: t =>
    match rune_len s with
    | Some n => 1 + rune_count_aux f (skipn n s)
    | None => 1 + rune_count_aux f t
    end
  end.

Definition rune_count (s : bytes) : Z := rune_count_aux (length s) s.

Definition too_long (limit : Z) (v : bytes) : bool := limit <? rune_count v.

(* status: 1 NA, 3 pass, sev (5 warn / 6 error) *)
Definition max_len_lint (sev limit : Z) (vals : list bytes) : Z :=
  match vals with
  | [] => 1
  | _ => if existsb (too_long limit) vals then sev else 3
  end.

(* the table of the fourteen lints: (finding, limit); the attribute each reads is fixed by position in the stream *)
Definition table : list (Z * Z) :=
  [ (6, 64)      (* commonName (the last one) *);
    (6, 64)      (* serialNumber (the last one) *);
    (6, 255)     (* emailAddress *);
    (6, 32768)   (* givenName *);
    (5, 64)      (* givenName, recommended *);
    (6, 128)     (* localityName *);
    (6, 64)      (* organizationName *);
    (6, 64)      (* organizationalUnitName *);
    (6, 16)      (* postalCode *);
    (6, 128)     (* stateOrProvinceName *);
    (6, 128)     (* streetAddress *);
    (6, 32768)   (* surname *);
    (5, 64)      (* surname, recommended *) ].

Definition all_len_lints (vals : list (list bytes)) : list Z :=
  map (fun p => max_len_lint (fst (fst p)) (snd (fst p)) (snd p)) (combine table vals).

(* ---------------- facts ---------------- *)

Lemma rune_count_aux_nonneg fuel s : 0 <= rune_count_aux fuel s.
Proof.
  revert s. induction fuel as [|f IH]; intros [|c t]; cbn [rune_count_aux]; try lia.
  destruct (rune_len (c :: t)); [specialize (IH (skipn n (c :: t))) | specialize (IH t)]; lia.
Qed.

Lemma rune_count_aux_le fuel : forall s, rune_count_aux fuel s <= Z.of_nat (length s).
Proof.
  induction fuel as [|f IH]; intros [|c t]; cbn [rune_count_aux length]; try lia.
  destruct (rune_len (c :: t)) as [n|] eqn:R.
  - destruct (rune_len_bounds _ _ R) as [[N1 _] N2].
    specialize (IH (skipn n (c :: t))). rewrite skipn_length in IH. cbn [length] in *. lia.
  - specialize (IH t). lia.
Qed.

(* never more characters than octets: a value of at most `limit` octets is never too long *)
Theorem short_values_pass limit v : Z.of_nat (length v) <= limit -> too_long limit v = false.
Proof.
  intro H. unfold too_long, rune_count. apply Z.ltb_ge. pose proof (rune_count_aux_le (length v) v). lia.
Qed.

Lemma existsb_perm_sl {A} (f : A -> bool) l l' : Permutation l l' -> existsb f l = existsb f l'.
Proof.
  induction 1 as [|x l l' P IH|x y l|l l' l'' P1 IH1 P2 IH2]; cbn [existsb]; auto.
  - rewrite IH. reflexivity.
  - destruct (f x), (f y); reflexivity.
  - congruence.
Qed.

(* the verdict does not depend on the order in which the values of a repeated attribute are listed *)
Theorem max_len_lint_perm sev limit vals vals' : Permutation vals vals' -> max_len_lint sev limit vals = max_len_lint sev limit vals'.
Proof.
  intro P. unfold max_len_lint. rewrite (existsb_perm_sl _ _ _ P).
  destruct vals as [|a r]; destruct vals' as [|b r']; try reflexivity.
  - apply Permutation_nil in P. discriminate.
  - apply Permutation_sym, Permutation_nil in P. discriminate.
Qed.

(* what it decides *)
Theorem max_len_lint_spec sev limit vals : vals <> [] -> sev <> 3 ->
  (max_len_lint sev limit vals = sev <-> exists v, In v vals /\ limit < rune_count v).
Proof.
  intros NE S. unfold max_len_lint. destruct vals as [|a r]; [contradiction|].
  destruct (existsb (too_long limit) (a :: r)) eqn:E.
  - split; [|reflexivity]. intros _. apply existsb_exists in E. destruct E as [v [I T]].
    exists v. split; [exact I|]. unfold too_long in T. apply Z.ltb_lt in T. exact T.
  - split; [intro H; congruence|]. intros [v [I T]].
    assert (X : existsb (too_long limit) (a :: r) = true).
    { apply existsb_exists. exists v. split; [exact I|]. unfold too_long. apply Z.ltb_lt. exact T. }
    congruence.
Qed.

(* a stricter limit finds whatever a laxer one finds: the error-level limit of 32768 characters and the recommended 64 *)
Theorem stricter_limit_finds lo hi vals : lo <= hi ->
  max_len_lint 6 hi vals = 6 -> max_len_lint 5 lo vals = 5.
Proof.
  intros L. unfold max_len_lint. destruct vals as [|a r]; [discriminate|].
  destruct (existsb (too_long hi) (a :: r)) eqn:E; [|discriminate]. intros _.
  assert (X : existsb (too_long lo) (a :: r) = true).
  { apply existsb_exists in E. destruct E as [v [I T]]. apply existsb_exists. exists v. split; [exact I|].
    unfold too_long in *. apply Z.ltb_lt in T. apply Z.ltb_lt. lia. }
  rewrite X. reflexivity.
Qed.

Example rune_count_examples :
  rune_count (s2b "abc") = 3 /\ rune_count [195; 169]%N = 1 /\ rune_count [195]%N = 1 /\ rune_count [255; 255; 97]%N = 3 /\
  rune_count [226; 130; 172; 240; 159; 152; 128]%N = 2.
Proof. vm_compute. repeat split. Qed.
