(* C06 / C17 / C20: twenty-three lints of the TLS BRs about which subject attributes a certificate of a given kind may or
   must carry, modelled in full at the level of their bodies.  They read two views of the subject: the lengths of the
   parsed per-attribute lists (Subject.Organization, ...), and the attribute types in order (Subject.Names, through
   util.TypeInName / util.GetTypesInName).

     e_sub_cert_country_name_must_appear, e_sub_cert_locality_name_must_appear, e_sub_cert_locality_name_must_not_appear,
     e_sub_cert_postal_code_must_not_appear, e_sub_cert_province_must_appear, e_sub_cert_province_must_not_appear,
     e_sub_cert_street_address_should_not_exist,
     e_cab_dv_conflicts_with_locality / _org / _postal / _province / _street, e_cab_dv_subject_invalid_values,
     e_cab_iv_requires_personal_name, e_cab_ov_requires_org, e_cert_policy_iv_requires_country,
     e_cert_policy_iv_requires_province_or_locality, e_cert_policy_ov_requires_country,
     e_cert_policy_ov_requires_province_or_locality, n_subject_common_name_included, w_subject_common_name_included,
     e_subject_contains_organizational_unit_name_and_no_organization_name, w_extra_subject_common_names

   Statuses: 3 pass, 4 notice, 5 warn, 6 error. *)
From Coq Require Import List ZArith Bool Lia Sorting.Permutation.
From ZL Require Import Kernels.Scope.
Import ListNotations.
Open Scope Z_scope.

Record subj_view := mkSubj {
  n_org : nat; n_given : nat; n_surname : nat; n_country : nat; n_locality : nat; n_province : nat;
  n_street : nat; n_postal : nat;
  cn_empty : bool;         (* Subject.CommonName == "" *)
  n_cns : nat;             (* len(Subject.CommonNames) *)
  s_types : list oid       (* the attribute types of Subject.Names, in order *)
}.

Definition oCN : oid := [2;5;4;3].  Definition oC : oid := [2;5;4;6].  Definition oL : oid := [2;5;4;7].
Definition oST : oid := [2;5;4;8]. Definition oStreet : oid := [2;5;4;9]. Definition oO : oid := [2;5;4;10].
Definition oOU : oid := [2;5;4;11]. Definition oPostal : oid := [2;5;4;17]. Definition oGiven : oid := [2;5;4;42].
Definition oSurname : oid := [2;5;4;4].

Definition has (v : subj_view) (o : oid) : bool := oid_in o (s_types v).
Definition pos (n : nat) : bool := negb (Nat.eqb n 0).
Definition identified (v : subj_view) : bool := pos (n_org v) || pos (n_given v) || pos (n_surname v).
Definition err (b : bool) : Z := if b then 6 else 3.

Definition l_country_must_appear v := err (identified v && negb (pos (n_country v))).
Definition l_locality_must_appear v := err (identified v && negb (pos (n_province v)) && negb (pos (n_locality v))).
Definition l_locality_must_not_appear v := err (negb (identified v) && pos (n_locality v)).
Definition l_postal_must_not_appear v := err (negb (identified v) && pos (n_postal v)).
Definition l_province_must_appear v := err (identified v && negb (pos (n_locality v)) && negb (pos (n_province v))).
Definition l_province_must_not_appear v := err (negb (identified v) && pos (n_province v)).
Definition l_street_should_not_exist v := err (negb (identified v) && pos (n_street v)).
Definition l_dv_conflicts (o : oid) v := err (has v o).
Definition l_dv_invalid_values v := err (negb (forallb (fun t => oid_eqb t oCN || oid_eqb t oC) (s_types v))).
Definition l_iv_personal_name v := err (negb (has v oO || (has v oGiven && has v oSurname))).
Definition l_ov_requires_org v := err (negb (has v oO)).
Definition l_requires_country v := err (negb (has v oC)).
Definition l_requires_province_or_locality v := err (negb (has v oL || has v oST)).
Definition l_cn_included (finding : Z) v := if cn_empty v then 3 else finding.
Definition l_ou_without_org v := err (negb (has v oO)).
Definition l_extra_cns v := if Nat.ltb 1 (n_cns v) then 5 else 3.

Definition all_presence_lints (v : subj_view) : list Z :=
  [l_country_must_appear v; l_locality_must_appear v; l_locality_must_not_appear v; l_postal_must_not_appear v;
   l_province_must_appear v; l_province_must_not_appear v; l_street_should_not_exist v;
   l_dv_conflicts oL v; l_dv_conflicts oO v; l_dv_conflicts oPostal v; l_dv_conflicts oST v; l_dv_conflicts oStreet v;
   l_dv_invalid_values v; l_iv_personal_name v; l_ov_requires_org v; l_requires_country v (* iv *);
   l_requires_province_or_locality v (* iv *); l_requires_country v (* ov *); l_requires_province_or_locality v (* ov *);
   l_cn_included 4 v; l_cn_included 5 v; l_ou_without_org v; l_extra_cns v].

Definition with_types (v : subj_view) (ts : list oid) : subj_view :=
  mkSubj (n_org v) (n_given v) (n_surname v) (n_country v) (n_locality v) (n_province v) (n_street v) (n_postal v) (cn_empty v) (n_cns v) ts.

(* ---- facts *)
Lemma p_existsb_perm {A} (f : A -> bool) l l' : Permutation l l' -> existsb f l = existsb f l'.
Proof.
  induction 1 as [|x l l' _ IH|x y l|l l' l'' _ IH1 _ IH2]; cbn [existsb].
  - reflexivity. - rewrite IH. reflexivity. - destruct (f x); destruct (f y); reflexivity. - congruence.
Qed.
Lemma p_forallb_perm {A} (f : A -> bool) l l' : Permutation l l' -> forallb f l = forallb f l'.
Proof.
  induction 1 as [|x l l' _ IH|x y l|l l' l'' _ IH1 _ IH2]; cbn [forallb].
  - reflexivity. - rewrite IH. reflexivity. - destruct (f x); destruct (f y); reflexivity. - congruence.
Qed.

(* the order of the subject's attributes is immaterial to all twenty-three *)
Theorem presence_lints_perm v ts : Permutation (s_types v) ts -> all_presence_lints (with_types v ts) = all_presence_lints v.
Proof.
  intro P. unfold all_presence_lints, with_types, l_country_must_appear, l_locality_must_appear, l_locality_must_not_appear, l_postal_must_not_appear,
    l_province_must_appear, l_province_must_not_appear, l_street_should_not_exist, l_dv_conflicts, l_dv_invalid_values, l_iv_personal_name, l_ov_requires_org,
    l_requires_country, l_requires_province_or_locality, l_cn_included, l_ou_without_org, l_extra_cns, identified, has, oid_in.
  cbn [n_org n_given n_surname n_country n_locality n_province n_street n_postal cn_empty n_cns s_types].
  rewrite <- !(p_existsb_perm _ _ _ P), <- (p_forallb_perm _ _ _ P). reflexivity.
Qed.

(* "must appear" and "must not appear" never both fire *)
Theorem locality_rules_exclusive v : l_locality_must_appear v = 6 -> l_locality_must_not_appear v = 3.
Proof. unfold l_locality_must_appear, l_locality_must_not_appear, err. destruct (identified v); cbn [andb negb]; [reflexivity|discriminate]. Qed.
Theorem province_rules_exclusive v : l_province_must_appear v = 6 -> l_province_must_not_appear v = 3.
Proof. unfold l_province_must_appear, l_province_must_not_appear, err. destruct (identified v); cbn [andb negb]; [reflexivity|discriminate]. Qed.

(* the two "must appear" rules for locality and province are one condition *)
Theorem locality_province_same v : l_locality_must_appear v = l_province_must_appear v.
Proof.
  unfold l_locality_must_appear, l_province_must_appear. f_equal.
  destruct (identified v); destruct (pos (n_province v)); destruct (pos (n_locality v)); reflexivity.
Qed.

Lemma oid_eqb_refl o : oid_eqb o o = true.
Proof. induction o as [|x o IH]; [reflexivity|]. cbn [oid_eqb]. rewrite Z.eqb_refl, IH. reflexivity. Qed.

Lemma oid_eqb_eq a : forall b, oid_eqb a b = true -> a = b.
Proof.
  induction a as [|x a IH]; intros [|y b] H; cbn [oid_eqb] in H; try discriminate; [reflexivity|].
  apply andb_true_iff in H. destruct H as [H1 H2]. apply Z.eqb_eq in H1. apply IH in H2. subst. reflexivity.
Qed.

(* a DV certificate that passes the invalid-values rule passes the five conflict rules (they name other attributes) *)
Theorem dv_values_imply_no_conflict v o :
  l_dv_invalid_values v = 3 -> In o [oL; oO; oPostal; oST; oStreet] -> l_dv_conflicts o v = 3.
Proof.
  unfold l_dv_invalid_values, l_dv_conflicts, err, has, oid_in. intros H Ho.
  destruct (forallb (fun t => oid_eqb t oCN || oid_eqb t oC) (s_types v)) eqn:E; [|discriminate].
  destruct (existsb (oid_eqb o) (s_types v)) eqn:Ex; [|reflexivity].
  apply existsb_exists in Ex. destruct Ex as (t & Hin & Heq). apply oid_eqb_eq in Heq. subst t.
  rewrite forallb_forall in E. specialize (E o Hin).
  cbn [In] in Ho. destruct Ho as [<-|[<-|[<-|[<-|[<-|[]]]]]]; vm_compute in E; discriminate.
Qed.
