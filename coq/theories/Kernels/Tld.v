(* TLD validity (C18): v3/util/gtld.go over the delegation table of gtld_map.go.
   Instants are Z nanoseconds since the Unix epoch (Framework.Core.zeroT = Go's zero time). *)
From ZL Require Import Base.Bytes Base.BytesFacts Framework.Core Kernels.Utf8.
From Coq Require Import Lia.
Open Scope Z_scope.

(* ---- time.Parse("2006-01-02", s): exactly YYYY-MM-DD, month and day validated, UTC midnight ---- *)
Definition digit (c : N) : option Z := if ((48 <=? c) && (c <=? 57))%N then Some (Z.of_N c - 48) else None.

Definition num2 (a b : N) : option Z :=
  match digit a, digit b with Some x, Some y => Some (10 * x + y) | _, _ => None end.

Definition num4 (a b c d : N) : option Z :=
  match num2 a b, num2 c d with Some x, Some y => Some (100 * x + y) | _, _ => None end.

Definition is_leap (y : Z) : bool := ((y mod 4 =? 0) && negb (y mod 100 =? 0)) || (y mod 400 =? 0).

Definition days_in (y m : Z) : Z :=
  if m =? 2 then (if is_leap y then 29 else 28)
  else if (m =? 4) || (m =? 6) || (m =? 9) || (m =? 11) then 30 else 31.

(* days since 1970-01-01 of a proleptic Gregorian date (Howard Hinnant's days_from_civil) *)
Definition days_from_civil (y m d : Z) : Z :=
  let y' := if m <=? 2 then y - 1 else y in
  let era := y' / 400 in
  let yoe := y' - era * 400 in
  let mp := (m + 9) mod 12 in
  let doy := (153 * mp + 2) / 5 + d - 1 in
  let doe := yoe * 365 + yoe / 4 - yoe / 100 + doy in
  era * 146097 + doe - 719468.

Definition ns_per_day : Z := 86400 * 1000000000.

Definition parse_date (s : bytes) : option Z :=
  match s with
  | [y1; y2; y3; y4; 45%N; m1; m2; 45%N; d1; d2] =>
    match num4 y1 y2 y3 y4, num2 m1 m2, num2 d1 d2 with
    | Some y, Some m, Some d =>
      if (1 <=? m) && (m <=? 12) && (1 <=? d) && (d <=? days_in y m) then Some (days_from_civil y m d * ns_per_day) else None
    | _, _, _ => None
    end
  | _ => None
  end.

(* the value Go works with: a parse error is discarded and leaves the zero time *)
Definition parse_or_zero (s : bytes) : Z := match parse_date s with Some t => t | None => zeroT end.

(* ---- the table ---- *)
Record tld := mkTld { t_key : bytes; t_gtld : bytes; t_deleg : bytes; t_removal : bytes }.

Fixpoint find_tld (k : bytes) (tbl : list tld) : option tld :=
  match tbl with [] => None | e :: r => if beqb k (t_key e) then Some e else find_tld k r end.

(* GTLDPeriod.Valid(when) == nil *)
Definition period_valid (e : tld) (t : Z) : bool :=
  negb (t <? parse_or_zero (t_deleg e)) &&
  match t_removal e with [] => true | r => negb (parse_or_zero r <? t) end.

(* ---- strings.ToLower as far as it can reach an ASCII key: ASCII letters, U+212A KELVIN SIGN -> k,
   U+0130 -> i; every invalid byte becomes U+FFFD; other runes stay non-ASCII (their exact image is irrelevant
   for matching ASCII keys, which is a data obligation on the table) ---- *)
Fixpoint go_lower_aux (fuel : nat) (s : bytes) : bytes :=
  match fuel with
  | O => []
  | S f =>
    match s with
    | [] => []
    | c :: r =>
      if (c <? 128)%N then lower_ascii c :: go_lower_aux f r
      else match rune_len s with
           | None => replacement ++ go_lower_aux f r
           | Some n =>
             let rune := firstn n s in
             let out := if beqb rune [226; 132; 170]%N then [107%N]
                        else if beqb rune [196; 176]%N then [105%N] else rune in
             out ++ go_lower_aux f (skipn n s)
           end
    end
  end.

Definition all_ascii (s : bytes) : bool := forallb (fun c => (c <? 128)%N) s.

(* strings.ToLower: pure-ASCII fast path, otherwise rune-wise mapping *)
Definition go_lower (s : bytes) : bytes := if all_ascii s then map lower_ascii s else go_lower_aux (length s) s.

Definition last_label (s : bytes) : bytes := match rev (split_on 46 s) with [] => [] | l :: _ => l end.

(* util.HasValidTLD *)
Definition has_valid_tld (tbl : list tld) (domain : bytes) (t : Z) : bool :=
  match find_tld (last_label (go_lower domain)) tbl with
  | None => false
  | Some e => period_valid e t
  end.

(* util.IsInTLDMap *)
Definition is_in_tld_map (tbl : list tld) (label : bytes) : bool :=
  match find_tld (go_lower label) tbl with Some _ => true | None => false end.

(* e_dnsname_not_valid_tld's Execute: true = error *)
Definition lint_tld (tbl : list tld) (cn : bytes) (cn_is_ip : bool) (dns : list bytes) (nb : Z) : bool :=
  (negb (beqb cn []) && negb cn_is_ip && negb (has_valid_tld tbl cn nb)) ||
  existsb (fun d => negb (has_valid_tld tbl d nb)) dns.

(* ---- data obligation: every entry is keyed by its own lower-case ASCII name, has a parseable delegation
   date and an empty or parseable removal date not earlier than the delegation; keys are unique ---- *)
Definition lower_ascii_only (s : bytes) : bool := forallb (fun c => (c <? 128)%N && negb ((65 <=? c) && (c <=? 90))%N) s.

Definition entry_ok (e : tld) : bool :=
  beqb (t_key e) (t_gtld e) && lower_ascii_only (t_key e) && negb (beqb (t_key e) []) &&
  match parse_date (t_deleg e) with
  | None => false
  | Some dl =>
    match t_removal e with
    | [] => true
    | r => match parse_date r with Some rm => dl <=? rm | None => false end
    end
  end.

Definition table_ok (tbl : list tld) : bool := forallb entry_ok tbl.

(* ---- theorems ---- *)
Lemma find_tld_some k tbl e : find_tld k tbl = Some e -> In e tbl /\ t_key e = k.
Proof.
  induction tbl as [|x tbl IH]; simpl; [discriminate|].
  destruct (beqb k (t_key x)) eqn:E.
  - intro H; inversion H; subst. split; [left; reflexivity | symmetry; apply beqb_eq; exact E].
  - intro H. destruct (IH H) as [A B]. split; [right; exact A | exact B].
Qed.

(* validity of a well-formed entry in terms of its parsed dates *)
Lemma period_valid_ok e t :
  entry_ok e = true ->
  exists dl, parse_date (t_deleg e) = Some dl /\
    (period_valid e t = true <->
     dl <= t /\ (t_removal e = [] \/ exists rm, parse_date (t_removal e) = Some rm /\ t <= rm)).
Proof.
  unfold entry_ok, period_valid, parse_or_zero. rewrite !andb_true_iff. intros [_ H].
  destruct (parse_date (t_deleg e)) as [dl|]; [|discriminate]. exists dl. split; [reflexivity|].
  destruct (t_removal e) as [|c r] eqn:R.
  - rewrite andb_true_r, negb_true_iff, Z.ltb_ge. split; [intro X; split; [exact X | left; reflexivity] | intros [X _]; exact X].
  - destruct (parse_date (c :: r)) as [rm|]; [|discriminate].
    rewrite andb_true_iff, !negb_true_iff, !Z.ltb_ge. split.
    + intros [A B]. split; [exact A|]. right. exists rm. split; [reflexivity | exact B].
    + intros [A [B|[rm' [E B]]]]; [discriminate|]. inversion E; subst. split; assumption.
Qed.

(* C18: a name has a valid TLD at t iff its right-most label, lower-cased, is a key of the table, t is not
   before the delegation and, when a removal is recorded, not after it *)
Theorem has_valid_tld_iff tbl d t :
  table_ok tbl = true ->
  (has_valid_tld tbl d t = true <->
   exists e dl, find_tld (last_label (go_lower d)) tbl = Some e /\ parse_date (t_deleg e) = Some dl /\ dl <= t /\
                (t_removal e = [] \/ exists rm, parse_date (t_removal e) = Some rm /\ t <= rm)).
Proof.
  intro T. unfold has_valid_tld.
  destruct (find_tld (last_label (go_lower d)) tbl) as [e|] eqn:F.
  - destruct (find_tld_some _ _ _ F) as [I _].
    unfold table_ok in T. rewrite forallb_forall in T. specialize (T e I).
    destruct (period_valid_ok e t T) as [dl [P V]]. rewrite V. split.
    + intros [A B]. exists e, dl. auto.
    + intros [e' [dl' [E [P' [A B]]]]]. inversion E; subst e'. rewrite P in P'. inversion P'; subst. auto.
  - split; [discriminate|]. intros [e [dl [E _]]]. discriminate.
Qed.

(* the 'was ever a TLD' test ignores dates *)
Theorem is_in_tld_map_iff tbl l :
  is_in_tld_map tbl l = true <-> exists e, find_tld (go_lower l) tbl = Some e.
Proof.
  unfold is_in_tld_map. destruct (find_tld (go_lower l) tbl) as [e|]; split; eauto; try discriminate.
  intros [e H]. discriminate.
Qed.

Theorem lint_tld_iff tbl cn cn_is_ip dns nb :
  lint_tld tbl cn cn_is_ip dns nb = true <->
  (cn <> [] /\ cn_is_ip = false /\ has_valid_tld tbl cn nb = false) \/
  exists d, In d dns /\ has_valid_tld tbl d nb = false.
Proof.
  unfold lint_tld. rewrite orb_true_iff, !andb_true_iff, !negb_true_iff, existsb_exists. split.
  - intros [[[A B] C]|[d [I H]]].
    + left. repeat split; auto. apply beqb_neq. exact A.
    + right. exists d. split; auto. apply negb_true_iff. exact H.
  - intros [[A [B C]]|[d [I H]]].
    + left. repeat split; auto. apply beqb_neq. exact A.
    + right. exists d. split; auto. apply negb_true_iff. exact H.
Qed.

(* on pure-ASCII input lower-casing is byte-wise, so the case-insensitive comparison is exact *)
Theorem go_lower_ascii s : all_ascii s = true -> go_lower s = map lower_ascii s.
Proof. intro H. unfold go_lower. rewrite H. reflexivity. Qed.

(* leap years / month lengths as the calendar has them *)
Lemma days_in_range y m : 1 <= m <= 12 -> 28 <= days_in y m <= 31.
Proof.
  intro H. unfold days_in. destruct (m =? 2); [destruct (is_leap y); lia|].
  destruct ((m =? 4) || (m =? 6) || (m =? 9) || (m =? 11)); lia.
Qed.
