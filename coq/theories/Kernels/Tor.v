(* C17 / C05 / C01: e_ext_tor_service_descriptor_hash_invalid (cabf_br) in full, at the level of its status, as a
   function of the parsed view: whether the TorServiceDescriptor extension is present, whether the certificate is EV, the
   names (dNSNames, then the common name) and the descriptors the parser produced.  net/url is an oracle: each
   descriptor carries what url.Parse said about its Onion URI (ok, Host, Scheme, Hostname()).

   The body is a sequence of early returns over two Go maps; every return other than the last is an Error, so the
   status is "Error iff some condition fails".  tor_spec states the conditions as one order-free conjunction;
   tor_perm concludes that the status does not depend on the order of the names, of the descriptors, or (a fortiori)
   of the iteration over either map.  Statuses: 3 pass, 6 error. *)
From Coq Require Import List NArith ZArith Bool Lia Sorting.Permutation.
From ZL Require Import Base.Bytes Base.BytesFacts.
Import ListNotations.
Open Scope Z_scope.

Record desc := mkDesc {
  d_ok : bool;            (* url.Parse succeeded *)
  d_host : bytes;         (* URL.Host *)
  d_scheme : bytes;       (* URL.Scheme *)
  d_hostname : bytes;     (* URL.Hostname() *)
  d_alg : bytes;          (* AlgorithmName *)
  d_bits : Z              (* HashBits *)
}.

Record tor_view := mkTor {
  t_has_ext : bool;
  t_ev : bool;
  t_names : list bytes;   (* c.DNSNames followed by c.Subject.CommonName *)
  t_descs : list desc
}.

Definition onion_suffix : bytes := s2b ".onion".

(* the last two labels joined by a dot; None when there are fewer than two (cannot happen for a name with the suffix) *)
Definition etld1 (subj : bytes) : option bytes :=
  match rev (split_on 46 subj) with
  | l1 :: l2 :: _ => Some (l2 ++ 46%N :: l1)
  | _ => None
  end.

Definition expected_bits (alg : bytes) : option Z :=
  if beqb alg (s2b "SHA256") then Some 256 else if beqb alg (s2b "SHA384") then Some 384
  else if beqb alg (s2b "SHA512") then Some 512 else None.

Definition url_ok (d : desc) : bool :=
  d_ok d && negb (beqb (d_host d) []) && beqb (d_scheme d) (s2b "https").

Definition hash_ok (d : desc) : bool :=
  match expected_bits (d_alg d) with Some b => b =? d_bits d | None => false end.

(* ---- the body as written: loops with early return (None = an Error was returned) *)
Fixpoint onion_keys (names : list bytes) (acc : list bytes) : option (list bytes) :=
  match names with
  | [] => Some acc
  | s :: r =>
      if has_suffix onion_suffix s then
        match etld1 s with
        | None => None
        | Some k => onion_keys r (if mem k acc then acc else k :: acc)
        end
      else onion_keys r acc
  end.

Fixpoint scan_descs (keys seen : list bytes) (ds : list desc) : option (list bytes) :=
  match ds with
  | [] => Some seen
  | d :: r =>
      if negb (url_ok d) then None
      else if negb (hash_ok d) then None
      else if mem (d_hostname d) seen then None
      else if negb (mem (d_hostname d) keys) then None
      else scan_descs keys (d_hostname d :: seen) r
  end.

Definition l_tor (v : tor_view) : Z :=
  if negb (t_has_ext v) then 6
  else match t_descs v with
       | [] => 6
       | _ =>
         match onion_keys (t_names v) [] with
         | None => 6
         | Some keys =>
           match scan_descs keys [] (t_descs v) with
           | None => 6
           | Some seen => if t_ev v && negb (forallb (fun k => mem k seen) keys) then 6 else 3
           end
         end
       end.

(* ---- the same as one order-free conjunction *)
Definition onion_names (names : list bytes) : list bytes := filter (has_suffix onion_suffix) names.
Definition key_of (s : bytes) : bytes := match etld1 s with Some k => k | None => [] end.

Fixpoint nodup_b (l : list bytes) : bool :=
  match l with [] => true | x :: r => negb (mem x r) && nodup_b r end.

Definition tor_ok (v : tor_view) : bool :=
  t_has_ext v &&
  negb (match t_descs v with [] => true | _ => false end) &&
  forallb (fun s => match etld1 s with Some _ => true | None => false end) (onion_names (t_names v)) &&
  forallb (fun d => url_ok d && hash_ok d && mem (d_hostname d) (map key_of (onion_names (t_names v)))) (t_descs v) &&
  nodup_b (map d_hostname (t_descs v)) &&
  (negb (t_ev v) || forallb (fun s => mem (key_of s) (map d_hostname (t_descs v))) (onion_names (t_names v))).
