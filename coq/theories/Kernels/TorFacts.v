From Coq Require Import List NArith ZArith Bool Lia Sorting.Permutation.
From ZL Require Import Base.Bytes Base.BytesFacts Kernels.Tor.
Import ListNotations.
Open Scope Z_scope.

Lemma t_mem_ext k a b : (forall x, In x a <-> In x b) -> mem k a = mem k b.
Proof.
  intro H. destruct (mem k a) eqn:Ea; destruct (mem k b) eqn:Eb; try reflexivity.
  - apply mem_In in Ea. apply H in Ea. apply mem_In in Ea. congruence.
  - apply mem_In in Eb. apply H in Eb. apply mem_In in Eb. congruence.
Qed.

Lemma t_forallb_ext {A} (f g : A -> bool) l : (forall x, In x l -> f x = g x) -> forallb f l = forallb g l.
Proof.
  induction l as [|a l IH]; intro H; [reflexivity|]. cbn [forallb].
  rewrite (H a (or_introl eq_refl)). rewrite IH; [reflexivity|]. intros x Hx. apply H. right. exact Hx.
Qed.

Lemma t_forallb_perm {A} (f : A -> bool) l l' : Permutation l l' -> forallb f l = forallb f l'.
Proof.
  induction 1 as [|x l l' _ IH|x y l|l l' l'' _ IH1 _ IH2]; cbn [forallb].
  - reflexivity.
  - rewrite IH. reflexivity.
  - destruct (f x); destruct (f y); reflexivity.
  - congruence.
Qed.

Lemma t_filter_perm {A} (f : A -> bool) l l' : Permutation l l' -> Permutation (filter f l) (filter f l').
Proof.
  induction 1 as [|x l l' _ IH|x y l|l l' l'' _ IH1 _ IH2]; cbn [filter].
  - constructor.
  - destruct (f x); [constructor|]; exact IH.
  - destruct (f x); destruct (f y); try apply Permutation_refl. apply perm_swap.
  - eapply Permutation_trans; eassumption.
Qed.

Lemma nodup_b_NoDup l : nodup_b l = true <-> NoDup l.
Proof.
  induction l as [|x l IH]; cbn [nodup_b].
  - split; [constructor|reflexivity].
  - rewrite andb_true_iff, negb_true_iff, IH. split.
    + intros [Hm Hn]. constructor; [|exact Hn]. intro Hin. apply mem_In in Hin. congruence.
    + intro H. inversion H as [|? ? Hni Hnd]; subst. split; [|exact Hnd].
      destruct (mem x l) eqn:E; [|reflexivity]. apply mem_In in E. contradiction.
Qed.

Lemma nodup_b_perm l l' : Permutation l l' -> nodup_b l = nodup_b l'.
Proof.
  intro P. destruct (nodup_b l) eqn:E; destruct (nodup_b l') eqn:E'; try reflexivity.
  - apply nodup_b_NoDup in E. apply (Permutation_NoDup P) in E. apply nodup_b_NoDup in E. congruence.
  - apply nodup_b_NoDup in E'. apply (Permutation_NoDup (Permutation_sym P)) in E'. apply nodup_b_NoDup in E'. congruence.
Qed.

(* ---- the name loop *)
Lemma onion_keys_spec names : forall acc,
  match onion_keys names acc with
  | None => forallb (fun s => match etld1 s with Some _ => true | None => false end) (onion_names names) = false
  | Some ks => forallb (fun s => match etld1 s with Some _ => true | None => false end) (onion_names names) = true /\
               forall k, In k ks <-> In k acc \/ In k (map key_of (onion_names names))
  end.
Proof.
  induction names as [|s r IH]; intro acc; cbn [onion_keys onion_names filter].
  - cbn [forallb map]. split; [reflexivity|]. intro k. cbn [In]. tauto.
  - fold (onion_names r). destruct (has_suffix onion_suffix s) eqn:Es.
    + cbn [forallb map]. destruct (etld1 s) as [k0|] eqn:Ek; [|reflexivity].
      specialize (IH (if mem k0 acc then acc else k0 :: acc)).
      destruct (onion_keys r (if mem k0 acc then acc else k0 :: acc)) as [ks|].
      * destruct IH as [Hf Hk]. split; [exact Hf|]. intro k. rewrite Hk.
        assert (Hks : key_of s = k0) by (unfold key_of; rewrite Ek; reflexivity). rewrite Hks. cbn [In].
        destruct (mem k0 acc) eqn:Em.
        -- apply mem_In in Em. split; [tauto|]. intros [H|[H|H]]; try tauto. subst k. tauto.
        -- cbn [In]. tauto.
      * exact IH.
    + apply IH.
Qed.

Lemma t_mem_cons x y l : mem x (y :: l) = beqb x y || mem x l.
Proof. reflexivity. Qed.

Lemma seen_cons_split h seen r :
  forallb (fun e => negb (mem (d_hostname e) (h :: seen))) r =
  forallb (fun e => negb (mem (d_hostname e) seen)) r && negb (mem h (map d_hostname r)).
Proof.
  induction r as [|e r IH]; [reflexivity|].
  cbn [forallb map]. rewrite IH. rewrite !t_mem_cons. rewrite (beqb_sym h (d_hostname e)).
  destruct (beqb (d_hostname e) h); destruct (mem (d_hostname e) seen);
  destruct (forallb (fun e0 => negb (mem (d_hostname e0) seen)) r); destruct (mem h (map d_hostname r)); reflexivity.
Qed.

(* ---- the descriptor loop *)
Definition desc_ok (keys : list bytes) (d : desc) : bool := url_ok d && hash_ok d && mem (d_hostname d) keys.

Lemma scan_descs_spec keys ds : forall seen,
  scan_descs keys seen ds =
    if forallb (desc_ok keys) ds && forallb (fun d => negb (mem (d_hostname d) seen)) ds && nodup_b (map d_hostname ds)
    then Some (rev (map d_hostname ds) ++ seen) else None.
Proof.
  induction ds as [|d r IH]; intro seen; cbn [scan_descs forallb map nodup_b rev].
  - reflexivity.
  - unfold desc_ok at 1. destruct (url_ok d); cbn [negb andb]; [|reflexivity].
    destruct (hash_ok d); cbn [negb andb]; [|reflexivity].
    destruct (mem (d_hostname d) seen) eqn:Es; cbn [negb andb].
    + destruct (mem (d_hostname d) keys); destruct (forallb (desc_ok keys) r); reflexivity.
    + destruct (mem (d_hostname d) keys); cbn [negb andb]; [|reflexivity].
      rewrite IH. clear IH.
      rewrite (seen_cons_split (d_hostname d) seen r).
      destruct (forallb (desc_ok keys) r); cbn [andb]; [|reflexivity].
      destruct (forallb (fun d0 => negb (mem (d_hostname d0) seen)) r); cbn [andb]; [|destruct (negb (mem (d_hostname d) (map d_hostname r))); reflexivity].
      destruct (negb (mem (d_hostname d) (map d_hostname r))); cbn [andb]; [|reflexivity].
      destruct (nodup_b (map d_hostname r)); [|reflexivity].
      rewrite <- app_assoc. reflexivity.
Qed.

Lemma t_forallb_set {A} (f : A -> bool) a b : (forall x, In x a <-> In x b) -> forallb f a = forallb f b.
Proof.
  intro H. destruct (forallb f a) eqn:Ea; destruct (forallb f b) eqn:Eb; try reflexivity.
  - rewrite forallb_forall in Ea. assert (forallb f b = true) as X; [|congruence].
    apply forallb_forall. intros x Hx. apply Ea. apply H. exact Hx.
  - rewrite forallb_forall in Eb. assert (forallb f a = true) as X; [|congruence].
    apply forallb_forall. intros x Hx. apply Eb. apply H. exact Hx.
Qed.

Lemma t_forallb_map {A B} (f : B -> bool) (g : A -> B) l : forallb f (map g l) = forallb (fun x => f (g x)) l.
Proof. induction l as [|a l IH]; [reflexivity|]. cbn [map forallb]. rewrite IH. reflexivity. Qed.

Lemma t_none_seen ds : forallb (fun d => negb (mem (d_hostname d) [])) ds = true.
Proof. induction ds as [|d r IH]; [reflexivity|]. cbn [forallb mem negb andb]. exact IH. Qed.

(* the body's status is the order-free conjunction *)
Theorem tor_spec v : l_tor v = if tor_ok v then 3 else 6.
Proof.
  unfold l_tor, tor_ok.
  destruct (t_has_ext v); cbn [negb andb]; [|reflexivity].
  destruct (t_descs v) as [|d0 dr] eqn:Ed; [reflexivity|]. cbn [negb andb]. rewrite <- Ed. clear Ed d0 dr.
  pose proof (onion_keys_spec (t_names v) []) as Hk.
  destruct (onion_keys (t_names v) []) as [keys|].
  - destruct Hk as [Hf Hk]. rewrite Hf. cbn [andb].
    assert (Hset : forall k, In k keys <-> In k (map key_of (onion_names (t_names v)))).
    { intro k. rewrite Hk. cbn [In]. tauto. }
    rewrite scan_descs_spec. rewrite t_none_seen. rewrite andb_true_r.
    assert (Hd : forallb (desc_ok keys) (t_descs v) =
                 forallb (fun d => url_ok d && hash_ok d && mem (d_hostname d) (map key_of (onion_names (t_names v)))) (t_descs v)).
    { apply t_forallb_ext. intros d _. unfold desc_ok. f_equal. apply t_mem_ext. exact Hset. }
    rewrite Hd.
    destruct (forallb (fun d => url_ok d && hash_ok d && mem (d_hostname d) (map key_of (onion_names (t_names v)))) (t_descs v)); cbn [andb]; [|reflexivity].
    destruct (nodup_b (map d_hostname (t_descs v))); cbn [andb]; [|reflexivity].
    assert (He : forallb (fun k => mem k (rev (map d_hostname (t_descs v)) ++ [])) keys =
                 forallb (fun s => mem (key_of s) (map d_hostname (t_descs v))) (onion_names (t_names v))).
    { rewrite (t_forallb_set _ keys (map key_of (onion_names (t_names v))) Hset). rewrite t_forallb_map.
      apply t_forallb_ext. intros s _. apply t_mem_ext. intro x. rewrite app_nil_r. rewrite <- in_rev. tauto. }
    rewrite He.
    destruct (t_ev v); cbn [negb andb orb];
    destruct (forallb (fun s => mem (key_of s) (map d_hostname (t_descs v))) (onion_names (t_names v))); reflexivity.
  - rewrite Hk. reflexivity.
Qed.

(* hence the status does not depend on the order of the names or of the descriptors (nor, a fortiori, on the order in
   which either Go map is traversed) *)
Theorem tor_perm v names' descs' :
  Permutation (t_names v) names' -> Permutation (t_descs v) descs' ->
  l_tor (mkTor (t_has_ext v) (t_ev v) names' descs') = l_tor v.
Proof.
  intros Pn Pd. rewrite !tor_spec. unfold tor_ok. cbn [t_has_ext t_ev t_names t_descs].
  pose proof (t_filter_perm (has_suffix onion_suffix) _ _ Pn) as Po. fold (onion_names (t_names v)) in Po. fold (onion_names names') in Po.
  assert (Hnil : (match descs' with [] => true | _ => false end) = (match t_descs v with [] => true | _ => false end)).
  { destruct (t_descs v) as [|a l] eqn:E; destruct descs' as [|b l']; try reflexivity.
    - apply Permutation_nil in Pd. discriminate.
    - apply Permutation_sym in Pd. apply Permutation_nil in Pd. discriminate. }
  rewrite Hnil.
  rewrite <- (t_forallb_perm _ _ _ Po).
  assert (H1 : forallb (fun d => url_ok d && hash_ok d && mem (d_hostname d) (map key_of (onion_names names'))) descs' =
               forallb (fun d => url_ok d && hash_ok d && mem (d_hostname d) (map key_of (onion_names (t_names v)))) (t_descs v)).
  { rewrite <- (t_forallb_perm _ _ _ Pd). apply t_forallb_ext. intros d _. f_equal. apply t_mem_ext. intro x.
    split; apply Permutation_in; [apply Permutation_sym|]; apply Permutation_map; exact Po. }
  rewrite H1.
  rewrite <- (nodup_b_perm _ _ (Permutation_map d_hostname Pd)).
  assert (H2 : forallb (fun s => mem (key_of s) (map d_hostname descs')) (onion_names names') =
               forallb (fun s => mem (key_of s) (map d_hostname (t_descs v))) (onion_names (t_names v))).
  { rewrite <- (t_forallb_perm _ _ _ Po). apply t_forallb_ext. intros s _. apply t_mem_ext. intro x.
    split; apply Permutation_in; [apply Permutation_sym|]; apply Permutation_map; exact Pd. }
  rewrite H2. reflexivity.
Qed.

Theorem tor_range v : l_tor v = 3 \/ l_tor v = 6.
Proof. rewrite tor_spec. destruct (tor_ok v); auto. Qed.

(* non-vacuity: an EV certificate with one onion name and its descriptor passes; without the descriptor's host it fails *)
Example tor_pass :
  l_tor (mkTor true true [s2b "abcdefghijklmnop.onion"; s2b "example.com"]
          [mkDesc true (s2b "abcdefghijklmnop.onion") (s2b "https") (s2b "abcdefghijklmnop.onion") (s2b "SHA256") 256]) = 3.
Proof. vm_compute. reflexivity. Qed.
Example tor_hostless :
  l_tor (mkTor true true [s2b "abcdefghijklmnop.onion"]
          [mkDesc true (s2b ":443") (s2b "https") [] (s2b "SHA256") 256]) = 6.
Proof. vm_compute. reflexivity. Qed.
