(* C17 / C20 / C06: fifteen lints over the URL lists of a certificate (authorityInfoAccess OCSP and caIssuers
   locations, cRLDistributionPoints), modelled in full at the level of their bodies.  net/url is an oracle: every URL
   carries what url.Parse said about it (ok, Scheme).  strings.ToLower is Tld.go_lower; strings.EqualFold is a
   parameter (instantiated with ASCII folding in the correspondence, whose URLs are ASCII).

     w_sub_ca_aia_does_not_contain_issuing_ca_url, w_sub_cert_aia_does_not_contain_issuing_ca_url,
     e_sub_cert_aia_does_not_contain_ocsp_url, e_sub_cert_crl_distribution_points_does_not_contain_url,
     e_sub_ca_crl_distribution_points_does_not_contain_url, e_aia_ca_issuers_must_have_http_only,
     e_aia_ocsp_must_have_http_only, e_aia_unique_access_locations, e_crl_distrib_points_not_http            (cabf_br)
     e_cs_crl_distribution_points                                                                      (cabf_cs_br)
     e_smime_legacy_aia_shall_have_one_http, e_smime_strict_aia_shall_have_http_only,
     e_subscribers_crl_distribution_points_are_http                                                    (cabf_smime_br)
     w_distribution_point_missing_ldap_or_uri, w_ext_aia_access_location_missing                       (rfc)

   Statuses: 3 pass, 5 warn, 6 error. *)
From Coq Require Import List NArith ZArith Bool Lia Sorting.Permutation.
From ZL Require Import Base.Bytes Kernels.Tld.
Import ListNotations.
Open Scope Z_scope.

Record purl := mkUrl { u_raw : bytes; u_ok : bool; u_scheme : bytes }.

Record url_view := mkUrlView {
  uv_ocsp : list purl;        (* c.OCSPServer *)
  uv_issuers : list purl;     (* c.IssuingCertificateURL *)
  uv_cdp : list purl;         (* c.CRLDistributionPoints *)
  uv_cdp_ext : bool;          (* the cRLDistributionPoints extension is present *)
  uv_cdp_critical : bool;
  uv_strict_or_multi : bool;  (* util.IsStrictSMIMECertificate || util.IsMultipurposeSMIMECertificate *)
  uv_legacy : bool            (* util.IsLegacySMIMECertificate *)
}.

Definition http_slashes : bytes := s2b "http://".
Definition ldap_slashes : bytes := s2b "ldap://".
Definition http_colon : bytes := s2b "http:".
Definition http : bytes := s2b "http".

Definition some_http (finding : Z) (l : list purl) : Z :=
  if existsb (fun u => has_prefix http_slashes (u_raw u)) l then 3 else finding.
Definition some_http_or_ldap (l : list purl) : Z :=
  if existsb (fun u => has_prefix http_slashes (go_lower (u_raw u)) || has_prefix ldap_slashes (go_lower (u_raw u))) l then 3 else 5.

Definition is_http (u : purl) : bool := u_ok u && beqb (u_scheme u) http.
Definition all_http (l : list purl) : bool := forallb is_http l.

Definition l_sub_ca_issuer_url (v : url_view) : Z := some_http 5 (uv_issuers v).
Definition l_sub_cert_issuer_url (v : url_view) : Z := some_http 5 (uv_issuers v).
Definition l_sub_cert_ocsp_url (v : url_view) : Z := some_http 6 (uv_ocsp v).
Definition l_sub_cert_cdp_url (v : url_view) : Z := some_http 6 (uv_cdp v).
Definition l_sub_ca_cdp_url (v : url_view) : Z := some_http 6 (uv_cdp v).
Definition l_issuers_http_only (v : url_view) : Z := if all_http (uv_issuers v) then 3 else 6.
Definition l_ocsp_http_only (v : url_view) : Z := if all_http (uv_ocsp v) then 3 else 6.
Definition l_cdp_not_http (v : url_view) : Z := if forallb (fun u => has_prefix http_colon (u_raw u)) (uv_cdp v) then 3 else 6.
Definition l_cs_cdp (v : url_view) : Z :=
  if negb (uv_cdp_ext v) then 6 else if uv_cdp_critical v then 6
  else if forallb (fun u => has_prefix http_slashes (u_raw u)) (uv_cdp v) then 3 else 6.

(* "at least one http, all parseable" per list, an empty list being fine *)
Definition one_http (l : list purl) : bool :=
  forallb u_ok l && (match l with [] => true | _ => existsb is_http l end).
Definition l_legacy_one_http (v : url_view) : Z := if one_http (uv_ocsp v) && one_http (uv_issuers v) then 3 else 6.
Definition l_strict_http_only (v : url_view) : Z := if all_http (uv_ocsp v) && all_http (uv_issuers v) then 3 else 6.

Definition l_smime_cdp_http (v : url_view) : Z :=
  if negb (forallb u_ok (uv_cdp v)) then 6
  else if uv_strict_or_multi v && negb (all_http (uv_cdp v)) then 6
  else if uv_legacy v && negb (existsb is_http (uv_cdp v)) then 6
  else 3.

Definition l_cdp_ldap_or_uri (v : url_view) : Z := some_http_or_ldap (uv_cdp v).
Definition l_aia_location_missing (v : url_view) : Z := some_http_or_ldap (uv_issuers v).

Section Fold.
  Variable fold_eq : bytes -> bytes -> bool.   (* strings.EqualFold *)

  (* the body keeps the URLs seen so far and compares each new one with them *)
  Fixpoint dup_scan (seen : list bytes) (l : list purl) : bool :=
    match l with
    | [] => false
    | u :: r => existsb (fun f => fold_eq (u_raw u) f) seen || dup_scan (u_raw u :: seen) r
    end.
  Definition l_unique_locations (v : url_view) : Z :=
    if dup_scan [] (uv_ocsp v) || dup_scan [] (uv_issuers v) then 6 else 3.

  Definition all_url_lints (v : url_view) : list Z :=
    [l_sub_ca_issuer_url v; l_sub_cert_issuer_url v; l_sub_cert_ocsp_url v; l_sub_cert_cdp_url v; l_sub_ca_cdp_url v;
     l_issuers_http_only v; l_ocsp_http_only v; l_unique_locations v; l_cdp_not_http v; l_cs_cdp v;
     l_legacy_one_http v; l_strict_http_only v; l_smime_cdp_http v; l_cdp_ldap_or_uri v; l_aia_location_missing v].
End Fold.

Definition reorder (v : url_view) (o i c : list purl) : url_view :=
  mkUrlView o i c (uv_cdp_ext v) (uv_cdp_critical v) (uv_strict_or_multi v) (uv_legacy v).
