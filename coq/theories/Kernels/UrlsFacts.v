From Coq Require Import List NArith ZArith Bool Lia Sorting.Permutation.
From ZL Require Import Base.Bytes Base.BytesFacts Kernels.Tld Kernels.Urls.
Import ListNotations.
Open Scope Z_scope.

Lemma u_existsb_perm {A} (f : A -> bool) l l' : Permutation l l' -> existsb f l = existsb f l'.
Proof.
  induction 1 as [|x l l' _ IH|x y l|l l' l'' _ IH1 _ IH2]; cbn [existsb].
  - reflexivity.
  - rewrite IH. reflexivity.
  - destruct (f x); destruct (f y); reflexivity.
  - congruence.
Qed.

Lemma u_forallb_perm {A} (f : A -> bool) l l' : Permutation l l' -> forallb f l = forallb f l'.
Proof.
  induction 1 as [|x l l' _ IH|x y l|l l' l'' _ IH1 _ IH2]; cbn [forallb].
  - reflexivity.
  - rewrite IH. reflexivity.
  - destruct (f x); destruct (f y); reflexivity.
  - congruence.
Qed.

Lemma u_existsb_or {A} (f g : A -> bool) l : existsb (fun x => f x || g x) l = existsb f l || existsb g l.
Proof.
  induction l as [|a l IH]; [reflexivity|]. cbn [existsb]. rewrite IH.
  destruct (f a); destruct (g a); destruct (existsb f l); destruct (existsb g l); reflexivity.
Qed.

Lemma nil_perm {A} (l l' : list A) : Permutation l l' ->
  (match l with [] => true | _ => false end) = (match l' with [] => true | _ => false end).
Proof.
  intro P. destruct l; destruct l'; try reflexivity.
  - apply Permutation_nil in P. discriminate.
  - apply Permutation_sym in P. apply Permutation_nil in P. discriminate.
Qed.

Lemma one_http_perm l l' : Permutation l l' -> one_http l = one_http l'.
Proof.
  intro P. unfold one_http. rewrite (u_forallb_perm u_ok _ _ P).
  pose proof (nil_perm _ _ P) as Hn. pose proof (u_existsb_perm is_http _ _ P) as He.
  destruct l; destruct l'; try discriminate; try reflexivity. rewrite He. reflexivity.
Qed.

Section Fold.
  Variable fold_eq : bytes -> bytes -> bool.
  Hypothesis fold_sym : forall a b, fold_eq a b = fold_eq b a.

  Fixpoint has_dup (l : list purl) : bool :=
    match l with
    | [] => false
    | u :: r => existsb (fun w => fold_eq (u_raw w) (u_raw u)) r || has_dup r
    end.

  Lemma dup_scan_has_dup l : forall seen,
    dup_scan fold_eq seen l = existsb (fun u => existsb (fun f => fold_eq (u_raw u) f) seen) l || has_dup l.
  Proof.
    induction l as [|u r IH]; intro seen; [reflexivity|].
    cbn [dup_scan existsb has_dup]. rewrite IH. cbn [existsb].
    rewrite (u_existsb_or (fun w => fold_eq (u_raw w) (u_raw u)) (fun w => existsb (fun f => fold_eq (u_raw w) f) seen) r).
    destruct (existsb (fun f => fold_eq (u_raw u) f) seen); destruct (existsb (fun w => fold_eq (u_raw w) (u_raw u)) r);
    destruct (existsb (fun w => existsb (fun f => fold_eq (u_raw w) f) seen) r); destruct (has_dup r); reflexivity.
  Qed.

  Lemma has_dup_perm l l' : Permutation l l' -> has_dup l = has_dup l'.
  Proof.
    induction 1 as [|x l l' P IH|x y l|l l' l'' _ IH1 _ IH2]; cbn [has_dup].
    - reflexivity.
    - rewrite IH. rewrite (u_existsb_perm _ _ _ P). reflexivity.
    - cbn [existsb]. rewrite (fold_sym (u_raw x) (u_raw y)).
      destruct (fold_eq (u_raw y) (u_raw x)); destruct (existsb (fun w => fold_eq (u_raw w) (u_raw y)) l);
      destruct (existsb (fun w => fold_eq (u_raw w) (u_raw x)) l); destruct (has_dup l); reflexivity.
    - congruence.
  Qed.

  Lemma dup_scan_perm l l' : Permutation l l' -> dup_scan fold_eq [] l = dup_scan fold_eq [] l'.
  Proof.
    intro P. rewrite !dup_scan_has_dup. rewrite (has_dup_perm _ _ P).
    rewrite (u_existsb_perm _ _ _ P). reflexivity.
  Qed.

  (* every one of the fifteen verdicts is the same for every order of each of the three URL lists *)
  Theorem url_lints_perm v o i c :
    Permutation (uv_ocsp v) o -> Permutation (uv_issuers v) i -> Permutation (uv_cdp v) c ->
    all_url_lints fold_eq (reorder v o i c) = all_url_lints fold_eq v.
  Proof.
    intros Po Pi Pc. unfold all_url_lints, reorder,
      l_sub_ca_issuer_url, l_sub_cert_issuer_url, l_sub_cert_ocsp_url, l_sub_cert_cdp_url, l_sub_ca_cdp_url, l_issuers_http_only, l_ocsp_http_only,
      l_unique_locations, l_cdp_not_http, l_cs_cdp, l_legacy_one_http, l_strict_http_only, l_smime_cdp_http, l_cdp_ldap_or_uri, l_aia_location_missing,
      some_http, some_http_or_ldap, all_http.
    cbn [uv_ocsp uv_issuers uv_cdp uv_cdp_ext uv_cdp_critical uv_strict_or_multi uv_legacy].
    rewrite <- !(u_existsb_perm _ _ _ Po), <- !(u_existsb_perm _ _ _ Pi), <- !(u_existsb_perm _ _ _ Pc).
    rewrite <- !(u_forallb_perm _ _ _ Po), <- !(u_forallb_perm _ _ _ Pi), <- !(u_forallb_perm _ _ _ Pc).
    rewrite <- (dup_scan_perm _ _ Po), <- (dup_scan_perm _ _ Pi).
    rewrite <- (one_http_perm _ _ Po), <- (one_http_perm _ _ Pi).
    reflexivity.
  Qed.
End Fold.

(* ---- what the rules say, and how they relate *)
Theorem some_http_spec finding l : finding <> 3 ->
  (some_http finding l = 3 <-> exists u, In u l /\ has_prefix http_slashes (u_raw u) = true).
Proof.
  intro Hf. unfold some_http. destruct (existsb (fun u => has_prefix http_slashes (u_raw u)) l) eqn:E.
  - split; [|reflexivity]. intros _. apply existsb_exists in E. exact E.
  - split; [intro H; contradiction|]. intros (u & Hin & Hp).
    assert (existsb (fun u => has_prefix http_slashes (u_raw u)) l = true) by (apply existsb_exists; eauto). congruence.
Qed.

Lemma all_http_one_http l : all_http l = true -> one_http l = true.
Proof.
  unfold all_http, one_http. intro H.
  assert (Hok : forallb u_ok l = true).
  { rewrite forallb_forall in *. intros u Hu. specialize (H u Hu). unfold is_http in H. apply andb_true_iff in H. tauto. }
  rewrite Hok. destruct l as [|u r]; [reflexivity|]. cbn [forallb existsb] in *. apply andb_true_iff in H. destruct H as [H _]. rewrite H. reflexivity.
Qed.

(* the strict S/MIME rule implies the legacy one *)
Theorem strict_implies_legacy v : l_strict_http_only v = 3 -> l_legacy_one_http v = 3.
Proof.
  unfold l_strict_http_only, l_legacy_one_http.
  destruct (all_http (uv_ocsp v)) eqn:E1; destruct (all_http (uv_issuers v)) eqn:E2; cbn [andb]; try discriminate.
  intros _. rewrite (all_http_one_http _ E1), (all_http_one_http _ E2). reflexivity.
Qed.

Lemma has_prefix_app p q s : has_prefix (p ++ q) s = true -> has_prefix p s = true.
Proof.
  revert s. induction p as [|a p IH]; intros s H; [reflexivity|].
  destruct s as [|b s]; cbn [app has_prefix] in *; [discriminate|].
  apply andb_true_iff in H. destruct H as [H1 H2]. rewrite H1. cbn [andb]. apply IH. exact H2.
Qed.

(* the code-signing rule ("http://") is stricter than the TLS rule ("http:") on the same list *)
Theorem cs_cdp_stricter v : l_cs_cdp v = 3 -> l_cdp_not_http v = 3.
Proof.
  unfold l_cs_cdp, l_cdp_not_http.
  destruct (uv_cdp_ext v); cbn [negb]; [|discriminate]. destruct (uv_cdp_critical v); [discriminate|].
  destruct (forallb (fun u => has_prefix http_slashes (u_raw u)) (uv_cdp v)) eqn:E; [|discriminate]. intros _.
  assert (forallb (fun u => has_prefix http_colon (u_raw u)) (uv_cdp v) = true) as H.
  { rewrite forallb_forall in *. intros u Hu. apply (has_prefix_app http_colon (s2b "//")). exact (E u Hu). }
  rewrite H. reflexivity.
Qed.

(* "an HTTP URL" means two different things in this family: scheme http (url.Parse) versus the text prefix http:// *)
Theorem scheme_is_not_prefix : exists v, l_ocsp_http_only v = 3 /\ l_sub_cert_ocsp_url v = 6.
Proof.
  exists (mkUrlView [mkUrl (s2b "http:ocsp.example.com") true (s2b "http")] [] [] false false false false).
  split; vm_compute; reflexivity.
Qed.

(* the two pairs of copies are one rule each *)
Theorem issuer_url_twins v : l_sub_ca_issuer_url v = l_sub_cert_issuer_url v.
Proof. reflexivity. Qed.
Theorem cdp_url_twins v : l_sub_ca_cdp_url v = l_sub_cert_cdp_url v.
Proof. reflexivity. Qed.
