(* Go's UTF-8 validity (unicode/utf8) and what encoding/json does to a string on a marshal/unmarshal
   round trip: every byte that does not start a valid encoding becomes U+FFFD (EF BF BD). *)
From ZL Require Import Base.Bytes Base.BytesFacts.
From Coq Require Import Lia.
Open Scope N_scope.

Definition cont (c : N) : bool := (128 <=? c) && (c <=? 191).

(* accepted range of the second byte, by leading byte (utf8.acceptRanges) *)
Definition lo2 (b0 : N) : N := if b0 =? 224 then 160 else if b0 =? 240 then 144 else 128.
Definition hi2 (b0 : N) : N := if b0 =? 237 then 159 else if b0 =? 244 then 143 else 191.

(* length of the valid encoding starting the string, if any *)
Definition rune_len (s : bytes) : option nat :=
  match s with
  | [] => None
  | b0 :: r =>
    if b0 <? 128 then Some 1%nat
    else if (194 <=? b0) && (b0 <=? 223) then
      match r with b1 :: _ => if cont b1 then Some 2%nat else None | _ => None end
    else if (224 <=? b0) && (b0 <=? 239) then
      match r with b1 :: b2 :: _ => if (lo2 b0 <=? b1) && (b1 <=? hi2 b0) && cont b2 then Some 3%nat else None | _ => None end
    else if (240 <=? b0) && (b0 <=? 244) then
      match r with b1 :: b2 :: b3 :: _ => if (lo2 b0 <=? b1) && (b1 <=? hi2 b0) && cont b2 && cont b3 then Some 4%nat else None | _ => None end
    else None
  end.

Definition replacement : bytes := [239; 191; 189].

Fixpoint san (fuel : nat) (s : bytes) : bytes :=
  match fuel with
  | O => []
  | S f =>
    match s with
    | [] => []
    | _ :: r =>
      match rune_len s with
      | Some n => firstn n s ++ san f (skipn n s)
      | None => replacement ++ san f r
      end
    end
  end.

Definition sanitize (s : bytes) : bytes := san (length s) s.

(* a string made of valid encodings only *)
Inductive valid : bytes -> Prop :=
| valid_nil : valid []
| valid_cons r rest : rune_len r = Some (length r) -> valid rest -> valid (r ++ rest).

(* ---- facts ---- *)
Lemma rune_len_bounds s n : rune_len s = Some n -> (1 <= n <= 4)%nat /\ (n <= length s)%nat.
Proof.
  unfold rune_len. destruct s as [|b0 r]; [discriminate|].
  destruct (b0 <? 128); [intro H; inversion H; simpl; lia|].
  destruct ((194 <=? b0) && (b0 <=? 223)).
  { destruct r as [|b1 r]; [discriminate|]. destruct (cont b1); [|discriminate]. intro H; inversion H; simpl; lia. }
  destruct ((224 <=? b0) && (b0 <=? 239)).
  { destruct r as [|b1 [|b2 r]]; try discriminate.
    destruct ((lo2 b0 <=? b1) && (b1 <=? hi2 b0) && cont b2); [|discriminate]. intro H; inversion H; simpl; lia. }
  destruct ((240 <=? b0) && (b0 <=? 244)); [|discriminate].
  destruct r as [|b1 [|b2 [|b3 r]]]; try discriminate.
  destruct ((lo2 b0 <=? b1) && (b1 <=? hi2 b0) && cont b2 && cont b3); [|discriminate]. intro H; inversion H; simpl; lia.
Qed.

(* rune_len only looks at the bytes of the encoding itself *)
Lemma rune_len_prefix s n rest : rune_len s = Some n -> rune_len (firstn n s ++ rest) = Some n.
Proof.
  unfold rune_len. destruct s as [|b0 r]; [discriminate|].
  destruct (b0 <? 128) eqn:E0.
  { intro H; inversion H; subst. simpl. rewrite E0. reflexivity. }
  destruct ((194 <=? b0) && (b0 <=? 223)) eqn:E1.
  { destruct r as [|b1 r]; [discriminate|]. destruct (cont b1) eqn:C1; [|discriminate].
    intro H; inversion H; subst. simpl. rewrite E0, E1, C1. reflexivity. }
  destruct ((224 <=? b0) && (b0 <=? 239)) eqn:E2.
  { destruct r as [|b1 [|b2 r]]; try discriminate.
    destruct ((lo2 b0 <=? b1) && (b1 <=? hi2 b0) && cont b2) eqn:C; [|discriminate].
    intro H; inversion H; subst. simpl. rewrite E0, E1, E2, C. reflexivity. }
  destruct ((240 <=? b0) && (b0 <=? 244)) eqn:E3; [|discriminate].
  destruct r as [|b1 [|b2 [|b3 r]]]; try discriminate.
  destruct ((lo2 b0 <=? b1) && (b1 <=? hi2 b0) && cont b2 && cont b3) eqn:C; [|discriminate].
  intro H; inversion H; subst. simpl. rewrite E0, E1, E2, E3, C. reflexivity.
Qed.

Lemma rune_len_firstn s n : rune_len s = Some n -> rune_len (firstn n s) = Some (length (firstn n s)).
Proof.
  intro H. pose proof (rune_len_prefix s n [] H) as P. rewrite app_nil_r in P. rewrite P.
  f_equal. rewrite firstn_length. destruct (rune_len_bounds s n H). lia.
Qed.

Lemma rune_len_app r rest : rune_len r = Some (length r) -> rune_len (r ++ rest) = Some (length r).
Proof.
  intro H. pose proof (rune_len_prefix r (length r) rest H) as P. rewrite firstn_all in P. exact P.
Qed.

Lemma replacement_rune : rune_len replacement = Some (length replacement).
Proof. reflexivity. Qed.

Lemma san_valid_out fuel s : valid (san fuel s).
Proof.
  revert s. induction fuel as [|f IH]; intro s; simpl; [constructor|].
  destruct s as [|b r]; [constructor|].
  destruct (rune_len (b :: r)) as [n|] eqn:E.
  - apply valid_cons; [apply rune_len_firstn; exact E | apply IH].
  - change (valid (replacement ++ san f r)). apply valid_cons; [apply replacement_rune | apply IH].
Qed.

Lemma san_valid_id s : valid s -> forall fuel, (length s <= fuel)%nat -> san fuel s = s.
Proof.
  induction 1 as [|r rest Hr Hv IH]; intros fuel Hf.
  - destruct fuel; reflexivity.
  - destruct (rune_len_bounds r _ Hr) as [[L1 _] _].
    destruct fuel as [|f]; [rewrite app_length in Hf; lia|].
    destruct r as [|b r']; [simpl in L1; lia|].
    cbn [san app]. change (b :: r' ++ rest)%list with ((b :: r') ++ rest)%list.
    rewrite (rune_len_app (b :: r') rest Hr).
    rewrite firstn_app, firstn_all, PeanoNat.Nat.sub_diag, firstn_O, app_nil_r.
    rewrite skipn_app, skipn_all, PeanoNat.Nat.sub_diag, skipn_O. cbn [app].
    rewrite IH; [reflexivity|]. rewrite app_length in Hf. simpl in Hf, L1. simpl. lia.
Qed.

Theorem sanitize_valid s : valid (sanitize s).
Proof. apply san_valid_out. Qed.

Theorem sanitize_id_on_valid s : valid s -> sanitize s = s.
Proof. intro H. apply san_valid_id; auto. Qed.

Theorem sanitize_idempotent s : sanitize (sanitize s) = sanitize s.
Proof. apply sanitize_id_on_valid, sanitize_valid. Qed.

Lemma sanitize_nil : sanitize [] = [].
Proof. reflexivity. Qed.
