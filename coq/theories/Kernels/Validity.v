(* C05 / C16-style exactness for time: the six validity-period lints, modelled in full over the two instants of the
   certificate (seconds since 1970-01-01T00:00:00Z), with time.AddDate from Kernels/Calendar.v.

     e_tls_server_cert_valid_time_longer_than_398_days, w_tls_server_cert_valid_time_longer_than_397_days   (apple)
     e_sub_cert_valid_time_longer_than_39_months, e_sub_cert_valid_time_longer_than_825_days                 (cabf_br)
     e_ev_valid_time_too_long (27 months), e_onion_subject_validity_time_too_large (15 months)               (cabf_ev)

   Statuses: 3 pass, 5 warn, 6 error. *)
From Coq Require Import List ZArith Bool Lia.
From ZL Require Import Kernels.Tld Kernels.Calendar Kernels.CalendarFacts.
Import ListNotations.
Open Scope Z_scope.

(* RFC 5280: the period runs from notBefore through notAfter inclusive - one second is added *)
Definition l_398 (nb na : Z) : Z := if 398 * 86400 <? na + 1 - nb then 6 else 3.
Definition l_397 (nb na : Z) : Z := if 397 * 86400 <? na + 1 - nb then 5 else 3.
Definition l_months (m : Z) (nb na : Z) : Z := if add_date nb 0 m 0 <? na then 6 else 3.
Definition l_39_months := l_months 39.
Definition l_ev_27_months := l_months 27.
Definition l_onion_15_months := l_months 15.
Definition l_825_days (nb na : Z) : Z := if add_date nb 0 0 825 <? na then 6 else 3.

Definition all_validity_lints (nb na : Z) : list Z :=
  [l_398 nb na; l_397 nb na; l_39_months nb na; l_825_days nb na; l_ev_27_months nb na; l_onion_15_months nb na].

(* ---- exact limits *)
Theorem l_825_exact nb na : l_825_days nb na = 6 <-> na > nb + 825 * 86400.
Proof.
  unfold l_825_days. rewrite add_date_days.
  destruct (Z.ltb_spec (nb + 86400 * 825) na) as [L|L]; split; intro H; try discriminate; try reflexivity; lia.
Qed.

Theorem l_398_exact nb na : l_398 nb na = 6 <-> na - nb >= 398 * 86400.
Proof. unfold l_398. destruct (Z.ltb_spec (398 * 86400) (na + 1 - nb)) as [L|L]; split; intro H; try discriminate; try reflexivity; lia. Qed.

Theorem error_398_implies_warn_397 nb na : l_398 nb na = 6 -> l_397 nb na = 5.
Proof.
  unfold l_398, l_397. destruct (Z.ltb_spec (398 * 86400) (na + 1 - nb)); [|discriminate].
  intros _. destruct (Z.ltb_spec (397 * 86400) (na + 1 - nb)); [reflexivity|lia].
Qed.

(* AddDate(0, m, 0): the month is carried into the year, the day of the month is kept and counted on if the target
   month is shorter (31 January + 1 month = 3 March, or 2 March in a leap year) *)
Theorem add_months_closed t m :
  match civil_of_days (day_of t) with
  | (y, mo, d) => add_date t 0 m 0 = instant_of (y + (mo - 1 + m) / 12) ((mo - 1 + m) mod 12 + 1) d (tod t)
  end.
Proof.
  unfold add_date, instant_of. destruct (civil_of_days (day_of t)) as [[y mo] d]. cbv zeta.
  replace (y + 0 + (mo - 1 + m) / 12) with (y + (mo - 1 + m) / 12) by lia.
  replace (days_from_civil (y + (mo - 1 + m) / 12) ((mo - 1 + m) mod 12 + 1) 1 + (d - 1) + 0)
    with (days_from_civil (y + (mo - 1 + m) / 12) ((mo - 1 + m) mod 12 + 1) (1 + (d - 1))) by (rewrite days_from_civil_day; lia).
  replace (1 + (d - 1)) with d by lia. reflexivity.
Qed.

Theorem l_months_exact m nb na :
  match civil_of_days (day_of nb) with
  | (y, mo, d) => l_months m nb na = 6 <-> na > instant_of (y + (mo - 1 + m) / 12) ((mo - 1 + m) mod 12 + 1) d (tod nb)
  end.
Proof.
  pose proof (add_months_closed nb m) as H. unfold l_months.
  destruct (civil_of_days (day_of nb)) as [[y mo] d]. rewrite H.
  destruct (Z.ltb_spec (instant_of (y + (mo - 1 + m) / 12) ((mo - 1 + m) mod 12 + 1) d (tod nb)) na) as [L|L]; split; intro E; try discriminate; try reflexivity; lia.
Qed.

(* 2023-01-31T00:00:00Z + 1 month = 2023-03-03T00:00:00Z; 2024-01-31 + 1 month = 2024-03-02 *)
Example jan31_plus_month : add_date 1675123200 0 1 0 = 1677801600 /\ add_date 1706659200 0 1 0 = 1709337600.
Proof. vm_compute. split; reflexivity. Qed.
