(* C02: the hand-written byte walker of w_ext_cert_policy_explicit_text_includes_control, with every index access
   explicit: reading past the end is the outcome WPanic (Go's index-out-of-range panic), never a default value. *)
From ZL Require Import Base.Bytes.
From Coq Require Import Lia.
Open Scope N_scope.

Inductive wres := WPass | WWarn | WPanic.

Definition bit_clear (b mask : N) : bool := N.land b mask =? 0.

(* `checked` = the bound check before reading the byte after a 0xC2 lead byte is present *)
Fixpoint walk (checked : bool) (fuel : nat) (s : bytes) (i : nat) : wres :=
  match fuel with
  | O => WPass
  | S f =>
    if Nat.leb (length s) i then WPass
    else match nth_error s i with
         | None => WPanic
         | Some b =>
           if bit_clear b 128 then (if (b <? 32) || (b =? 127) then WWarn else walk checked f s (i + 1))
           else if bit_clear b 32 then
             if b =? 194 then
               if checked && Nat.leb (length s) (i + 1) then walk checked f s (i + 2)
               else match nth_error s (i + 1) with
                    | None => WPanic
                    | Some b1 => if (128 <=? b1) && (b1 <=? 159) then WWarn else walk checked f s (i + 2)
                    end
             else walk checked f s (i + 2)
           else if bit_clear b 16 then walk checked f s (i + 3)
           else if bit_clear b 8 then walk checked f s (i + 4)
           else if bit_clear b 4 then walk checked f s (i + 5)
           else if bit_clear b 2 then walk checked f s (i + 6)
           else walk checked f s (i + 1)
         end
  end.

(* the lint on one UTF8String explicitText: 5 = warn, 3 = pass, -1 = panic *)
Definition explicit_text_lint (checked : bool) (s : bytes) : Z :=
  match walk checked (S (length s)) s 0 with WPass => 3%Z | WWarn => 5%Z | WPanic => (-1)%Z end.

(* with the bound check the walker never reads out of range, whatever the bytes *)
Theorem walk_checked_safe : forall fuel s i, walk true fuel s i <> WPanic.
Proof.
  induction fuel as [|f IH]; intros s i; simpl; [discriminate|].
  destruct (Nat.leb (length s) i) eqn:L; [discriminate|].
  apply PeanoNat.Nat.leb_gt in L.
  destruct (nth_error s i) as [b|] eqn:E; [|apply nth_error_None in E; lia].
  destruct (bit_clear b 128); [destruct ((b <? 32) || (b =? 127)); [discriminate | apply IH]|].
  destruct (bit_clear b 32).
  - destruct (b =? 194); [|apply IH].
    destruct (Nat.leb (length s) (i + 1)) eqn:L1; simpl; [apply IH|].
    apply PeanoNat.Nat.leb_gt in L1.
    destruct (nth_error s (i + 1)) as [b1|] eqn:E1; [|apply nth_error_None in E1; lia].
    destruct ((128 <=? b1) && (b1 <=? 159)); [discriminate | apply IH].
  - destruct (bit_clear b 16); [apply IH|]. destruct (bit_clear b 8); [apply IH|].
    destruct (bit_clear b 4); [apply IH|]. destruct (bit_clear b 2); apply IH.
Qed.

Theorem explicit_text_never_panics : forall s, explicit_text_lint true s <> (-1)%Z.
Proof.
  intro s. unfold explicit_text_lint. pose proof (walk_checked_safe (S (length s)) s 0) as H.
  destruct (walk true (S (length s)) s 0); try discriminate. contradiction.
Qed.

(* without it a text ending in the lead byte 0xC2 panics *)
Theorem walk_unchecked_refuted : explicit_text_lint false [194] = (-1)%Z.
Proof. reflexivity. Qed.
