(* C01 - every lint run returns a complete, well-formed result set.  Statements only. *)
From ZL Require Import Base.Bytes Framework.Core Framework.LifecycleFacts.
Open Scope Z_scope.

Section C01.
  Variables obj inst cfg : Type.
  Variables sa em cs : obj -> bool.
  Variable date_of : kind -> obj -> Z.
  Notation names_of ls := (map (fun l : lint obj inst cfg => m_name (l_meta l)) ls).

  (* certificates: linting returns normally even when bodies panic (recover); only a nil result could escape *)
  Theorem c01_cert_total : forall ls c o,
    NoDup (names_of ls) -> (forall l, In l ls -> no_nil obj inst cfg sa em cs date_of KCert l c o) ->
    exists rs, lint_all obj inst cfg sa em cs date_of KCert ls c o = Ret rs.
  Proof. exact (cert_total obj inst cfg sa em cs date_of). Qed.

  (* CRL / OCSP: no recovery net, so totality needs panic freedom of the bodies (C02's conclusion) *)
  Theorem c01_plain_total : forall k ls c o,
    NoDup (names_of ls) -> (forall l, In l ls -> no_nil obj inst cfg sa em cs date_of k l c o) ->
    (forall l, In l ls -> no_panic obj inst cfg sa em cs date_of k l c o) ->
    exists rs, lint_all obj inst cfg sa em cs date_of k ls c o = Ret rs.
  Proof. exact (plain_total obj inst cfg sa em cs date_of). Qed.

  (* exactly one result per lint and no others, producer's metadata, flags iff contents, version 3 *)
  Theorem c01_well_formed : forall k ls c o rs,
    NoDup (names_of ls) -> lint_all obj inst cfg sa em cs date_of k ls c o = Ret rs ->
    well_formed obj inst cfg sa em cs date_of k ls c o rs.
  Proof. exact (result_set_well_formed obj inst cfg sa em cs date_of). Qed.

  (* if bodies only return defined statuses, so does the set: the framework adds only NA, NE, Fatal *)
  Theorem c01_status_range : forall k ls c o rs,
    NoDup (names_of ls) -> lint_all obj inst cfg sa em cs date_of k ls c o = Ret rs ->
    (forall l, In l ls -> body_range obj inst cfg l o) ->
    forall n r m, In (n, (r, m)) (rs_results rs) -> defined_status (r_status r) = true.
  Proof. exact (status_range obj inst cfg sa em cs date_of). Qed.
End C01.

Print Assumptions c01_cert_total.
Print Assumptions c01_plain_total.
Print Assumptions c01_well_formed.
Print Assumptions c01_status_range.

(* non-vacuity: a three-lint certificate registry (one body panics, one warns, one is inapplicable) meets the
   hypotheses and yields a complete set with flags (notices, warnings, errors, fatals) = (false, true, false, true) *)
From ZL Require Import Framework.Script.
From Coq Require Import String.
Open Scope string_scope.
Example c01_example :
  let mk n app exe := mkScript (mkMeta (s2b n) [] [] (s2b "RFC5280") zeroT zeroT) NewOk CfgNone app exe in
  let ss := [mk "e_a" AppTrue (ExePanic (s2b "boom")); mk "w_b" AppTrue (ExeRes Warn []); mk "n_c" AppFalse (ExeRes Pass [])] in
  match slint_all KCert ss (mkObj true true true 0 0 0) with
  | Ret rs => map fst (rs_results rs) = [s2b "e_a"; s2b "w_b"; s2b "n_c"] /\
              (rs_notices rs, rs_warnings rs, rs_errors rs, rs_fatals rs) = (false, true, false, true) /\ rs_version rs = 3
  | Panic _ => False
  end.
Proof. vm_compute. repeat split. Qed.
