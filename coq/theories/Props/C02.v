(* C02 - no lint fails internally on any input the parser accepts.  Statements only
   (proofs: Framework/FatalFacts.v, Kernels/Walkers.v, Kernels/BodiesFacts.v). *)
From ZL Require Import Base.Bytes Framework.Core Framework.LifecycleFacts Framework.FatalFacts Kernels.Walkers Kernels.Bodies Kernels.BodiesFacts Kernels.Crl Kernels.QcStatem Kernels.Arpa Kernels.Dsa Kernels.Der Kernels.DerFacts Kernels.CaKu.
Open Scope Z_scope.

(* a fatal status is an explicit decision of the body, a configuration error, or a recovered panic *)
Theorem c02_fatal_origin :
  forall (obj inst cfg : Type) (sa em cs : obj -> bool) (date_of : kind -> obj -> Z) (l : lint obj inst cfg) c o r,
  fst (run obj inst cfg sa em cs date_of KCert l c o) = Ret (Some r) -> r_status r = Fatal ->
  (exists i, b_exec (l_body l) i o = Ret (Some r)) \/
  (exists err, r = mkResult Fatal (config_error_details (m_name (l_meta l)) err)) \/
  (exists e, fst (run_body obj inst cfg date_of KCert l c o) = Panic e /\ r = mkResult Fatal (panic_details (m_name (l_meta l)) e)).
Proof. exact cert_fatal_origin. Qed.

(* hence panic-free bodies never produce the framework's recovered-panic report *)
Theorem c02_framework :
  forall (obj inst cfg : Type) (sa em cs : obj -> bool) (date_of : kind -> obj -> Z) (l : lint obj inst cfg) c o r,
  (forall e, fst (run_body obj inst cfg date_of KCert l c o) <> Panic e) ->
  fst (run obj inst cfg sa em cs date_of KCert l c o) = Ret (Some r) -> r_status r = Fatal ->
  (exists i, b_exec (l_body l) i o = Ret (Some r)) \/
  (exists err, r = mkResult Fatal (config_error_details (m_name (l_meta l)) err)).
Proof. exact no_panic_no_panic_report. Qed.

(* CRL / OCSP linting returns normally exactly when nothing in the lint panics *)
Theorem c02_plain :
  forall (obj inst cfg : Type) (sa em cs : obj -> bool) (date_of : kind -> obj -> Z) k (l : lint obj inst cfg) c o,
  k <> KCert ->
  ((exists r, fst (run obj inst cfg sa em cs date_of k l c o) = Ret r) <-> forall e, fst (run_body obj inst cfg date_of k l c o) <> Panic e).
Proof. exact plain_returns_iff_no_panic. Qed.

(* the explicitText control-character walker, with every index access explicit, never reads out of range *)
Theorem c02_walker_safe : forall s, explicit_text_lint true s <> -1.
Proof. exact explicit_text_never_panics. Qed.

(* without its bound check it panics on a text ending in 0xC2 *)
Theorem c02_walker_unchecked_refuted : explicit_text_lint false [194%N] = -1.
Proof. exact walk_unchecked_refuted. Qed.

(* rule bodies and helpers that index byte strings by hand (Kernels/Bodies.v: every index explicit, out of range =
   the outcome OOR).  The three GeneralizedTime lints never read out of range when each GeneralizedTime validity field
   has at least five octets (the parser only accepts the 15- and 19-octet forms; the harness checks that guard on
   spliced certificates), and they do on shorter values. *)
Theorem c02_gentime_safe : forall d1 d2, time_ok d1 -> time_ok d2 ->
  safe (gen_seconds d1 d2) /\ safe (gen_fraction d1 d2) /\ safe (gen_not_zulu d1 d2).
Proof. exact gen_time_lints_safe. Qed.

Theorem c02_gentime_guard_needed :
  check_seconds [48%N] = OOR /\ check_fraction [48%N; 48%N; 48%N; 48%N] = OOR /\ check_not_zulu [] = OOR /\ check_seconds [] = OOR.
Proof. exact check_seconds_short_refuted. Qed.

(* the keyUsage encoding lints, the SCT-list lint, GetHost, GetAuthority and ParseBMPString never read out of range,
   whatever the bytes *)
Theorem c02_bodies_total : forall b : bytes,
  safe (ku_incorrect_encoding b) /\ safe (ku_superfluous b) /\ safe (ku_incorrect_length b) /\ safe (sct_list b) /\
  safe (get_host b) /\ (forall ok opq, safe (get_authority ok opq b)) /\ safe (parse_bmp b).
Proof.
  intro b. repeat split.
  - exact (ku_incorrect_encoding_safe b).
  - exact (ku_superfluous_safe b).
  - exact (ku_incorrect_length_safe b).
  - exact (sct_list_safe b).
  - exact (get_host_safe b).
  - intros ok opq. exact (get_authority_safe ok opq b).
  - exact (parse_bmp_safe b).
Qed.

(* the GeneralizedTime lints answer NA, pass or error only *)
Theorem c02_gentime_range : forall chk d1 d2 s, gen_time_lint chk d1 d2 = Val s -> s = 1 \/ s = 3 \/ s = 6.
Proof. exact gen_time_lint_range. Qed.

(* the rune loop of e_subject_dn_not_printable_characters never slices out of range, and its verdict is "some
   attribute value holds a control character" - a property of the set of values *)
Theorem c02_dn_printable : forall vals,
  safe (dn_not_printable vals) /\ dn_not_printable vals = Val (if existsb val_ctl vals then 6 else 3).
Proof. intro vals. split; [exact (dn_not_printable_safe vals) | exact (dn_not_printable_exists vals)]. Qed.

(* revocation lists and OCSP responses are linted without a recovery net.  Eight of the ten revocation-list lints and
   the OCSP lint are modelled in full (Kernels/Crl.v) as total functions of the parsed view: they answer NA, pass, warn
   or error on every list, and - except the RFC reason-code lint, whose warning/error choice follows entry order -
   do not depend on the order of the revoked-certificate entries *)
Theorem c02_crl_lints_range : forall v s, In s (all_crl_lints v) -> s = 1 \/ s = 3 \/ s = 5 \/ s = 6.
Proof. exact crl_lints_range. Qed.

Theorem c02_crl_entry_order : forall v es', Permutation.Permutation (cv_entries v) es' ->
  firstn 7 (all_crl_lints (with_entries v es')) = firstn 7 (all_crl_lints v).
Proof. exact crl_lints_entry_order. Qed.

(* the six ETSI lints that assert the dynamic type of util.ParseQcStatem's result without the comma-ok form do so
   only when the statement is present and carries no error text: then the result has the sought statement's type
   (model Kernels.QcStatem; the ASN.1 decoder is an oracle) *)
Theorem c02_qc_assert_safe : forall outer sought,
  sought <> KOther -> r_present (parse_qc outer sought) = true -> r_noerr (parse_qc outer sought) = true ->
  r_dyn (parse_qc outer sought) = Some sought.
Proof. exact parse_qc_typed. Qed.

(* and the error-text test is what makes it so *)
Theorem c02_qc_guard_needed :
  let r := parse_qc (Some [IStmt KType false]) KType in r_present r = true /\ r_dyn r = None.
Proof. exact guard_needed. Qed.

(* reversedLabelsToIPv6 indexes labels[i], labels[i-1], labels[i-2], labels[i-3] for i = 31, 27, ..., 3: never outside the
   label list, whatever the labels are (the length test comes first) - and 31 labels without the test would be *)
Theorem c02_arpa_indexing_safe : forall labels, assemble_v6 labels <> OOR.
Proof. exact assemble_v6_safe. Qed.

(* the four DSA key lints (Kernels/Dsa.v) are total functions of the four positive integers of the key - P = 1, Q longer
   than P, Y beyond P included - and answer pass or error; the subgroup lint decides exactly Y^Q = 1 (mod P) *)
Theorem c02_dsa_lints_total : forall k s, In s (all_dsa_lints k) -> s = 3 \/ s = 6.
Proof. exact dsa_lints_range. Qed.

Theorem c02_dsa_subgroup_spec : forall k, well_formed k -> (l_subgroup k = 3 <-> (dY k ^ dQ k) mod dP k = 1).
Proof. exact subgroup_spec. Qed.

Theorem c02_dsa_p_one_decided : forall k, dP k = 1 -> l_subgroup k = 6.
Proof. exact subgroup_p_one. Qed.

(* the raw walkers over the SAN / IAN extension value never run out of steps (each read consumes at least two octets)
   and are defined on every byte string: NA, pass, error or fatal, never a failure of the loop *)
Theorem c02_der_read_consumes : forall s t rest, read_tlv s = Some (t, rest) -> (length rest + 2 <= length s)%nat.
Proof. exact read_tlv_shrinks. Qed.

Theorem c02_der_walker_total : forall value, l_empty_name value <> 0.
Proof. exact empty_name_total. Qed.

(* nineteen bodies that dereference the extension their CheckApplies tests for (Kernels/CaKu.v): with the gate in the
   model, every status is NA, pass, notice, warn or error *)
Theorem c02_ca_ku_gated : forall v s, In s (all_ca_ku_lints v) -> s = 1 \/ s = 3 \/ s = 4 \/ s = 5 \/ s = 6.
Proof. exact ca_ku_range. Qed.

Print Assumptions c02_fatal_origin.
Print Assumptions c02_framework.
Print Assumptions c02_plain.
Print Assumptions c02_walker_safe.
Print Assumptions c02_walker_unchecked_refuted.
Print Assumptions c02_gentime_safe.
Print Assumptions c02_gentime_guard_needed.
Print Assumptions c02_bodies_total.
Print Assumptions c02_gentime_range.
Print Assumptions c02_dn_printable.
Print Assumptions c02_crl_lints_range.
Print Assumptions c02_crl_entry_order.

(* non-vacuity: a 15-octet Zulu GeneralizedTime meets the guard; the lints pass on it and report the 13-octet form *)
Example c02_gentime_example :
  time_ok (24, s2b "20240301000000Z") /\ gen_seconds (24, s2b "20240301000000Z") (23, s2b "240301000000Z") = Val 3 /\
  gen_seconds (24, s2b "202403010000Z") (23, s2b "240301000000Z") = Val 6 /\
  gen_not_zulu (24, s2b "20240301000000+0100") (23, s2b "240301000000Z") = Val 6.
Proof. repeat split; try reflexivity. intros _. vm_compute. discriminate. Qed.
Print Assumptions c02_qc_assert_safe.
Print Assumptions c02_qc_guard_needed.
Print Assumptions c02_arpa_indexing_safe.
Print Assumptions c02_dsa_lints_total.
Print Assumptions c02_dsa_subgroup_spec.
Print Assumptions c02_dsa_p_one_decided.
Print Assumptions c02_der_read_consumes.
Print Assumptions c02_der_walker_total.
Print Assumptions c02_ca_ku_gated.
