(* C02 - no lint fails internally on any input the parser accepts.  Statements only
   (proofs: Framework/FatalFacts.v, Kernels/Walkers.v). *)
From ZL Require Import Base.Bytes Framework.Core Framework.LifecycleFacts Framework.FatalFacts Kernels.Walkers.
Open Scope Z_scope.

(* a fatal status is an explicit decision of the body, a configuration error, or a recovered panic *)
Theorem c02_fatal_origin :
  forall (obj inst cfg : Type) (sa em cs : obj -> bool) (date_of : kind -> obj -> Z) (l : lint obj inst cfg) c o r,
  fst (run obj inst cfg sa em cs date_of KCert l c o) = Ret (Some r) -> r_status r = Fatal ->
  (exists i, b_exec (l_body l) i o = Ret (Some r)) \/
  (exists err, r = mkResult Fatal (config_error_details (m_name (l_meta l)) err)) \/
  (exists e, fst (run_body obj inst cfg date_of KCert l c o) = Panic e /\ r = mkResult Fatal (panic_details (m_name (l_meta l)) e)).
Proof. exact cert_fatal_origin. Qed.

(* hence panic-free bodies never produce the framework's recovered-panic report *)
Theorem c02_framework :
  forall (obj inst cfg : Type) (sa em cs : obj -> bool) (date_of : kind -> obj -> Z) (l : lint obj inst cfg) c o r,
  (forall e, fst (run_body obj inst cfg date_of KCert l c o) <> Panic e) ->
  fst (run obj inst cfg sa em cs date_of KCert l c o) = Ret (Some r) -> r_status r = Fatal ->
  (exists i, b_exec (l_body l) i o = Ret (Some r)) \/
  (exists err, r = mkResult Fatal (config_error_details (m_name (l_meta l)) err)).
Proof. exact no_panic_no_panic_report. Qed.

(* CRL / OCSP linting returns normally exactly when nothing in the lint panics *)
Theorem c02_plain :
  forall (obj inst cfg : Type) (sa em cs : obj -> bool) (date_of : kind -> obj -> Z) k (l : lint obj inst cfg) c o,
  k <> KCert ->
  ((exists r, fst (run obj inst cfg sa em cs date_of k l c o) = Ret r) <-> forall e, fst (run_body obj inst cfg date_of k l c o) <> Panic e).
Proof. exact plain_returns_iff_no_panic. Qed.

(* the explicitText control-character walker, with every index access explicit, never reads out of range *)
Theorem c02_walker_safe : forall s, explicit_text_lint true s <> -1.
Proof. exact explicit_text_never_panics. Qed.

(* without its bound check it panics on a text ending in 0xC2 *)
Theorem c02_walker_unchecked_refuted : explicit_text_lint false [194%N] = -1.
Proof. exact walk_unchecked_refuted. Qed.

Print Assumptions c02_fatal_origin.
Print Assumptions c02_framework.
Print Assumptions c02_plain.
Print Assumptions c02_walker_safe.
Print Assumptions c02_walker_unchecked_refuted.
