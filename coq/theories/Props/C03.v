(* C03 - no findings outside a rule's effective window.  Statements only. *)
From ZL Require Import Base.Bytes Framework.Core Framework.LifecycleFacts.
Open Scope Z_scope.

(* the window is exact to the instant (instants are absolute: zone independent) *)
Theorem c03_window_exact : forall e i t,
  check_effective e i t = true <-> (e = zeroT \/ e <= t) /\ (i = zeroT \/ t < i).
Proof. exact window_exact. Qed.

(* at the effective date and s before the ineffective date: judged; s earlier / at the ineffective date: not *)
Theorem c03_boundaries : forall e i s,
  e <> zeroT -> i <> zeroT -> e < i -> 0 < s -> s <= i - e ->
  check_effective e i e = true /\ check_effective e i (i - s) = true /\
  check_effective e i (e - s) = false /\ check_effective e i i = false.
Proof. exact window_boundaries. Qed.

(* for every lint of every kind, any configuration, arbitrary bodies: outside the window a returned result is
   NA, NE or Fatal (never pass/info/warn/error) and the rule body did not run *)
Theorem c03_silent_outside :
  forall (obj inst cfg : Type) (sa em cs : obj -> bool) (date_of : kind -> obj -> Z)
         (k : kind) (l : lint obj inst cfg) (c : cfg) (o : obj) (r : result) (log : list event),
  in_window obj inst cfg date_of k l o = false ->
  run obj inst cfg sa em cs date_of k l c o = (Ret (Some r), log) ->
  (r_status r = NA \/ r_status r = NE \/ r_status r = Fatal) /\ ~ In EvExecute log.
Proof. exact silent_outside. Qed.

Example c03_example :
  let e := 1000 in let i := 5000 in
  check_effective e i 1000 = true /\ check_effective e i 4999 = true /\ check_effective e i 999 = false /\
  check_effective e i 5000 = false /\ check_effective zeroT zeroT (-99999999999999) = true.
Proof. vm_compute. repeat split. Qed.

Print Assumptions c03_window_exact.
Print Assumptions c03_boundaries.
Print Assumptions c03_silent_outside.
