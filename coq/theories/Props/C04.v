(* C04 - out-of-scope or inapplicable objects get NA; otherwise the rule's verdict stands.  Statements only. *)
From ZL Require Import Base.Bytes Framework.Core Framework.LifecycleFacts Kernels.Scope.
Open Scope Z_scope.

Section C04.
  Variables obj inst cfg : Type.
  Variables sa em cs : obj -> bool.
  Variable date_of : kind -> obj -> Z.

  (* outside the source document's scope: NA, and nothing of the lint runs (empty call log) *)
  Theorem c04_scope_gate : forall (l : lint obj inst cfg) c o,
    in_scope obj sa em cs (m_src (l_meta l)) o = false ->
    run_cert obj inst cfg sa em cs date_of l c o = (Some (mkResult NA []), []).
  Proof. exact (scope_gate obj inst cfg sa em cs date_of). Qed.

  (* the scope predicate is the documented one *)
  Theorem c04_scope_def : forall src o,
    in_scope obj sa em cs src o =
    if beqb src (s2b "CABF_BR") then sa o else if beqb src (s2b "CABF_SMIME_BR") then em o
    else if beqb src (s2b "CABF_CS_BR") then cs o else true.
  Proof. reflexivity. Qed.

  (* inapplicable: NA and the rule body is not run, for all three kinds *)
  Theorem c04_inapplicable : forall k (l : lint obj inst cfg) c o i,
    configured obj inst cfg l c = Some i -> b_applies (l_body l) i o = Ret false ->
    fst (run obj inst cfg sa em cs date_of k l c o) = Ret (Some (mkResult NA [])) /\
    ~ In EvExecute (snd (run obj inst cfg sa em cs date_of k l c o)).
  Proof. exact (inapplicable obj inst cfg sa em cs date_of). Qed.

  (* in scope, configured, applicable, in window: exactly what the body returns on the fresh configured instance
     (certificates: a panic becomes the recovered fatal; CRL/OCSP: it propagates) *)
  Theorem c04_verdict_stands : forall k (l : lint obj inst cfg) c o i,
    (k = KCert -> in_scope obj sa em cs (m_src (l_meta l)) o = true) ->
    configured obj inst cfg l c = Some i -> b_applies (l_body l) i o = Ret true ->
    in_window obj inst cfg date_of k l o = true ->
    fst (run obj inst cfg sa em cs date_of k l c o) =
    match k with KCert => Ret (recovered obj inst cfg l (b_exec (l_body l) i o)) | _ => b_exec (l_body l) i o end.
  Proof. exact (verdict_stands obj inst cfg sa em cs date_of). Qed.

  (* one instance per run, in the order construct, configure, applicability, body *)
  Theorem c04_order : forall k (l : lint obj inst cfg) c o,
    is_prefix (snd (run obj inst cfg sa em cs date_of k l c o))
      (if b_configurable (l_body l) then [EvNew; EvConfigure; EvApplies; EvExecute] else [EvNew; EvApplies; EvExecute]).
  Proof. exact (log_order obj inst cfg sa em cs date_of). Qed.
End C04.

(* the three scope predicates are exactly "no ... indication" *)
Theorem c04_server_auth_iff : forall v,
  is_server_auth v = true <->
  (sv_ekus v = [] /\ sv_unknown_ekus v = O) \/ In ekuAny (sv_ekus v) \/ In ekuServerAuth (sv_ekus v) \/
  exists p, In p (sv_policies v) /\ In p br_policies.
Proof. exact server_auth_iff. Qed.

Theorem c04_email_protection_iff : forall v,
  is_email_protection v = true <->
  (has_email_san v = true /\
   ((sv_ekus v = [] /\ sv_unknown_ekus v = O) \/ In ekuAny (sv_ekus v) \/ In ekuEmailProtection (sv_ekus v))) \/
  exists p, In p (sv_policies v) /\ In p smime_policies.
Proof. exact email_protection_iff. Qed.

Theorem c04_code_signing_iff : forall v,
  is_code_signing v = true <-> exists p, In p (sv_policies v) /\ In p cs_policies.
Proof. exact code_signing_iff. Qed.

Print Assumptions c04_server_auth_iff.
Print Assumptions c04_email_protection_iff.
Print Assumptions c04_code_signing_iff.
Print Assumptions c04_scope_gate.
Print Assumptions c04_inapplicable.
Print Assumptions c04_verdict_stands.
Print Assumptions c04_order.
