(* C05 - linting is deterministic, history-independent, read-only and I/O-free.  Statements only
   (proofs: Framework/State.v).  In the model a lint call is a function, so determinism is immediate; the content
   is the frame condition, which is what the regenerated static facts and the differential harness establish
   about the code. *)
From ZL Require Import Framework.State.
From Coq Require Import List.

Theorem c05_history_independent :
  forall (call obj G res : Type) (exec : call -> obj -> G -> res * obj * G),
  (forall c, frame call obj G res exec c) ->
  forall (h : list (call * obj)) c o g0,
    fst (fst (exec c o (run_history call obj G res exec h g0))) = fst (fst (exec c o g0)) /\
    snd (fst (exec c o (run_history call obj G res exec h g0))) = o.
Proof. exact history_independent. Qed.

Theorem c05_repeat_same :
  forall (call obj G res : Type) (exec : call -> obj -> G -> res * obj * G),
  (forall c, frame call obj G res exec c) -> forall c o g0 n,
    fst (fst (exec c o (run_history call obj G res exec (repeat (c, o) n) g0))) = fst (fst (exec c o g0)).
Proof. exact repeat_same. Qed.

Print Assumptions c05_history_independent.
Print Assumptions c05_repeat_same.
