(* C05 - linting is deterministic, history-independent, read-only and I/O-free.  Statements only
   (proofs: Framework/State.v).  In the model a lint call is a function, so determinism is immediate; the content
   is the frame condition, which is what the regenerated static facts and the differential harness establish
   about the code. *)
From ZL Require Import Framework.State Kernels.KuEku Kernels.Tld Kernels.Calendar Kernels.CalendarFacts Kernels.Dsa Kernels.Validity.
From Coq Require Import List ZArith Sorting.Permutation.
Import ListNotations.
Open Scope Z_scope.

Theorem c05_history_independent :
  forall (call obj G res : Type) (exec : call -> obj -> G -> res * obj * G),
  (forall c, frame call obj G res exec c) ->
  forall (h : list (call * obj)) c o g0,
    fst (fst (exec c o (run_history call obj G res exec h g0))) = fst (fst (exec c o g0)) /\
    snd (fst (exec c o (run_history call obj G res exec h g0))) = o.
Proof. exact history_independent. Qed.

Theorem c05_repeat_same :
  forall (call obj G res : Type) (exec : call -> obj -> G -> res * obj * G),
  (forall c, frame call obj G res exec c) -> forall c o g0 n,
    fst (fst (exec c o (run_history call obj G res exec (repeat (c, o) n) g0))) = fst (fst (exec c o g0)).
Proof. exact repeat_same. Qed.

(* e_key_usage_and_extended_key_usage_inconsistent (the lint whose status and details were random before the repairs
   1500fbd / 5dcbabd), modelled in full in Kernels/KuEku.v as a function of (table, extended key usages, key usage).
   Its set of authorised combinations - hence its verdict - does not depend on the order in which Go's map iteration
   delivers the combinations of a table entry ... *)
Theorem c05_ku_eku_table_order : forall t t' ekus,
  (forall e, match lookup t e, lookup t' e with Some a, Some b => seteq a b | None, None => True | _, _ => False end) ->
  forall mp mp', seteq mp mp' -> oseteq (multi t ekus mp) (multi t' ekus mp').
Proof. exact multi_table_order. Qed.

(* ... nor on the order in which the certificate lists its extended key usages *)
Theorem c05_ku_eku_order : forall t ekus ekus' ku, Permutation ekus ekus' -> ku_eku_lint t ekus ku = ku_eku_lint t ekus' ku.
Proof. exact ku_eku_lint_perm. Qed.

(* what two extended key usages authorise together: each one's combinations and every join of one from each *)
Theorem c05_ku_eku_two : forall t a b ka kb x,
  lookup t a = Some ka -> lookup t b = Some kb ->
  exists mp, multi t [a; b] [] = Some mp /\
    (In x mp <-> In x ka \/ In x kb \/ exists m k, In m ka /\ In k kb /\ x = Z.lor m k).
Proof. exact multi_two. Qed.

(* e_crl_next_update_invalid with its calendar arithmetic (time.AddDate) modelled in Kernels/Calendar.v: the verdict is
   a function of the two instants the list carries - no zone, locale or clock is among the arguments - and the limits
   are exactly these: subscriber lists "more than 864000 seconds", CA lists "later than the same civil date and time of
   day one year on", where civil_of_days is proved to BE the civil date of the day (a valid date that days_from_civil
   maps back to it), for every instant *)
Theorem c05_crl_subscriber_limit : forall this next, next_update_too_late true this next = true <-> next > this + 864000.
Proof. exact subscriber_rule_exact. Qed.

Theorem c05_crl_ca_limit : forall this next,
  match civil_of_days (day_of this) with
  | (y, m, d) => next_update_too_late false this next = true <-> next > instant_of (y + 1) m d (tod this)
  end.
Proof. exact ca_rule_exact. Qed.

Theorem c05_civil_date : forall z,
  match civil_of_days z with (y, m, d) => valid_date y m d /\ days_from_civil y m d = z end.
Proof. exact civil_date. Qed.

(* read-only linting, for the lint where it was seeded broken (round 10): the subgroup lint may reduce Y modulo P for
   its own purposes - its verdict depends on the residue only - but the neighbouring representation lint is about Y
   itself, so reducing Y IN the key changes that lint's verdict on some well-formed key *)
Theorem c05_dsa_subgroup_residue : forall k, well_formed k ->
  l_subgroup (mkDsa (dP k) (dQ k) (dG k) (dY k mod dP k)) = l_subgroup k.
Proof. exact subgroup_residue. Qed.

Theorem c05_dsa_write_would_show : exists k, well_formed k /\
  l_unique_rep k = 6 /\ l_unique_rep (mkDsa (dP k) (dQ k) (dG k) (dY k mod dP k)) = 3.
Proof. exact reduce_changes_neighbour. Qed.

(* the six validity-period lints (Kernels/Validity.v) are functions of the two instants; their limits, for every
   certificate: 825 days is 825 * 86400 seconds; m months is the same day of the month and time of day m months on (the
   day counted on where the month is shorter); 398 days (inclusive period) implies the 397-day warning *)
Theorem c05_validity_825_days : forall nb na, l_825_days nb na = 6 <-> na > nb + 825 * 86400.
Proof. exact l_825_exact. Qed.

Theorem c05_validity_months : forall m nb na,
  match civil_of_days (day_of nb) with
  | (y, mo, d) => l_months m nb na = 6 <-> na > instant_of (y + (mo - 1 + m) / 12) ((mo - 1 + m) mod 12 + 1) d (tod nb)
  end.
Proof. exact l_months_exact. Qed.

Theorem c05_validity_398_397 : forall nb na, l_398 nb na = 6 -> l_397 nb na = 5.
Proof. exact error_398_implies_warn_397. Qed.

Print Assumptions c05_history_independent.
Print Assumptions c05_crl_subscriber_limit.
Print Assumptions c05_crl_ca_limit.
Print Assumptions c05_civil_date.
Print Assumptions c05_repeat_same.
Print Assumptions c05_ku_eku_table_order.
Print Assumptions c05_ku_eku_order.
Print Assumptions c05_ku_eku_two.
Print Assumptions c05_dsa_subgroup_residue.
Print Assumptions c05_dsa_write_would_show.
Print Assumptions c05_validity_825_days.
Print Assumptions c05_validity_months.
Print Assumptions c05_validity_398_397.
