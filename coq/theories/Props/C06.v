(* C06 - severity matches the lint's name.  Statements only (proofs: Framework/SeverityFacts.v). *)
From ZL Require Import Base.Bytes Framework.Core Framework.LifecycleFacts Framework.DataChecks Framework.SeverityFacts.
Open Scope Z_scope.

(* what each prefix permits *)
Theorem c06_allowed_def : forall name s,
  allowed name s =
  match name with
  | c :: u :: _ =>
    ((u =? 95)%N &&
     (if (c =? 101)%N then negb ((s =? Warn) || (s =? Notice))
      else if (c =? 119)%N then negb ((s =? Error) || (s =? Notice))
      else if (c =? 110)%N then negb ((s =? Warn) || (s =? Error)) else false))%bool
  | _ => false
  end.
Proof. reflexivity. Qed.

(* the framework only adds NA, NE and fatal, which every prefixed name permits (as is pass) *)
Theorem c06_framework : forall name,
  prefix_ok name = true -> allowed name NA = true /\ allowed name NE = true /\ allowed name Fatal = true /\ allowed name Pass = true.
Proof. exact allowed_framework. Qed.

(* if the statuses a body can return are all permitted by its name, no result of that lint ever violates the contract *)
Theorem c06_meta :
  forall (obj inst cfg : Type) (sa em cs : obj -> bool) (date_of : kind -> obj -> Z)
         k (l : lint obj inst cfg) c o r (may : list Z),
  prefix_ok (m_name (l_meta l)) = true ->
  (forall i r', b_exec (l_body l) i o = Ret (Some r') -> In (r_status r') may) ->
  (forall s, In s may -> allowed (m_name (l_meta l)) s = true) ->
  fst (run obj inst cfg sa em cs date_of k l c o) = Ret (Some r) -> allowed (m_name (l_meta l)) (r_status r) = true.
Proof. exact severity_meta. Qed.

(* meaning of the static obligation over the regenerated facts *)
Theorem c06_static : forall facts known name sts s,
  static_ok facts known = true -> In (name, sts) facts -> In s sts ->
  allowed name s = true \/ in_known (name, s) known = true.
Proof. exact static_ok_spec. Qed.

Print Assumptions c06_framework.
Print Assumptions c06_meta.
Print Assumptions c06_static.
