(* C07 - a lint's verdict does not depend on which other lints run.  Statements only. *)
From ZL Require Import Base.Bytes Framework.Core Framework.Registry Framework.RegistryFacts Framework.LifecycleFacts
     Framework.FilterFacts Framework.IndependenceFacts.
Open Scope Z_scope.

Section C07.
  Variables obj inst cfg : Type.
  Variables sa em cs : obj -> bool.
  Variable date_of : kind -> obj -> Z.
  Notation names_of ls := (map (fun l : lint obj inst cfg => m_name (l_meta l)) ls).

  (* any sub-selection of lints, run in any order: same entry for every selected lint, nothing for the others,
     and every flag of the partial run is also raised by the full run *)
  Theorem c07_sublist_independent : forall k ls ls' c o rs,
    NoDup (names_of ls) -> NoDup (names_of ls') -> (forall l, In l ls' -> In l ls) ->
    lint_all obj inst cfg sa em cs date_of k ls c o = Ret rs ->
    exists rs', lint_all obj inst cfg sa em cs date_of k ls' c o = Ret rs' /\
      (forall n v, In (n, v) (rs_results rs') <-> In (n, v) (rs_results rs) /\ In n (names_of ls')) /\
      (rs_notices rs' = true -> rs_notices rs = true) /\ (rs_warnings rs' = true -> rs_warnings rs = true) /\
      (rs_errors rs' = true -> rs_errors rs = true) /\ (rs_fatals rs' = true -> rs_fatals rs = true).
  Proof. exact (sublist_independent obj inst cfg sa em cs date_of). Qed.

  (* for registries obtained by Filter *)
  Theorem c07_filter_independent : forall (r r' : registry obj inst cfg) fo k o rs,
    RInv obj inst cfg r -> GlobalNoDup obj inst cfg r -> filter_registry obj inst cfg r fo = inl (Some r') ->
    lint_all obj inst cfg sa em cs date_of k (lints_of obj inst cfg k r) (rg_cfg r) o = Ret rs ->
    exists rs', lint_all obj inst cfg sa em cs date_of k (lints_of obj inst cfg k r') (rg_cfg r') o = Ret rs' /\
      (forall n v, In (n, v) (rs_results rs') <->
                   In (n, v) (rs_results rs) /\ exists l, In l (lints_of obj inst cfg k r) /\ selected obj inst cfg fo l = true /\ name_of l = n) /\
      (rs_notices rs' = true -> rs_notices rs = true) /\ (rs_warnings rs' = true -> rs_warnings rs = true) /\
      (rs_errors rs' = true -> rs_errors rs = true) /\ (rs_fatals rs' = true -> rs_fatals rs = true).
  Proof. exact (filter_independent obj inst cfg sa em cs date_of). Qed.
End C07.

Print Assumptions c07_sublist_independent.
Print Assumptions c07_filter_independent.
