(* C08 - filtering selects exactly the documented set.  Statements only. *)
From ZL Require Import Base.Bytes Base.Sort Framework.Core Framework.Registry Framework.RegistryFacts Framework.FilterFacts.
From Coq Require Import Sorting.Sorted.

Section C08.
  Variables obj inst cfg : Type.
  Notation registry := (registry obj inst cfg).

  (* the documented selection: five clauses, names compared after trimming *)
  Theorem c08_selected_def : forall (o : filter_opts) (l : lint obj inst cfg),
    selected obj inst cfg o l =
    (negb (mem (src_of l) (fo_exclude_sources o)) &&
     (match fo_include_sources o with [] => true | s => mem (src_of l) s end) &&
     (match fo_name_filter o with Some f => f (name_of l) | None => true end) &&
     negb (mem (name_of l) (map trim (fo_exclude_names o))) &&
     (match fo_include_names o with [] => true | ns => mem (name_of l) (map trim ns) end))%bool.
  Proof. reflexivity. Qed.

  (* a successful filter yields precisely the selected lints of each kind (the same lint values: kind and
     metadata kept), in sorted order, inherits the configuration, and is again a well-formed registry *)
  Theorem c08_exact : forall (r r' : registry) o,
    RInv obj inst cfg r -> GlobalNoDup obj inst cfg r -> filter_registry obj inst cfg r o = inl (Some r') ->
    RInv obj inst cfg r' /\ rg_cfg r' = rg_cfg r /\
    (forall k l, In l (lints_of obj inst cfg k r') <-> In l (lints_of obj inst cfg k r) /\ selected obj inst cfg o l = true) /\
    (forall k, StronglySorted ble (map name_of (lints_of obj inst cfg k r'))).
  Proof. exact (filter_exact obj inst cfg). Qed.

  (* empty options: the registry itself; unknown (trimmed) name in the exclude list, then in the include list:
     error naming it; a name pattern together with a name list: error; otherwise a registry is returned.
     The source registry is a value here: it cannot change (c08_source_unchanged is the correspondence's job). *)
  Theorem c08_outcome : forall (r : registry) o,
    RInv obj inst cfg r -> GlobalNoDup obj inst cfg r ->
    if opts_empty o then filter_registry obj inst cfg r o = inl None
    else match names_to_map obj inst cfg r (fo_exclude_names o) with
         | inr n => filter_registry obj inst cfg r o = inr (FUnknownName n)
         | inl _ =>
           match names_to_map obj inst cfg r (fo_include_names o) with
           | inr n => filter_registry obj inst cfg r o = inr (FUnknownName n)
           | inl _ =>
             match fo_name_filter o, fo_exclude_names o, fo_include_names o with
             | Some _, _ :: _, _ | Some _, _, _ :: _ => filter_registry obj inst cfg r o = inr FExclusive
             | _, _, _ => exists r', filter_registry obj inst cfg r o = inl (Some r')
             end
           end
         end.
  Proof. exact (filter_outcome obj inst cfg). Qed.

  (* name-list validation fails exactly at the first name that is unknown after trimming *)
  Theorem c08_first_unknown : forall (r : registry) ns acc b,
    names_to_map_aux obj inst cfg r ns acc = inr b ->
    exists pre n post, ns = (pre ++ n :: post)%list /\ b = trim n /\ known_name obj inst cfg r (trim n) = false /\
                       forall p, In p pre -> known_name obj inst cfg r (trim p) = true.
  Proof. exact (names_to_map_aux_err obj inst cfg). Qed.
End C08.

Print Assumptions c08_exact.
Print Assumptions c08_outcome.
Print Assumptions c08_first_unknown.
