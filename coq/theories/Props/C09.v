(* C09 - verdicts do not depend on the signature value.  Statements only (proofs: Framework/SigFacts.v). *)
From ZL Require Import Base.Bytes Framework.Core Framework.SigFacts.
Open Scope Z_scope.

(* for a certificate that is not self-issued, replacing the signature by any value of the same length changes no
   result - status, details, flags - provided every body (and the framework's scope/date reads) factors through the
   signature-erased view (content, signature length, SelfSigned) *)
Theorem c09_meta :
  forall (tbs : Type) (self_issued : tbs -> bool) (verifies : tbs -> bytes -> bool) (inst cfg : Type)
         (sa em cs : pcert tbs -> bool) (date_of : kind -> pcert tbs -> Z)
         (ls : list (lint (pcert tbs) inst cfg)) c0 t sg sg',
  framework_blind tbs sa em cs date_of -> (forall l, In l ls -> sig_blind tbs inst cfg l) ->
  self_issued t = false -> length sg = length sg' ->
  lint_all (pcert tbs) inst cfg sa em cs date_of KCert ls c0 (parse tbs self_issued verifies t sg) =
  lint_all (pcert tbs) inst cfg sa em cs date_of KCert ls c0 (parse tbs self_issued verifies t sg').
Proof. exact signature_independent. Qed.

(* the parser's rule: only for self-issued certificates can the parsed view depend on the signature bits *)
Theorem c09_parser_side :
  forall (tbs : Type) (self_issued : tbs -> bool) (verifies : tbs -> bytes -> bool) t sg sg',
  self_issued t = false -> length sg = length sg' ->
  erased tbs (parse tbs self_issued verifies t sg) = erased tbs (parse tbs self_issued verifies t sg').
Proof. exact not_self_issued_erased. Qed.

Theorem c09_precondition_needed :
  forall (tbs : Type) (self_issued : tbs -> bool) (verifies : tbs -> bytes -> bool) t sg sg',
  self_issued t = true -> verifies t sg = true -> verifies t sg' = false ->
  c_self_signed tbs (parse tbs self_issued verifies t sg) <> c_self_signed tbs (parse tbs self_issued verifies t sg').
Proof. exact self_issued_flag_depends. Qed.

Print Assumptions c09_meta.
Print Assumptions c09_parser_side.
Print Assumptions c09_precondition_needed.
