(* C10 - concurrent linting is safe and equals sequential linting.  Statements only (proofs: Framework/Conc.v).
   What the model can carry: schedule independence of threads whose steps never write the shared store, and
   freedom from blocking of a readers-writer lock used in read mode only.  The Go memory model and the runtime's
   scheduler are outside the model; the race detector explores them. *)
From ZL Require Import Framework.Conc.
From Coq Require Import List Bool.

Theorem c10_schedule_independent :
  forall (S P : Type) sched (s : S) (ts : list (tstate S P)),
  all_read_only S P ts ->
  fst (run_sched S P sched s ts) = s /\ final_alone S P s (snd (run_sched S P sched s ts)) = final_alone S P s ts.
Proof. exact schedule_independent. Qed.

Theorem c10_concurrent_equals_sequential :
  forall (S P : Type) sched (s : S) (ts : list (tstate S P)),
  all_read_only S P ts -> finished S P (snd (run_sched S P sched s ts)) ->
  map fst (snd (run_sched S P sched s ts)) = final_alone S P s ts.
Proof. exact concurrent_equals_sequential. Qed.

Theorem c10_no_deadlock : forall ops,
  forallb read_mode ops = true ->
  forall o, read_mode o = true -> enabled o (fold_left (fun l o => lock_step o l) ops (mkLock false 0)) = true.
Proof. exact read_mode_never_blocks. Qed.

Print Assumptions c10_schedule_independent.
Print Assumptions c10_concurrent_equals_sequential.
Print Assumptions c10_no_deadlock.
