(* C11 - configuration changes only what it names, and errors stay local.  Statements only (proofs: Framework/Config.v). *)
From ZL Require Import Base.Bytes Framework.Core Framework.LifecycleFacts Framework.Config Framework.Registry Framework.FilterFacts Framework.RegistryFacts.
Open Scope Z_scope.

Section C11.
  Variables obj inst tbl : Type.
  Variables sa em cs : obj -> bool.
  Variable date_of : kind -> obj -> Z.
  Variable not_table : outcome (inst + bytes).
  Notation crun := (crun obj inst tbl sa em cs date_of not_table).
  Notation clint := (clint obj inst tbl).
  Notation doc := (doc tbl).

  (* two documents that agree on the lint's own section are indistinguishable to it *)
  Theorem c11_unrelated : forall k (l : clint) (c c' : doc) o,
    get tbl c (m_name (cl_meta _ _ _ l)) = get tbl c' (m_name (cl_meta _ _ _ l)) -> crun k l c o = crun k l c' o.
  Proof. exact (agree_same_run obj inst tbl sa em cs date_of not_table). Qed.

  (* no configuration, an empty one, or one with only other sections: identical behaviour *)
  Theorem c11_no_section : forall k (l : clint) (c : doc) o,
    get tbl c (m_name (cl_meta _ _ _ l)) = None -> crun k l c o = crun k l [] o.
  Proof. exact (unrelated_same_run obj inst tbl sa em cs date_of not_table). Qed.

  (* setting section a changes nothing for any lint not named a *)
  Theorem c11_local : forall k (l : clint) (c : doc) a nd o,
    m_name (cl_meta _ _ _ l) <> a -> crun k l (set_section tbl c a nd) o = crun k l c o.
  Proof. exact (change_is_local obj inst tbl sa em cs date_of not_table). Qed.

  (* a section that cannot be applied (decoder error, or not a table when that is an error): exactly this lint
     reports fatal with the configuration-error message *)
  Theorem c11_error_local : forall k (l : clint) (c : doc) o u i e,
    cl_unm _ _ _ l = Some u -> cl_new _ _ _ l = Ret i ->
    (k = KCert -> in_scope obj sa em cs (m_src (cl_meta _ _ _ l)) o = true) ->
    (match get tbl c (m_name (cl_meta _ _ _ l)) with
     | Some (NTable _ t) => u t i = inr e
     | Some (NOther _) => not_table = Ret (inr e)
     | None => False end) ->
    fst (crun k l c o) = Ret (Some (mkResult Fatal (config_error_details (m_name (cl_meta _ _ _ l)) e))).
  Proof. exact (bad_section_fatal obj inst tbl sa em cs date_of not_table). Qed.

  (* provided applying a non-table is an error (the data obligation not_table_is_error), configuring never panics *)
  Theorem c11_never_panics : forall u (c : doc) ns i,
    (forall e, not_table <> Panic e) -> forall e, configure_via inst tbl not_table u c ns i <> Panic e.
  Proof. exact (configure_never_panics inst tbl not_table). Qed.
End C11.

(* configuration does not leak between registries: the filtered registry carries the configuration value it was
   created with (c08_exact), and a run reads only the configuration it is given (runs are functions) *)
Theorem c11_filter_keeps_config : forall (obj inst cfg : Type) (r r' : registry obj inst cfg) o,
  RInv obj inst cfg r -> GlobalNoDup obj inst cfg r -> filter_registry obj inst cfg r o = inl (Some r') -> rg_cfg r' = rg_cfg r.
Proof. intros obj inst cfg r r' o I G F. exact (proj1 (proj2 (filter_exact obj inst cfg r r' o I G F))). Qed.

Print Assumptions c11_unrelated.
Print Assumptions c11_no_section.
Print Assumptions c11_local.
Print Assumptions c11_error_local.
Print Assumptions c11_never_panics.
Print Assumptions c11_filter_keeps_config.
