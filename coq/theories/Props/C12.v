(* C12 - every lint is registered once, reachable and well-formed.  Statements only (general part; the
   statements about the current tree are generated data obligations, coq/gen/C12). *)
From ZL Require Import Base.Bytes Base.Sort Framework.Core Framework.Registry Framework.RegistryFacts.
From Coq Require Import Sorting.Sorted.

Section C12.
  Variables obj inst cfg : Type.
  Notation registry := (registry obj inst cfg).

  (* after any registration history (successful or failed registrations of any kind) the redundant tables
     agree: names unique per kind and non-empty, the sorted name list, lookup by name, lookup by source and the
     source set are all functions of the list of registered lints *)
  Theorem c12_register_inv : forall c ops,
    RInv obj inst cfg (fold_left (register_op obj inst cfg) ops (new_registry obj inst cfg c)).
  Proof. exact (register_history_inv obj inst cfg). Qed.

  (* what the invariant says, per kind *)
  Theorem c12_lookups_agree : forall (r : registry) k,
    RInv obj inst cfg r ->
    let t := tbl obj inst cfg k r in
    NoDup (map name_of (lk_lints t)) /\ ~ In [] (map name_of (lk_lints t)) /\
    lk_names t = isort (map name_of (lk_lints t)) /\
    (forall n, by_name obj inst cfg t n = find_name obj inst cfg n (lk_lints t)) /\
    (forall s, by_source obj inst cfg t s = with_src obj inst cfg s (lk_lints t)) /\
    (forall s, In s (lk_sources t) <-> In s (map src_of (lk_lints t))).
  Proof.
    intros r k I. destruct (tbl_inv obj inst cfg k r I) as [A B C D E F G]. repeat split; auto; apply F.
  Qed.

  (* the full listing: Names() is the sorted list of all registered names *)
  Theorem c12_names : forall r : registry,
    RInv obj inst cfg r ->
    names obj inst cfg r = isort (map name_of (listing obj inst cfg r)) /\ StronglySorted ble (names obj inst cfg r).
  Proof. intros r I. split; [apply names_listing; exact I | apply names_sorted]. Qed.

  (* failed registrations: the three documented errors *)
  Theorem c12_register_errors : forall k (r : registry) l e,
    register obj inst cfg k r l = inr e ->
    (l = None /\ e = ErrNilLint) \/ (l = Some None /\ e = ErrNilLintPtr) \/
    (exists x : lint obj inst cfg, l = Some (Some x) /\
       ((name_of x = [] /\ e = ErrEmptyName) \/
        (name_of x <> [] /\ by_name obj inst cfg (tbl obj inst cfg k r) (name_of x) <> None /\ e = ErrDuplicate (name_of x)))).
  Proof. exact (register_errors obj inst cfg). Qed.
End C12.

Print Assumptions c12_register_inv.
Print Assumptions c12_lookups_agree.
Print Assumptions c12_names.
Print Assumptions c12_register_errors.
