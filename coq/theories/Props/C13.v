(* C13 - whatever the tool lists can be used to select.  Statements only; proofs live in
   Kernels/SourceParse.v and Framework/RegistryFacts.v. *)
From ZL Require Import Base.Bytes Base.Sort Framework.Core Framework.Registry Framework.RegistryFacts Kernels.SourceParse.

(* the source-list parser accepts a raw list iff every non-blank trimmed element is accepted,
   and then returns exactly those elements in order *)
Theorem c13_list_parse : forall acc raw l,
  parse_sources acc raw = POk l <->
  (forall e, In e (elements raw) -> mem (trim e) acc = true) /\ l = map trim (elements raw).
Proof. exact parse_sources_ok. Qed.

(* an unaccepted element is an error, never silently dropped *)
Theorem c13_unknown_source_rejected : forall acc raw,
  (exists e, In e (elements raw) /\ mem (trim e) acc = false) <-> exists bad, parse_sources acc raw = PErr bad.
Proof. exact parse_sources_err. Qed.

(* data obligation -> every listed source is accepted on its own *)
Theorem c13_listed_sources : forall acc listed,
  forallb (listed_ok acc) listed = true -> forall s, In s listed -> parse_sources acc s = POk [s].
Proof. exact listed_all_accepted. Qed.

(* every listed name is accepted by name-list validation (for any registry reachable by registration) *)
Theorem c13_names : forall (obj inst cfg : Type) (r : registry obj inst cfg) n,
  RInv obj inst cfg r -> In n (names obj inst cfg r) -> trim n = n ->
  names_to_map obj inst cfg r [n] = inl (Some [n]).
Proof. exact listed_name_accepted. Qed.

(* an unknown name anywhere in a name list is an error *)
Theorem c13_unknown_name_rejected : forall (obj inst cfg : Type) (r : registry obj inst cfg) pre n post,
  RInv obj inst cfg r -> ~ In (trim n) (names obj inst cfg r) ->
  exists bad, names_to_map obj inst cfg r (pre ++ n :: post) = inr bad.
Proof. exact unknown_name_rejected. Qed.

(* non-vacuity: a concrete accepted table and list *)
Example c13_example :
  parse_sources [s2b "RFC5280"; s2b "CABF_BR"] (s2b " RFC5280 ,,CABF_BR") = POk [s2b "RFC5280"; s2b "CABF_BR"] /\
  parse_sources [s2b "RFC5280"; s2b "CABF_BR"] (s2b "RFC5280,rfc5280") = PErr (s2b "rfc5280").
Proof. split; vm_compute; reflexivity. Qed.

Print Assumptions c13_list_parse.
Print Assumptions c13_unknown_source_rejected.
Print Assumptions c13_listed_sources.
Print Assumptions c13_names.
Print Assumptions c13_unknown_name_rejected.
