(* C14 - JSON output is faithful and reversible.  Statements only. *)
From ZL Require Import Base.Bytes Framework.Core Framework.Registry Kernels.StatusJson Kernels.Utf8.
Open Scope Z_scope.

(* each defined status (and the reserved one) has its own label *)
Theorem c14_labels_distinct : forall s s',
  in_range s = true -> in_range s' = true -> label s = label s' -> s = s'.
Proof. exact labels_distinct. Qed.

(* encoding then decoding a status gives it back *)
Theorem c14_label_roundtrip : forall s, in_range s = true -> parse_label (marshal_status s) = Some s.
Proof. exact label_roundtrip. Qed.

(* anything that decodes is (up to the quote characters the decoder drops) a status label: unknown labels are rejected *)
Theorem c14_unknown_rejected : forall raw s,
  parse_label raw = Some s -> in_range s = true /\ strip_quotes raw = label s.
Proof. exact parse_label_sound. Qed.

(* out-of-range values have the empty label, which does not decode *)
Theorem c14_out_of_range : forall s, in_range s = false -> label s = [] /\ parse_label (marshal_status s) = None.
Proof. exact out_of_range_label. Qed.

(* a result survives the round trip with its status, and its details through the string codec *)
Theorem c14_result_roundtrip : forall (codec : bytes -> bytes), codec [] = [] -> forall r,
  in_range (r_status r) = true ->
  decode_result codec (encode_result r) = Some (mkResult (r_status r) (codec (r_details r))).
Proof. exact result_roundtrip. Qed.

(* the string codec of encoding/json (validated by correspondence): invalid bytes become U+FFFD, valid text is
   unchanged, and a second round trip changes nothing *)
Theorem c14_sanitize_valid : forall s, valid (sanitize s).
Proof. exact sanitize_valid. Qed.
Theorem c14_sanitize_id : forall s, valid s -> sanitize s = s.
Proof. exact sanitize_id_on_valid. Qed.
Theorem c14_sanitize_idempotent : forall s, sanitize (sanitize s) = sanitize s.
Proof. exact sanitize_idempotent. Qed.

(* the JSON listing has one line per registered lint: certificate, then OCSP, then CRL lints *)
Theorem c14_listing : forall (obj inst cfg : Type) (r : registry obj inst cfg),
  length (listing obj inst cfg r) =
  (length (lints_of obj inst cfg KCert r) + length (lints_of obj inst cfg KOcsp r) + length (lints_of obj inst cfg KCrl r))%nat.
Proof. intros. unfold listing, lints_of. simpl. rewrite !app_length. apply PeanoNat.Nat.add_assoc. Qed.

Example c14_example :
  sanitize [97; 255; 195; 169; 192; 128]%N = [97; 239; 191; 189; 195; 169; 239; 191; 189; 239; 191; 189]%N /\
  parse_label (s2b """pass""") = Some 3 /\ parse_label (s2b """PASS""") = None.
Proof. vm_compute. repeat split. Qed.

Print Assumptions c14_labels_distinct.
Print Assumptions c14_label_roundtrip.
Print Assumptions c14_unknown_rejected.
Print Assumptions c14_out_of_range.
Print Assumptions c14_result_roundtrip.
Print Assumptions c14_sanitize_valid.
Print Assumptions c14_sanitize_id.
Print Assumptions c14_sanitize_idempotent.
Print Assumptions c14_listing.
