(* C15 - the CLI reports what the library computes and fails closed.  Statements only (proofs: Kernels/Cli.v, Base64.v). *)
From ZL Require Import Base.Bytes Kernels.StatusJson Kernels.Cli Kernels.Base64.
From Coq Require Import NArith ZArith List.
Open Scope Z_scope.

Section C15.
  Variables cert crl results : Type.
  Variable pem_decode : Bytes.bytes -> option (Bytes.bytes * Bytes.bytes).
  Variable b64_decode : Bytes.bytes -> option Bytes.bytes.
  Variable parse_cert : Bytes.bytes -> option cert.
  Variable parse_crl : Bytes.bytes -> option crl.
  Variable lint_cert : cert -> results.
  Variable lint_crl : crl -> results.
  Variable marshal : results -> Bytes.bytes.
  Notation do_lint := (do_lint cert crl results pem_decode b64_decode parse_cert parse_crl lint_cert lint_crl marshal).
  Notation run_inputs := (run_inputs cert crl results pem_decode b64_decode parse_cert parse_crl lint_cert lint_crl marshal).

  (* whatever is printed for an input is the library's result set for the parsed object, marshalled, plus a newline *)
  Theorem c15_same_as_library : forall f input out,
    do_lint f input = inl out ->
    (exists c, out = (marshal (lint_cert c) ++ [10%N])%list) \/ (exists r, out = (marshal (lint_crl r) ++ [10%N])%list).
  Proof. exact (same_as_library cert crl results pem_decode b64_decode parse_cert parse_crl lint_cert lint_crl marshal). Qed.

  (* PEM, DER and base64 renderings of one certificate give one output *)
  Theorem c15_format_independent : forall der pem b64,
    pem_decode pem = Some (s2b "CERTIFICATE", der) -> b64_decode b64 = Some der ->
    do_lint FPem pem = do_lint FDer der /\ do_lint FBase64 b64 = do_lint FDer der.
  Proof. exact (format_independent cert crl results pem_decode b64_decode parse_cert parse_crl lint_cert lint_crl marshal). Qed.

  (* undecodable / unparseable input, unknown format: a failure, nothing printed for that input *)
  Theorem c15_fail_closed : forall f input,
    (match f with
     | FPem => match pem_decode input with Some (ty, der) => beqb ty (s2b "CERTIFICATE") = true /\ parse_cert der = None | None => True end
     | FDer => parse_cert input = None
     | FBase64 => match b64_decode input with Some der => parse_cert der = None | None => True end
     | FUnknown => True end) ->
    exists e, do_lint f input = inr e.
  Proof. exact (fail_closed_cert cert crl results pem_decode b64_decode parse_cert parse_crl lint_cert lint_crl marshal). Qed.

  (* exit status 0 iff every input was linted, and then there is exactly one output per input, in order *)
  Theorem c15_exit_status : forall ins outs,
    run_inputs ins = (outs, 0) <-> (length outs = length ins /\ Forall2 (fun i o => do_lint (fst i) (snd i) = inl o) ins outs).
  Proof. exact (run_inputs_exit cert crl results pem_decode b64_decode parse_cert parse_crl lint_cert lint_crl marshal). Qed.
End C15.

Theorem c15_summary : forall sts,
  summary_rows sts = [(s2b "info", count_status 4 sts); (s2b "warn", count_status 5 sts);
                      (s2b "error", count_status 6 sts); (s2b "fatal", count_status 7 sts)].
Proof. exact summary_counts. Qed.

(* the base64 leg of format independence is a theorem, with or without line wrapping *)
Theorem c15_base64_roundtrip : forall bs, is_bytes bs -> Base64.b64_decode (b64_encode bs) = Some bs.
Proof. exact b64_roundtrip. Qed.
Theorem c15_base64_roundtrip_wrapped : forall bs, is_bytes bs -> Base64.b64_decode (wrap64 (b64_encode bs)) = Some bs.
Proof. exact b64_roundtrip_wrapped. Qed.

Print Assumptions c15_same_as_library.
Print Assumptions c15_format_independent.
Print Assumptions c15_fail_closed.
Print Assumptions c15_exit_status.
Print Assumptions c15_summary.
Print Assumptions c15_base64_roundtrip.
Print Assumptions c15_base64_roundtrip_wrapped.
