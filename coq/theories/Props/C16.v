(* C16 - RSA key-quality verdicts are arithmetically exact.  Statements only (proofs: Kernels/Rsa.v). *)
From ZL Require Import Kernels.Rsa.
From Coq Require Import ZArith List Znumtheory.
Open Scope Z_scope.

(* "modulus shorter than the stated minimum": for the 1024, 2048 and 3072 bit lints (minbits) *)
Theorem c16_mod_min : forall minbits n, 0 < n -> 0 < minbits ->
  (lint_mod_min minbits n = sError <-> n < 2 ^ (minbits - 1)).
Proof. exact lint_mod_min_iff. Qed.

Theorem c16_bitlen : forall n k, 0 < n -> 0 < k -> (bitlen n < k <-> n < 2 ^ (k - 1)).
Proof. exact bitlen_lt_pow2. Qed.

Theorem c16_mod_div8 : forall n, lint_mod_div8 n = sError <-> bitlen n mod 8 <> 0.
Proof. exact lint_mod_div8_iff. Qed.

Theorem c16_mod_odd : forall n, lint_mod_odd n = sWarn <-> Z.even n = true.
Proof. exact lint_mod_odd_iff. Qed.

(* "a factor below 752", given the data obligation on the regenerated prime table *)
Theorem c16_mod_factors : forall primes, primes_complete primes = true ->
  forall n, lint_mod_factors primes n = sWarn <-> exists d, 2 <= d < 752 /\ (d | n).
Proof. exact lint_mod_factors_iff. Qed.

Theorem c16_exp_odd : forall e, 0 <= e -> (lint_exp_odd e = sError <-> Z.even e = true).
Proof. exact lint_exp_odd_iff. Qed.

Theorem c16_exp_too_small : forall e, lint_exp_too_small e = sError <-> e < 3.
Proof. exact lint_exp_too_small_iff. Qed.

Theorem c16_exp_one : forall e, lint_exp_one e = sError <-> e = 1.
Proof. exact lint_exp_one_iff. Qed.

Theorem c16_exp_range : forall e, e < 2 ^ 63 -> (lint_exp_range e = sWarn <-> e < 65537).
Proof. exact lint_exp_range_iff. Qed.

(* Fermat: whatever is reported multiplies back; close factors are found; non-positive rounds never report *)
Theorem c16_fermat_sound : forall n rounds p q, 0 < n -> fermat n rounds = Some (p, q) -> p * q = n.
Proof. exact fermat_sound. Qed.

Theorem c16_fermat_complete : forall n rounds p q,
  n = p * q -> 0 < q -> q < p -> Z.even (p + q) = true -> (p + q) / 2 - (Z.sqrt n + 1) < rounds ->
  fermat n rounds <> None.
Proof. exact fermat_complete. Qed.

Theorem c16_fermat_no_rounds : forall n rounds, rounds <= 0 -> fermat n rounds = None.
Proof. exact fermat_no_rounds. Qed.

Example c16_example :
  lint_mod_min 2048 (2 ^ 2047 - 1) = sError /\ lint_mod_min 2048 (2 ^ 2047) = sPass /\
  fermat (101 * 103) 1 = Some (103, 101) /\ fermat (3 * 1000003) 100 = None.
Proof. vm_compute. repeat split. Qed.

Print Assumptions c16_mod_min.
Print Assumptions c16_bitlen.
Print Assumptions c16_mod_div8.
Print Assumptions c16_mod_odd.
Print Assumptions c16_mod_factors.
Print Assumptions c16_exp_odd.
Print Assumptions c16_exp_too_small.
Print Assumptions c16_exp_one.
Print Assumptions c16_exp_range.
Print Assumptions c16_fermat_sound.
Print Assumptions c16_fermat_complete.
Print Assumptions c16_fermat_no_rounds.
