(* C17 - verdicts do not depend on the order of SAN entries or of extensions.  Statements only (proofs: Kernels/Order.v). *)
From ZL Require Import Base.Bytes Kernels.Order.
From Coq Require Import Sorting.Permutation ZArith List.
Open Scope Z_scope.

(* a rule "finding if any name offends" judges names as a set *)
Theorem c17_first_offender_perm : forall (A : Type) (bad : A -> bool) xs ys,
  Permutation xs ys -> existsb bad xs = existsb bad ys.
Proof. exact @existsb_perm. Qed.

(* the three-way evaluation (finding, else NA if a name is unparseable, else pass) of the seven label lints *)
Theorem c17_label_lints_perm : forall finding offends cn xs ys,
  Permutation xs ys -> lint_br finding offends cn xs = lint_br finding offends cn ys /\ lint_rfc finding offends xs = lint_rfc finding offends ys.
Proof. intros. split; [apply lint_br_perm | apply lint_rfc_perm]; assumption. Qed.

(* the evaluation they used before the repair (stop at the first unparseable name) is order dependent *)
Theorem c17_na_first_refuted :
  exists xs ys, Permutation xs ys /\ na_first 6 hyphen_sld xs <> na_first 6 hyphen_sld ys.
Proof. exact na_first_refuted. Qed.

(* lookup of an extension by OID does not depend on the order of a duplicate-free extension list *)
Theorem c17_find_ext_perm : forall (V : Type) o (es es' : list (list Z * V)),
  NoDup (map fst es) -> Permutation es es' -> find_ext o es = find_ext o es'.
Proof. exact @find_ext_perm. Qed.

Print Assumptions c17_first_offender_perm.
Print Assumptions c17_label_lints_perm.
Print Assumptions c17_na_first_refuted.
Print Assumptions c17_find_ext_perm.
