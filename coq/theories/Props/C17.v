(* C17 - verdicts do not depend on the order of SAN entries or of extensions.  Statements only (proofs: Kernels/Order.v). *)
From ZL Require Import Base.Bytes Kernels.Order Kernels.Names Kernels.NamesFacts Kernels.GeneralNames Kernels.GeneralNamesFacts Kernels.CnSan Kernels.SubjLen Kernels.Arpa Kernels.Tor Kernels.TorFacts Kernels.Der Kernels.DerFacts Kernels.Urls Kernels.UrlsFacts Kernels.SubjPresence Kernels.NcForm Kernels.Policies Kernels.EvPresence Kernels.CaSubject.
From Coq Require Import Sorting.Permutation ZArith List.
Open Scope Z_scope.

(* a rule "finding if any name offends" judges names as a set *)
Theorem c17_first_offender_perm : forall (A : Type) (bad : A -> bool) xs ys,
  Permutation xs ys -> existsb bad xs = existsb bad ys.
Proof. exact @existsb_perm. Qed.

(* the three-way evaluation (finding, else NA if a name is unparseable, else pass) of the seven label lints *)
Theorem c17_label_lints_perm : forall finding offends cn xs ys,
  Permutation xs ys -> lint_br finding offends cn xs = lint_br finding offends cn ys /\ lint_rfc finding offends xs = lint_rfc finding offends ys.
Proof. intros. split; [apply lint_br_perm | apply lint_rfc_perm]; assumption. Qed.

(* the evaluation they used before the repair (stop at the first unparseable name) is order dependent *)
Theorem c17_na_first_refuted :
  exists xs ys, Permutation xs ys /\ na_first 6 hyphen_sld xs <> na_first 6 hyphen_sld ys.
Proof. exact na_first_refuted. Qed.

(* lookup of an extension by OID does not depend on the order of a duplicate-free extension list *)
Theorem c17_find_ext_perm : forall (V : Type) o (es es' : list (list Z * V)),
  NoDup (map fst es) -> Permutation es es' -> find_ext o es = find_ext o es'.
Proof. exact @find_ext_perm. Qed.

(* fourteen lints that scan the common name and the SAN dNSNames, modelled in full (Kernels/Names.v): all fourteen
   verdicts are unchanged by every permutation of the SAN dNSNames, whatever the common name and the scope flags *)
Theorem c17_name_lints_perm : forall v d', Permutation (nv_dns v) d' -> all_name_lints (with_dns v d') = all_name_lints v.
Proof. exact name_lints_perm. Qed.

Theorem c17_name_lints_range : forall v s, In s (all_name_lints v) -> s = 1 \/ s = 3 \/ s = 4 \/ s = 6.
Proof. exact name_lints_range. Qed.

(* and the BR / RFC twins among them agree when the common name adds no name (C20's concern, same model) *)
Theorem c17_name_twins_agree : forall v,
  nv_tls v = true -> (forall n, In n (cn_if_name v) -> In n (nv_dns v)) ->
  l_label_too_long v = l_rfc_label_too_long v /\ l_empty_label v = l_rfc_empty_label v.
Proof. exact twins_agree. Qed.

(* seventeen more general-name lints (presence of each name type, emptiness, criticality, the issuerAltName copies of
   the community rules), modelled in full in Kernels/GeneralNames.v: no verdict depends on the order of the names *)
Theorem c17_gn_lints_perm : forall v d', Permutation (gv_ian_dns v) d' -> all_gn_lints (with_ian_dns v d') = all_gn_lints v.
Proof. exact gn_lints_perm. Qed.

(* ... and the six raw-GeneralNames walkers: the verdict depends on the members as a set *)
Theorem c17_raw_lints_perm : forall v san' ian', Permutation (rv_san v) san' -> Permutation (rv_ian v) ian' ->
  all_raw_lints (mkRview (rv_san_ext v) san' (rv_ian_ext v) ian') = all_raw_lints v.
Proof. exact raw_lints_perm. Qed.

(* the four lints that relate the subject common name(s) to the SAN entries (Kernels/CnSan.v): the dNSNames (each with
   the public-suffix parser's verdict) and the addresses in any order - same status, and for the exact-match lint the
   same details text *)
Theorem c17_cn_san_lints_perm : forall fold_eq v v', reordered v v' ->
  l_cn_exact v = l_cn_exact v' /\ l_cn_from_san fold_eq v = l_cn_from_san fold_eq v' /\
  l_redacted v = l_redacted v' /\ l_ev_wildcard v = l_ev_wildcard v'.
Proof.
  intros f v v' R. repeat split;
    [apply l_cn_exact_perm | apply l_cn_from_san_perm | apply l_redacted_perm | apply l_ev_wildcard_perm]; exact R.
Qed.

(* what the exact-match lint decides: pass iff every common name is, octet for octet, a dNSName or an address text *)
Theorem c17_cn_exact_spec : forall v, cv_cns v <> [] -> cv_is_ca v = false ->
  (fst (l_cn_exact v) = 3 <-> forall cn, In cn (cv_cns v) -> In cn (cv_dns v) \/ In cn (cv_ips v)).
Proof. exact l_cn_exact_spec. Qed.

(* the thirteen subject-attribute length lints (Kernels/SubjLen.v): the values of a repeated attribute in any order *)
Theorem c17_subject_length_lints_perm : forall sev limit vals vals',
  Permutation vals vals' -> max_len_lint sev limit vals = max_len_lint sev limit vals'.
Proof. exact max_len_lint_perm. Qed.

(* ... and what they decide: the finding exactly when some value has more characters than the limit *)
Theorem c17_subject_length_spec : forall sev limit vals, vals <> [] -> sev <> 3 ->
  (max_len_lint sev limit vals = sev <-> exists v, In v vals /\ limit < rune_count v).
Proof. exact max_len_lint_spec. Qed.

(* the two reverse-DNS lints (Kernels/Arpa.v): the dNSNames (each with the address its labels spell) in any order *)
Theorem c17_arpa_lints_perm : forall tbl cn names names', Permutation names names' ->
  l_malformed cn names = l_malformed cn names' /\ l_reserved tbl cn names = l_reserved tbl cn names'.
Proof. exact arpa_lints_perm. Qed.

(* e_ext_tor_service_descriptor_hash_invalid (Kernels/Tor.v: two loops with early returns over two Go maps): its status
   is one order-free conjunction (c17_tor_spec), hence the same for every order of the names and of the descriptors *)
Theorem c17_tor_spec : forall v, l_tor v = if tor_ok v then 3 else 6.
Proof. exact tor_spec. Qed.

Theorem c17_tor_perm : forall v names' descs',
  Permutation (t_names v) names' -> Permutation (t_descs v) descs' ->
  l_tor (mkTor (t_has_ext v) (t_ev v) names' descs') = l_tor v.
Proof. exact tor_perm. Qed.

(* e_ext_san_empty_name / e_ext_ian_empty_name (Kernels/Der.v: the walker AND the DER reader under it): on the encoding of
   any list of general names (low tag numbers, under 64 KiB) the verdict is Error iff some name is empty, so it is the
   same for every order of the names - in particular a directoryName before an empty name changes nothing *)
Theorem c17_empty_name_spec : forall items,
  Forall encodable items -> (N.of_nat (length (List.concat (map enc_tlv items))) < 65536)%N ->
  l_empty_name (san_value items) = if existsb is_empty items then 6 else 3.
Proof. exact empty_name_spec. Qed.

Theorem c17_empty_name_perm : forall items items',
  Permutation items items' -> Forall encodable items -> (N.of_nat (length (List.concat (map enc_tlv items))) < 65536)%N ->
  l_empty_name (san_value items') = l_empty_name (san_value items).
Proof. exact empty_name_perm. Qed.

(* fifteen lints over the authorityInfoAccess and cRLDistributionPoints URL lists (Kernels/Urls.v): each verdict is the
   same for every order of each list (the duplicate test for any symmetric case-insensitive comparison) *)
Theorem c17_url_lints_perm : forall fold_eq, (forall a b, fold_eq a b = fold_eq b a) -> forall v o i c,
  Permutation (uv_ocsp v) o -> Permutation (uv_issuers v) i -> Permutation (uv_cdp v) c ->
  all_url_lints fold_eq (reorder v o i c) = all_url_lints fold_eq v.
Proof. exact url_lints_perm. Qed.

(* twenty-three subject-attribute presence lints (Kernels/SubjPresence.v): the order of the subject's attributes is
   immaterial to each *)
Theorem c17_presence_lints_perm : forall v ts, Permutation (s_types v) ts -> all_presence_lints (with_types v ts) = all_presence_lints v.
Proof. exact presence_lints_perm. Qed.

(* the six lints about the form of nameConstraints: the order of the subtrees inside each list is immaterial *)
Theorem c17_nc_form_perm : forall v ls', Forall2 (@Permutation (Z * Z)) (nc_lists v) ls' ->
  all_nc_form_lints (mkNc (nc_ext v) (nc_is_ca v) ls') = all_nc_form_lints v.
Proof. exact nc_form_perm. Qed.

(* e_ext_cert_policy_duplicate: the same for every order of the policies *)
Theorem c17_policy_duplicate_perm : forall v ids', Permutation (p_ids v) ids' ->
  q_duplicate (mkPol (p_ext v) ids' (p_numbers v) (p_orgs v) (p_texts v)) = q_duplicate v.
Proof. exact duplicate_perm. Qed.

Theorem c17_ev_lints_perm : forall v ts, Permutation (ev_types v) ts -> all_ev_lints (mkEv ts (ev_serials v) (ev_ips v)) = all_ev_lints v.
Proof. exact ev_lints_perm. Qed.

Theorem c17_gn_sn_policy_perm : forall v ps, Permutation (cs_policies v) ps ->
  c_gn_sn_policy (mkCs (cs_cn_empty v) (cs_countries v) (cs_orgs v) (cs_names v) (cs_san_ext v) (cs_ou v) ps (cs_nb v) (cs_na v)) = c_gn_sn_policy v.
Proof. exact gn_sn_policy_perm. Qed.

Print Assumptions c17_first_offender_perm.
Print Assumptions c17_label_lints_perm.
Print Assumptions c17_na_first_refuted.
Print Assumptions c17_find_ext_perm.
Print Assumptions c17_name_lints_perm.
Print Assumptions c17_name_lints_range.
Print Assumptions c17_name_twins_agree.

(* non-vacuity: a view with a wildcard in the wrong place and a case-variant duplicate; the reversed SAN gives the same verdicts *)
Example c17_names_example :
  let v := mkNview true true true (s2b "example.com") false [s2b "a.*.example.com"; s2b "WWW.example.com"; s2b "www.example.com"] in
  all_name_lints v = [3; 3; 3; 3; 6; 3; 3; 3; 4; 3; 3; 6; 3; 3] /\
  all_name_lints (with_dns v (rev (nv_dns v))) = all_name_lints v.
Proof. split; vm_compute; reflexivity. Qed.
Print Assumptions c17_gn_lints_perm.
Print Assumptions c17_raw_lints_perm.
Print Assumptions c17_cn_san_lints_perm.
Print Assumptions c17_cn_exact_spec.
Print Assumptions c17_subject_length_lints_perm.
Print Assumptions c17_subject_length_spec.
Print Assumptions c17_arpa_lints_perm.
Print Assumptions c17_tor_spec.
Print Assumptions c17_tor_perm.
Print Assumptions c17_empty_name_spec.
Print Assumptions c17_empty_name_perm.
Print Assumptions c17_url_lints_perm.
Print Assumptions c17_presence_lints_perm.
Print Assumptions c17_nc_form_perm.
Print Assumptions c17_policy_duplicate_perm.
Print Assumptions c17_ev_lints_perm.
Print Assumptions c17_gn_sn_policy_perm.
