(* C18 - TLD validity follows the delegation table exactly.  Statements only (proofs: Kernels/Tld.v). *)
From ZL Require Import Base.Bytes Framework.Core Kernels.Tld.
Open Scope Z_scope.

(* for any table that passes the data obligation table_ok *)
Theorem c18_valid_iff : forall tbl d t,
  table_ok tbl = true ->
  (has_valid_tld tbl d t = true <->
   exists e dl, find_tld (last_label (go_lower d)) tbl = Some e /\ parse_date (t_deleg e) = Some dl /\ dl <= t /\
                (t_removal e = [] \/ exists rm, parse_date (t_removal e) = Some rm /\ t <= rm)).
Proof. exact has_valid_tld_iff. Qed.

Theorem c18_ever_iff : forall tbl l,
  is_in_tld_map tbl l = true <-> exists e, find_tld (go_lower l) tbl = Some e.
Proof. exact is_in_tld_map_iff. Qed.

(* the lint errs exactly when the non-IP common name or one of the DNS names fails the test at notBefore *)
Theorem c18_lint : forall tbl cn cn_is_ip dns nb,
  lint_tld tbl cn cn_is_ip dns nb = true <->
  (cn <> [] /\ cn_is_ip = false /\ has_valid_tld tbl cn nb = false) \/
  exists d, In d dns /\ has_valid_tld tbl d nb = false.
Proof. exact lint_tld_iff. Qed.

(* case-insensitive comparison is byte-wise lower-casing on ASCII names *)
Theorem c18_lower_ascii : forall s, all_ascii s = true -> go_lower s = map lower_ascii s.
Proof. exact go_lower_ascii. Qed.

Example c18_example :
  let tbl := [mkTld (s2b "com") (s2b "com") (s2b "1985-01-01") []; mkTld (s2b "old") (s2b "old") (s2b "2000-02-29") (s2b "2010-12-31")] in
  table_ok tbl = true /\
  has_valid_tld tbl (s2b "WWW.Example.COM") 0 = false /\                         (* 1970 < 1985 *)
  has_valid_tld tbl (s2b "WWW.Example.COM") (days_from_civil 1985 1 1 * ns_per_day) = true /\
  has_valid_tld tbl (s2b "a.old") (days_from_civil 2010 12 31 * ns_per_day) = true /\
  has_valid_tld tbl (s2b "a.old") (days_from_civil 2010 12 31 * ns_per_day + 1) = false /\
  has_valid_tld tbl (s2b "a.com.") 1000000000000000000 = false /\
  parse_date (s2b "2001-02-29") = None /\ parse_date (s2b "2000-02-29") = Some (11016 * ns_per_day).
Proof. vm_compute. repeat split. Qed.

Print Assumptions c18_valid_iff.
Print Assumptions c18_ever_iff.
Print Assumptions c18_lint.
Print Assumptions c18_lower_ascii.
