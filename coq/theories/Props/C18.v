(* C18 - TLD validity follows the delegation table exactly.  Statements only (proofs: Kernels/Tld.v). *)
From ZL Require Import Base.Bytes Framework.Core Kernels.Tld Kernels.GtldUpdate Kernels.GtldUpdateFacts.
Open Scope Z_scope.

(* for any table that passes the data obligation table_ok *)
Theorem c18_valid_iff : forall tbl d t,
  table_ok tbl = true ->
  (has_valid_tld tbl d t = true <->
   exists e dl, find_tld (last_label (go_lower d)) tbl = Some e /\ parse_date (t_deleg e) = Some dl /\ dl <= t /\
                (t_removal e = [] \/ exists rm, parse_date (t_removal e) = Some rm /\ t <= rm)).
Proof. exact has_valid_tld_iff. Qed.

Theorem c18_ever_iff : forall tbl l,
  is_in_tld_map tbl l = true <-> exists e, find_tld (go_lower l) tbl = Some e.
Proof. exact is_in_tld_map_iff. Qed.

(* the lint errs exactly when the non-IP common name or one of the DNS names fails the test at notBefore *)
Theorem c18_lint : forall tbl cn cn_is_ip dns nb,
  lint_tld tbl cn cn_is_ip dns nb = true <->
  (cn <> [] /\ cn_is_ip = false /\ has_valid_tld tbl cn nb = false) \/
  exists d, In d dns /\ has_valid_tld tbl d nb = false.
Proof. exact lint_tld_iff. Qed.

(* case-insensitive comparison is byte-wise lower-casing on ASCII names *)
Theorem c18_lower_ascii : forall s, all_ascii s = true -> go_lower s = map lower_ascii s.
Proof. exact go_lower_ascii. Qed.

(* "all future regenerations of the table" (cmd/zlint-gtld-update, model Kernels.GtldUpdate): whatever the two ICANN
   documents say, when the generator writes a table every entry of it is keyed by its own name and has a parseable
   delegation date and an empty or parseable removal date.  _partial: the full property also wants the key in lower
   case and the removal not earlier than the delegation; the generator checks neither (it copies ICANN's spelling
   and dates), so for regenerated tables those two rest on the per-run data obligation Obl_C18_table, which examines
   the table actually checked in. *)
Theorem c18_regen_entries_partial : forall gs body m, render gs body = Some m ->
  forall ke, In ke m ->
    fst ke = g_name (snd ke) /\ date_parses (g_deleg (snd ke)) = true /\
    (g_removal (snd ke) = [] \/ date_parses (g_removal (snd ke)) = true).
Proof. exact render_entries_spelled. Qed.

(* the generator fails closed: one delegated entry with a date that does not parse and nothing is written *)
Theorem c18_regen_fails_closed : forall gs body e,
  In e gs -> g_deleg e <> [] -> gentry_valid e = false -> render gs body = None.
Proof. exact render_fails_closed. Qed.

(* validateGTLDs accepts a list exactly when every entry of it has acceptable dates *)
Theorem c18_regen_validate : forall es, validate es = true <-> forall e, In e es -> gentry_valid e = true.
Proof. exact validate_iff. Qed.

Example c18_example :
  let tbl := [mkTld (s2b "com") (s2b "com") (s2b "1985-01-01") []; mkTld (s2b "old") (s2b "old") (s2b "2000-02-29") (s2b "2010-12-31")] in
  table_ok tbl = true /\
  has_valid_tld tbl (s2b "WWW.Example.COM") 0 = false /\                         (* 1970 < 1985 *)
  has_valid_tld tbl (s2b "WWW.Example.COM") (days_from_civil 1985 1 1 * ns_per_day) = true /\
  has_valid_tld tbl (s2b "a.old") (days_from_civil 2010 12 31 * ns_per_day) = true /\
  has_valid_tld tbl (s2b "a.old") (days_from_civil 2010 12 31 * ns_per_day + 1) = false /\
  has_valid_tld tbl (s2b "a.com.") 1000000000000000000 = false /\
  parse_date (s2b "2001-02-29") = None /\ parse_date (s2b "2000-02-29") = Some (11016 * ns_per_day).
Proof. vm_compute. repeat split. Qed.

Print Assumptions c18_valid_iff.
Print Assumptions c18_ever_iff.
Print Assumptions c18_lint.
Print Assumptions c18_lower_ascii.
Print Assumptions c18_regen_entries_partial.
Print Assumptions c18_regen_fails_closed.
Print Assumptions c18_regen_validate.
