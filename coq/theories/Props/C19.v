(* C19 - reserved-address verdicts are consistent for hosts and networks.  Statements only (proofs: Kernels/Ip.v).
   Addresses are values after Go's To4 normalisation, so the 4-byte and IPv4-mapped forms are one value by
   construction; that the code agrees on both byte forms is checked by the correspondence. *)
From ZL Require Import Base.Bytes Kernels.Ip Kernels.Arpa.
From Coq Require Import NArith List Bool.
Open Scope N_scope.

(* every address of a special-purpose block (one that passes the data check block_reserved) is reserved *)
Theorem c19_blocks : forall tbl b x,
  table_wf tbl = true -> net_ok b -> addr_ok x -> block_reserved tbl b = true -> contains b x = true ->
  is_reserved tbl x = true.
Proof. exact block_all_reserved. Qed.

(* a network intersects reserved space whenever it contains a reserved address - every network: the stated address
   need not be the first address of the range (an iPAddress name constraint is address||mask) *)
Theorem c19_complete : forall tbl a x,
  table_wf tbl = true -> table_closed tbl = true -> net_ok a -> addr_ok x ->
  contains a x = true -> is_reserved tbl x = true -> intersects tbl a = true.
Proof. exact intersects_complete. Qed.

(* and only then *)
Theorem c19_sound : forall tbl a,
  table_wf tbl = true -> net_ok a -> intersects tbl a = true ->
  exists x, addr_ok x /\ contains a x = true /\ is_reserved tbl x = true.
Proof. exact intersects_sound. Qed.

(* any network containing an intersecting network also intersects *)
Theorem c19_monotone : forall tbl a b,
  table_wf tbl = true -> table_closed tbl = true -> net_ok a -> net_ok b ->
  subnet b a = true -> intersects tbl b = true -> intersects tbl a = true.
Proof. exact intersects_monotone. Qed.

(* for a single-address network the answer equals the address test *)
Theorem c19_single : forall tbl x,
  table_wf tbl = true -> addr_ok x ->
  intersects tbl (mkNet (a_fam x) (a_val x) (width (a_fam x))) = is_reserved tbl x.
Proof. exact intersects_single. Qed.

(* two spellings of one range (same family, same prefix length, same bits under the mask) get one answer *)
Theorem c19_spelling : forall tbl a b,
  table_wf tbl = true -> table_closed tbl = true -> net_ok a -> net_ok b ->
  n_fam a = n_fam b -> n_len a = n_len b -> contains a (base_addr b) = true ->
  intersects tbl a = intersects tbl b.
Proof. exact intersects_spelling. Qed.

(* the reverse-DNS lint only ever blames a name that is a well-formed reverse-DNS name of its zone *)
Theorem c19_arpa_reserved_needs_wellformed : forall tbl name p,
  reserved_name tbl name p = true -> malformed_name name p = false.
Proof. exact reserved_means_reserved. Qed.

(* the lints report accordingly *)
Theorem c19_lint_ips : forall tbl ips, lint_ips tbl ips = true <-> exists x, In x ips /\ is_reserved tbl x = true.
Proof. exact lint_ips_iff. Qed.
Theorem c19_lint_nets : forall tbl ns, lint_nets tbl ns = true <-> exists n, In n ns /\ intersects tbl n = true.
Proof. exact lint_nets_iff. Qed.

Print Assumptions c19_blocks.
Print Assumptions c19_complete.
Print Assumptions c19_sound.
Print Assumptions c19_monotone.
Print Assumptions c19_single.
Print Assumptions c19_spelling.
Print Assumptions c19_arpa_reserved_needs_wellformed.
Print Assumptions c19_lint_ips.
Print Assumptions c19_lint_nets.
