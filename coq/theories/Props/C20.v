(* C20 - duplicated rules never contradict each other.  Statements only (proofs: Kernels/Order.v, Kernels/Pairs.v). *)
From ZL Require Import Base.Bytes Kernels.Order Kernels.Pairs.
From Coq Require Import ZArith List.
Open Scope Z_scope.

(* RFC 5280 / BR variants of the DNS-label rules: on the same names (common name empty, an IP - i.e. not examined -
   or one of the SAN names) both reach the same status *)
Theorem c20_label_pairs : forall finding offends cn san,
  (match cn with Some n => In n san | None => True end) ->
  lint_br finding offends cn san = lint_rfc finding offends san.
Proof. exact rfc_br_agree. Qed.

(* subjectAltName / issuerAltName URI-host rules (both copies modelled as written) *)
Theorem c20_uri_host_pair : forall is_fqdn_or_ip us,
  lint_uris (san_uri_bad is_fqdn_or_ip) us = lint_uris (ian_uri_bad is_fqdn_or_ip) us.
Proof. exact uri_host_pair_agrees. Qed.

Theorem c20_uri_host_old_refuted : forall is_fqdn_or_ip get_host,
  is_fqdn_or_ip (get_host []) = false ->
  exists u, lint_uris (san_uri_bad is_fqdn_or_ip) [u] <> lint_uris (ian_uri_bad_old is_fqdn_or_ip get_host) [u].
Proof. exact uri_host_old_refuted. Qed.

(* mirror-image fields: the same rule on the same content *)
Theorem c20_mirror : forall (A B : Type) (rule : A -> B) s i, s = i -> rule s = rule i.
Proof. exact @mirror_agree. Qed.

(* 398/397 days, 32768/64 characters: an error from the limit always comes with a finding from its stricter companion *)
Theorem c20_limit_pairs : forall hi lo x,
  lo <= hi -> limit_lint Pairs.sError hi x = Pairs.sError -> limit_lint Pairs.sWarn lo x = Pairs.sWarn.
Proof. exact limit_error_implies_warning. Qed.

Print Assumptions c20_label_pairs.
Print Assumptions c20_uri_host_pair.
Print Assumptions c20_uri_host_old_refuted.
Print Assumptions c20_mirror.
Print Assumptions c20_limit_pairs.
