(* C20 - duplicated rules never contradict each other.  Statements only (proofs: Kernels/Order.v, Kernels/Pairs.v). *)
From ZL Require Import Base.Bytes Kernels.Order Kernels.Pairs Kernels.Names Kernels.NamesFacts Kernels.GeneralNames Kernels.GeneralNamesFacts.
From Coq Require Import ZArith List.
Open Scope Z_scope.

(* RFC 5280 / BR variants of the DNS-label rules: on the same names (common name empty, an IP - i.e. not examined -
   or one of the SAN names) both reach the same status *)
Theorem c20_label_pairs : forall finding offends cn san,
  (match cn with Some n => In n san | None => True end) ->
  lint_br finding offends cn san = lint_rfc finding offends san.
Proof. exact rfc_br_agree. Qed.

(* subjectAltName / issuerAltName URI-host rules (both copies modelled as written) *)
Theorem c20_uri_host_pair : forall is_fqdn_or_ip us,
  lint_uris (san_uri_bad is_fqdn_or_ip) us = lint_uris (ian_uri_bad is_fqdn_or_ip) us.
Proof. exact uri_host_pair_agrees. Qed.

Theorem c20_uri_host_old_refuted : forall is_fqdn_or_ip get_host,
  is_fqdn_or_ip (get_host []) = false ->
  exists u, lint_uris (san_uri_bad is_fqdn_or_ip) [u] <> lint_uris (ian_uri_bad_old is_fqdn_or_ip get_host) [u].
Proof. exact uri_host_old_refuted. Qed.

(* mirror-image fields: the same rule on the same content *)
Theorem c20_mirror : forall (A B : Type) (rule : A -> B) s i, s = i -> rule s = rule i.
Proof. exact @mirror_agree. Qed.

(* 398/397 days, 32768/64 characters: an error from the limit always comes with a finding from its stricter companion *)
Theorem c20_limit_pairs : forall hi lo x,
  lo <= hi -> limit_lint Pairs.sError hi x = Pairs.sError -> limit_lint Pairs.sWarn lo x = Pairs.sWarn.
Proof. exact limit_error_implies_warning. Qed.

(* the label-length and empty-label rules (RFC / BR copies, modelled in full in Kernels/Names.v) agree when the
   certificate is in TLS scope and the common name adds no name *)
Theorem c20_name_twins : forall v,
  nv_tls v = true -> (forall n, In n (cn_if_name v) -> In n (nv_dns v)) ->
  l_label_too_long v = l_rfc_label_too_long v /\ l_empty_label v = l_rfc_empty_label v.
Proof. exact twins_agree. Qed.

(* the issuerAltName copies of the community / RFC dNSName rules are the subjectAltName rules applied to the other
   list: same names, both extensions present => same status (five pairs) *)
Theorem c20_san_ian_twins : forall v (n : nview),
  nv_san_ext n = gv_ian_ext v -> nv_dns n = gv_ian_dns v ->
  g_ian_bare_wildcard v = l_bare_wildcard n /\ g_ian_null_char v = l_null_char n /\
  g_ian_starts_period v = l_starts_period n /\ g_ian_wildcard_not_first v = l_wildcard_not_first n /\
  g_ian_space v = l_space_name n.
Proof. exact gn_twins_agree. Qed.

(* the one pair whose copies implement different rules (recorded finding): "example.com" in the issuerAltName is
   reported by w_ian_iana_pub_suffix_empty although it is not a public suffix *)
Theorem c20_pub_suffix_copy_differs :
  g_ian_pub_suffix (mkGview true false true true false [] [] true [] [s2b "example.com"]) = 5.
Proof. exact gn_pub_suffix_copy_differs. Qed.

(* the raw-GeneralNames walkers (IA5 content of dNSNames and of URIs, empty names): SAN and IAN copies agree on the
   same members *)
Theorem c20_raw_twins : forall v, rv_san_ext v = rv_ian_ext v -> rv_san v = rv_ian v ->
  r_san_dns_not_ia5 v = r_ian_dns_not_ia5 v /\ r_san_uri_not_ia5 v = r_ian_uri_not_ia5 v /\ r_san_empty_name v = r_ian_empty_name v.
Proof. exact raw_twins_agree. Qed.

Print Assumptions c20_label_pairs.
Print Assumptions c20_uri_host_pair.
Print Assumptions c20_uri_host_old_refuted.
Print Assumptions c20_mirror.
Print Assumptions c20_limit_pairs.
Print Assumptions c20_name_twins.
Print Assumptions c20_san_ian_twins.
Print Assumptions c20_pub_suffix_copy_differs.
Print Assumptions c20_raw_twins.
