(* C20 - duplicated rules never contradict each other.  Statements only (proofs: Kernels/Order.v, Kernels/Pairs.v). *)
From ZL Require Import Base.Bytes Kernels.Order Kernels.Pairs Kernels.Names Kernels.NamesFacts Kernels.GeneralNames Kernels.GeneralNamesFacts Kernels.Urls Kernels.UrlsFacts Kernels.Scope Kernels.SubjPresence Kernels.CaKu Kernels.Crit Kernels.Header Kernels.NcForm Kernels.Policies Kernels.EvPresence Kernels.SmimeKu Kernels.ExtPresence Kernels.KuMasks.
From Coq Require Import ZArith List.
Open Scope Z_scope.

(* RFC 5280 / BR variants of the DNS-label rules: on the same names (common name empty, an IP - i.e. not examined -
   or one of the SAN names) both reach the same status *)
Theorem c20_label_pairs : forall finding offends cn san,
  (match cn with Some n => In n san | None => True end) ->
  lint_br finding offends cn san = lint_rfc finding offends san.
Proof. exact rfc_br_agree. Qed.

(* subjectAltName / issuerAltName URI-host rules (both copies modelled as written) *)
Theorem c20_uri_host_pair : forall is_fqdn_or_ip us,
  lint_uris (san_uri_bad is_fqdn_or_ip) us = lint_uris (ian_uri_bad is_fqdn_or_ip) us.
Proof. exact uri_host_pair_agrees. Qed.

Theorem c20_uri_host_old_refuted : forall is_fqdn_or_ip get_host,
  is_fqdn_or_ip (get_host []) = false ->
  exists u, lint_uris (san_uri_bad is_fqdn_or_ip) [u] <> lint_uris (ian_uri_bad_old is_fqdn_or_ip get_host) [u].
Proof. exact uri_host_old_refuted. Qed.

(* mirror-image fields: the same rule on the same content *)
Theorem c20_mirror : forall (A B : Type) (rule : A -> B) s i, s = i -> rule s = rule i.
Proof. exact @mirror_agree. Qed.

(* 398/397 days, 32768/64 characters: an error from the limit always comes with a finding from its stricter companion *)
Theorem c20_limit_pairs : forall hi lo x,
  lo <= hi -> limit_lint Pairs.sError hi x = Pairs.sError -> limit_lint Pairs.sWarn lo x = Pairs.sWarn.
Proof. exact limit_error_implies_warning. Qed.

(* the label-length and empty-label rules (RFC / BR copies, modelled in full in Kernels/Names.v) agree when the
   certificate is in TLS scope and the common name adds no name *)
Theorem c20_name_twins : forall v,
  nv_tls v = true -> (forall n, In n (cn_if_name v) -> In n (nv_dns v)) ->
  l_label_too_long v = l_rfc_label_too_long v /\ l_empty_label v = l_rfc_empty_label v.
Proof. exact twins_agree. Qed.

(* the issuerAltName copies of the community / RFC dNSName rules are the subjectAltName rules applied to the other
   list: same names, both extensions present => same status (five pairs) *)
Theorem c20_san_ian_twins : forall v (n : nview),
  nv_san_ext n = gv_ian_ext v -> nv_dns n = gv_ian_dns v ->
  g_ian_bare_wildcard v = l_bare_wildcard n /\ g_ian_null_char v = l_null_char n /\
  g_ian_starts_period v = l_starts_period n /\ g_ian_wildcard_not_first v = l_wildcard_not_first n /\
  g_ian_space v = l_space_name n.
Proof. exact gn_twins_agree. Qed.

(* the one pair whose copies implement different rules (recorded finding): "example.com" in the issuerAltName is
   reported by w_ian_iana_pub_suffix_empty although it is not a public suffix *)
Theorem c20_pub_suffix_copy_differs :
  g_ian_pub_suffix (mkGview true false true true false [] [] true [] [s2b "example.com"]) = 5.
Proof. exact gn_pub_suffix_copy_differs. Qed.

(* the raw-GeneralNames walkers (IA5 content of dNSNames and of URIs, empty names): SAN and IAN copies agree on the
   same members *)
Theorem c20_raw_twins : forall v, rv_san_ext v = rv_ian_ext v -> rv_san v = rv_ian v ->
  r_san_dns_not_ia5 v = r_ian_dns_not_ia5 v /\ r_san_uri_not_ia5 v = r_ian_uri_not_ia5 v /\ r_san_empty_name v = r_ian_empty_name v.
Proof. exact raw_twins_agree. Qed.

(* related URL rules (Kernels/Urls.v): the sub-CA / subscriber copies are one rule; the strict S/MIME rule implies the
   legacy one; the code-signing CDP rule implies the TLS one - and "HTTP URL" as a scheme is NOT the text prefix http:// *)
Theorem c20_issuer_url_twins : forall v, l_sub_ca_issuer_url v = l_sub_cert_issuer_url v.
Proof. exact issuer_url_twins. Qed.
Theorem c20_cdp_url_twins : forall v, l_sub_ca_cdp_url v = l_sub_cert_cdp_url v.
Proof. exact cdp_url_twins. Qed.
Theorem c20_strict_implies_legacy : forall v, l_strict_http_only v = 3 -> l_legacy_one_http v = 3.
Proof. exact strict_implies_legacy. Qed.
Theorem c20_cs_cdp_stricter : forall v, l_cs_cdp v = 3 -> l_cdp_not_http v = 3.
Proof. exact cs_cdp_stricter. Qed.
Theorem c20_scheme_is_not_prefix : exists v, l_ocsp_http_only v = 3 /\ l_sub_cert_ocsp_url v = 6.
Proof. exact scheme_is_not_prefix. Qed.

(* companion rules about one attribute (Kernels/SubjPresence.v): "must appear" and "must not appear" never both fire;
   the locality and province "must appear" rules are one condition; a DV certificate that passes the invalid-values
   rule passes each of the five DV conflict rules *)
Theorem c20_locality_rules_exclusive : forall v, l_locality_must_appear v = 6 -> l_locality_must_not_appear v = 3.
Proof. exact locality_rules_exclusive. Qed.
Theorem c20_province_rules_exclusive : forall v, l_province_must_appear v = 6 -> l_province_must_not_appear v = 3.
Proof. exact province_rules_exclusive. Qed.
Theorem c20_locality_province_same : forall v, l_locality_must_appear v = l_province_must_appear v.
Proof. exact locality_province_same. Qed.
Theorem c20_dv_values_imply_no_conflict : forall v o,
  l_dv_invalid_values v = 3 -> In o [oL; oO; oPostal; oST; oStreet] -> l_dv_conflicts o v = 3.
Proof. exact dv_values_imply_no_conflict. Qed.

(* companion rules about key usage (Kernels/CaKu.v, applicability included): the certSign bit on a non-CA certificate is
   reported by the subscriber rule exactly when the RFC rule reports it; an empty key usage on a CA by both "missing"
   rules; the root and CA criticality rules are one test on a root *)
Theorem c20_cert_sign_rules_agree : forall v, ku_ext v = true -> is_ca v = false -> (k_sub_cert_sign v = 6 <-> k_cert_sign_without_ca v = 6).
Proof. exact cert_sign_rules_agree. Qed.
Theorem c20_ku_missing_rules : forall v, is_ca v = true -> ku_ext v = true -> (k_ca_ku_missing v = 6 <-> k_ku_without_bits v = 6).
Proof. exact ku_missing_rules. Qed.
Theorem c20_root_ku_critical_same : forall v, root_ca v = true -> k_root_ku_critical v = k_ca_ku_not_critical v.
Proof. exact root_ku_critical_same. Qed.

(* twenty criticality lints (Kernels/Crit.v): rules about one extension that demand the same marking agree wherever both
   apply; the table never demands opposite markings of one extension; and there is a marking that passes all twenty *)
Theorem c20_same_marking_rules_agree : forall r1 r2 v,
  r_ext r1 = r_ext r2 -> r_must_be_critical r1 = r_must_be_critical r2 -> r_finding r1 <> 3 -> r_finding r2 <> 3 ->
  crit_lint r1 v <> 1 -> crit_lint r2 v <> 1 -> (crit_lint r1 v = 3 <-> crit_lint r2 v = 3).
Proof. exact same_marking_rules_agree. Qed.
Theorem c20_criticality_table_consistent : consistent crit_table = true.
Proof. exact table_consistent. Qed.
Theorem c20_criticality_satisfiable : forall ca ss, forallb (fun s => (s =? 1) || (s =? 3)) (all_crit_lints (mkCrit ca ss good_marking)) = true.
Proof. exact good_marking_passes. Qed.

(* fixed-field lints (Kernels/Header.v): a positive serial number is "longer than 20 octets" exactly from 2^159 on; the
   extension-version rule implies the version rule; the unique-identifier version rule implies the presence rule *)
Theorem c20_serial_too_long_exact : forall v, 0 < h_serial v -> (h_serial_too_long v = 6 <-> 2 ^ 159 <= h_serial v).
Proof. exact serial_too_long_positive. Qed.
Theorem c20_version_rules : forall v, h_exts_version v = 6 -> h_invalid_version v = 6.
Proof. exact exts_version_implies_invalid_version. Qed.
Theorem c20_uid_rules : forall v, h_uid_version v = 6 -> h_contains_uid v = 6.
Proof. exact uid_version_implies_contains_uid. Qed.

(* the two sibling rules of RFC 5280 4.2.1.10 (Kernels/NcForm.v): the minimum rule looks at every subtree of every
   list; the maximum rule, as written, does not - a maximum on a permitted rfc822Name subtree goes unreported (an
   observation about the code, outside the pairs this property lists; DESIGN.md 13.6) *)
Theorem c20_nc_min_total : forall v, nc_ext v = true -> length (nc_lists v) = 14%nat ->
  (n_min v = 6 <-> exists l s, In l (nc_lists v) /\ In s l /\ fst s <> 0).
Proof. exact n_min_spec. Qed.
Theorem c20_nc_max_skips_permitted_email : exists v, nc_ext v = true /\ length (nc_lists v) = 14%nat /\
  (exists l s, In l (nc_lists v) /\ In s l /\ snd s <> 0) /\ n_max v = 3.
Proof. exact nc_max_skips_permitted_email. Qed.

(* explicitText string type (Kernels/Policies.v): the IA5String error always comes with the not-UTF8 warning *)
Theorem c20_ia5_implies_not_utf8 : forall v, q_ia5 v = 6 -> q_not_utf8 v = 5.
Proof. exact ia5_implies_not_utf8. Qed.

(* the EV country / organization rules are the IV-OV policy rules of the TLS BRs applied to the same subject *)
Theorem c20_ev_country_is_policy_rule : forall sv v, ev_types v = s_types sv -> e_country v = l_requires_country sv.
Proof. exact ev_country_is_policy_rule. Qed.
Theorem c20_ev_org_is_ov_rule : forall sv v, ev_types v = s_types sv -> e_org v = l_ov_requires_org sv.
Proof. exact ev_org_is_ov_rule. Qed.

(* the S/MIME key-usage generations (Kernels/SmimeKu.v; every statement for all 512 values of the nine bits): the strict
   RSA rule accepts exactly five values; what it accepts the legacy / multipurpose rule accepts; the type rule answers
   NA exactly when the companion "other usages" rule does not pass, so together they judge every value *)
Theorem c20_rsa_strict_accepts : forall k, 0 <= k < 512 -> (s_rsa_strict k = 3 <-> In k [1; 3; 4; 5; 7]).
Proof. exact rsa_strict_accepts. Qed.
Theorem c20_rsa_strict_implies_legacy : forall k, 0 <= k < 512 -> s_rsa_strict k = 3 -> s_rsa_legacy k = 3.
Proof. exact rsa_strict_implies_legacy. Qed.
Theorem c20_type_and_other_partition : forall k, 0 <= k < 512 -> (s_rsa_strict k = 1 <-> s_rsa_other k <> 3).
Proof. exact type_and_other_partition. Qed.

(* extension-presence lints (Kernels/ExtPresence.v): the error- and warning-level subordinate-CA AIA lints are one test;
   and the RFC 5280 / BR recommendations about subjectKeyIdentifier in subscriber certificates are opposite, so exactly
   one of the two lints warns on every subscriber certificate - a disagreement of the sources, which the lints render
   faithfully (they are not copies of one rule) *)
Theorem c20_sub_ca_aia_same_test : forall v,
  presence_lint (nth 0 presence_table (mkPRule PRoot 0 true 0)) v = 3 <-> presence_lint (nth 1 presence_table (mkPRule PRoot 0 true 0)) v = 3.
Proof. exact sub_ca_aia_same_test. Qed.
Theorem c20_subscriber_ski_always_warned : forall v, prole_ok PSubscriber v = true ->
  (presence_lint (mkPRule PNonCA 9 true 5) v = 5 /\ presence_lint (mkPRule PSubscriber 9 false 5) v = 3) \/
  (presence_lint (mkPRule PNonCA 9 true 5) v = 3 /\ presence_lint (mkPRule PSubscriber 9 false 5) v = 5).
Proof. exact subscriber_ski_always_warned. Qed.

(* RFC key-usage companions (Kernels/KuMasks.v; all 512 values): what is forbidden to an RSA CA key is forbidden to an RSA
   subscriber key; the ECDSA error always comes with the ECDSA subscriber notice *)
Theorem c20_rsa_ca_error_implies_ee_error : forall k, 0 <= k < 512 -> m_rsa_ca k = 6 -> m_rsa_ee k = 6.
Proof. exact rsa_ca_error_implies_ee_error. Qed.
Theorem c20_ecdsa_error_implies_ee_notice : forall k, 0 <= k < 512 -> m_ecdsa k = 6 -> m_ecdsa_ee k = 4.
Proof. exact ecdsa_error_implies_ee_notice. Qed.

Print Assumptions c20_label_pairs.
Print Assumptions c20_uri_host_pair.
Print Assumptions c20_uri_host_old_refuted.
Print Assumptions c20_mirror.
Print Assumptions c20_limit_pairs.
Print Assumptions c20_name_twins.
Print Assumptions c20_san_ian_twins.
Print Assumptions c20_pub_suffix_copy_differs.
Print Assumptions c20_raw_twins.
Print Assumptions c20_issuer_url_twins.
Print Assumptions c20_cdp_url_twins.
Print Assumptions c20_strict_implies_legacy.
Print Assumptions c20_cs_cdp_stricter.
Print Assumptions c20_scheme_is_not_prefix.
Print Assumptions c20_locality_rules_exclusive.
Print Assumptions c20_province_rules_exclusive.
Print Assumptions c20_locality_province_same.
Print Assumptions c20_dv_values_imply_no_conflict.
Print Assumptions c20_cert_sign_rules_agree.
Print Assumptions c20_ku_missing_rules.
Print Assumptions c20_root_ku_critical_same.
Print Assumptions c20_same_marking_rules_agree.
Print Assumptions c20_criticality_table_consistent.
Print Assumptions c20_criticality_satisfiable.
Print Assumptions c20_serial_too_long_exact.
Print Assumptions c20_version_rules.
Print Assumptions c20_uid_rules.
Print Assumptions c20_nc_min_total.
Print Assumptions c20_nc_max_skips_permitted_email.
Print Assumptions c20_ia5_implies_not_utf8.
Print Assumptions c20_ev_country_is_policy_rule.
Print Assumptions c20_ev_org_is_ov_rule.
Print Assumptions c20_rsa_strict_accepts.
Print Assumptions c20_rsa_strict_implies_legacy.
Print Assumptions c20_type_and_other_partition.
Print Assumptions c20_sub_ca_aia_same_test.
Print Assumptions c20_subscriber_ski_always_warned.
Print Assumptions c20_rsa_ca_error_implies_ee_error.
Print Assumptions c20_ecdsa_error_implies_ee_notice.
