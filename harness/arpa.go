package main

import (
	"fmt"
	"math/big"
	"net"
	"strings"

	"github.com/zmap/zcrypto/x509"
	"github.com/zmap/zlint/v3/lint"
)

// stream "arpa" (Kernels.Arpa): the two reverse-DNS lints by direct call.  net.ParseIP is the oracle: for every dNSName the
// harness assembles the address text the way the documentation of the lints describes and supplies what it parses to.

func arpaOracle(name string) (pres string, assembled string) {
	n := strings.ToLower(name)
	var labels []string
	v6 := false
	switch {
	case strings.HasSuffix(n, ".in-addr.arpa"):
		labels = strings.Split(strings.TrimSuffix(n, ".in-addr.arpa"), ".")
		if len(labels) != 4 {
			return "PNone", "None"
		}
		var rev []string
		for i := len(labels) - 1; i >= 0; i-- {
			rev = append(rev, labels[i])
		}
		assembled = strings.Join(rev, ".")
	case strings.HasSuffix(n, ".ip6.arpa"):
		v6 = true
		labels = strings.Split(strings.TrimSuffix(n, ".ip6.arpa"), ".")
		if len(labels) != 32 {
			return "PNone", "None"
		}
		var groups []string
		for g := 0; g < 8; g++ {
			i := 31 - 4*g
			groups = append(groups, labels[i]+labels[i-1]+labels[i-2]+labels[i-3])
		}
		assembled = strings.Join(groups, ":")
	default:
		return "PNone", "None"
	}
	_ = v6
	ip := net.ParseIP(assembled)
	asm := "(Some " + cqBytes(assembled) + ")"
	if ip == nil {
		return "PNone", asm
	}
	if ip4 := ip.To4(); ip4 != nil {
		return "(P4 " + nCoq(new(big.Int).SetBytes(ip4)) + ")", asm
	}
	return "(P6 " + nCoq(new(big.Int).SetBytes(ip.To16())) + ")", asm
}

func arpaCase(c *x509.Certificate) (term, tag string, ok bool) {
	g := lint.GlobalRegistry().CertificateLints()
	var sts []string
	for _, ln := range []string{"w_subject_contains_malformed_arpa_ip", "e_subject_contains_reserved_arpa_ip"} {
		l := g.ByName(ln)
		if l == nil {
			return "", "", false
		}
		st := -1
		func() {
			defer func() { recover() }()
			inst := l.Lint()
			if !inst.CheckApplies(c) {
				st = 1
				return
			}
			st = int(inst.Execute(c).Status)
		}()
		sts = append(sts, fmt.Sprint(st))
	}
	var names []string
	for _, d := range c.DNSNames {
		p, asm := arpaOracle(d)
		names = append(names, fmt.Sprintf("(%s, %s, %s)", cqBytes(d), p, asm))
	}
	return fmt.Sprintf("(%s, %s, ((%s)%%Z, (%s)%%Z))", cqBytes(c.Subject.CommonName), cqTyped(names, "(bytes * pres * option bytes)"), sts[0], sts[1]), strings.Join(sts, "/"), true
}

// arpaCerts: reverse-DNS names of both zones: well-formed public and reserved addresses, wrong label counts, labels that
// are not numbers / nibbles, empty and multi-character labels, upper case, an IPv4-mapped address spelled in the IPv6
// zone, wildcards, and mixtures with ordinary names in both orders
func arpaCerts(rng *Rng) [][]byte {
	nib := func(hex string) string { // reversed nibble labels of a 32-digit hex string
		var ls []string
		for i := len(hex) - 1; i >= 0; i-- {
			ls = append(ls, string(hex[i]))
		}
		return strings.Join(ls, ".")
	}
	pool := []string{
		"1.0.0.10.in-addr.arpa", "8.8.8.8.in-addr.arpa", "1.1.168.192.in-addr.arpa", "4.3.2.1.in-addr.arpa", "1.0.0.127.IN-ADDR.ARPA", "255.255.255.255.in-addr.arpa",
		"0.10.in-addr.arpa", "1.2.3.4.5.in-addr.arpa", "in-addr.arpa", ".in-addr.arpa", "a.b.c.d.in-addr.arpa", "01.0.0.10.in-addr.arpa", "256.1.1.1.in-addr.arpa", "1..0.10.in-addr.arpa",
		"*.0.0.10.in-addr.arpa", "1.0.0.10.in-addr.arpa.", "x1.0.0.10.in-addr.arpa.example.com",
		nib("20010db8000000000000000000000001") + ".ip6.arpa", nib("26064700470000000000000000001111") + ".ip6.arpa", nib("fe800000000000000000000000000001") + ".IP6.ARPA",
		nib("00000000000000000000ffff0a000001") + ".ip6.arpa", nib("00000000000000000000000000000001") + ".ip6.arpa", nib("2001486048600000000000000000888") + ".ip6.arpa",
		nib("2001486048600000000000000000888g") + ".ip6.arpa", strings.Replace(nib("20014860486000000000000000008888"), "8.8.8.8", "88.8..8", 1) + ".ip6.arpa", "x.ip6.arpa", "ip6.arpa",
		"*." + nib("2001486048600000000000000000888") + ".ip6.arpa", "www.example.com", "example.org",
	}
	var out [][]byte
	add := func(cn string, names []string) {
		t := leafTemplate()
		t.Subject.CommonName = cn
		t.DNSNames = names
		if der, _, err := issue(t, nil); err == nil {
			out = append(out, der)
		}
	}
	for _, n := range pool {
		add("", []string{n})
		add(n, []string{"www.example.com"})
	}
	n := 60
	if tier() == "thorough" {
		n = 600
	}
	for i := 0; i < n; i++ {
		k := 2 + rng.Intn(3)
		var names []string
		for j := 0; j < k; j++ {
			names = append(names, pick(rng, pool))
		}
		add(pick(rng, []string{"", "www.example.com", pick(rng, pool)}), names)
	}
	return out
}
