package main

import (
	"github.com/zmap/zcrypto/dsa"
	"bytes"
	stdpkix "crypto/x509/pkix"
	stdasn1 "encoding/asn1"

	"github.com/zmap/zcrypto/x509/pkix"
	zlint "github.com/zmap/zlint/v3"
	"github.com/zmap/zcrypto/encoding/asn1"
	"fmt"
	"net/url"
	"strings"
	"time"

	"github.com/zmap/zcrypto/x509"
	"github.com/zmap/zlint/v3/lint"
	"github.com/zmap/zlint/v3/util"
)

// bodies: rule bodies and helpers that index byte strings by hand, run on inputs built directly (no parser in the
// way, so inputs the parser would refuse are reached too) and compared with Kernels/Bodies.v, where every index is
// explicit.  Observed value -1 = the body panicked (the framework's recovered-panic report, or a recovered panic of a
// helper called directly).

func statusOrPanic(r *lint.LintResult) int {
	tick()
	if r == nil {
		return -2
	}
	if r.Status == lint.Fatal && strings.Contains(r.Details, "panicked") {
		return -1
	}
	return int(r.Status)
}

func runCertLint(name string, c *x509.Certificate) int {
	l := lint.GlobalRegistry().CertificateLints().ByName(name)
	if l == nil {
		return -3
	}
	return statusOrPanic(l.Execute(c, lint.NewEmptyConfig()))
}

// a tbsCertificate whose validity holds two arbitrary TLVs
func tbsWithValidity(tag1 byte, b1 []byte, tag2 byte, b2 []byte) []byte {
	version := encTLV(0xA0, encTLV(0x02, []byte{2}))
	serial := encTLV(0x02, []byte{1})
	sigalg := encTLV(0x30, encTLV(0x06, []byte{0x2a, 0x86, 0x48, 0xce, 0x3d, 0x04, 0x03, 0x02}))
	issuer := encTLV(0x30, nil)
	validity := encTLV(0x30, concat(encTLV(tag1, b1), encTLV(tag2, b2)))
	return encTLV(0x30, concat(version, serial, sigalg, issuer, validity, encTLV(0x30, nil)))
}

func allStrings(alpha []byte, maxLen int) [][]byte {
	out := [][]byte{{}}
	prev := [][]byte{{}}
	for l := 1; l <= maxLen; l++ {
		var next [][]byte
		for _, p := range prev {
			for _, a := range alpha {
				next = append(next, append(append([]byte{}, p...), a))
			}
		}
		out = append(out, next...)
		prev = next
	}
	return out
}

func init() {
	commands["bodies"] = func(args []string) error {
		out := NewOutput()
		rng := NewRng(seedFromEnv(), "bodies")
		genQc(out, rng)
		thorough := tier() == "thorough"
		eff := time.Date(2024, 3, 1, 0, 0, 0, 0, time.UTC)
		// ---- GeneralizedTime lints
		{
			maxLen := 4
			if thorough {
				maxLen = 6
			}
			vals := allStrings([]byte{'Z', '+', '-', '0'}, maxLen)
			for _, s := range []string{"20240301000000Z", "202403010000Z", "2024030100Z", "20240301000000.5Z", "20240301000000+0100", "202403010000+0100", "20240301000000.25+0100",
				"20240301000000-0100", "202403010000-0100", "20240301000000", "202403010000", "20240301000000.123", "2024030100000", "99991231235959Z", "20240301000000z", "Z", "+0100", "-0100"} {
				vals = append(vals, []byte(s))
			}
			utc := []byte("240301000000Z")
			seen := map[string]bool{}
			add := func(t1 byte, b1 []byte, t2 byte, b2 []byte) {
				c := &x509.Certificate{RawTBSCertificate: tbsWithValidity(t1, b1, t2, b2), NotBefore: eff, NotAfter: eff.AddDate(0, 3, 0)}
				s1 := runCertLint("e_generalized_time_does_not_include_seconds", c)
				s2 := runCertLint("e_generalized_time_includes_fraction_seconds", c)
				s3 := runCertLint("e_generalized_time_not_in_zulu", c)
				term := fmt.Sprintf("((%d%%Z, %s), (%d%%Z, %s), (%s, %s, %s))", t1, cqBytes(string(b1)), t2, cqBytes(string(b2)), cqZ(int64(s1)), cqZ(int64(s2)), cqZ(int64(s3)))
				if !seen[term] {
					seen[term] = true
					out.Add("gentime", Case{Coq: term, Tag: fmt.Sprintf("%d/%d/%d/%d/%d", t1, t2, s1, s2, s3),
						Desc: map[string]interface{}{"notBefore": fmt.Sprintf("tag %d %q", t1, b1), "notAfter": fmt.Sprintf("tag %d %q", t2, b2), "seconds": s1, "fraction": s2, "zulu": s3}})
				}
			}
			for _, v := range vals {
				add(24, v, 23, utc)
				add(23, utc, 24, v)
				add(23, v, 23, utc)
			}
			for i := 0; i < 150; i++ {
				add(pick(rng, []byte{23, 24}), pick(rng, vals), pick(rng, []byte{23, 24}), pick(rng, vals))
			}
		}
		// ---- keyUsage encoding lints, on the raw extension value
		{
			maxLen := 3
			if thorough {
				maxLen = 4
			}
			vals := allStrings([]byte{0x00, 0x01, 0x02, 0x03, 0x07, 0x08, 0x80, 0x81, 0xff}, maxLen)
			bitsPool := [][]byte{{}, {0x00}, {0x80}, {0x06}, {0xff}, {0x01}, {0x80, 0x00}, {0x00, 0x80}, {0x03, 0xff}, {0xff, 0x80}, {0x01, 0x00}, {0xff, 0xff, 0x80}, {0x7f, 0xff, 0xff, 0xff, 0xff, 0xff, 0xff, 0xff},
				{0x80, 0, 0, 0, 0, 0, 0, 0}, {1, 0, 0, 0, 0, 0, 0, 0, 0}, {0x00, 0x01}, {0x40}, {0x20}, {0x10}, {0x08}, {0x04}, {0x02}}
			for _, bits := range bitsPool {
				for pad := 0; pad <= 9; pad++ {
					content := append([]byte{byte(pad)}, bits...)
					vals = append(vals, encTLV(0x03, content))                           // proper header
					vals = append(vals, concat(encTLV(0x03, content), []byte{0x00}))       // trailing data
					vals = append(vals, concat([]byte{0x03, 0x81, byte(len(content))}, content)) // non-minimal long form
					vals = append(vals, concat([]byte{0x04, byte(len(content))}, content))    // other tag
					vals = append(vals, concat([]byte{0x03, byte(len(content) + 1)}, content)) // length beyond the end
				}
			}
			long := make([]byte, 130)
			long[0] = 0
			vals = append(vals, encTLV(0x03, long), concat([]byte{0x03, 0x82, 0x00, 0x82}, long), concat([]byte{0x1f, 0x03}, []byte{0, 1, 2}), concat([]byte{0x03, 0x80}, []byte{0, 1}),
				concat([]byte{0x03, 0x85, 0, 0, 0, 0, 1}, []byte{0}), concat([]byte{0x03, 0x84, 0xff, 0xff, 0xff, 0xff}, []byte{0}))
			seen := map[string]bool{}
			for _, ku := range vals {
				c := &x509.Certificate{NotBefore: eff, NotAfter: eff.AddDate(0, 3, 0), Extensions: []pkix.Extension{{Id: util.KeyUsageOID, Value: ku}},
					ExtensionsMap: map[string]pkix.Extension{util.KeyUsageOID.String(): {Id: util.KeyUsageOID, Value: ku}}}
				s1 := runCertLint("e_incorrect_ku_encoding", c)
				s2 := runCertLint("e_superfluous_ku_encoding", c)
				s3 := runCertLint("e_key_usage_incorrect_length", c)
				term := fmt.Sprintf("(%s, (%s, %s, %s))", cqBytes(string(ku)), cqZ(int64(s1)), cqZ(int64(s2)), cqZ(int64(s3)))
				if !seen[term] {
					seen[term] = true
					out.Add("ku", Case{Coq: term, Tag: fmt.Sprintf("%d/%d/%d", s1, s2, s3), Desc: map[string]interface{}{"keyUsage_value": hexs(ku), "incorrect_encoding": s1, "superfluous": s2, "incorrect_length": s3}})
				}
			}
		}
		// ---- SCT list: the decoded OCTET STRING
		{
			for _, o := range allStrings([]byte{0x00, 0x01, 0xff}, 4) {
				c := &x509.Certificate{NotBefore: eff, NotAfter: eff.AddDate(0, 3, 0), Extensions: []pkix.Extension{{Id: util.TimestampOID, Value: encTLV(0x04, o)}},
					ExtensionsMap: map[string]pkix.Extension{util.TimestampOID.String(): {Id: util.TimestampOID, Value: encTLV(0x04, o)}}}
				s := runCertLint("e_empty_sct_list", c)
				out.Add("sct", Case{Coq: fmt.Sprintf("(%s, %s)", cqBytes(string(o)), cqZ(int64(s))), Tag: fmt.Sprint(s), Desc: map[string]interface{}{"octets": hexs(o), "status": s}})
			}
		}
		// ---- the same lint through real certificates: SCT lists with one or two well-formed entries whose outer two-octet
		// length is right, understates or overstates the data by 1..3 (the certificate parser walks the entries and does
		// not look at the outer length), plus every short value above that the parser accepts
		{
			sct := func(sigLen int) []byte {
				e := []byte{0}                                  // v1
				e = append(e, bytes.Repeat([]byte{0x11}, 32)...) // log id
				e = append(e, 0, 0, 1, 0x8a, 0, 0, 0, 0)         // timestamp
				e = append(e, 0, 0)                              // no extensions
				e = append(e, 4, 3, byte(sigLen>>8), byte(sigLen))
				e = append(e, bytes.Repeat([]byte{0x30}, sigLen)...)
				return append([]byte{byte(len(e) >> 8), byte(len(e))}, e...)
			}
			var vals [][]byte
			for _, inner := range [][]byte{sct(8), append(sct(8), sct(70)...), {}} {
				for _, delta := range []int{-3, -2, -1, 0, 1, 2, 3, 255} {
					n := len(inner) + delta
					if n < 0 {
						continue
					}
					vals = append(vals, append([]byte{byte(n >> 8), byte(n)}, inner...))
				}
			}
			vals = append(vals, allStrings([]byte{0x00, 0x01, 0xff}, 3)...)
			accepted := 0
			for _, o := range vals {
				t := leafTemplate()
				t.ExtraExtensions = append(t.ExtraExtensions, stdpkix.Extension{Id: stdasn1.ObjectIdentifier{1, 3, 6, 1, 4, 1, 11129, 2, 4, 2}, Value: encTLV(0x04, o)})
				der, c, err := issue(t, nil)
				if err != nil {
					continue
				}
				accepted++
				func() {
					defer func() {
						if pv := recover(); pv != nil {
							out.Violate("C02|panic-escapes:sct", fmt.Sprintf("LintCertificate panicked on a certificate whose SCT list is %x: %v", o, pv), map[string]interface{}{"der": hexs(der)}, nil, nil)
						}
					}()
					if m := panicMarkers(zlint.LintCertificate(c)); len(m) > 0 {
						out.Violate("C02|panicked:sct", fmt.Sprintf("SCT list %x: %s", o, m[0]), map[string]interface{}{"der": hexs(der), "sct_list": hexs(o)}, nil, nil)
					}
				}()
				s := runCertLint("e_empty_sct_list", c)
				out.Add("sct", Case{Coq: fmt.Sprintf("(%s, %s)", cqBytes(string(o)), cqZ(int64(s))), Tag: fmt.Sprint(s), Desc: map[string]interface{}{"octets": hexs(o), "status": s, "through": "certificate"}})
			}
			out.Stats["sct_certificates_accepted"] = accepted
		}
		// ---- util.GetHost
		{
			maxLen := 5
			if thorough {
				maxLen = 7
			}
			vals := allStrings([]byte{'a', '@', ':', '.'}, maxLen)
			for i := 0; i < 300; i++ {
				n := 6 + rng.Intn(20)
				b := make([]byte, n)
				for j := range b {
					b[j] = pick(rng, []byte{'a', 'b', '@', ':', '.', '[', ']', '/', '1'})
				}
				vals = append(vals, b)
			}
			for _, a := range vals {
				res, pv := "", interface{}(nil)
				func() {
					defer func() { pv = recover() }()
					res = util.GetHost(string(a))
				}()
				obs := "(Some " + cqBytes(res) + ")"
				if pv != nil {
					obs = "None"
				}
				out.Add("host", Case{Coq: fmt.Sprintf("(%s, %s)", cqBytes(string(a)), obs), Tag: fmt.Sprintf("%v/%v/%v", strings.Contains(string(a), "@"), strings.Contains(string(a), ":"), pv != nil),
					Desc: map[string]interface{}{"authority": string(a), "host": res, "panic": fmt.Sprint(pv)}})
			}
		}
		// ---- util.GetAuthority (net/url's verdict on the text is an input of the model)
		{
			maxLen := 4
			if thorough {
				maxLen = 6
			}
			vals := allStrings([]byte{'a', ':', '/', '#', '?', '@'}, maxLen)
			for _, s := range []string{"http://example.com/", "http://example.com", "http://user@example.com:80/p?q#f", "mailto:a@b.com", "urn:foo:bar", "//host/path", "http:///path", "http://#frag", "http://?q",
				"a://b", "a:/b", "a:b", "://", ":///", "http://[::1]:80/", "http://%zz/", "ht tp://x/", "http://a b/", "1http://x/", "http://x/\x7f", "", "a", "ab", "abc", "abcd", "a://", "a:// "} {
				vals = append(vals, []byte(s))
			}
			for i := 0; i < 300; i++ {
				n := 5 + rng.Intn(16)
				b := make([]byte, n)
				for j := range b {
					b[j] = pick(rng, []byte{'a', 'b', ':', '/', '/', '#', '?', '@', '.', '%', ' '})
				}
				vals = append(vals, b)
			}
			for _, u := range vals {
				parsed, err := url.Parse(string(u))
				ok := err == nil
				opaque := ok && parsed.Opaque != ""
				res, pv := "", interface{}(nil)
				func() {
					defer func() { pv = recover() }()
					res = util.GetAuthority(string(u))
				}()
				obs := "(Some " + cqBytes(res) + ")"
				if pv != nil {
					obs = "None"
				}
				out.Add("authority", Case{Coq: fmt.Sprintf("(%s, %s, %s, %s)", cqBool(ok), cqBool(opaque), cqBytes(string(u)), obs), Tag: fmt.Sprintf("%v/%v/%v/%v", ok, opaque, res != "", pv != nil),
					Desc: map[string]interface{}{"uri": string(u), "parse_ok": ok, "opaque": opaque, "authority": res, "panic": fmt.Sprint(pv)}})
			}
		}
		// ---- util.ParseBMPString (code units outside the surrogate range, so that runes = code units)
		{
			vals := allStrings([]byte{0x00, 0x41, 0x30, 0xD7, 0xE0, 0xFF}, 4)
			for i := 0; i < 200; i++ {
				n := 5 + rng.Intn(14)
				b := make([]byte, n)
				for j := range b {
					b[j] = pick(rng, []byte{0x00, 0x00, 0x41, 0x30, 0xD7, 0xE0, 0xFF, 0x20})
				}
				vals = append(vals, b)
			}
			for _, b := range vals {
				res, pv := "", interface{}(nil)
				var err error
				func() {
					defer func() { pv = recover() }()
					res, err = util.ParseBMPString(b)
				}()
				obs := ""
				switch {
				case pv != nil:
					obs = "None"
				case err != nil:
					obs = "(Some None)"
				default:
					var us []string
					for _, r := range res {
						us = append(us, cqZ(int64(r)))
					}
					obs = "(Some (Some " + cqList(us) + "))"
					if len(us) == 0 {
						obs = "(Some (Some (@nil Z)))"
					}
				}
				out.Add("bmp", Case{Coq: fmt.Sprintf("(%s, %s)", cqBytes(string(b)), obs), Tag: fmt.Sprintf("%d/%v/%v", len(b)%2, err != nil, pv != nil),
					Desc: map[string]interface{}{"bytes": hexs(b), "result": res, "error": fmt.Sprint(err), "panic": fmt.Sprint(pv)}})
			}
		}
		// ---- the four DSA key lints (Kernels/Dsa.v) on every DSA certificate of the corpus and of the zoo (key-params)
		{
			seenD := map[string]bool{}
			big := 0
			addD := func(c *x509.Certificate, what string) {
				allow := false
				if k, ok := c.PublicKey.(*dsa.PublicKey); ok && k != nil && k.P != nil && k.P.BitLen() >= 1024 && tier() == "thorough" && big < 1 {
					allow = true
				}
				if term, tag, ok := dsaCase(c, allow); ok && !seenD[term] {
					seenD[term] = true
					if allow {
						big++
					}
					out.Add("dsa", Case{Coq: term, Tag: tag, Desc: map[string]interface{}{"object": what, "statuses": tag}})
				}
			}
			for _, cc := range loadCorpus().Certs {
				if cc.Cert.PublicKeyAlgorithm == x509.DSA {
					addD(cc.Cert, cc.File)
				}
			}
			for _, zc := range certZoo() {
				if zc.Class == "key-params" {
					addD(zc.Cert, zc.File)
				}
			}
		}
		// ---- the six validity-period lints (Kernels/Validity.v, calendar arithmetic of Kernels/Calendar.v)
		validityCases(func(term, tag string, desc map[string]interface{}) {
			out.Add("validity", Case{Coq: term, Tag: tag, Desc: desc})
		})
		// ---- e_subject_dn_not_printable_characters: the attribute values of real subjects (zoo) and of crafted ones
		{
			seen := map[string]bool{}
			addDN := func(rawSubject []byte, what string) {
				var seq util.RawRDNSequence
				rest, err := asn1.Unmarshal(rawSubject, &seq)
				if err != nil || len(rest) > 0 {
					return
				}
				var vals []string
				for _, set := range seq {
					for _, atv := range set {
						vals = append(vals, string(atv.Value.Bytes))
					}
				}
				c := &x509.Certificate{RawSubject: rawSubject, NotBefore: eff, NotAfter: eff.AddDate(0, 3, 0)}
				st := runCertLint("e_subject_dn_not_printable_characters", c)
				lst := cqBytesList(vals)
				if len(vals) == 0 {
					lst = "(@nil bytes)"
				}
				term := fmt.Sprintf("(%s, %s)", lst, cqZ(int64(st)))
				if !seen[term] {
					seen[term] = true
					out.Add("dnprint", Case{Coq: term, Tag: fmt.Sprint(st), Desc: map[string]interface{}{"subject": what, "values": vals, "status": st}})
				}
			}
			for _, zc := range certZoo() {
				if strings.HasPrefix(zc.Class, "subject") || zc.Class == "name" {
					addDN(zc.Cert.RawSubject, zc.File)
				}
			}
			cn := []byte{0x06, 0x03, 0x55, 0x04, 0x03}
			alpha := []byte{0x00, 0x1f, 0x20, 0x41, 0x7e, 0x7f, 0x80, 0x9f, 0xa0, 0xc2, 0xc3, 0xe0, 0xf0, 0xff}
			for _, v := range allStrings(alpha, 2) {
				for _, tag := range []byte{12, 19} {
					raw := encTLV(0x30, encTLV(0x31, encTLV(0x30, concat(cn, encTLV(tag, v)))))
					addDN(raw, fmt.Sprintf("crafted %x", v))
				}
			}
			for i := 0; i < 300; i++ {
				var rdns [][]byte
				for k := 1 + rng.Intn(3); k > 0; k-- {
					v := make([]byte, rng.Intn(6))
					for j := range v {
						v[j] = pick(rng, alpha)
					}
					rdns = append(rdns, encTLV(0x31, encTLV(0x30, concat(cn, encTLV(12, v)))))
				}
				addDN(encTLV(0x30, concat(rdns...)), "random")
			}
		}
		// ---- revocation-list lints and the OCSP lint against their full models (Kernels/Crl.v)
		{
			crlLints := []string{"e_cab_crl_reason_code_not_critical", "e_cab_crl_has_valid_reason_code", "e_crl_next_update_invalid", "e_crl_unique_revoked_certificate",
				"e_crl_has_authority_key_identifier", "e_crl_has_next_update", "e_crl_missing_crl_number", "e_crl_has_valid_reason_code"}
			cfgOff, _ := lint.NewConfigFromString("[e_crl_next_update_invalid]\nSubscriberCRL = false\n")
			corpus := loadCorpus()
			seen := map[string]bool{}
			for _, cc := range append(realCRLVariants(corpus), crlZoo()...) {
				crl := cc.CRL
				for ci, cfg := range []lint.Configuration{lint.NewEmptyConfig(), cfgOff} {
					var es []string
					for _, rc := range crl.RevokedCertificates {
						reason := "None"
						if rc.ReasonCode != nil {
							reason = fmt.Sprintf("(Some %s)", cqZ(int64(*rc.ReasonCode)))
						}
						crit := false
						for _, ext := range rc.Extensions {
							if ext.Id.Equal(util.ReasonCodeOID) && ext.Critical {
								crit = true
							}
						}
						es = append(es, fmt.Sprintf("(mkEntry %s %s %s)", cqZs(rc.SerialNumber.String()), reason, cqBool(crit)))
					}
					entries := cqList(es)
					if len(es) == 0 {
						entries = "(@nil crl_entry)"
					}
					aki, num := false, false
					for _, ext := range crl.Extensions {
						if ext.Id.Equal(util.AuthkeyOID) {
							aki = true
						}
						if ext.Id.Equal(util.CRLNumberOID) {
							num = true
						}
					}
					view := fmt.Sprintf("(mkCrlView %s %s %s %s %s %s %s)", entries, cqBool(!crl.NextUpdate.IsZero()), cqZ(crl.ThisUpdate.Unix()),
						cqZ(crl.NextUpdate.Unix()), cqBool(aki), cqBool(num), cqBool(ci == 0))
					sts := make([]string, len(crlLints))
					tag := ""
					for i, n := range crlLints {
						st := -3
						if l := lint.GlobalRegistry().RevocationListLints().ByName(n); l != nil {
							func() {
								defer func() {
									if recover() != nil {
										st = -1
									}
								}()
								st = statusOrPanic(l.Execute(crl, cfg))
							}()
						}
						if st == 2 {
							st = -9 // dated before the lint's effective date
						}
						sts[i] = cqZ(int64(st))
						tag += fmt.Sprint(st)
					}
					term := fmt.Sprintf("(%s, %s)", view, cqList(sts))
					if !seen[term] {
						seen[term] = true
						out.Add("crl", Case{Coq: term, Tag: tag, Desc: map[string]interface{}{"crl": cc.File, "subscriber_config": ci == 0, "statuses": tag}})
					}
				}
			}
			for _, cc := range append(realOCSPVariants(corpus), ocspZoo()...) {
				st := -3
				if l := lint.GlobalRegistry().OcspResponseLints().ByName("e_this_update_not_after_produced_at"); l != nil {
					func() {
						defer func() {
							if recover() != nil {
								st = -1
							}
						}()
						st = statusOrPanic(l.Execute(cc.Resp, lint.NewEmptyConfig()))
					}()
				}
				if st == 2 {
					continue
				}
				out.Add("ocsp", Case{Coq: fmt.Sprintf("(%s, %s, %s)", instantZ(cc.Resp.ThisUpdate), instantZ(cc.Resp.ProducedAt), cqZ(int64(st))), Tag: fmt.Sprint(st),
					Desc: map[string]interface{}{"response": cc.File, "thisUpdate": cc.Resp.ThisUpdate.String(), "producedAt": cc.Resp.ProducedAt.String(), "status": st}})
			}
		}
		// ---- what the parser lets through: validity fields of many shapes spliced into a real certificate; every
		// GeneralizedTime the parser accepts must satisfy the guard the theorems need (at least 5 octets)
		{
			_, base, err := issue(leafTemplate(), nil)
			accepted, refused := 0, 0
			if err == nil {
				shapes := [][]byte{}
				for _, s := range []string{"20240301000000Z", "202403010000Z", "2024030100Z", "20240301000000.5Z", "20240301000000+0100", "202403010000+0100", "20240301000000-0100", "20240301000000",
					"Z", "", "0", "00Z", "2024Z", "+0100", "20240301000000z", "20240301000000.Z", "99991231235959Z", "00000101000000Z", "20240301000000+0000", "20240301000000-0000", "20241301000000Z",
					"20240301000060Z", "20240301240000Z"} {
					shapes = append(shapes, []byte(s))
				}
				for _, sh := range shapes {
					for _, pos := range []int{0, 1} {
						der, err := replaceValidity(base.Raw, pos, 24, sh)
						if err != nil {
							continue
						}
						c, err := safeParseCert(der)
						if err != nil {
							refused++
							continue
						}
						accepted++
						if len(sh) < 5 {
							out.Violate("C02|parser-accepts-short-generalized-time", fmt.Sprintf("the parser accepts a GeneralizedTime of %d octets (%q): the time-format lints index 5 octets from its end", len(sh), sh),
								map[string]interface{}{"der": hexs(der)}, nil, nil)
						}
						for _, n := range []string{"e_generalized_time_does_not_include_seconds", "e_generalized_time_includes_fraction_seconds", "e_generalized_time_not_in_zulu"} {
							if s := runCertLint(n, c); s == -1 {
								out.Violate("C02|panicked:"+n, fmt.Sprintf("%s panics on a parser-accepted certificate whose validity field %d is the GeneralizedTime %q", n, pos, sh), map[string]interface{}{"der": hexs(der)}, nil, nil)
							}
						}
					}
				}
			}
			out.Stats["validity_shapes_accepted_by_parser"] = accepted
			out.Stats["validity_shapes_refused_by_parser"] = refused
		}
		return out.Emit()
	}
}

// replaceValidity rewrites notBefore (pos 0) or notAfter (pos 1) of a certificate with the given TLV.
func replaceValidity(der []byte, pos int, tag byte, content []byte) ([]byte, error) {
	top, err := parseTLVs(der)
	if err != nil || len(top) != 1 {
		return nil, fmt.Errorf("not a certificate")
	}
	parts, err := parseTLVs(top[0].content)
	if err != nil || len(parts) != 3 {
		return nil, fmt.Errorf("not a certificate")
	}
	tbs, err := parseTLVs(parts[0].content)
	if err != nil {
		return nil, err
	}
	idx := 3
	if len(tbs) > 0 && tbs[0].tag == 0xA0 {
		idx = 4
	}
	if len(tbs) <= idx {
		return nil, fmt.Errorf("no validity")
	}
	times, err := parseTLVs(tbs[idx].content)
	if err != nil || len(times) != 2 {
		return nil, fmt.Errorf("bad validity")
	}
	nt := [][]byte{times[0].full, times[1].full}
	nt[pos] = encTLV(tag, content)
	var items [][]byte
	for i, it := range tbs {
		if i == idx {
			items = append(items, encTLV(0x30, concat(nt...)))
		} else {
			items = append(items, it.full)
		}
	}
	return encTLV(0x30, concat(encTLV(0x30, concat(items...)), parts[1].full, parts[2].full)), nil
}

// replaceTBSField replaces the field of the to-be-signed part at position idx (counted after the optional version:
// 0 serial, 1 signature, 2 issuer, 3 validity, 4 subject, 5 subjectPublicKeyInfo) by the given complete TLV.
func replaceTBSField(der []byte, idx int, full []byte) ([]byte, error) {
	top, err := parseTLVs(der)
	if err != nil || len(top) != 1 {
		return nil, fmt.Errorf("not a certificate")
	}
	parts, err := parseTLVs(top[0].content)
	if err != nil || len(parts) != 3 {
		return nil, fmt.Errorf("not a certificate")
	}
	tbs, err := parseTLVs(parts[0].content)
	if err != nil {
		return nil, err
	}
	if len(tbs) > 0 && tbs[0].tag == 0xA0 {
		idx++
	}
	if len(tbs) <= idx {
		return nil, fmt.Errorf("no such field")
	}
	var items [][]byte
	for i, it := range tbs {
		if i == idx {
			items = append(items, full)
		} else {
			items = append(items, it.full)
		}
	}
	return encTLV(0x30, concat(encTLV(0x30, concat(items...)), parts[1].full, parts[2].full)), nil
}

var _ = asn1.NullBytes
