package main

import (
	"regexp"
	"strings"
	"bytes"
	"os/exec"
	"os"
	"time"
	"fmt"

	"github.com/zmap/zcrypto/x509"
	"github.com/zmap/zlint/v3"
	"github.com/zmap/zlint/v3/lint"
	"golang.org/x/crypto/ocsp"
)

// checkResultSet evaluates C01's conclusions on a real result set.
func checkResultSet(out *Output, what string, rs *zlint.ResultSet, wantNames []string, metas map[string]lint.LintMetadata) {
	checkResultSetIn(out, what, rs, wantNames, metas, nil)
}

func checkResultSetIn(out *Output, what string, rs *zlint.ResultSet, wantNames []string, metas map[string]lint.LintMetadata, der []byte) {
	bad := func(key, msg string) {
		if der != nil {
			out.Violate("C01|"+key, msg, map[string]interface{}{"object": what, "der": hexs(der)}, nil, nil)
			return
		}
		out.Violate("C01|"+key, msg, what, nil, nil)
	}
	if rs == nil {
		bad("nil-resultset:"+what, "nil result set")
		return
	}
	if len(rs.Results) != len(wantNames) {
		bad("result-count:"+what, fmt.Sprintf("%d results for %d lints of this kind", len(rs.Results), len(wantNames)))
	}
	n, w, e, f := false, false, false, false
	for _, name := range wantNames {
		r, ok := rs.Results[name]
		if !ok {
			bad("missing-result:"+name, "no result for lint "+name+" on "+what)
			continue
		}
		if r == nil {
			bad("nil-result:"+name, "nil result for lint "+name+" on "+what)
			continue
		}
		if r.Status < lint.NA || r.Status > lint.Fatal {
			bad(fmt.Sprintf("status-range:%s:%d", name, r.Status), fmt.Sprintf("lint %s returned status %d on %s", name, r.Status, what))
		}
		m := metas[name]
		if r.LintMetadata.Name != m.Name || r.LintMetadata.Description != m.Description || r.LintMetadata.Citation != m.Citation ||
			r.LintMetadata.Source != m.Source || !r.LintMetadata.EffectiveDate.Equal(m.EffectiveDate) || !r.LintMetadata.IneffectiveDate.Equal(m.IneffectiveDate) {
			bad("metadata:"+name, "result of "+name+" does not carry its lint's metadata on "+what)
		}
		switch r.Status {
		case lint.Notice:
			n = true
		case lint.Warn:
			w = true
		case lint.Error:
			e = true
		case lint.Fatal:
			f = true
		}
	}
	if rs.NoticesPresent != n || rs.WarningsPresent != w || rs.ErrorsPresent != e || rs.FatalsPresent != f {
		bad("flags:"+what, fmt.Sprintf("flags (%v,%v,%v,%v) but contents say (%v,%v,%v,%v)", rs.NoticesPresent, rs.WarningsPresent, rs.ErrorsPresent, rs.FatalsPresent, n, w, e, f))
	}
	if rs.Version != 3 {
		bad("version", fmt.Sprintf("version %d", rs.Version))
	}
}

func kindNames(r lint.Registry) (cert, crl, oc []string, metas map[string]lint.LintMetadata) {
	metas = map[string]lint.LintMetadata{}
	for _, l := range r.CertificateLints().Lints() {
		cert = append(cert, l.Name)
		metas[l.Name] = l.LintMetadata
	}
	for _, l := range r.RevocationListLints().Lints() {
		crl = append(crl, l.Name)
		metas[l.Name] = l.LintMetadata
	}
	for _, l := range r.OcspResponseLints().Lints() {
		oc = append(oc, l.Name)
		metas[l.Name] = l.LintMetadata
	}
	return
}

// stream "monitor": the real registry (global and some filtered ones) on corpus objects through the
// three top-level entry points
func genMonitor(out *Output, rng *Rng) {
	lateRegistrationPrelude()
	corpus := loadCorpus()
	g := lint.GlobalRegistry()
	regs := []lint.Registry{g}
	for i := 0; i < 3; i++ {
		srcs := g.Sources()
		fr, err := g.Filter(lint.FilterOptions{IncludeSources: lint.SourceList{srcs[rng.Intn(len(srcs))], srcs[rng.Intn(len(srcs))]}})
		if err == nil {
			regs = append(regs, fr)
		}
	}
	// "returns normally" also when the calls come from several goroutines of a fresh process: a few cold children lint
	// certificates under many top-level domains concurrently; a child that dies (a run-time fatal error cannot be recovered)
	// never returned its result sets
	{
		self, _ := os.Executable()
		trials := 4
		if tier() == "thorough" {
			trials = 20
		}
		for t := 0; t < trials; t++ {
			tick()
			cmd := exec.Command(self, "c10cold", "par")
			var se bytes.Buffer
			cmd.Stderr = &se
			if _, err := cmd.Output(); err != nil {
				msg := se.String()
				if i := strings.Index(msg, "fatal error"); i >= 0 {
					msg = msg[i:]
				}
				if len(msg) > 600 {
					msg = msg[:600]
				}
				out.Violate("C01|process-dies-under-concurrent-linting", fmt.Sprintf("a fresh process that lints certificates from many goroutines died (%v): %s", err, msg),
					map[string]interface{}{"how": "harness c10cold par (lints ~400 parsed certificates, one goroutine each, as the first lint calls of the process)", "trial": t}, "every call returns a result set", "the process is gone")
				break
			}
		}
	}
	nObj := 300
	if tier() == "thorough" {
		nObj = len(corpus.Certs)
	}
	certs := corpus.sampleCerts(rng, nObj)
	for _, zc := range certZoo() {
		certs = append(certs, zc.CorpusCert)
	}
	out.Data["zoo_classes"] = zooClasses(certZoo())
	runs := 0
	hangs := 0
	hungFiles := map[string]bool{}
	for ri, r := range regs {
		cn, ln, on, metas := kindNames(r)
		for ci, cc := range certs {
			if ri > 0 && ci%5 != 0 {
				continue
			}
			var rs *zlint.ResultSet
			var pv interface{}
			hung := false
			func() {
				// "returns normally": within a generous time limit (a lint that loops for ever never returns at all)
				done := make(chan struct{})
				go func() {
					defer close(done)
					defer func() { pv = recover() }()
					rs = zlint.LintCertificateEx(cc.Cert, r)
				}()
				select {
				case <-done:
				case <-time.After(20 * time.Second):
					hung = true
				}
			}()
			runs++
			if hung {
				hungFiles[cc.File] = true
				out.Violate("C01|does-not-return:cert", fmt.Sprintf("LintCertificateEx did not return within 20 s on %s", cc.File), map[string]interface{}{"file": cc.File, "der": hexs(cc.DER)}, "a result set", "no return")
				hangs++
				if hangs >= 2 {
					break
				}
				continue
			}
			if pv != nil {
				out.Violate("C01|panic-escaped:cert:"+cc.File, fmt.Sprintf("LintCertificateEx panicked: %v", pv), map[string]interface{}{"file": cc.File, "der": hexs(cc.DER)}, nil, nil)
				continue
			}
			checkResultSetIn(out, "cert "+cc.File, rs, cn, metas, cc.DER)
		}
		for _, cc := range append(append([]CorpusCRL{}, corpus.CRLs...), crlZoo()...) {
			var rs *zlint.ResultSet
			var pv interface{}
			func() {
				defer func() { pv = recover() }()
				rs = zlint.LintRevocationListEx(cc.CRL, r)
			}()
			runs++
			if pv != nil {
				out.Violate("C01|panic-escaped:crl:"+cc.File, fmt.Sprintf("LintRevocationListEx panicked: %v", pv), map[string]interface{}{"file": cc.File, "der": hexs(cc.DER)}, nil, nil)
				continue
			}
			checkResultSet(out, "crl "+cc.File, rs, ln, metas)
		}
		for _, cc := range append(append([]CorpusOCSP{}, corpus.OCSPs...), ocspZoo()...) {
			var rs *zlint.ResultSet
			var pv interface{}
			func() {
				defer func() { pv = recover() }()
				rs = zlint.LintOcspResponseEx(cc.Resp, r)
			}()
			runs++
			if pv != nil {
				out.Violate("C01|panic-escaped:ocsp:"+cc.File, fmt.Sprintf("LintOcspResponseEx panicked: %v", pv), map[string]interface{}{"file": cc.File, "der": hexs(cc.DER)}, nil, nil)
				continue
			}
			checkResultSet(out, "ocsp "+cc.File, rs, on, metas)
		}
	}
	// the same under a configuration whose sections the configurable lints cannot read (fatal results in the set)
	if bad, err := lint.NewConfigFromString("[e_rsa_fermat_factorization]\nRounds = \"plenty\"\n[e_subj_contains_html_entities]\nSkip = 7\n[e_crl_next_update_invalid]\nSubscriberCRL = \"no\"\n"); err == nil {
		g.SetConfiguration(bad)
		cn, ln, _, metas := kindNames(g)
		for ci, cc := range certs {
			if ci%6 != 0 && tier() != "thorough" || hangs >= 2 || hungFiles[cc.File] {
				continue
			}
			var rs *zlint.ResultSet
			var pv interface{}
			func() {
				defer func() { pv = recover() }()
				rs = zlint.LintCertificateEx(cc.Cert, g)
			}()
			runs++
			if pv != nil {
				out.Violate("C01|panic-escaped:cert-badconfig", fmt.Sprintf("LintCertificateEx panicked under an unreadable configuration: %v", pv), map[string]interface{}{"file": cc.File}, nil, nil)
				continue
			}
			checkResultSetIn(out, "cert "+cc.File+" under an unreadable configuration", rs, cn, metas, cc.DER)
		}
		for _, cc := range corpus.CRLs {
			var rs *zlint.ResultSet
			var pv interface{}
			func() {
				defer func() { pv = recover() }()
				rs = zlint.LintRevocationListEx(cc.CRL, g)
			}()
			runs++
			if pv != nil {
				out.Violate("C01|panic-escaped:crl-badconfig", fmt.Sprintf("LintRevocationListEx panicked under an unreadable configuration: %v", pv), cc.File, nil, nil)
				continue
			}
			checkResultSet(out, "crl "+cc.File+" under an unreadable configuration", rs, ln, metas)
		}
		g.SetConfiguration(lint.NewEmptyConfig())
	}
	// hostile / mutated objects the parser accepts (shared with C02's engine): the result set must still be complete
	nMut := 300
	if tier() == "thorough" {
		nMut = 5000
	}
	cn, _, _, metas := kindNames(g)
	mutLinted := 0
	for i := 0; i < nMut; i++ {
		cc := corpus.Certs[rng.Intn(len(corpus.Certs))]
		der, what, err := mutateExtensions(cc.DER, rng)
		if err != nil || what == "" {
			continue
		}
		c, err := safeParseCert(der)
		if err != nil {
			continue
		}
		mutLinted++
		var rs *zlint.ResultSet
		var pv interface{}
		func() {
			defer func() { pv = recover() }()
			rs = zlint.LintCertificateEx(c, g)
		}()
		if pv != nil {
			out.Violate("C01|panic-escaped:cert-mutant", fmt.Sprintf("LintCertificateEx panicked on a mutant of %s (%s): %v", cc.File, what, pv), map[string]interface{}{"der": hexs(der)}, nil, nil)
			continue
		}
		checkResultSet(out, "mutant of "+cc.File+" ("+what+")", rs, cn, metas)
	}
	out.Stats["mutants_linted"] = mutLinted
	// what Filter hands back together with an error (unknown name, pattern next to names, unparsable pattern, unknown
	// source): a caller that logs the error and carries on passes that value to Lint*Ex - the documented behaviour for
	// "no registry" is the global one, so the run must come back complete, for every object kind
	{
		gcn, gln, gon, gmetas := kindNames(g)
		someName := ""
		if len(gcn) > 0 {
			someName = gcn[0]
		}
		rejected := []lint.FilterOptions{
			{IncludeNames: []string{"e_no_such_lint_anywhere"}}, {ExcludeNames: []string{"e_no_such_lint_anywhere"}},
			{IncludeNames: []string{someName, "e_no_such_lint_anywhere"}}, {NameFilter: regexp.MustCompile("^e_"), IncludeNames: []string{someName}},
			{NameFilter: regexp.MustCompile("^e_"), ExcludeNames: []string{someName}},
		}
		nRej := 0
		for oi, o := range rejected {
			fr, err := g.Filter(o)
			if err == nil {
				continue
			}
			nRej++
			what := fmt.Sprintf("the value Filter returned together with the error %q (options #%d)", err.Error(), oi)
			var pv interface{}
			var rs *zlint.ResultSet
			if len(corpus.Certs) > 0 {
				func() {
					defer func() { pv = recover() }()
					rs = zlint.LintCertificateEx(corpus.Certs[0].Cert, fr)
				}()
				if pv != nil {
					out.Violate("C01|panic-escaped:rejected-filter:cert", fmt.Sprintf("LintCertificateEx panicked when given %s: %v", what, pv), map[string]interface{}{"file": corpus.Certs[0].File, "options": fmt.Sprint(o)}, "the complete run of the global registry", "panic")
				} else {
					checkResultSet(out, "cert "+corpus.Certs[0].File+" with "+what, rs, gcn, gmetas)
				}
			}
			if len(corpus.CRLs) > 0 {
				pv = nil
				func() {
					defer func() { pv = recover() }()
					rs = zlint.LintRevocationListEx(corpus.CRLs[0].CRL, fr)
				}()
				if pv != nil {
					out.Violate("C01|panic-escaped:rejected-filter:crl", fmt.Sprintf("LintRevocationListEx panicked when given %s: %v", what, pv), map[string]interface{}{"file": corpus.CRLs[0].File, "options": fmt.Sprint(o)}, "the complete run of the global registry", "panic")
				} else {
					checkResultSet(out, "crl "+corpus.CRLs[0].File+" with "+what, rs, gln, gmetas)
				}
			}
			if len(corpus.OCSPs) > 0 {
				pv = nil
				func() {
					defer func() { pv = recover() }()
					rs = zlint.LintOcspResponseEx(corpus.OCSPs[0].Resp, fr)
				}()
				if pv != nil {
					out.Violate("C01|panic-escaped:rejected-filter:ocsp", fmt.Sprintf("LintOcspResponseEx panicked when given %s: %v", what, pv), map[string]interface{}{"file": corpus.OCSPs[0].File, "options": fmt.Sprint(o)}, "the complete run of the global registry", "panic")
				} else {
					checkResultSet(out, "ocsp "+corpus.OCSPs[0].File+" with "+what, rs, gon, gmetas)
				}
			}
		}
		out.Stats["rejected_filter_values_linted"] = nRej
	}
	// nil inputs
	if zlint.LintCertificateEx(nil, g) != nil || zlint.LintRevocationListEx(nil, g) != nil || zlint.LintOcspResponseEx(nil, g) != nil {
		out.Violate("C01|nil-input", "nil object did not yield a nil result set", nil, nil, nil)
	}
	out.Stats["monitor_runs"] = runs
	out.Stats["monitor_registries"] = len(regs)
	_ = x509.ExtKeyUsageAny
	_ = ocsp.Good
}
