package main

import (
	"bytes"
	"crypto/rand"
	"math/big"
	"time"
	stdx509 "crypto/x509"
	"crypto/x509/pkix"
	"encoding/asn1"
	"fmt"
	"strings"

	"github.com/zmap/zcrypto/x509"
	"github.com/zmap/zlint/v3"
	"github.com/zmap/zlint/v3/lint"
	"golang.org/x/crypto/ocsp"
)

// ---------- a DER tree that can be mutated and re-encoded ----------

type dnode struct {
	tag     byte
	prim    []byte   // primitive content
	kids    []*dnode // constructed content, or the TLVs wrapped inside an OCTET STRING
	wrapped bool     // an OCTET STRING whose content parsed as DER
}

func parseNode(t rawTLV, depth int) *dnode {
	n := &dnode{tag: t.tag}
	if t.tag&0x20 != 0 && depth < 12 {
		if ks, err := parseTLVs(t.content); err == nil {
			for _, k := range ks {
				n.kids = append(n.kids, parseNode(k, depth+1))
			}
			return n
		}
	}
	if t.tag == 0x04 && len(t.content) > 1 && depth < 12 {
		if ks, err := parseTLVs(t.content); err == nil && len(ks) > 0 {
			n.wrapped = true
			for _, k := range ks {
				n.kids = append(n.kids, parseNode(k, depth+1))
			}
			return n
		}
	}
	n.prim = append([]byte{}, t.content...)
	return n
}

func (n *dnode) encode() []byte {
	if n.kids != nil || n.wrapped || (n.tag&0x20 != 0 && n.prim == nil) {
		var body [][]byte
		for _, k := range n.kids {
			body = append(body, k.encode())
		}
		return encTLV(n.tag, concat(body...))
	}
	return encTLV(n.tag, n.prim)
}

func (n *dnode) collect(path []*dnode, out *[][]*dnode) {
	p := append(append([]*dnode{}, path...), n)
	*out = append(*out, p)
	for _, k := range n.kids {
		k.collect(p, out)
	}
}

var stringTags = []byte{0x0c, 0x13, 0x16, 0x1e, 0x14, 0x1a, 0x1c, 0x04, 0x03}

// mutateExtensions applies one structure-aware mutation somewhere inside the extension values of a certificate
func mutateExtensions(der []byte, rng *Rng) ([]byte, string, error) {
	what := ""
	out, err := rewriteExtensions(der, func(exts []rawTLV) [][]byte {
		var res [][]byte
		target := rng.Intn(len(exts))
		for i, e := range exts {
			if i != target {
				res = append(res, e.full)
				continue
			}
			root := parseNode(e, 0)
			var paths [][]*dnode
			root.collect(nil, &paths)
			// skip the extension's own OID/critical header: mutate inside the value (3rd level and below) when possible
			var cands [][]*dnode
			for _, p := range paths {
				if len(p) >= 3 {
					cands = append(cands, p)
				}
			}
			if len(cands) == 0 {
				cands = paths
			}
			p := cands[rng.Intn(len(cands))]
			n := p[len(p)-1]
			var parent *dnode
			if len(p) >= 2 {
				parent = p[len(p)-2]
			}
			switch rng.Intn(8) {
			case 0:
				what = fmt.Sprintf("empty content of tag %02x", n.tag)
				n.prim, n.kids = []byte{}, nil
				if n.tag&0x20 != 0 || n.wrapped {
					n.kids = []*dnode{}
				}
			case 1:
				if len(n.prim) > 1 {
					k := 1 + rng.Intn(len(n.prim)-1)
					what = fmt.Sprintf("truncate tag %02x to %d bytes", n.tag, k)
					n.prim = n.prim[:k]
				} else {
					what = "truncate to one byte"
					n.prim, n.kids = []byte{0x00}, nil
				}
			case 2:
				t := stringTags[rng.Intn(len(stringTags))]
				what = fmt.Sprintf("retag %02x as %02x", n.tag, t)
				if n.kids == nil {
					n.tag = t
				}
			case 3:
				if parent != nil {
					what = fmt.Sprintf("duplicate element tag %02x", n.tag)
					parent.kids = append(parent.kids, n)
				}
			case 4:
				if parent != nil && len(parent.kids) > 0 {
					what = fmt.Sprintf("delete element tag %02x", n.tag)
					var ks []*dnode
					for _, k := range parent.kids {
						if k != n {
							ks = append(ks, k)
						}
					}
					parent.kids = ks
					if parent.kids == nil {
						parent.kids = []*dnode{}
					}
				}
			case 5:
				if n.kids == nil && len(n.prim) > 0 {
					what = fmt.Sprintf("end tag %02x with a UTF-8 lead byte", n.tag)
					n.prim = append(n.prim[:len(n.prim)-1], pick(rng, []byte{0xc2, 0xe0, 0xf0, 0xc3, 0xff, 0x80}))
				}
			case 6:
				if n.kids == nil {
					what = fmt.Sprintf("hostile short content in tag %02x", n.tag)
					n.prim = pick(rng, [][]byte{{}, {0x00}, {0xc2}, {0x07}, {0x00, 0x00}, {0x2e}, {0x2a}, {0x3c}, {0x29}, {0xff, 0xff}, {0x5a}, {0x2d}, {0x2b}})
				}
			default:
				if parent != nil && len(parent.kids) > 1 {
					what = "reverse children"
					for i, j := 0, len(parent.kids)-1; i < j; i, j = i+1, j-1 {
						parent.kids[i], parent.kids[j] = parent.kids[j], parent.kids[i]
					}
				}
			}
			res = append(res, root.encode())
		}
		return res
	})
	return out, what, err
}

// ---------- hostile extension contents aimed at the hand-written walkers ----------

func explicitTextCert(tag byte, text []byte) (*stdx509.Certificate, pkix.Extension) {
	// certificatePolicies ::= SEQ OF PolicyInformation{ policyIdentifier, SEQ OF PolicyQualifierInfo{ id-qt-unotice, UserNotice{ explicitText } } }
	oidAny, _ := asn1.Marshal(asn1.ObjectIdentifier{2, 23, 140, 1, 2, 1})
	oidUN, _ := asn1.Marshal(asn1.ObjectIdentifier{1, 3, 6, 1, 5, 5, 7, 2, 2})
	userNotice := encTLV(0x30, encTLV(tag, text))
	qual := encTLV(0x30, concat(oidUN, userNotice))
	pi := encTLV(0x30, concat(oidAny, encTLV(0x30, qual)))
	ext := pkix.Extension{Id: asn1.ObjectIdentifier{2, 5, 29, 32}, Value: encTLV(0x30, pi)}
	t := leafTemplate()
	t.PolicyIdentifiers = nil
	return t, ext
}

func panicMarkers(rs *zlint.ResultSet) []string {
	var out []string
	for n, r := range rs.Results {
		if r != nil && r.Status == 7 && strings.Contains(r.Details, "panicked") {
			out = append(out, n+": "+r.Details)
		}
	}
	return out
}

func init() {
	commands["c02"] = func(args []string) error {
		out := NewOutput()
		rng := NewRng(seedFromEnv(), "c02")
		linted, rejected := 0, 0
		classes := map[string]int{}
		lintCert := func(der []byte, why string, detail map[string]interface{}) {
			tick()
			c, err := safeParseCert(der)
			if err != nil {
				rejected++
				classes["rejected by parser: "+why]++
				return
			}
			linted++
			classes["linted: "+why]++
			var rs *zlint.ResultSet
			var pv interface{}
			func() {
				defer func() { pv = recover() }()
				rs = zlint.LintCertificate(c)
			}()
			d := map[string]interface{}{"why": why, "der": hexs(der)}
			for k, v := range detail {
				d[k] = v
			}
			if pv != nil {
				out.Violate("C02|panic-escapes:cert", fmt.Sprintf("LintCertificate panicked: %v (%s)", pv, why), d, nil, nil)
				return
			}
			for _, m := range panicMarkers(rs) {
				name := strings.SplitN(m, ":", 2)[0]
				out.Violate("C02|panicked:"+name, fmt.Sprintf("%s (%s)", m, why), d, "the lint runs to completion", m)
			}
		}
		// (1) the explicitText walker: every byte string up to length 3 over a 12-symbol alphabet, as UTF8String
		alpha := []byte{0x41, 0x0a, 0x7f, 0x80, 0x9f, 0xa0, 0xc2, 0xc3, 0xe0, 0xf0, 0xf8, 0xfc}
		maxLen := 2
		if tier() == "thorough" {
			maxLen = 3
		}
		var strs [][]byte
		var gen func(prefix []byte, n int)
		gen = func(prefix []byte, n int) {
			strs = append(strs, append([]byte{}, prefix...))
			if n == 0 {
				return
			}
			for _, a := range alpha {
				gen(append(prefix, a), n-1)
			}
		}
		gen(nil, maxLen)
		for i := 0; i < 60; i++ { // longer random ones ending in a lead byte
			b := make([]byte, 3+rng.Intn(8))
			for j := range b {
				b[j] = pick(rng, alpha)
			}
			strs = append(strs, b)
		}
		for _, st := range strs {
			for _, tag := range []byte{12} {
				t, ext := explicitTextCert(tag, st)
				t.ExtraExtensions = append(t.ExtraExtensions, ext)
				der, _, err := issue(t, nil)
				if err != nil {
					rejected++
					continue
				}
				lintCert(der, "explicitText", map[string]interface{}{"explicitText_hex": hexs(st)})
				// the walker against the model: bytes and observed behaviour of w_ext_cert_policy_explicit_text_includes_control
				if c, err := safeParseCert(der); err == nil {
					r := zlint.LintCertificate(c).Results["w_ext_cert_policy_explicit_text_includes_control"]
					if r != nil && r.Status != 1 && r.Status != 2 {
						obs := int(r.Status)
						if r.Status == 7 && strings.Contains(r.Details, "panicked") {
							obs = -1
						}
						out.Add("walker", Case{Coq: fmt.Sprintf("(%s, %s)", cqBytes(string(st)), cqZ(int64(obs))), Tag: fmt.Sprint(obs), Desc: map[string]interface{}{"bytes": hexs(st), "observed": obs}})
					}
				}
			}
		}
		// (1b) explicitText in the other string types the parser lets through (BMPString, VisibleString, IA5String,
		// UniversalString): for BMPString every sequence of up to three code units over an alphabet with zero low octets,
		// zero high octets, the NUL terminator, surrogates and noncharacters, with and without a dangling octet
		{
			units := [][]byte{{0x00, 0x41}, {0x4e, 0x00}, {0x01, 0x00}, {0x00, 0x00}, {0xd8, 0x00}, {0xff, 0xff}, {0x00, 0x0a}, {0x00, 0x9f}}
			var texts [][]byte
			var genU func(prefix []byte, n int)
			genU = func(prefix []byte, n int) {
				texts = append(texts, append([]byte{}, prefix...))
				if n == 0 {
					return
				}
				for _, u := range units {
					genU(append(append([]byte{}, prefix...), u...), n-1)
				}
			}
			depth := 2
			if tier() == "thorough" {
				depth = 3
			}
			genU(nil, depth)
			for i := 0; i < 40; i++ {
				var b []byte
				for j := 0; j < 3+rng.Intn(100); j++ {
					b = append(b, units[rng.Intn(len(units))]...)
				}
				if i%8 == 7 {
					b = append(b, 0x41)
				}
				texts = append(texts, b)
			}
			texts = append(texts, []byte{0x41}, []byte{0x00}, []byte{0x4e, 0x00, 0x00}, bytes.Repeat([]byte{0x4e, 0x00}, 201), append(bytes.Repeat([]byte{0x00, 0x41}, 200), 0x00, 0x00))
			for _, st := range texts {
				for _, tag := range []byte{30, 26, 22, 28} {
					if tag != 30 && len(st) > 6 && len(st) < 300 {
						continue
					}
					t, ext := explicitTextCert(tag, st)
					t.ExtraExtensions = append(t.ExtraExtensions, ext)
					der, _, err := issue(t, nil)
					if err != nil {
						rejected++
						continue
					}
					lintCert(der, fmt.Sprintf("explicitText of string type %d", tag), map[string]interface{}{"explicitText_hex": hexs(st), "string_tag": tag})
				}
			}
		}
		// (2) hostile KeyUsage / SCT / subject-directory contents through ExtraExtensions
		hostile := hostileExtensions
		for _, h := range hostile {
			for _, crit := range []bool{false, true} {
				t := leafTemplate()
				if h.oid.Equal(asn1.ObjectIdentifier{2, 5, 29, 15}) {
					t.KeyUsage = 0
				}
				if h.oid.Equal(asn1.ObjectIdentifier{2, 5, 29, 37}) {
					t.ExtKeyUsage = nil
				}
				if h.oid.Equal(asn1SAN) {
					t.DNSNames = nil
				}
				t.ExtraExtensions = append(t.ExtraExtensions, pkix.Extension{Id: h.oid, Critical: crit, Value: h.val})
				der, _, err := issue(t, nil)
				if err != nil {
					rejected++
					continue
				}
				lintCert(der, h.why, nil)
			}
		}
		// (3) names of every kind in SAN and IAN (empty strings, one-label names, onion shapes, odd rfc822 names)
		extraNames := []genName{{2, []byte("onion")}, {2, []byte(".onion")}, {2, []byte("a.onion")}, {2, []byte(strings.Repeat("a", 56) + ".onion")}, {2, []byte("x." + strings.Repeat("b", 16) + ".onion")},
			{1, []byte("<")}, {1, []byte(")")}, {1, []byte("<a@b>")}, {1, []byte("a@b (c)")}, {2, []byte(".")}, {2, []byte("..")}, {2, []byte("*")}, {2, []byte("*.")}, {2, []byte("in-addr.arpa")},
			{2, []byte("1.in-addr.arpa")}, {2, []byte("x.ip6.arpa")}, {6, []byte(":")}, {6, []byte("%")}, {6, []byte("http://%zz/")}, {7, []byte{}}, {7, []byte{1, 2, 3}}, {7, []byte{1, 2, 3, 4, 5}}}
		// characters that decoders skip or treat specially (base32/base64 skip CR and LF; '=' is padding), in labels of
		// exactly the lengths the onion helpers look for
		for _, ch := range []string{"\n", "\r", "=", " ", "\x00", "\t"} {
			for _, n := range []int{16, 56} {
				extraNames = append(extraNames, genName{2, []byte(strings.Repeat(ch, n) + ".onion")}, genName{2, []byte("www." + strings.Repeat(ch, n) + ".onion")},
					genName{2, []byte(strings.Repeat("a", n-8) + strings.Repeat(ch, 8) + ".onion")})
			}
		}
		pool := append(append([]genName{}, namePool...), extraNames...)
		// every extra name also alone, as the only SAN entry and as the common name
		for _, en := range extraNames {
			for _, inCN := range []bool{false, true} {
				t := leafTemplate()
				t.DNSNames = nil
				t.PolicyIdentifiers = append(t.PolicyIdentifiers, []int{2, 23, 140, 1, 2, 2})
				if inCN && en.tag == 2 {
					t.Subject.CommonName = string(en.value)
				}
				t.ExtraExtensions = append(t.ExtraExtensions, generalNamesExt(asn1SAN, []genName{en}, false))
				if der, _, err := issue(t, nil); err == nil {
					lintCert(der, "general names", map[string]interface{}{"name": fmt.Sprintf("[%d]%q", en.tag, en.value), "in_common_name": inCN})
				} else {
					rejected++
				}
			}
		}
		nNames := 150
		if tier() == "thorough" {
			nNames = 2500
		}
		for i := 0; i < nNames; i++ {
			var names []genName
			for j := rng.Intn(4); j >= 0; j-- {
				names = append(names, pick(rng, pool))
			}
			t := leafTemplate()
			t.DNSNames = nil
			switch rng.Intn(4) {
			case 0:
				t.Subject.CommonName = ""
			case 1:
				t.Subject.CommonName = string(pick(rng, pool).value)
			}
			if rng.Intn(5) == 0 {
				t.PolicyIdentifiers = append(t.PolicyIdentifiers, []int{2, 23, 140, 1, 1})
			}
			t.ExtraExtensions = append(t.ExtraExtensions, generalNamesExt(asn1SAN, names, rng.Bool()))
			if rng.Bool() {
				t.ExtraExtensions = append(t.ExtraExtensions, generalNamesExt(asn1IAN, names, false))
			}
			der, _, err := issue(t, nil)
			if err != nil {
				rejected++
				continue
			}
			lintCert(der, "general names", nil)
		}
		// (3b) structured subjects: repeated attributes in both orders under every scope profile
		{
			nRand := 1200
			if tier() == "thorough" {
				nRand = 30000
			}
			sc := structuredSubjects(rng, tier() == "thorough", nRand)
			for _, c := range sc {
				lintCert(c.DER, strings.SplitN(c.Why, " ", 3)[0]+" subject attribute", map[string]interface{}{"profile": c.Why, "subject": c.Attrs})
			}
			out.Stats["structured_subjects"] = len(sc)
		}
		// (3c) the shared zoo (key usages x EKUs, signature algorithms, oddly typed subject strings, names under TLDs of every
		// status, related names, several IP addresses, validity encodings, ...)
		for _, zc := range certZoo() {
			lintCert(zc.DER, "zoo "+zc.Class, map[string]interface{}{"zoo": zc.File})
		}
		// (4) corpus x structure-aware mutation of extension contents
		corpus := loadCorpus()
		nMut := 1500
		if tier() == "thorough" {
			nMut = 40000
		}
		for i := 0; i < nMut; i++ {
			cc := corpus.Certs[rng.Intn(len(corpus.Certs))]
			der, what, err := mutateExtensions(cc.DER, rng)
			if err != nil || what == "" {
				continue
			}
			lintCert(der, "mutation", map[string]interface{}{"file": cc.File, "mutation": what})
		}
		// (5) every corpus object through the three entry points (CRL / OCSP have no recovery net)
		for _, cc := range corpus.Certs {
			lintCert(cc.DER, "corpus", map[string]interface{}{"file": cc.File})
		}
		crlRuns := 0
		for _, cc := range corpus.CRLs {
			var pv interface{}
			var rs *zlint.ResultSet
			func() {
				defer func() { pv = recover() }()
				rs = zlint.LintRevocationList(cc.CRL)
			}()
			crlRuns++
			if pv != nil {
				out.Violate("C02|panic-escapes:crl", fmt.Sprintf("LintRevocationList panicked on %s: %v", cc.File, pv), cc.File, nil, nil)
			} else if m := panicMarkers(rs); len(m) > 0 {
				out.Violate("C02|panicked:crl", m[0], cc.File, nil, nil)
			}
			// mutated CRLs: truncate / empty the extension and entry contents
			for k := 0; k < 6; k++ {
				mut := mutateAny(cc.DER, rng)
				crl, err := safeParseCRL(mut)
				if err != nil {
					rejected++
					continue
				}
				linted++
				classes["linted: crl mutation"]++
				func() {
					defer func() {
						if p := recover(); p != nil {
							out.Violate("C02|panic-escapes:crl", fmt.Sprintf("LintRevocationList panicked on a mutant of %s: %v", cc.File, p), map[string]interface{}{"file": cc.File, "der": hexs(mut)}, nil, nil)
						}
					}()
					zlint.LintRevocationList(crl)
				}()
			}
		}
		for _, cc := range corpus.OCSPs {
			func() {
				defer func() {
					if p := recover(); p != nil {
						out.Violate("C02|panic-escapes:ocsp", fmt.Sprintf("LintOcspResponse panicked on %s: %v", cc.File, p), cc.File, nil, nil)
					}
				}()
				zlint.LintOcspResponse(cc.Resp)
			}()
			for k := 0; k < 40; k++ {
				mut := mutateAny(cc.DER, rng)
				r, err := safeParseOCSP(mut)
				if err != nil {
					rejected++
					continue
				}
				linted++
				classes["linted: ocsp mutation"]++
				func() {
					defer func() {
						if p := recover(); p != nil {
							out.Violate("C02|panic-escapes:ocsp", fmt.Sprintf("LintOcspResponse panicked on a mutant of %s: %v", cc.File, p), map[string]interface{}{"file": cc.File, "der": hexs(mut)}, nil, nil)
						}
					}()
					zlint.LintOcspResponse(r)
				}()
			}
		}
		// (6) directed CRLs and OCSP responses (the corpus has only a handful): hostile reason codes, entry extensions,
		// missing / odd CRL extensions, response statuses and times.  These kinds have no recovery net.
		k := getKit()
		reasonCodes := []int{-1, -128, -1 << 20, 0, 1, 2, 3, 4, 5, 6, 7, 8, 9, 10, 11, 12, 127, 128, 255, 1 << 20}
		nCrl := 120
		if tier() == "thorough" {
			nCrl = 2000
		}
		for i := 0; i < nCrl; i++ {
			tmpl := &stdx509.RevocationList{Number: big.NewInt(int64(rng.Intn(1000))), ThisUpdate: time.Date(2024, 1, 1+rng.Intn(20), 0, 0, 0, 0, time.UTC)}
			tmpl.NextUpdate = tmpl.ThisUpdate.Add(time.Duration(1+rng.Intn(400)) * 24 * time.Hour)
			if rng.Intn(8) == 0 {
				tmpl.Number = new(big.Int).Lsh(big.NewInt(1), 170)
			}
			for j := rng.Intn(4); j > 0; j-- {
				e := stdx509.RevocationListEntry{SerialNumber: big.NewInt(int64(1 + rng.Intn(1<<30))), RevocationTime: tmpl.ThisUpdate.Add(-time.Duration(rng.Intn(1000)) * time.Hour)}
				if rng.Intn(3) != 0 {
					e.ReasonCode = pick(rng, reasonCodes)
				}
				if rng.Intn(4) == 0 {
					e.ExtraExtensions = append(e.ExtraExtensions, pkix.Extension{Id: asn1.ObjectIdentifier{2, 5, 29, 24}, Value: pick(rng, [][]byte{{0x18, 0x0f, '2', '0', '2', '3', '0', '1', '0', '1', '0', '0', '0', '0', '0', '0', 'Z'}, {0x18, 0x00}, {0x05, 0x00}})})
				}
				if rng.Intn(6) == 0 {
					e.ReasonCode = pick(rng, []int{-1, -128, -129, 7, 1 << 16})
				}
				tmpl.RevokedCertificateEntries = append(tmpl.RevokedCertificateEntries, e)
			}
			switch rng.Intn(6) {
			case 0:
				tmpl.ExtraExtensions = append(tmpl.ExtraExtensions, pkix.Extension{Id: asn1.ObjectIdentifier{2, 5, 29, 28}, Critical: true, Value: []byte{0x30, 0x00}})
			case 1:
				tmpl.ExtraExtensions = append(tmpl.ExtraExtensions, pkix.Extension{Id: asn1.ObjectIdentifier{2, 5, 29, 46}, Value: []byte{0x30, 0x00}})
			case 2:
				tmpl.ExtraExtensions = append(tmpl.ExtraExtensions, pkix.Extension{Id: asn1.ObjectIdentifier{2, 5, 29, 27}, Critical: true, Value: []byte{0x02, 0x01, 0x01}})
			case 3:
				tmpl.ExtraExtensions = append(tmpl.ExtraExtensions, pkix.Extension{Id: asn1.ObjectIdentifier{2, 5, 29, 18}, Value: []byte{0x30, 0x00}})
			}
			der, err := stdx509.CreateRevocationList(rand.Reader, tmpl, k.caCert, k.caKey)
			if err != nil {
				rejected++
				continue
			}
			crl, err := safeParseCRL(der)
			if err != nil {
				rejected++
				classes["rejected by parser: generated crl"]++
				continue
			}
			linted++
			classes["linted: generated crl"]++
			func() {
				defer func() {
					if p := recover(); p != nil {
						var codes []int
						for _, e := range tmpl.RevokedCertificateEntries {
							codes = append(codes, e.ReasonCode)
						}
						out.Violate("C02|panic-escapes:crl", fmt.Sprintf("LintRevocationList panicked on a generated CRL (entry reason codes %v): %v", codes, p), map[string]interface{}{"der": hexs(der), "reason_codes": codes}, nil, nil)
					}
				}()
				if m := panicMarkers(zlint.LintRevocationList(crl)); len(m) > 0 {
					out.Violate("C02|panicked:crl", m[0], map[string]interface{}{"der": hexs(der)}, nil, nil)
				}
			}()
		}
		nOcsp := 80
		if tier() == "thorough" {
			nOcsp = 1000
		}
		for i := 0; i < nOcsp; i++ {
			now := time.Date(2025, 2, 1+rng.Intn(20), rng.Intn(24), 0, 0, 0, time.UTC)
			t := ocsp.Response{Status: pick(rng, []int{ocsp.Good, ocsp.Revoked, ocsp.Unknown}), SerialNumber: big.NewInt(int64(1 + rng.Intn(1<<20))),
				ThisUpdate: now.Add(time.Duration(rng.Intn(5)-2) * time.Hour), ProducedAt: now, Certificate: nil}
			if rng.Intn(3) != 0 {
				t.NextUpdate = now.Add(time.Duration(rng.Intn(200)-20) * time.Hour)
			}
			if t.Status == ocsp.Revoked {
				t.RevokedAt = now.Add(-time.Hour)
				t.RevocationReason = pick(rng, []int{0, 1, 5, 7, 10, 11, 255})
			}
			der, err := ocsp.CreateResponse(k.caCert, k.caCert, t, k.caKey)
			if err != nil {
				rejected++
				continue
			}
			r, err := safeParseOCSP(der)
			if err != nil {
				rejected++
				continue
			}
			linted++
			classes["linted: generated ocsp"]++
			func() {
				defer func() {
					if p := recover(); p != nil {
						out.Violate("C02|panic-escapes:ocsp", fmt.Sprintf("LintOcspResponse panicked on a generated response: %v", p), map[string]interface{}{"der": hexs(der)}, nil, nil)
					}
				}()
				zlint.LintOcspResponse(r)
			}()
		}
		// every configurable lint with each of its options set to each candidate value (booleans, small integers, field names
		// and generic words for text / list options), alone, on a few objects: an option value may make the lint report a
		// configuration error, never panic
		{
			cfgRuns := 0
			corpusAll := loadCorpus()
			for _, oc := range optionValueConfigs() {
				cfg, err := lint.NewConfigFromString(oc.Text)
				fr, err2 := lint.GlobalRegistry().Filter(lint.FilterOptions{IncludeNames: []string{oc.Lint}})
				if err != nil || err2 != nil {
					continue
				}
				fr.SetConfiguration(cfg)
				check := func(what string, run func() *zlint.ResultSet) {
					cfgRuns++
					func() {
						defer func() {
							if p := recover(); p != nil {
								out.Violate("C02|panic-escapes:configured", fmt.Sprintf("linting %s with %s under the configuration %q panicked: %v", what, oc.Lint, oc.Text, p), map[string]interface{}{"object": what, "config": oc.Text}, nil, nil)
							}
						}()
						if m := panicMarkers(run()); len(m) > 0 {
							out.Violate("C02|panicked:configured", fmt.Sprintf("under the configuration %q on %s: %s", oc.Text, what, m[0]), map[string]interface{}{"object": what, "config": oc.Text}, nil, nil)
						}
					}()
				}
				for i, cc := range corpusAll.Certs {
					if i%97 == 0 || strings.HasPrefix(cc.File, "html_entity") || strings.HasPrefix(cc.File, "orgunit_in_ca") {
						cc := cc
						check("certificate "+cc.File, func() *zlint.ResultSet { return zlint.LintCertificateEx(cc.Cert, fr) })
					}
				}
				for i, cc := range corpusAll.CRLs {
					if i%5 == 0 {
						cc := cc
						check("CRL "+cc.File, func() *zlint.ResultSet { return zlint.LintRevocationListEx(cc.CRL, fr) })
					}
				}
			}
			out.Stats["configured_option_value_runs"] = cfgRuns
		}
		// the shared CRL / OCSP zoo (numeric boundaries, large lists, odd extensions) through the entry points
		for _, cc := range crlZoo() {
			cc := cc
			linted++
			classes["linted: zoo crl"]++
			func() {
				defer func() {
					if p := recover(); p != nil {
						out.Violate("C02|panic-escapes:crl", fmt.Sprintf("LintRevocationList panicked on the generated CRL %s: %v", cc.File, p), map[string]interface{}{"crl": cc.File, "der": hexs(cc.DER)}, nil, nil)
					}
				}()
				crl, err := safeParseCRL(cc.DER)
				if err != nil {
					return
				}
				if m := panicMarkers(zlint.LintRevocationList(crl)); len(m) > 0 {
					out.Violate("C02|panicked:crl", m[0], map[string]interface{}{"crl": cc.File, "der": hexs(cc.DER)}, nil, nil)
				}
			}()
		}
		for _, cc := range ocspZoo() {
			cc := cc
			linted++
			classes["linted: zoo ocsp"]++
			func() {
				defer func() {
					if p := recover(); p != nil {
						out.Violate("C02|panic-escapes:ocsp", fmt.Sprintf("LintOcspResponse panicked on the generated response %s: %v", cc.File, p), map[string]interface{}{"ocsp": cc.File, "der": hexs(cc.DER)}, nil, nil)
					}
				}()
				zlint.LintOcspResponse(cc.Resp)
			}()
		}
		out.Stats["linted"] = linted
		out.Stats["rejected_by_parser"] = rejected
		out.Data["classes"] = classes
		// risk-site inventory from the translator
		facts, _, err := computeFacts()
		if err == nil {
			total := 0
			for _, f := range facts {
				total += f.RiskSites
			}
			out.Data["risk_sites_total"] = total
		}
		return out.Emit()
	}
}

// mutateAny applies a structure-aware mutation anywhere below the top level of a DER object
func mutateAny(der []byte, rng *Rng) []byte {
	top, err := parseTLVs(der)
	if err != nil || len(top) != 1 {
		return der
	}
	root := parseNode(top[0], 0)
	var paths [][]*dnode
	root.collect(nil, &paths)
	var cands [][]*dnode
	for _, p := range paths {
		if len(p) >= 4 {
			cands = append(cands, p)
		}
	}
	if len(cands) == 0 {
		return der
	}
	p := cands[rng.Intn(len(cands))]
	n := p[len(p)-1]
	parent := p[len(p)-2]
	switch rng.Intn(5) {
	case 0:
		n.prim, n.kids = []byte{}, nil
		if n.tag&0x20 != 0 || n.wrapped {
			n.kids = []*dnode{}
		}
	case 1:
		if len(n.prim) > 1 {
			n.prim = n.prim[:1+rng.Intn(len(n.prim)-1)]
		}
	case 2:
		parent.kids = append(parent.kids, n)
	case 3:
		var ks []*dnode
		for _, k := range parent.kids {
			if k != n {
				ks = append(ks, k)
			}
		}
		if ks == nil {
			ks = []*dnode{}
		}
		parent.kids = ks
	default:
		if n.kids == nil {
			n.prim = pick(rng, [][]byte{{}, {0x00}, {0xff}, {0x00, 0x00}, {0x80}})
		}
	}
	return root.encode()
}

// the parsers are outside zlint: a parser that panics on a mutant has not accepted it
func safeParseCert(der []byte) (c *x509.Certificate, err error) {
	defer func() {
		if p := recover(); p != nil {
			c, err = nil, fmt.Errorf("parser panicked: %v", p)
		}
	}()
	return x509.ParseCertificate(der)
}

func safeParseCRL(der []byte) (c *x509.RevocationList, err error) {
	defer func() {
		if p := recover(); p != nil {
			c, err = nil, fmt.Errorf("parser panicked: %v", p)
		}
	}()
	return x509.ParseRevocationList(der)
}

func safeParseOCSP(der []byte) (r *ocsp.Response, err error) {
	defer func() {
		if p := recover(); p != nil {
			r, err = nil, fmt.Errorf("parser panicked: %v", p)
		}
	}()
	return ocsp.ParseResponse(der, nil)
}
