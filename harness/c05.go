package main

import (
	"os"
	"os/exec"
	"strings"
	"bufio"
	"time"
	stdx509 "crypto/x509"
	"crypto/x509/pkix"
	"encoding/asn1"
	"fmt"
	"reflect"
	"sort"

	"github.com/zmap/zcrypto/x509"
	"github.com/zmap/zlint/v3"
	"github.com/zmap/zlint/v3/lint"
	"golang.org/x/tools/go/packages"
)

// certificates aimed at the places where output is assembled from unordered collections
func orderSensitiveCerts() [][]byte {
	var ders [][]byte
	ekuSets := [][]stdx509.ExtKeyUsage{
		{stdx509.ExtKeyUsageServerAuth, stdx509.ExtKeyUsageOCSPSigning},
		{stdx509.ExtKeyUsageServerAuth, stdx509.ExtKeyUsageClientAuth},
		{stdx509.ExtKeyUsageEmailProtection, stdx509.ExtKeyUsageCodeSigning},
		{stdx509.ExtKeyUsageServerAuth, stdx509.ExtKeyUsageEmailProtection, stdx509.ExtKeyUsageTimeStamping},
		{stdx509.ExtKeyUsageCodeSigning},
		{stdx509.ExtKeyUsageServerAuth},
	}
	kus := []stdx509.KeyUsage{
		stdx509.KeyUsageContentCommitment | stdx509.KeyUsageKeyEncipherment,
		stdx509.KeyUsageDataEncipherment | stdx509.KeyUsageKeyAgreement,
		stdx509.KeyUsageDigitalSignature | stdx509.KeyUsageKeyEncipherment | stdx509.KeyUsageKeyAgreement,
		stdx509.KeyUsageDigitalSignature | stdx509.KeyUsageContentCommitment | stdx509.KeyUsageKeyEncipherment | stdx509.KeyUsageDataEncipherment,
		stdx509.KeyUsageCertSign | stdx509.KeyUsageCRLSign | stdx509.KeyUsageDataEncipherment,
		stdx509.KeyUsageDigitalSignature | stdx509.KeyUsageKeyAgreement | stdx509.KeyUsageEncipherOnly,
	}
	for _, es := range ekuSets {
		for _, ku := range kus {
			t := leafTemplate()
			t.ExtKeyUsage, t.KeyUsage = es, ku
			if der, _, err := issue(t, nil); err == nil {
				ders = append(ders, der)
			}
		}
	}
	// subjects repeating several attribute types at once (any "first repeated thing found in a map" shows up)
	for v := 0; v < 3; v++ {
		t := leafTemplate()
		t.NotBefore = time.Date(2024, 1, 1, 0, 0, 0, 0, time.UTC)
		t.NotAfter = t.NotBefore.AddDate(0, 6, 0)
		t.Subject = pkix.Name{CommonName: "example.com", Organization: []string{"Org A", "Org B"}, Country: []string{"US", "DE"}, Locality: []string{"X", "Y"},
			Province: []string{"P", "Q"}, OrganizationalUnit: []string{"U1", "U2"}, StreetAddress: []string{"S1", "S2"}, PostalCode: []string{"1", "2"}}
		t.Subject.ExtraNames = []pkix.AttributeTypeAndValue{{Type: asn1.ObjectIdentifier{2, 5, 4, 3}, Value: "example.com"}, {Type: asn1.ObjectIdentifier{2, 5, 4, 3}, Value: "www.example.com"},
			{Type: asn1.ObjectIdentifier{2, 5, 4, 5}, Value: "1"}, {Type: asn1.ObjectIdentifier{2, 5, 4, 5}, Value: "2"}}
		if v > 0 {
			t.Subject.ExtraNames = append(t.Subject.ExtraNames, pkix.AttributeTypeAndValue{Type: asn1.ObjectIdentifier{2, 5, 4, 10}, Value: "Org A"}, pkix.AttributeTypeAndValue{Type: asn1.ObjectIdentifier{2, 5, 4, 10}, Value: "Org C"})
		}
		t.PolicyIdentifiers = []asn1.ObjectIdentifier{{2, 23, 140, 1, 2, 2}, {2, 23, 140, 1, 2, 2}, {1, 2, 3}, {1, 2, 3}}
		t.ExtKeyUsage = []stdx509.ExtKeyUsage{stdx509.ExtKeyUsageServerAuth, stdx509.ExtKeyUsageClientAuth, stdx509.ExtKeyUsageServerAuth}
		t.DNSNames = []string{"example.com", "example.com", "www.example.com", "www.example.com"}
		if der, _, err := issue(t, nil); err == nil {
			ders = append(ders, der)
		}
	}
	// several duplicated extensions
	for n := 2; n <= 4; n++ {
		t := leafTemplate()
		for k := 0; k < n; k++ {
			oid := asn1.ObjectIdentifier{1, 3, 6, 1, 4, 1, 99999, k + 1}
			ext := pkix.Extension{Id: oid, Value: []byte{0x05, 0x00}}
			t.ExtraExtensions = append(t.ExtraExtensions, ext, ext)
		}
		if der, _, err := issue(t, nil); err == nil {
			ders = append(ders, der)
		}
	}
	return ders
}

// certificates with 1..16 SAN dNSNames in mixed case whose common name is one of them verbatim: parsed slices come
// with every combination of length and spare capacity, upper-case content and cross-field equalities, which is what
// in-place normalisation by one lint (visible to the lints after it) needs in order to show
func manySanCerts() [][]byte {
	var ders [][]byte
	// a ladder of list sizes, well past any small threshold (a fast path for "large" lists is a code path of its own)
	sizes := []int{1, 2, 3, 4, 5, 6, 7, 8, 9, 10, 11, 12, 13, 14, 15, 16, 17, 20, 31, 32, 33, 50, 64, 65, 100, 129, 257}
	for _, k := range sizes {
		for variant := 0; variant < 2; variant++ {
			if k > 17 && variant == 1 {
				continue
			}
			t := leafTemplate()
			var names []string
			for j := 0; j < k; j++ {
				n := fmt.Sprintf("Host%d.Example%d.COM", j, k)
				if variant == 1 && j%2 == 0 {
					n = fmt.Sprintf("WWW%d.example.org", j)
				}
				names = append(names, n)
			}
			t.DNSNames = names
			t.Subject.CommonName = names[k/2]
			t.EmailAddresses = []string{"Admin@Example.COM"}
			if variant == 1 {
				t.Subject.Organization = []string{"Example  Org"}
				t.Subject.Locality = []string{"City"}
				t.Subject.Province = []string{"State"}
			}
			if der, _, err := issue(t, nil); err == nil {
				ders = append(ders, der)
			}
		}
	}
	return ders
}

func init() {
	commands["c05"] = func(args []string) error {
		out := NewOutput()
		rng := NewRng(seedFromEnv(), "c05")
		corpus := loadCorpus()
		g := lint.GlobalRegistry()
		nObj, reps := 150, 12
		if tier() == "thorough" {
			nObj, reps = len(corpus.Certs), 12
		}
		type object struct {
			name string
			der  []byte
		}
		var objs []object
		for _, cc := range corpus.sampleCerts(rng, nObj) {
			objs = append(objs, object{cc.File, cc.DER})
		}
		for i, der := range orderSensitiveCerts() {
			objs = append(objs, object{fmt.Sprintf("generated-order-%d", i), der})
		}
		for i, der := range manySanCerts() {
			objs = append(objs, object{fmt.Sprintf("generated-many-san-%d", i), der})
		}
		for _, zc := range certZoo() {
			if zc.Class != "many-san" && zc.Class != "order-sensitive" {
				objs = append(objs, object{zc.File, zc.DER})
			}
		}
		out.Data["zoo_classes"] = zooClasses(certZoo())
		// e_key_usage_and_extended_key_usage_inconsistent against its full model; the table comes from the running build
		out.Data["ku_eku_table_coq"] = kuEkuTableCoq()
		{
			seenK := map[string]bool{}
			for _, zc := range certZoo() {
				if term, tag, ok := kuEkuCase(zc.Cert); ok && !seenK[term] {
					seenK[term] = true
					out.Add("kueku", Case{Coq: term, Tag: tag, Desc: map[string]interface{}{"object": zc.File, "ekus": fmt.Sprint(zc.Cert.ExtKeyUsage), "ku": int(zc.Cert.KeyUsage)}})
				}
			}
			for _, cc := range corpus.Certs {
				if term, tag, ok := kuEkuCase(cc.Cert); ok && !seenK[term] {
					seenK[term] = true
					out.Add("kueku", Case{Coq: term, Tag: tag, Desc: map[string]interface{}{"object": cc.File, "ekus": fmt.Sprint(cc.Cert.ExtKeyUsage), "ku": int(cc.Cert.KeyUsage)}})
				}
			}
		}
		if tier() != "thorough" {
			reps = 4
		}
		// (a) repetition: same status and details, however often
		unstable := map[string]bool{}
		repRuns := 0
		for _, o := range objs {
			c, err := x509.ParseCertificate(o.der)
			if err != nil {
				continue
			}
			ref := resultsOf(zlint.LintCertificate(c))
			der := o.der
			nrep := reps
			if strings.HasPrefix(o.name, "generated-") || strings.Contains(o.name, "ku-eku") && len(o.der)%3 == 0 {
				nrep = 12 // the objects aimed at map-iteration order get the full count in every tier
			}
			for r := 1; r < nrep; r++ {
				// alternately the same parsed object and a freshly parsed one (another allocation of the same content)
				cur := c
				if r%2 == 1 {
					if fc, err := x509.ParseCertificate(der); err == nil {
						cur = fc
					}
				}
				got := resultsOf(zlint.LintCertificate(cur))
				repRuns++
				for n, v := range ref {
					if got[n] != v && !unstable[n+"|"+o.name] {
						unstable[n+"|"+o.name] = true
						what := "details"
						if got[n].Status != v.Status {
							what = "status"
						}
						out.Violate("C05|nondeterministic-"+what+":"+n, fmt.Sprintf("lint %s gives %v and then %v on repeated runs over %s", n, v, got[n], o.name),
							map[string]interface{}{"object": o.name, "der": hexs(o.der), "lint": n}, v, got[n])
					}
				}
			}
		}
		for _, cc := range append(append([]CorpusCRL{}, corpus.CRLs...), crlZoo()...) {
			ref := resultsOf(zlint.LintRevocationList(cc.CRL))
			for r := 1; r < reps; r++ {
				repRuns++
				cur := cc.CRL
				if r%2 == 1 {
					if fc, err := x509.ParseRevocationList(cc.DER); err == nil {
						cur = fc
					}
				}
				for n, v := range resultsOf(zlint.LintRevocationList(cur)) {
					if ref[n] != v {
						out.Violate("C05|nondeterministic-crl:"+n, fmt.Sprintf("CRL lint %s is not reproducible on %s", n, cc.File), cc.File, ref[n], v)
					}
				}
			}
		}
		out.Stats["repetition_runs"] = repRuns
		// (b) history independence: the same call after a random history of other calls
		nHist := 30
		if tier() == "thorough" {
			nHist = 300
		}
		names := g.Names()
		var srcs []string
		for _, s := range g.Sources() {
			srcs = append(srcs, string(s))
		}
		sort.Strings(srcs)
		cfgs := []string{"", "[e_rsa_fermat_factorization]\nRounds = 3\n", "[e_subj_contains_html_entities]\nSkip = true\n", "[e_subj_orgunit_in_ca_cert]\nCrossCert = true\n"}
		histRuns := 0
		for h := 0; h < nHist; h++ {
			target := pick(rng, objs)
			tc, err := x509.ParseCertificate(target.der)
			if err != nil {
				continue
			}
			g.SetConfiguration(lint.NewEmptyConfig())
			alone := resultsOf(zlint.LintCertificate(tc))
			var ops []string
			for k := 3 + rng.Intn(12); k > 0; k-- {
				other := pick(rng, objs)
				oc, err := x509.ParseCertificate(other.der)
				if err != nil {
					continue
				}
				reg := lint.Registry(g)
				switch rng.Intn(4) {
				case 0:
					if fr, e := g.Filter(randomFilterSpec(rng, names, srcs, true).opts()); e == nil {
						reg = fr
						ops = append(ops, "filtered:"+other.name)
					}
				case 1:
					cfg, _ := lint.NewConfigFromString(pick(rng, cfgs))
					g.SetConfiguration(cfg)
					ops = append(ops, "setconfig")
				default:
					ops = append(ops, "lint:"+other.name)
				}
				zlint.LintCertificateEx(oc, reg)
				if len(corpus.CRLs) > 0 && rng.Intn(4) == 0 {
					zlint.LintRevocationList(pick(rng, corpus.CRLs).CRL)
				}
			}
			g.SetConfiguration(lint.NewEmptyConfig())
			after := resultsOf(zlint.LintCertificate(tc))
			histRuns++
			for n, v := range alone {
				if after[n] != v && !unstable[n+"|"+target.name] {
					out.Violate("C05|history-dependent:"+n, fmt.Sprintf("lint %s on %s gives %v alone and %v after a history of %d other calls", n, target.name, v, after[n], len(ops)),
						map[string]interface{}{"object": target.name, "history": ops}, v, after[n])
				}
			}
			if h == 0 {
				out.Sample(map[string]interface{}{"target": target.name, "history": ops})
			}
		}
		// (b'') the same for revocation lists, with configuration changes of the configurable CRL lint in between
		{
			cfgOff, _ := lint.NewConfigFromString("[e_crl_next_update_invalid]\nSubscriberCRL = false\n")
			cfgOn, _ := lint.NewConfigFromString("[e_crl_next_update_invalid]\nSubscriberCRL = true\n")
			for ti, tc := range corpus.CRLs {
				crl, err := x509.ParseRevocationList(tc.DER)
				if err != nil {
					continue
				}
				g.SetConfiguration(lint.NewEmptyConfig())
				alone := resultsOf(zlint.LintRevocationList(crl))
				var ops []string
				for k := 2 + rng.Intn(4); k > 0; k-- {
					switch rng.Intn(3) {
					case 0:
						g.SetConfiguration(cfgOff)
						ops = append(ops, "SetConfiguration(SubscriberCRL=false)")
					case 1:
						g.SetConfiguration(cfgOn)
						ops = append(ops, "SetConfiguration(SubscriberCRL=true)")
					default:
						g.SetConfiguration(lint.NewEmptyConfig())
						ops = append(ops, "SetConfiguration(empty)")
					}
					other := corpus.CRLs[(ti+k)%len(corpus.CRLs)]
					zlint.LintRevocationList(other.CRL)
					zlint.LintRevocationList(crl)
					ops = append(ops, "lint "+other.File, "lint "+tc.File)
					if len(corpus.OCSPs) > 0 {
						zlint.LintOcspResponse(corpus.OCSPs[k%len(corpus.OCSPs)].Resp)
					}
				}
				g.SetConfiguration(lint.NewEmptyConfig())
				after := resultsOf(zlint.LintRevocationList(crl))
				histRuns++
				for n, v := range alone {
					if after[n] != v {
						out.Violate("C05|history-dependent-crl:"+n, fmt.Sprintf("CRL lint %s on %s gives %v under the empty configuration and %v under the same configuration after a history of other calls", n, tc.File, v, after[n]),
							map[string]interface{}{"object": tc.File, "history": ops}, v, after[n])
					}
				}
			}
		}
		out.Stats["histories"] = histRuns
		// (b') order independence across processes: the whole population linted in one order in a fresh process and in the
		// reverse order in another; a verdict that depends on what was linted before differs between the two
		{
			self, _ := os.Executable()
			run := func(dir string) (map[string]string, error) {
				cmd := exec.Command(self, "c05order", dir)
				cmd.Env = os.Environ()
				// the two processes also differ in their environment: time zone (one with daylight-saving rules), locale,
				// home directory - a verdict is a function of object, registry and configuration, not of these
				if dir == "rev" {
					cmd.Env = append(cmd.Env, "TZ=America/New_York", "LANG=tr_TR.UTF-8", "LC_ALL=tr_TR.UTF-8", "HOME=/nonexistent", "TMPDIR=/nonexistent")
				} else {
					cmd.Env = append(cmd.Env, "TZ=UTC", "LANG=C", "LC_ALL=C")
				}
				b, err := cmd.Output()
				if err != nil {
					return nil, err
				}
				m := map[string]string{}
				for _, ln := range strings.Split(string(b), "\n") {
					if i := strings.Index(ln, "\t"); i > 0 {
						m[ln[:i]] = ln[i+1:]
					}
				}
				return m, nil
			}
			fwd, e1 := run("fwd")
			rev, e2 := run("rev")
			if e1 != nil || e2 != nil {
				out.Violate("C05|order-run-failed", fmt.Sprintf("the order-independence processes failed: %v %v", e1, e2), nil, nil, nil)
			}
			diffs := 0
			for k, v := range fwd {
				if rev[k] != v {
					parts := strings.SplitN(k, "|", 2)
					if len(parts) == 2 && unstable[parts[1]+"|"+parts[0]] {
						continue
					}
					diffs++
					if diffs <= 10 {
						out.Violate("C05|history-dependent:"+strings.SplitN(k, "|", 2)[1], fmt.Sprintf("%s: %q when the population is linted in one order (fresh process, TZ=UTC), %q in the reverse order (TZ=America/New_York, Turkish locale)", k, v, rev[k]),
							map[string]interface{}{"object|lint": k, "how": "harness c05order fwd (TZ=UTC LANG=C)  vs  TZ=America/New_York LANG=tr_TR.UTF-8 harness c05order rev"}, v, rev[k])
					}
				}
			}
			out.Stats["order_pairs_compared"] = len(fwd)
		}
		// (c) read-only: the parsed object is unchanged by linting
		roRuns := 0
		for _, o := range objs {
			c1, e1 := x509.ParseCertificate(o.der)
			c2, e2 := x509.ParseCertificate(o.der)
			if e1 != nil || e2 != nil {
				continue
			}
			zlint.LintCertificate(c1)
			roRuns++
			// the property speaks of exported fields (the parser keeps lazily filled private caches)
			field := ""
			{
				v1, v2 := reflect.ValueOf(c1).Elem(), reflect.ValueOf(c2).Elem()
				for i := 0; i < v1.NumField(); i++ {
					if v1.Type().Field(i).IsExported() && !reflect.DeepEqual(v1.Field(i).Interface(), v2.Field(i).Interface()) {
						field = v1.Type().Field(i).Name
						break
					}
				}
			}
			if field != "" {
				out.Violate("C05|object-mutated:"+field, "linting changed field "+field+" of the parsed certificate "+o.name, map[string]interface{}{"object": o.name, "der": hexs(o.der)}, nil, nil)
			}
		}
		for _, cc := range append(append([]CorpusCRL{}, corpus.CRLs...), crlZoo()...) {
			c1, e1 := x509.ParseRevocationList(cc.DER)
			c2, e2 := x509.ParseRevocationList(cc.DER)
			if e1 != nil || e2 != nil {
				continue
			}
			zlint.LintRevocationList(c1)
			roRuns++
			crlChanged := false
			{
				v1, v2 := reflect.ValueOf(c1).Elem(), reflect.ValueOf(c2).Elem()
				for i := 0; i < v1.NumField(); i++ {
					if v1.Type().Field(i).IsExported() && !reflect.DeepEqual(v1.Field(i).Interface(), v2.Field(i).Interface()) {
						crlChanged = true
					}
				}
			}
			if crlChanged {
				out.Violate("C05|object-mutated:crl", "linting changed the parsed CRL "+cc.File, cc.File, nil, nil)
			}
		}
		out.Stats["readonly_runs"] = roRuns
		// (d) static facts
		facts, _, err := computeFacts()
		if err != nil {
			return err
		}
		type sf struct {
			Name                                               string
			Forbidden, GlobalWrites, ObjectWrites, MapRange []string
		}
		var sfs []sf
		for _, f := range facts {
			if len(f.Forbidden)+len(f.GlobalWrites)+len(f.ObjectWrites)+len(f.MapRange) > 0 {
				sfs = append(sfs, sf{f.Name, f.Forbidden, f.GlobalWrites, f.ObjectWrites, f.MapRange})
			}
		}
		out.Data["static"] = sfs
		out.Data["lints_analysed"] = len(facts)
		// import closure of the library packages
		pk, err := packages.Load(&packages.Config{Mode: packages.NeedName | packages.NeedImports | packages.NeedDeps, Dir: repoDir() + "/v3",
			Env: append(osEnviron(), "GOFLAGS=-mod=mod", "GOPROXY=off", "GOSUMDB=off", "GOTOOLCHAIN=local")}, ".", "./lint", "./util", "./lints/...")
		if err != nil {
			return err
		}
		direct := map[string][]string{}
		for _, p := range pk {
			for ip := range p.Imports {
				direct[ip] = append(direct[ip], p.PkgPath)
			}
		}
		var risky []map[string]interface{}
		for _, ip := range sortedKeys(direct) {
			switch ip {
			case "net/http", "os/exec", "syscall", "math/rand", "crypto/rand", "os/signal", "plugin", "net/rpc", "net/smtp", "database/sql", "io/ioutil", "os":
				sort.Strings(direct[ip])
				risky = append(risky, map[string]interface{}{"import": ip, "by": direct[ip]})
			}
		}
		out.Data["risky_imports"] = risky
		return out.Emit()
	}
}

// c05audit: lint a batch of corpus objects between two marker system calls, for the strace audit
func init() {
	commands["c05audit"] = func(args []string) error {
		corpus := loadCorpus()
		_ = lint.GlobalRegistry()
		// markers: opening a non-existent path shows up in the trace
		osOpen("/VERIF-LINT-BEGIN")
		for _, cc := range corpus.Certs {
			zlint.LintCertificate(cc.Cert)
		}
		for _, cc := range corpus.CRLs {
			zlint.LintRevocationList(cc.CRL)
		}
		for _, cc := range corpus.OCSPs {
			zlint.LintOcspResponse(cc.Resp)
		}
		osOpen("/VERIF-LINT-END")
		return nil
	}
}

// c05order: lint the whole population (corpus and zoo) once, in the given order, in this fresh process; print one line
// per (object, lint) with status and details
func init() {
	commands["c05order"] = func(args []string) error {
		corpus := loadCorpus()
		var objs []CorpusCert
		objs = append(objs, corpus.Certs...)
		for _, zc := range certZoo() {
			objs = append(objs, zc.CorpusCert)
		}
		if len(args) > 0 && args[0] == "rev" {
			for i, j := 0, len(objs)-1; i < j; i, j = i+1, j-1 {
				objs[i], objs[j] = objs[j], objs[i]
			}
		}
		w := bufio.NewWriter(os.Stdout)
		defer w.Flush()
		for _, o := range objs {
			c, err := x509.ParseCertificate(o.DER)
			if err != nil {
				continue
			}
			for n, r := range resultsOf(zlint.LintCertificate(c)) {
				fmt.Fprintf(w, "%s|%s\t%d %s\n", o.File, n, r.Status, strings.ReplaceAll(r.Details, "\n", " "))
			}
		}
		// revocation lists and OCSP responses as well (corpus, zoo, and lists whose lifetime sits exactly on a limit)
		crls := append(append([]CorpusCRL{}, corpus.CRLs...), crlZoo()...)
		if len(args) > 0 && args[0] == "rev" {
			for i, j := 0, len(crls)-1; i < j; i, j = i+1, j-1 {
				crls[i], crls[j] = crls[j], crls[i]
			}
		}
		for _, o := range crls {
			c, err := x509.ParseRevocationList(o.DER)
			if err != nil || len(c.RevokedCertificates) > 1000 {
				continue
			}
			for n, r := range resultsOf(zlint.LintRevocationList(c)) {
				fmt.Fprintf(w, "%s|%s\t%d %s\n", o.File, n, r.Status, strings.ReplaceAll(r.Details, "\n", " "))
			}
		}
		for _, o := range append(append([]CorpusOCSP{}, corpus.OCSPs...), ocspZoo()...) {
			for n, r := range resultsOf(zlint.LintOcspResponse(o.Resp)) {
				fmt.Fprintf(w, "%s|%s\t%d %s\n", o.File, n, r.Status, strings.ReplaceAll(r.Details, "\n", " "))
			}
		}
		return nil
	}
}
