package main

import (
	"time"
	"fmt"
	"sort"

	"github.com/zmap/zlint/v3"
	"github.com/zmap/zlint/v3/lint"
)

func allowedStatus(name string, s int) bool {
	if len(name) < 3 || name[1] != '_' {
		return false
	}
	switch name[0] {
	case 'e':
		return s != 5 && s != 4
	case 'w':
		return s != 6 && s != 4
	case 'n':
		return s != 5 && s != 6
	}
	return false
}

func init() {
	commands["c06"] = func(args []string) error {
		out := NewOutput()
		facts, _, err := computeFacts()
		if err != nil {
			return err
		}
		out.Data["facts"] = facts
		static := map[string]map[int]bool{}
		for _, f := range facts {
			m := map[int]bool{}
			for _, s := range f.MayReturn {
				m[s] = true
			}
			static[f.Name] = m
		}
		// observation: statuses every lint returns over the whole corpus (its own test vectors included)
		corpus := loadCorpus()
		observed := map[string]map[int]string{} // lint -> status -> first file
		note := func(n string, s int, file string) {
			if observed[n] == nil {
				observed[n] = map[int]string{}
			}
			if _, ok := observed[n][s]; !ok {
				observed[n][s] = file
			}
		}
		runs := 0
		for _, cc := range corpus.Certs {
			for n, r := range zlint.LintCertificate(cc.Cert).Results {
				note(n, int(r.Status), cc.File)
				runs++
			}
		}
		for _, zc := range certZoo() {
			for n, r := range zlint.LintCertificate(zc.Cert).Results {
				note(n, int(r.Status), zc.File+" der="+hexs(zc.DER))
				runs++
			}
		}
		for _, cc := range append(append([]CorpusCRL{}, corpus.CRLs...), crlZoo()...) {
			for n, r := range zlint.LintRevocationList(cc.CRL).Results {
				note(n, int(r.Status), cc.File)
				runs++
			}
		}
		for _, cc := range append(append([]CorpusOCSP{}, corpus.OCSPs...), ocspZoo()...) {
			for n, r := range zlint.LintOcspResponse(cc.Resp).Results {
				note(n, int(r.Status), cc.File)
				runs++
			}
		}
		// under user configurations (options changed, unknown and misspelt keys, sections for lints without options):
		// a configuration may change a verdict, never the kind of verdict a lint's name permits
		{
			g0 := lint.GlobalRegistry()
			cfgRuns := 0
			for ci, cs := range configVariants() {
				cfg, err := lint.NewConfigFromString(cs)
				if err != nil {
					continue
				}
				g0.SetConfiguration(cfg)
				where := fmt.Sprintf(" under configuration #%d %q", ci, cs)
				for k, cc := range corpus.Certs {
					if k%2 == ci%2 || tier() == "thorough" {
						for n, r := range zlint.LintCertificateEx(cc.Cert, g0).Results {
							note(n, int(r.Status), cc.File+where)
							cfgRuns++
						}
					}
				}
				for _, cc := range append(append([]CorpusCRL{}, corpus.CRLs...), crlZoo()...) {
					for n, r := range zlint.LintRevocationListEx(cc.CRL, g0).Results {
						note(n, int(r.Status), cc.File+where)
						cfgRuns++
					}
				}
				for _, cc := range corpus.OCSPs {
					for n, r := range zlint.LintOcspResponseEx(cc.Resp, g0).Results {
						note(n, int(r.Status), cc.File+where)
						cfgRuns++
					}
				}
			}
			g0.SetConfiguration(lint.NewEmptyConfig())
			out.Stats["configured_results_observed"] = cfgRuns
		}
		// date sweep: every certificate lint on a few objects it applies to, re-dated (in the parsed structure) to every
		// distinct effective / ineffective date of the registry, one second before and after: branches that depend on the
		// date (rule versions folded into one body) are reached
		g := lint.GlobalRegistry()
		dateSet := map[int64]time.Time{}
		for _, l := range g.CertificateLints().Lints() {
			for _, d := range []time.Time{l.EffectiveDate, l.IneffectiveDate} {
				if !d.IsZero() && d.Year() > 1990 {
					dateSet[d.Unix()] = d
				}
			}
		}
		sweep := 0
		perLint := 3
		if tier() == "thorough" {
			perLint = 12
		}
		for _, l := range g.CertificateLints().Lints() {
			found := 0
			for k := 0; k < len(corpus.Certs) && found < perLint; k++ {
				cc := corpus.Certs[(k*37+len(l.Name)*11)%len(corpus.Certs)]
				ok := false
				func() {
					defer func() { recover() }()
					ok = scopeOK("cert", string(l.Source), absCert(cc.Cert)) && l.Lint().CheckApplies(cc.Cert)
				}()
				if !ok {
					continue
				}
				found++
				for _, d := range dateSet {
					for _, dl := range []time.Duration{-time.Second, 0, time.Second} {
						c2 := *cc.Cert
						dur := cc.Cert.NotAfter.Sub(cc.Cert.NotBefore)
						c2.NotBefore = d.Add(dl)
						c2.NotAfter = c2.NotBefore.Add(dur)
						var r *lint.LintResult
						func() {
							defer func() { recover() }()
							r = l.Execute(&c2, lint.NewEmptyConfig())
						}()
						sweep++
						if r != nil {
							if _, seen := observed[l.Name][int(r.Status)]; !seen {
								note(l.Name, int(r.Status), fmt.Sprintf("%s re-dated to notBefore=%s", cc.File, c2.NotBefore.Format(time.RFC3339)))
							}
						}
					}
				}
			}
		}
		out.Stats["date_sweep_runs"] = sweep
		out.Stats["lint_results_observed"] = runs
		var obsList []map[string]interface{}
		for _, n := range sortedKeys(observed) {
			var sts []int
			for s := range observed[n] {
				sts = append(sts, s)
			}
			sort.Ints(sts)
			obsList = append(obsList, map[string]interface{}{"name": n, "statuses": sts})
			for _, s := range sts {
				// soundness of the static facts: an observed body status must be in the static set
				// (NA, NE, fatal can come from the framework)
				if s != 1 && s != 2 && s != 7 && !static[n][s] {
					out.Violate("C06|fact-unsound:"+n+":"+fmt.Sprint(s), fmt.Sprintf("lint %s returned status %d on %s, which the static status set %v does not contain (the translator under-approximates)", n, s, observed[n][s], keysInt(static[n])),
						observed[n][s], nil, nil)
				}
				// the property itself, observed
				if !allowedStatus(n, s) {
					out.Violate("C06|"+n+":"+lint.LintStatus(s).String(), fmt.Sprintf("lint %s reported %q on %s", n, lint.LintStatus(s).String(), observed[n][s]),
						map[string]interface{}{"file": observed[n][s], "lint": n}, "a status its prefix permits", lint.LintStatus(s).String())
				}
			}
		}
		out.Data["observed"] = obsList
		return out.Emit()
	}
}

func keysInt(m map[int]bool) []int {
	var k []int
	for x := range m {
		k = append(k, x)
	}
	sort.Ints(k)
	return k
}
