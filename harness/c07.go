package main

import (
	"strings"
	"fmt"
	"sort"

	"github.com/zmap/zcrypto/x509"
	"github.com/zmap/zlint/v3"
	"github.com/zmap/zlint/v3/lint"
	"golang.org/x/crypto/ocsp"
)

type resKey struct {
	Status  int
	Details string
}

func resultsOf(rs *zlint.ResultSet) map[string]resKey {
	tick()
	m := map[string]resKey{}
	for k, v := range rs.Results {
		if v != nil {
			m[k] = resKey{int(v.Status), v.Details}
		}
	}
	return m
}

// compareFiltered checks C07 on one (object, filtered registry): every selected lint has the same status
// and details as in the full run, nothing else is present, and flags are monotone.  `unstable` lists lints
// whose own output is not reproducible on this object (C05's subject), which are compared on nothing.
func compareFiltered(out *Output, what string, f FilterSpec, full, full2, filt *zlint.ResultSet, selected []string) {
	a, a2, b := resultsOf(full), resultsOf(full2), resultsOf(filt)
	sel := map[string]bool{}
	for _, n := range selected {
		sel[n] = true
		x, ok := b[n]
		if !ok {
			out.Violate("C07|missing:"+n, "selected lint "+n+" has no result in the filtered run on "+what, f, nil, nil)
			continue
		}
		if a[n] != a2[n] {
			out.Count("unstable_skipped", 1)
			continue
		}
		if x != a[n] {
			out.Violate("C07|differs:"+n, fmt.Sprintf("lint %s on %s: filtered run gives %v, full run gives %v", n, what, x, a[n]),
				map[string]interface{}{"object": what, "filter": f}, a[n], x)
		}
	}
	for n := range b {
		if !sel[n] {
			out.Violate("C07|extra:"+n, "unselected lint "+n+" has a result in the filtered run", f, nil, nil)
		}
	}
	if (filt.NoticesPresent && !full.NoticesPresent) || (filt.WarningsPresent && !full.WarningsPresent) ||
		(filt.ErrorsPresent && !full.ErrorsPresent) || (filt.FatalsPresent && !full.FatalsPresent) {
		// a flag can legitimately differ only through an unstable lint
		if fmt.Sprint(a) == fmt.Sprint(a2) {
			out.Violate("C07|flag-not-monotone", "a presence flag raised by the filtered run is not raised by the full run on "+what, f, nil, nil)
		}
	}
}

func init() {
	commands["c07"] = func(args []string) error {
		out := NewOutput()
		rng := NewRng(seedFromEnv(), "c07")
		lateRegistrationPrelude()
		reportLate(out, "C07", "filter")
		g := lint.GlobalRegistry()
		// a registry configuration under which every configurable lint leaves its default behaviour: a filtered
		// registry that loses (or alters) the configuration then answers differently from the complete run
		if cfgAll, err := lint.NewConfigFromString("[e_rsa_fermat_factorization]\nRounds = 0\n[e_subj_contains_html_entities]\nSkip = true\n" +
			"[e_subj_orgunit_in_ca_cert]\nCrossCert = true\n[e_crl_next_update_invalid]\nSubscriberCRL = false\n"); err == nil {
			g.SetConfiguration(cfgAll)
		}
		corpus := loadCorpus()
		names := g.Names()
		var srcs []string
		for _, s := range g.Sources() {
			srcs = append(srcs, string(s))
		}
		sort.Strings(srcs)
		nFilters, nObjs, nSingle := 40, 60, 40
		if tier() == "thorough" {
			nFilters, nObjs, nSingle = 400, len(corpus.Certs), len(names)
		}
		certs := corpus.sampleCerts(rng, nObjs)
		for _, cc := range corpus.Certs {
			if strings.HasPrefix(cc.File, "html_entity_") || strings.HasPrefix(cc.File, "orgunit_in_ca_") || strings.Contains(cc.File, "ermat") {
				certs = append(certs, cc)
			}
		}
		for i, der := range manySanCerts() {
			if c, err := x509.ParseCertificate(der); err == nil {
				certs = append(certs, CorpusCert{fmt.Sprintf("generated-many-san-%d", i), der, c})
			}
		}
		for _, zc := range certZoo() {
			switch zc.Class {
			case "tld", "related-names", "name", "extension", "validity", "sigalg", "own-key":
				certs = append(certs, CorpusCert{"generated-" + zc.File, zc.DER, zc.Cert})
			case "policies", "aia", "subject-repeat":
				// (not "generated-": these are compared under the filter specifications only, not lint by lint)
				if (zc.Class == "policies" && zc.Cert.IsCA) || len(zc.DER)%5 == 0 {
					certs = append(certs, CorpusCert{zc.File, zc.DER, zc.Cert})
				}
			case "ku-eku", "subject-string-type":
				if len(zc.DER)%7 == 0 {
					certs = append(certs, CorpusCert{"generated-" + zc.File, zc.DER, zc.Cert})
				}
			}
		}
		// every run lints a freshly parsed object: a lint that rewrites the object would otherwise leave the same
		// trace in both runs
		fresh := func(cc CorpusCert) *x509.Certificate {
			c, err := x509.ParseCertificate(cc.DER)
			if err != nil {
				return cc.Cert
			}
			return c
		}
		// full runs, twice, to know which lints are reproducible on which object
		type fullRun struct{ a, b *zlint.ResultSet }
		fullCert := make([]fullRun, len(certs))
		for i, cc := range certs {
			fullCert[i] = fullRun{zlint.LintCertificate(fresh(cc)), zlint.LintCertificate(fresh(cc))}
		}
		corpus.CRLs = append(corpus.CRLs, crlZoo()...)
		freshCRL := func(cc CorpusCRL) *x509.RevocationList {
			if c, err := x509.ParseRevocationList(cc.DER); err == nil {
				return c
			}
			return cc.CRL
		}
		fullCrl := make([]fullRun, len(corpus.CRLs))
		for i, cc := range corpus.CRLs {
			fullCrl[i] = fullRun{zlint.LintRevocationList(freshCRL(cc)), zlint.LintRevocationList(freshCRL(cc))}
		}
		fullOcsp := make([]fullRun, len(corpus.OCSPs))
		for i, cc := range corpus.OCSPs {
			fullOcsp[i] = fullRun{zlint.LintOcspResponse(cc.Resp), zlint.LintOcspResponse(cc.Resp)}
		}
		var specs []FilterSpec
		for len(specs) < nFilters {
			f := randomFilterSpec(rng, names, srcs, len(specs)%2 == 0)
			if fr, err := g.Filter(f.opts()); err == nil && fr != g {
				specs = append(specs, f)
				// histories of selections: a degenerate variant of the same options (present-but-empty lists, included entries
				// that are all excluded) is asked for right before and after
				if len(specs)%3 == 0 {
					for _, tw := range degenerateTwins(rng, f, names, srcs) {
						if fr2, err := g.Filter(tw.opts()); err == nil && fr2 != g {
							specs = append(specs, tw, f)
						}
					}
				}
			}
		}
		for _, src := range srcs {
			specs = append(specs, FilterSpec{IncludeSources: []string{src}}, FilterSpec{ExcludeSources: []string{src}})
		}
		single := append([]string{}, names...)
		rng.Shuffle(len(single), func(i, j int) { single[i], single[j] = single[j], single[i] })
		for _, n := range single[:nSingle] {
			specs = append(specs, FilterSpec{IncludeNames: []string{n}})
		}
		runs, compared := 0, 0
		// every lint alone (singleton registries) on the generated many-name objects and a few corpus objects: the sharpest
		// form of "does not depend on which other lints run"
		{
			var singles []int
			for i, cc := range certs {
				if strings.HasPrefix(cc.File, "generated-") || i%15 == 0 || tier() == "thorough" {
					singles = append(singles, i)
				}
			}
			for _, n := range names {
				fr, err := g.Filter(lint.FilterOptions{IncludeNames: []string{n}})
				if err != nil {
					continue
				}
				cn, _, _ := namesOfKind(fr)
				if len(cn) == 0 {
					continue
				}
				for _, i := range singles {
					// zoo objects: only the lints that answered something other than NA / NE in the complete run
					if strings.HasPrefix(certs[i].File, "generated-zoo") {
						if r := fullCert[i].a.Results[n]; r != nil && (r.Status == lint.NA || r.Status == lint.NE) {
							continue
						}
					}
					filt := zlint.LintCertificateEx(fresh(certs[i]), fr)
					compareFiltered(out, "cert "+certs[i].File, FilterSpec{IncludeNames: []string{n}}, fullCert[i].a, fullCert[i].b, filt, cn)
					runs++
					compared++
				}
			}
		}
		for si, f := range specs {
			fr, err := g.Filter(f.opts())
			if err != nil {
				continue
			}
			// what the options select is what the documented rule says they select (not what the registry handed back says
			// it holds): the filtered run is compared against that
			var cn, on, ln []string
			for _, l := range g.CertificateLints().Lints() {
				if specSelected(f, l.Name, string(l.Source)) {
					cn = append(cn, l.Name)
				}
			}
			for _, l := range g.OcspResponseLints().Lints() {
				if specSelected(f, l.Name, string(l.Source)) {
					on = append(on, l.Name)
				}
			}
			for _, l := range g.RevocationListLints().Lints() {
				if specSelected(f, l.Name, string(l.Source)) {
					ln = append(ln, l.Name)
				}
			}
			isSingle := si >= nFilters
			for i, cc := range certs {
				if isSingle && i%12 != si%12 {
					continue
				}
				filt := zlint.LintCertificateEx(fresh(cc), fr)
				compareFiltered(out, "cert "+cc.File, f, fullCert[i].a, fullCert[i].b, filt, cn)
				runs++
				compared += len(cn)
			}
			for i, cc := range corpus.CRLs {
				filt := zlint.LintRevocationListEx(freshCRL(cc), fr)
				compareFiltered(out, "crl "+cc.File, f, fullCrl[i].a, fullCrl[i].b, filt, ln)
				runs++
				compared += len(ln)
			}
			for i, cc := range corpus.OCSPs {
				filt := zlint.LintOcspResponseEx(cc.Resp, fr)
				compareFiltered(out, "ocsp "+cc.File, f, fullOcsp[i].a, fullOcsp[i].b, filt, on)
				runs++
				compared += len(on)
			}
		}
		// the same comparison when the complete run contains fatal results (sections the configurable lints cannot read):
		// leaving the fatal lints out must not raise a flag the complete run does not raise
		{
			bad, err := lint.NewConfigFromString("[e_rsa_fermat_factorization]\nRounds = \"plenty\"\n[e_subj_contains_html_entities]\nSkip = 7\n[e_crl_next_update_invalid]\nSubscriberCRL = \"no\"\n")
			if err == nil {
				g.SetConfiguration(bad)
				fspecs := []FilterSpec{{ExcludeNames: []string{"e_rsa_fermat_factorization", "e_subj_contains_html_entities", "e_crl_next_update_invalid"}}, {IncludeSources: []string{"RFC5280"}},
					{ExcludeSources: []string{"Community"}}, {IncludeNames: []string{"e_rsa_fermat_factorization"}}, {Regex: "^[wn]_"}}
				for _, f := range fspecs {
					fr, err := g.Filter(f.opts())
					if err != nil {
						continue
					}
					cn, _, ln := namesOfKind(fr)
					for i, cc := range certs {
						if i%4 != 0 && tier() != "thorough" {
							continue
						}
						fa, fb := zlint.LintCertificate(fresh(cc)), zlint.LintCertificate(fresh(cc))
						filt := zlint.LintCertificateEx(fresh(cc), fr)
						compareFiltered(out, "cert "+cc.File+" (complete run contains fatal results)", f, fa, fb, filt, cn)
						runs++
					}
					for _, cc := range corpus.CRLs {
						fa, fb := zlint.LintRevocationList(cc.CRL), zlint.LintRevocationList(cc.CRL)
						compareFiltered(out, "crl "+cc.File+" (complete run contains fatal results)", f, fa, fb, zlint.LintRevocationListEx(cc.CRL, fr), ln)
						runs++
					}
				}
				g.SetConfiguration(lint.NewEmptyConfig())
			}
		}
		// one lint's section is not a table (a scalar or a list under its name): for every ordered pair (lint with the odd
		// section, other configurable lint) the filtered run comes FIRST and on a configuration parsed for it alone, the
		// complete run second on a configuration parsed again from the same text - the two must agree on the selected lints
		{
			var sections []string
			if b, err := g.DefaultConfiguration(); err == nil {
				for _, ln := range strings.Split(string(b), "\n") {
					if t := strings.TrimSpace(ln); strings.HasPrefix(t, "[") && strings.Contains(t, "_") {
						sections = append(sections, strings.Trim(t, "[]"))
					}
				}
			}
			someCerts := certs
			if len(someCerts) > 6 && tier() != "thorough" {
				someCerts = append(append([]CorpusCert{}, certs[:3]...), certs[len(certs)-3:]...)
			} else if len(someCerts) > 60 {
				var pick60 []CorpusCert
				for i := 0; i < 60; i++ {
					pick60 = append(pick60, certs[i*len(certs)/60])
				}
				someCerts = pick60
			}
			oddPairs := 0
			for _, a := range sections {
				for _, shape := range []string{"%s = 1000\n", "%s = [1, 2]\n", "%s = \"x\"\n"} {
					txt := fmt.Sprintf(shape, a)
					for _, b := range sections {
						if a == b {
							continue
						}
						for _, f := range []FilterSpec{{IncludeNames: []string{b}}, {ExcludeNames: []string{a}}} {
							cfg1, err1 := lint.NewConfigFromString(txt)
							cfg2, err2 := lint.NewConfigFromString(txt)
							if err1 != nil || err2 != nil {
								continue
							}
							fr, err := g.Filter(f.opts())
							if err != nil {
								continue
							}
							fr.SetConfiguration(cfg1)
							cn, _, ln := namesOfKind(fr)
							var fcert, fcrl []*zlint.ResultSet
							for _, cc := range someCerts {
								fcert = append(fcert, zlint.LintCertificateEx(fresh(cc), fr))
							}
							for _, cc := range corpus.CRLs {
								fcrl = append(fcrl, zlint.LintRevocationListEx(cc.CRL, fr))
							}
							g.SetConfiguration(cfg2)
							for i, cc := range someCerts {
								fa, fb := zlint.LintCertificate(fresh(cc)), zlint.LintCertificate(fresh(cc))
								compareFiltered(out, fmt.Sprintf("cert %s (configuration %q, filtered run first on its own parse of it)", cc.File, txt), f, fa, fb, fcert[i], cn)
								runs++
							}
							for i, cc := range corpus.CRLs {
								fa, fb := zlint.LintRevocationList(cc.CRL), zlint.LintRevocationList(cc.CRL)
								compareFiltered(out, fmt.Sprintf("crl %s (configuration %q, filtered run first on its own parse of it)", cc.File, txt), f, fa, fb, fcrl[i], ln)
								runs++
							}
							g.SetConfiguration(lint.NewEmptyConfig())
							oddPairs++
						}
					}
				}
			}
			out.Stats["non_table_section_pairs"] = oddPairs
		}
		out.Stats["filtered_runs"] = runs
		out.Stats["lint_results_compared"] = compared
		out.Stats["filters"] = len(specs)
		out.Sample(map[string]interface{}{"filter": specs[0], "objects": len(certs)})

		// mock registries, filtered, against the model (in-Coq correspondence)
		nMock := 200
		if tier() == "thorough" {
			nMock = 2000
		}
		seen := map[string]bool{}
		for n := 0; n < nMock; n++ {
			kind := pick(rng, []string{"cert", "cert", "crl", "ocsp"})
			reg := lint.VerifNewRegistry()
			var scripts []*Script
			used := map[string]bool{}
			for j := rng.Intn(7); j >= 0; j-- {
				name := fmt.Sprintf("%smock_%d", pick(rng, []string{"e_", "w_", "n_"}), rng.Intn(12))
				if used[name] {
					continue
				}
				used[name] = true
				s := randomScript(rng, name)
				if kind != "cert" && rng.Chance(80) {
					s.Exe, s.App, s.NewPanic = "res", pick(rng, []string{"true", "true", "false"}), ""
					if s.Cfg == "panic" {
						s.Cfg = "ok"
					}
					s.ExeStatus = 1 + rng.Intn(7)
				}
				scripts = append(scripts, s)
			}
			cfg, _, err := configFor(scripts)
			if err != nil {
				return err
			}
			reg.Registry().SetConfiguration(cfg)
			logs := make([][]int, len(scripts))
			var allNames []string
			for j, s := range scripts {
				var e error
				switch kind {
				case "cert":
					e = reg.RegisterCertificate(s.certLint(&logs[j]))
				case "crl":
					e = reg.RegisterRevocationList(s.crlLint(&logs[j]))
				case "ocsp":
					e = reg.RegisterOcspResponse(s.ocspLint(&logs[j]))
				}
				if e != nil {
					return e
				}
				allNames = append(allNames, s.Name)
			}
			var f FilterSpec
			switch rng.Intn(4) {
			case 0:
				f.Regex = pick(rng, []string{"^e_", "^w_", "mock_1", "_[0-5]$", "."})
			case 1:
				f.IncludeSources = []string{pick(rng, []string{"CABF_BR", "RFC5280", "Community"})}
			default:
				for _, nm := range allNames {
					if rng.Bool() {
						f.IncludeNames = append(f.IncludeNames, " "+nm)
					}
				}
				if len(f.IncludeNames) == 0 {
					f.ExcludeSources = []string{"Mozilla"}
				}
			}
			fr, err := reg.Registry().Filter(f.opts())
			if err != nil {
				continue
			}
			for _, s := range scripts {
				s.armed = true // Filter re-registers and calls the constructor for its nil check
			}
			target := pick(rng, windowCases()).target
			c := scopeCert(rng.Bool(), rng.Bool(), rng.Bool(), target)
			ao := absCert(c)
			ao.TU, ao.NU = target, target
			var o RsObs
			switch kind {
			case "cert":
				o, _ = observeRS(func() *zlint.ResultSet { return zlint.LintCertificateEx(c, fr) })
			case "crl":
				o, _ = observeRS(func() *zlint.ResultSet { return zlint.LintRevocationListEx(&x509.RevocationList{ThisUpdate: target}, fr) })
			case "ocsp":
				o, _ = observeRS(func() *zlint.ResultSet { return zlint.LintOcspResponseEx(&ocsp.Response{NextUpdate: target}, fr) })
			}
			items := make([]string, len(scripts))
			for j, s := range scripts {
				items[j] = s.Coq()
			}
			term := fmt.Sprintf("(%s, %s, %s, %s, %s)", kindCoq[kind], cqList(items), f.Coq(allNames), ao.Coq(), o.Coq())
			if !seen[term] {
				seen[term] = true
				out.Add("filtered", Case{Coq: term, Tag: fmt.Sprintf("%s/%d/%d/%v", kind, len(scripts), len(fr.Names()), o.Panic != ""),
					Desc: map[string]interface{}{"kind": kind, "scripts": scripts, "filter": f, "observed": o}})
			}
		}
		return out.Emit()
	}
}
