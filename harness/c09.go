package main

import (
	"strings"
	"os"
	"bytes"
	"crypto/rand"
	"crypto/rsa"
	stdx509 "crypto/x509"
	"crypto/x509/pkix"
	"fmt"

	"github.com/zmap/zcrypto/encoding/asn1"

	"github.com/zmap/zlint/v3"
	"github.com/zmap/zlint/v3/lint"
)

// derTLV parses one TLV at b[off:], returning header length, content length.
func derTLV(b []byte, off int) (hdr, clen int, ok bool) {
	if off+2 > len(b) {
		return 0, 0, false
	}
	l := int(b[off+1])
	if l < 0x80 {
		return 2, l, off+2+l <= len(b)
	}
	n := l & 0x7f
	if n == 0 || n > 4 || off+2+n > len(b) {
		return 0, 0, false
	}
	v := 0
	for i := 0; i < n; i++ {
		v = v<<8 | int(b[off+2+i])
	}
	return 2 + n, v, off+2+n+v <= len(b)
}

// sigPayload locates the signature BIT STRING payload (after the unused-bits octet) of a certificate.
func sigPayload(der []byte) (start, end int, ok bool) {
	h, _, ok := derTLV(der, 0)
	if !ok || der[0] != 0x30 {
		return 0, 0, false
	}
	off := h
	for i := 0; i < 2; i++ { // tbsCertificate, signatureAlgorithm
		hh, cl, ok := derTLV(der, off)
		if !ok {
			return 0, 0, false
		}
		off += hh + cl
	}
	hh, cl, ok := derTLV(der, off)
	if !ok || der[off] != 0x03 || cl < 1 {
		return 0, 0, false
	}
	return off + hh + 1, off + hh + cl, true
}

var sigDependent = map[string]bool{"Certificate.Signature": true, "Certificate.Raw": true, "Certificate.SelfSigned": true, "Certificate.FingerprintMD5": true,
	"Certificate.FingerprintSHA1": true, "Certificate.FingerprintSHA256": true, "Certificate.ValidationLevel": true}

func init() {
	commands["c09"] = func(args []string) error {
		out := NewOutput()
		rng := NewRng(seedFromEnv(), "c09")
		// ---- static facts: who reads a signature-dependent field, and where
		facts, _, err := computeFacts()
		if err != nil {
			return err
		}
		type read struct{ Lint, Field string; Sites []string }
		var reads []read
		for _, f := range facts {
			if f.Kind != "cert" {
				continue
			}
			for _, r := range f.Reads {
				if sigDependent[r] {
					reads = append(reads, read{f.Name, r, f.ReadSites[r]})
				}
			}
		}
		out.Data["sig_reads"] = reads
		// ---- dynamic: replace the signature of every certificate that is not self-issued
		corpus := loadCorpus()
		variants := 2
		if tier() == "thorough" {
			variants = 6
		}
		certsTried, replaced, compared := 0, 0, 0
		classes := map[string]int{}
		targets := append([]CorpusCert{}, corpus.Certs...)
		targets = append(targets, ownKeyCerts()...)
		for _, zc := range certZoo() {
			switch zc.Class {
			case "validity", "sigalg", "tld", "extension", "related-names":
				targets = append(targets, zc.CorpusCert)
			case "ku-eku", "subject", "name":
				if len(zc.DER)%5 == 0 {
					targets = append(targets, zc.CorpusCert)
				}
			}
		}
		// the process has already seen the issuers (a tool that lints a CA file before the certificates it issued): what
		// it remembers of them must not make a verdict depend on whether a signature verifies.  The generated issuer and
		// every CA certificate of the corpus are linted first; leaves whose authorityKeyIdentifier does NOT name the
		// issuer's key, and one that does, join the population
		if ca, err := safeParseCert(getKit().caCert.Raw); err == nil {
			zlint.LintCertificate(ca)
		}
		for _, cc := range corpus.Certs {
			if cc.Cert.IsCA {
				zlint.LintCertificate(cc.Cert)
			}
		}
		for i := 0; i < 6; i++ {
			t := leafTemplate()
			if i > 0 {
				t.ExtraExtensions = append(t.ExtraExtensions, pkix.Extension{Id: []int{2, 5, 29, 35}, Value: encTLV(0x30, encTLV(0x80, rng.Bytes(20-i%2)))})
			}
			if der, c, err := issue(t, nil); err == nil {
				targets = append(targets, CorpusCert{fmt.Sprintf("generated-leaf-aki-%d", i), der, c})
			}
		}
		classes["generated: issuer differs from subject, signed with the certified key"] = len(targets) - len(corpus.Certs)
		// the complete runs first; then one placeholder signature at a time over the whole population, back to back: a
		// pre-issuance pipeline that lints many to-be-signed certificates carrying the same dummy signature
		type tgt struct {
			cc          CorpusCert
			s, e        int
			base, base2 map[string]resKey
		}
		var tgts []tgt
		for _, cc := range targets {
			if bytes.Equal(cc.Cert.RawIssuer, cc.Cert.RawSubject) {
				classes["self-issued (skipped)"]++
				continue
			}
			s, e, ok := sigPayload(cc.DER)
			if !ok || e <= s {
				classes["no signature payload"]++
				continue
			}
			certsTried++
			tgts = append(tgts, tgt{cc, s, e, resultsOf(zlint.LintCertificate(cc.Cert)), resultsOf(zlint.LintCertificate(cc.Cert))})
		}
		// variants 100..103 are "self-similar" signatures: octets taken from the certificate's own to-be-signed part
		// (its tail with the extensions, its head, every extension OID followed by BOOLEAN FALSE / TRUE, every
		// extension's complete encoding) - what a reader that searches the encoding instead of parsing it would trip over
		vlist := []int{}
		for v := 0; v < variants; v++ {
			vlist = append(vlist, v)
		}
		vlist = append(vlist, 100, 101, 102, 103)
		for _, v := range vlist {
			for ti, t := range tgts {
				cc, s, e, base, base2 := t.cc, t.s, t.e, t.base, t.base2
				if v >= 100 && tier() != "thorough" && ti%3 != (v-100)%3 {
					continue
				}
				mut := append([]byte{}, cc.DER...)
				kind := ""
				fill := func(src []byte) {
					if len(src) == 0 {
						src = []byte{0}
					}
					for i := s; i < e; i++ {
						mut[i] = src[(i-s)%len(src)]
					}
				}
				tbs := cc.Cert.RawTBSCertificate
				switch v {
				case 100:
					kind = "own-tbs-tail"
					if len(tbs) > e-s {
						fill(tbs[len(tbs)-(e-s):])
					} else {
						fill(tbs)
					}
				case 101:
					kind = "own-tbs-head"
					fill(tbs)
				case 102:
					kind = "own-extension-oids-with-boolean"
					var frag []byte
					for xi, x := range cc.Cert.Extensions {
						if oid, err := asn1.Marshal(x.Id); err == nil {
							frag = append(frag, oid...)
							if xi%2 == 0 {
								frag = append(frag, 0x01, 0x01, 0x00)
							} else {
								frag = append(frag, 0x01, 0x01, 0xff)
							}
							frag = append(frag, 0x04, 0x02, 0x05, 0x00)
						}
					}
					fill(frag)
				case 103:
					kind = "own-extensions-flipped-critical"
					var frag []byte
					for _, x := range cc.Cert.Extensions {
						y := x
						y.Critical = !x.Critical
						if b, err := asn1.Marshal(y); err == nil {
							frag = append(frag, b...)
						}
					}
					fill(frag)
				case 0:
					kind = "zeros"
					for i := s; i < e; i++ {
						mut[i] = 0
					}
				case 1:
					kind = "random"
					copy(mut[s:e], rng.Bytes(e-s))
				case 2:
					kind = "ones"
					for i := s; i < e; i++ {
						mut[i] = 0xff
					}
				case 3:
					kind = "flip-last-bit"
					mut[e-1] ^= 1
				case 4:
					kind = "reversed"
					for i, j := s, e-1; i < j; i, j = i+1, j-1 {
						mut[i], mut[j] = mut[j], mut[i]
					}
				default:
					kind = "random2"
					copy(mut[s:e], rng.Bytes(e-s))
				}
				c2, err := safeParseCert(mut)
				if err != nil {
					classes["parser rejects "+kind]++
					continue
				}
				replaced++
				classes["replaced "+kind]++
				got := resultsOf(zlint.LintCertificate(c2))
				for n, r := range base {
					if base2[n] != r {
						continue // not reproducible by itself (C05)
					}
					compared++
					if got[n] != r {
						out.Violate("C09|"+n, fmt.Sprintf("lint %s changes from %v to %v when the signature of %s is replaced (%s, linted right after other certificates carrying the same placeholder)", n, r, got[n], cc.File, kind),
							map[string]interface{}{"file": cc.File, "variant": kind, "der": hexs(mut)}, r, got[n])
					}
				}
				if len(out.Samples) < 3 {
					out.Sample(map[string]interface{}{"file": cc.File, "variant": kind, "signature_bytes": e - s, "lints_compared": len(base)})
				}
			}
		}
		// the framework's own reports: a registry of an embedding program with a lint that panics, one that returns a fixed
		// finding and one whose configuration fails - what is reported for them (status and text) is the same for two
		// certificates that differ in the signature value only
		{
			reg := lint.VerifNewRegistry()
			var lgs [][]int
			for i, sc := range []*Script{
				{Name: "e_verif_panics", Desc: "d", Cite: "c", Src: "Community", Cfg: "none", App: "true", Exe: "panic", ExeMsg: "index out of range [0] with length 0"},
				{Name: "e_verif_finds", Desc: "d", Cite: "c", Src: "Community", Cfg: "none", App: "true", Exe: "res", ExeStatus: 6, ExeDetails: "found"},
				{Name: "e_verif_applies_panics", Desc: "d", Cite: "c", Src: "RFC5280", Cfg: "none", App: "panic", AppMsg: "nil map", Exe: "res", ExeStatus: 3},
				{Name: "e_verif_config_fails", Desc: "d", Cite: "c", Src: "RFC5280", Cfg: "err", App: "true", Exe: "res", ExeStatus: 3},
			} {
				lgs = append(lgs, []int{})
				sc.armed = true
				_ = reg.RegisterCertificate(sc.certLint(&lgs[i]))
			}
			mockCompared := 0
			for ti, t := range tgts {
				if ti%40 != 0 {
					continue
				}
				var ref map[string]resKey
				for vi, sig := range [][]byte{nil, bytes.Repeat([]byte{0}, t.e-t.s), bytes.Repeat([]byte{0xff}, t.e-t.s)} {
					der := append([]byte{}, t.cc.DER...)
					if sig != nil {
						copy(der[t.s:t.e], sig)
					}
					c, err := safeParseCert(der)
					if err != nil {
						continue
					}
					var got map[string]resKey
					func() {
						defer func() { recover() }()
						got = resultsOf(zlint.LintCertificateEx(c, reg.Registry()))
					}()
					if vi == 0 {
						ref = got
						continue
					}
					mockCompared++
					for n, r := range ref {
						if got[n] != r {
							out.Violate("C09|framework-report-depends-on-signature:"+n, fmt.Sprintf("the framework's report for %s on %s is %v with the issued signature and %v with another signature value of the same length", n, t.cc.File, r, got[n]),
								map[string]interface{}{"file": t.cc.File, "lint": n}, r, got[n])
						}
					}
				}
			}
			out.Stats["mock_registry_signature_comparisons"] = mockCompared
		}
		// through the command-line tool as well (DER on standard input): a verdict, or whether there is one at all, must
		// not depend on the signature octets - in particular not on the last ones looking like text blanks
		if bin := os.Getenv("VERIF_CLI"); bin != "" {
			cliRuns := 0
			nCli := 5
			if tier() == "thorough" {
				nCli = 25
			}
			picked := 0
			for _, t := range tgts {
				if picked >= nCli {
					break
				}
				if !strings.HasSuffix(t.cc.File, ".pem") || len(t.cc.DER)%3 != 0 {
					continue
				}
				picked++
				ref := runCLI(bin, []string{"-format", "der"}, t.cc.DER)
				cliRuns++
				if ref.code != 0 {
					continue
				}
				for _, last := range [][]byte{{0x20}, {0x0a}, {0x0d, 0x0a}, {0x09}, {0x0c}, {0x0b}, {0xc2, 0x85}, {0xc2, 0xa0}, {0x00}, {0x41}} {
					mut := append([]byte{}, t.cc.DER...)
					copy(mut[t.s:t.e], rng.Bytes(t.e-t.s))
					copy(mut[t.e-len(last):t.e], last)
					if _, err := safeParseCert(mut); err != nil {
						continue
					}
					r := runCLI(bin, []string{"-format", "der"}, mut)
					cliRuns++
					ok := r.code == 0
					why := fmt.Sprintf("exit %d: %s", r.code, strings.TrimSpace(r.stderr))
					if ok {
						ok, why = equalResults(strings.TrimSuffix(r.stdout, "\n"), strings.TrimSuffix(ref.stdout, "\n"), map[string]bool{})
					}
					if !ok {
						out.Violate("C09|cli-depends-on-signature", fmt.Sprintf("the command-line tool treats %s differently when its signature (same length) ends in % x: %s", t.cc.File, last, why),
							map[string]interface{}{"file": t.cc.File, "der": hexs(mut), "signature_tail": hexs(last)}, "the report of the original certificate", why)
					}
				}
			}
			out.Stats["cli_runs"] = cliRuns
		}
		// generated chain: the same to-be-signed content under two signatures (ECDSA signing is randomised)
		for i := 0; i < 10; i++ {
			tmpl := leafTemplate()
			tmpl.SerialNumber.SetInt64(424242)
			der1, c1, e1 := issue(tmpl, nil)
			der2, c2, e2 := issue(tmpl, nil)
			if e1 != nil || e2 != nil || bytes.Equal(der1, der2) || !bytes.Equal(c1.RawTBSCertificate, c2.RawTBSCertificate) || len(c1.Signature) != len(c2.Signature) {
				continue
			}
			a, b := resultsOf(zlint.LintCertificate(c1)), resultsOf(zlint.LintCertificate(c2))
			classes["re-signed pair"]++
			for n, r := range a {
				compared++
				if b[n] != r {
					out.Violate("C09|"+n, fmt.Sprintf("lint %s differs between two signatures over the same to-be-signed certificate: %v vs %v", n, r, b[n]),
						map[string]interface{}{"der1": hexs(der1), "der2": hexs(der2)}, r, b[n])
				}
			}
		}
		out.Stats["certs_not_self_issued"] = certsTried
		out.Stats["signatures_replaced"] = replaced
		out.Stats["lint_results_compared"] = compared
		out.Data["classes"] = classes
		return out.Emit()
	}
}

// ownKeyCerts: certificates that are NOT self-issued (issuer name differs from subject name) yet whose signature was
// made with the very key they certify - a renamed CA re-certifying its own key, or an end-entity key signing itself
// under another name - with authorityKeyIdentifier equal to, absent, or different from subjectKeyIdentifier.  Their
// classification must not depend on whether the signature happens to verify under some key.
func ownKeyCerts() []CorpusCert {
	k := getKit()
	var out []CorpusCert
	if k.rsaKey == nil {
		if key, err := rsa.GenerateKey(rand.Reader, 2048); err == nil {
			k.rsaKey = key
		}
	}
	type signer struct {
		name string
		pub  interface{}
		priv interface{}
	}
	signers := []signer{{"ecdsa", &k.caKey.PublicKey, k.caKey}}
	if k.rsaKey != nil {
		signers = append(signers, signer{"rsa", &k.rsaKey.PublicKey, k.rsaKey})
	}
	ski := []byte{1, 2, 3, 4, 5, 6, 7, 8, 9, 10, 11, 12, 13, 14, 15, 16, 17, 18, 19, 20}
	for _, sg := range signers {
		for _, ca := range []bool{true, false} {
			for _, aki := range []string{"aki=ski", "no-aki", "aki-differs"} {
				tmpl := leafTemplate()
				tmpl.SubjectKeyId = ski
				tmpl.Subject = pkix.Name{CommonName: "renamed.example.com", Organization: []string{"Renamed Example"}, Country: []string{"US"}}
				if ca {
					tmpl.IsCA = true
					tmpl.KeyUsage = stdx509.KeyUsageCertSign | stdx509.KeyUsageCRLSign
					tmpl.ExtKeyUsage = nil
					tmpl.DNSNames = nil
					tmpl.Subject.CommonName = "Renamed Example CA G2"
				}
				parent := &stdx509.Certificate{Subject: pkix.Name{CommonName: "Example CA G1", Organization: []string{"Example"}, Country: []string{"US"}}}
				switch aki {
				case "aki=ski":
					parent.SubjectKeyId = ski
				case "aki-differs":
					parent.SubjectKeyId = []byte{9, 9, 9, 9, 9, 9, 9, 9, 9, 9, 9, 9, 9, 9, 9, 9, 9, 9, 9, 9}
				}
				der, err := stdx509.CreateCertificate(rand.Reader, tmpl, parent, sg.pub, sg.priv)
				if err != nil {
					continue
				}
				c, err := safeParseCert(der)
				if err != nil {
					continue
				}
				out = append(out, CorpusCert{fmt.Sprintf("generated-own-key-%s-ca=%v-%s", sg.name, ca, aki), der, c})
			}
		}
	}
	return out
}
