package main

import (
	crand "crypto/rand"
	"crypto/rsa"
	stdx509 "crypto/x509"
	"math/big"
	"io"
	"regexp"
	"strconv"
	"time"
	"os"
	"os/exec"
	"strings"
	"bytes"
	"fmt"
	"runtime"
	"sort"
	"sync"

	"github.com/zmap/zcrypto/x509"
	"github.com/zmap/zlint/v3"
	"github.com/zmap/zlint/v3/lint"
	"github.com/zmap/zlint/v3/util"
)

func init() {
	commands["c10"] = func(args []string) error {
		out := NewOutput()
		rng := NewRng(seedFromEnv(), "c10")
		// ---- static facts: what the read API and the Lint*Ex entry points can write and which lock operations they use
		facts, extra, err := computeFacts()
		if err != nil {
			return err
		}
		var lintWrites []string
		for _, f := range facts {
			for _, w := range f.GlobalWrites {
				lintWrites = append(lintWrites, f.Name+" "+w)
			}
		}
		out.Data["lint_global_writes"] = lintWrites
		// reads of the clock, of timers and of the scheduler's state reachable from a lint: what such a call returns depends
		// on when and beside whom the goroutine runs, which is exactly what the property excludes
		var schedReads []string
		for _, f := range facts {
			for _, w := range f.Forbidden {
				clock := strings.HasPrefix(w, "runtime.") || strings.HasPrefix(w, "context.")
				for _, p := range []string{"time.Now", "time.Since", "time.Until", "time.Sleep", "time.After", "time.Tick", "time.NewTimer", "time.NewTicker"} {
					clock = clock || strings.HasPrefix(w, p)
				}
				if clock {
					schedReads = append(schedReads, f.Name+" "+w)
				}
			}
		}
		sort.Strings(schedReads)
		out.Data["lint_clock_reads"] = schedReads
		out.Data["entry_global_writes"] = extra["entry_global_writes"]
		out.Data["lock_ops"] = extra["lock_ops"]
		out.Data["entry_functions"] = extra["entry_functions"]
		// ---- dynamic: concurrent linting against shared registries while other goroutines read the registry
		corpus := loadCorpus()
		g := lint.GlobalRegistry()
		names := g.Names()
		var srcs []string
		for _, s := range g.Sources() {
			srcs = append(srcs, string(s))
		}
		sort.Strings(srcs)
		nObj := 60
		gs := []int{8}
		procs := []int{runtime.NumCPU()}
		if tier() == "thorough" {
			nObj = 240
			gs = []int{2, 8, 32}
			procs = []int{1, 2, 4, 16}
		}
		certs := corpus.sampleCerts(rng, nObj)
		for i, zc := range certZoo() {
			if zc.Class == "ku-eku" && (i%4 == 0 || tier() == "thorough") || zc.Class == "tld" || zc.Class == "related-names" {
				certs = append(certs, zc.CorpusCert)
			}
		}
		var filtered []lint.Registry
		for len(filtered) < 3 {
			if fr, e := g.Filter(randomFilterSpec(rng, names, srcs, false).opts()); e == nil && fr != g {
				filtered = append(filtered, fr)
			}
		}
		regs := append([]lint.Registry{g}, filtered...)
		// sequential reference: every (registry, object) alone
		type key struct{ r, o int }
		seq := map[key]map[string]resKey{}
		for ri, r := range regs {
			for oi, cc := range certs {
				seq[key{ri, oi}] = resultsOf(zlint.LintCertificateEx(cc.Cert, r))
			}
		}
		crlSeq := map[int]map[string]resKey{}
		for i, cc := range corpus.CRLs {
			crlSeq[i] = resultsOf(zlint.LintRevocationList(cc.CRL))
		}
		// reference filters: every ordered pair of sources as IncludeSources (and as ExcludeSources), plus random options;
		// the lints each selects when called alone
		var fspecs []FilterSpec
		for _, a := range srcs {
			for _, b := range srcs {
				if a != b {
					fspecs = append(fspecs, FilterSpec{IncludeSources: []string{a, b}})
				}
			}
			fspecs = append(fspecs, FilterSpec{IncludeSources: []string{a}}, FilterSpec{ExcludeSources: []string{a}})
		}
		for i := 0; i < 40; i++ {
			fspecs = append(fspecs, randomFilterSpec(rng, names, srcs, true))
		}
		frefs := make([]string, len(fspecs))
		filterNames := func(f FilterSpec) string {
			fr, e := g.Filter(f.opts())
			if e != nil {
				return "error: " + e.Error()
			}
			return strings.Join(fr.Names(), ",")
		}
		for i, f := range fspecs {
			frefs[i] = filterNames(f)
		}
		refNames := fmt.Sprint(g.Names())
		var refJSON bytes.Buffer
		g.WriteJSON(&refJSON)
		total := 0
		for _, np := range procs {
			prev := runtime.GOMAXPROCS(np)
			for _, G := range gs {
				var wg sync.WaitGroup
				var mu sync.Mutex
				var problems []string
				report := func(s string) {
					mu.Lock()
					if len(problems) < 20 {
						problems = append(problems, s)
					}
					mu.Unlock()
				}
				stop := make(chan struct{})
				// readers hammering the registry API
				for rdr := 0; rdr < 3; rdr++ {
					wg.Add(1)
					go func(id int) {
						defer wg.Done()
						defer func() {
							if p := recover(); p != nil {
								report(fmt.Sprintf("reader panicked: %v", p))
							}
						}()
						lr := NewRng(seedFromEnv(), fmt.Sprintf("c10-reader-%d", id))
						for {
							select {
							case <-stop:
								return
							default:
							}
							switch lr.Intn(6) {
							case 0:
								if fmt.Sprint(g.Names()) != refNames {
									report("Names() changed under concurrency")
								}
							case 1:
								_ = g.Sources()
							case 2:
								n := names[lr.Intn(len(names))]
								if g.CertificateLints().ByName(n) == nil && g.RevocationListLints().ByName(n) == nil && g.OcspResponseLints().ByName(n) == nil {
									report("ByName lost " + n)
								}
							case 3:
								var b bytes.Buffer
								g.WriteJSON(&b)
								if b.Len() != refJSON.Len() {
									report("WriteJSON output changed under concurrency")
								}
							case 4:
								fi := lr.Intn(len(fspecs))
								if got := filterNames(fspecs[fi]); got != frefs[fi] {
									report(fmt.Sprintf("Filter(%+v) selects %d lints concurrently, %d alone", fspecs[fi], strings.Count(got, ",")+1, strings.Count(frefs[fi], ",")+1))
								}
							default:
								_ = g.BySource(lint.LintSource(srcs[lr.Intn(len(srcs))]))
							}
						}
					}(rdr)
				}
				var lw sync.WaitGroup
				for w := 0; w < G; w++ {
					lw.Add(1)
					go func(id int) {
						defer lw.Done()
						defer func() {
							if p := recover(); p != nil {
								report(fmt.Sprintf("lint goroutine panicked: %v", p))
							}
						}()
						lr := NewRng(seedFromEnv(), fmt.Sprintf("c10-worker-%d-%d-%d", np, G, id))
						for k := 0; k < len(certs)/2; k++ {
							oi := lr.Intn(len(certs))
							ri := lr.Intn(len(regs))
							// each goroutine lints its own parsed copy
							c, err := x509.ParseCertificate(certs[oi].DER)
							if err != nil {
								continue
							}
							got := resultsOf(zlint.LintCertificateEx(c, regs[ri]))
							want := seq[key{ri, oi}]
							if len(got) != len(want) {
								report(fmt.Sprintf("%s: %d results concurrently, %d alone", certs[oi].File, len(got), len(want)))
								continue
							}
							for n, v := range want {
								if got[n] != v {
									report(fmt.Sprintf("lint %s on %s: %v concurrently, %v alone", n, certs[oi].File, got[n], v))
									break
								}
							}
							if len(corpus.CRLs) > 0 && k%7 == 0 {
								ci := lr.Intn(len(corpus.CRLs))
								crl, err := x509.ParseRevocationList(corpus.CRLs[ci].DER)
								if err == nil {
									gotc := resultsOf(zlint.LintRevocationList(crl))
									for n, v := range crlSeq[ci] {
										if gotc[n] != v {
											report(fmt.Sprintf("CRL lint %s on %s: %v concurrently, %v alone", n, corpus.CRLs[ci].File, gotc[n], v))
											break
										}
									}
								}
							}
						}
					}(w)
				}
				lw.Wait()
				close(stop)
				wg.Wait()
				total += G * (len(certs) / 2)
				for _, p := range problems {
					out.Violate("C10|concurrent-differs", fmt.Sprintf("GOMAXPROCS=%d goroutines=%d: %s", np, G, p), map[string]interface{}{"gomaxprocs": np, "goroutines": G, "seed": seedFromEnv()}, nil, nil)
				}
			}
			runtime.GOMAXPROCS(prev)
		}
		// cold registries: every registry Filter returns is new, so its first Names / Sources / listing calls happen while
		// other goroutines already filter it further and lint with it - rounds of exactly that, each with a deadline (a
		// reader that upgrades to a write lock between another reader's nested read locks never comes back)
		{
			rounds := 60
			if tier() == "thorough" {
				rounds = 400
			}
			stuck := ""
			for round := 0; round < rounds && stuck == ""; round++ {
				fr, err := g.Filter(lint.FilterOptions{ExcludeNames: []string{names[round%len(names)]}})
				if err != nil {
					continue
				}
				var wg sync.WaitGroup
				var mu sync.Mutex
				var diffs []string
				run := func(f func()) {
					wg.Add(1)
					go func() {
						defer wg.Done()
						defer func() {
							if p := recover(); p != nil {
								mu.Lock()
								diffs = append(diffs, fmt.Sprintf("panic: %v", p))
								mu.Unlock()
							}
						}()
						f()
					}()
				}
				for k := 0; k < 2; k++ {
					k := k
					run(func() { fr.Filter(lint.FilterOptions{IncludeSources: lint.SourceList{lint.LintSource(srcs[(round+k)%len(srcs)])}}) })
					run(func() { fr.Sources() })
					run(func() { fr.Names() })
					run(func() {
						cc := certs[(round*2+k)%len(certs)]
						c, err := x509.ParseCertificate(cc.DER)
						if err != nil {
							return
						}
						got := resultsOf(zlint.LintCertificateEx(c, fr))
						want := seq[key{0, (round*2 + k) % len(certs)}]
						for n, v := range got {
							if w, ok := want[n]; ok && w != v {
								mu.Lock()
								diffs = append(diffs, fmt.Sprintf("%s on %s: %v, alone %v", n, cc.File, v, w))
								mu.Unlock()
								break
							}
						}
					})
				}
				done := make(chan struct{})
				go func() { wg.Wait(); close(done) }()
				select {
				case <-done:
				case <-time.After(15 * time.Second):
					stuck = fmt.Sprintf("round %d: a freshly filtered registry used at once by Filter (x2), Sources (x2), Names (x2) and LintCertificateEx (x2) from eight goroutines: the calls have not returned after 15 s", round)
				}
				total += 8
				for _, d := range diffs {
					out.Violate("C10|cold-registry-differs", "calls on a freshly filtered registry made at the same time: "+d, map[string]interface{}{"round": round}, nil, nil)
				}
			}
			if stuck != "" {
				out.Violate("C10|deadlock-on-cold-registry", stuck, map[string]interface{}{"schedule": "fr := global.Filter(ExcludeNames:[one name]); then concurrently 2x fr.Filter(IncludeSources), 2x fr.Sources(), 2x fr.Names(), 2x LintCertificateEx(cert, fr)", "gomaxprocs": runtime.GOMAXPROCS(0)},
					"all calls return", "blocked for ever")
				out.Stats["concurrent_lint_calls"] = total
				return out.Emit()
			}
		}
		// volume: several hundred certificates with pairwise distinct names (internationalised labels among them) linted from
		// eight goroutines while a few reference certificates are linted again and again - whatever the library remembers
		// about names it has seen (a bounded memo recycles its slots only after hundreds of distinct keys) must not change
		// what the same call reports alone
		{
			refNames := [][]string{{"xn--ex-8tb.example.com"}, {"xn--caf-dma.com", "www.xn--caf-dma.com"}, {"xn--bad!.example.com", "plain.example.com"}, {"xn--mnchen-3ya.example.org"}}
			type refT struct {
				der   []byte
				alone map[string]resKey
			}
			var refs []refT
			for _, dn := range refNames {
				t := leafTemplate()
				t.DNSNames, t.Subject.CommonName = dn, dn[0]
				if der, c, err := issue(t, nil); err == nil {
					a, b := resultsOf(zlint.LintCertificate(c)), resultsOf(zlint.LintCertificate(c))
					for n, v := range a {
						if b[n] != v {
							delete(a, n)
						}
					}
					refs = append(refs, refT{der, a})
				}
			}
			nChurn := 340
			if tier() == "thorough" {
				nChurn = 1500
			}
			var churn [][]byte
			alpha := "abcdefghijklmnopqrstuvwxyz0123456789"
			for i := 0; i < nChurn; i++ {
				lab := make([]byte, 6)
				x := i*7919 + 13
				for j := range lab {
					lab[j] = alpha[x%len(alpha)]
					x /= len(alpha)
				}
				t := leafTemplate()
				name := fmt.Sprintf("xn--%s-%da.example.com", lab, i%7)
				t.DNSNames, t.Subject.CommonName = []string{name, fmt.Sprintf("h%d.xn--%s.example.net", i, lab)}, name
				if der, _, err := issue(t, nil); err == nil {
					churn = append(churn, der)
				}
			}
			var wg sync.WaitGroup
			var mu sync.Mutex
			var diffs []string
			for w := 0; w < 8; w++ {
				wg.Add(1)
				go func(id int) {
					defer wg.Done()
					defer func() {
						if p := recover(); p != nil {
							mu.Lock()
							diffs = append(diffs, fmt.Sprintf("panic: %v", p))
							mu.Unlock()
						}
					}()
					for i := id; i < len(churn); i += 8 {
						if c, err := x509.ParseCertificate(churn[i]); err == nil {
							zlint.LintCertificate(c)
						}
						if i%16 == id && len(refs) > 0 {
							r := refs[(i/16)%len(refs)]
							if c, err := x509.ParseCertificate(r.der); err == nil {
								got := resultsOf(zlint.LintCertificate(c))
								for n, v := range r.alone {
									if got[n] != v {
										mu.Lock()
										if len(diffs) < 6 {
											diffs = append(diffs, fmt.Sprintf("%s on the reference certificate with names %v: %v alone, %v while %d certificates with other names are linted", n, c.DNSNames, v, got[n], len(churn)))
										}
										mu.Unlock()
										break
									}
								}
							}
						}
					}
				}(w)
			}
			wg.Wait()
			// and once more after the churn, alone again
			for _, r := range refs {
				if c, err := x509.ParseCertificate(r.der); err == nil {
					got := resultsOf(zlint.LintCertificate(c))
					for n, v := range r.alone {
						if got[n] != v && len(diffs) < 8 {
							diffs = append(diffs, fmt.Sprintf("%s on the reference certificate with names %v: %v before, %v after %d certificates with other names were linted", n, c.DNSNames, v, got[n], len(churn)))
							break
						}
					}
				}
			}
			total += len(churn)
			out.Stats["distinct_name_churn"] = len(churn)
			for _, d := range diffs {
				out.Violate("C10|volume-of-distinct-names-differs", d, map[string]interface{}{"churn_certificates": len(churn), "goroutines": 8, "how": "harness c10: reference certificates linted alone, then while 8 goroutines lint certificates with pairwise distinct (internationalised) names"}, nil, nil)
			}
		}
		// heavy objects under processor oversubscription: a revocation list as large as big issuers publish (a repeated
		// serial number near its end, the smallest serial last) linted by 16 goroutines on one processor, each on its own
		// parsed copy - a call that gets a sixteenth of a processor reports what the same call reports alone
		{
			k := getKit()
			n := 40000
			if tier() == "thorough" {
				n = 120000
			}
			tmpl := &stdx509.RevocationList{Number: big.NewInt(77001), ThisUpdate: time.Date(2024, 2, 1, 0, 0, 0, 0, time.UTC), NextUpdate: time.Date(2024, 2, 8, 0, 0, 0, 0, time.UTC)}
			for j := 0; j < n; j++ {
				tmpl.RevokedCertificateEntries = append(tmpl.RevokedCertificateEntries, stdx509.RevocationListEntry{SerialNumber: big.NewInt(int64(j)*7 + 1000), RevocationTime: tmpl.ThisUpdate.Add(-time.Duration(j%5000+1) * time.Minute)})
			}
			tmpl.RevokedCertificateEntries = append(tmpl.RevokedCertificateEntries, tmpl.RevokedCertificateEntries[n-9])
			tmpl.RevokedCertificateEntries = append(tmpl.RevokedCertificateEntries, stdx509.RevocationListEntry{SerialNumber: big.NewInt(3), RevocationTime: tmpl.ThisUpdate.Add(-time.Hour), ReasonCode: 7})
			if der, err := stdx509.CreateRevocationList(crand.Reader, tmpl, k.caCert, k.caKey); err == nil {
				if crl0, err := x509.ParseRevocationList(der); err == nil {
					alone := resultsOf(zlint.LintRevocationList(crl0))
					alone2 := resultsOf(zlint.LintRevocationList(crl0))
					prev := runtime.GOMAXPROCS(1)
					var wg sync.WaitGroup
					var mu sync.Mutex
					diffs := map[string]string{}
					for w := 0; w < 16; w++ {
						wg.Add(1)
						go func() {
							defer wg.Done()
							defer func() {
								if p := recover(); p != nil {
									mu.Lock()
									diffs["panic"] = fmt.Sprint(p)
									mu.Unlock()
								}
							}()
							crl, err := x509.ParseRevocationList(der)
							if err != nil {
								return
							}
							got := resultsOf(zlint.LintRevocationList(crl))
							mu.Lock()
							for ln, v := range alone {
								if alone2[ln] == v && got[ln] != v {
									diffs[ln] = fmt.Sprintf("%v alone, %v as one of 16 goroutines on one processor", v, got[ln])
								}
							}
							mu.Unlock()
						}()
					}
					wg.Wait()
					runtime.GOMAXPROCS(prev)
					total += 16
					out.Stats["oversubscribed_large_crl_entries"] = n + 2
					for ln, why := range diffs {
						out.Violate("C10|oversubscribed-differs:"+ln, fmt.Sprintf("lint %s on a revocation list of %d entries (a repeated serial number near the end): %s", ln, n+2, why),
							map[string]interface{}{"object": "CRL built by harness c10: " + fmt.Sprint(n) + " entries serial 7j+1000, entry n-9 repeated, then serial 3 reason 7", "gomaxprocs": 1, "goroutines": 16, "der_bytes": len(der)}, nil, nil)
					}
				}
			}
		}
		// two shared registries with different configurations for the configurable CRL lint, used at the same time: every
		// call gets what the same call gets alone under its own registry's configuration
		{
			cfgCA, _ := lint.NewConfigFromString("[e_crl_next_update_invalid]\nSubscriberCRL = false\n")
			cfgSub, _ := lint.NewConfigFromString("[e_crl_next_update_invalid]\nSubscriberCRL = true\n")
			mk := func(cfg *lint.Configuration) lint.Registry {
				fr, err := g.Filter(lint.FilterOptions{ExcludeNames: []string{names[0]}})
				if err != nil {
					return nil
				}
				if cfg != nil {
					fr.SetConfiguration(*cfg)
				}
				return fr
			}
			regsC := []lint.Registry{mk(nil), mk(&cfgCA), mk(&cfgSub)}
			crls := append(append([]CorpusCRL{}, corpus.CRLs...), crlZoo()...)
			type ck struct{ r, o int }
			alone := map[ck]map[string]resKey{}
			// the reference: each registry alone, in a separate pass per registry, before any mixing
			for ri, r := range regsC {
				if r == nil {
					continue
				}
				for oi, cc := range crls {
					alone[ck{ri, oi}] = resultsOf(zlint.LintRevocationListEx(cc.CRL, r))
				}
			}
			var wg sync.WaitGroup
			var mu sync.Mutex
			var problems []string
			for w := 0; w < 9; w++ {
				wg.Add(1)
				go func(id int) {
					defer wg.Done()
					defer func() {
						if p := recover(); p != nil {
							mu.Lock()
							problems = append(problems, fmt.Sprintf("CRL linting panicked: %v", p))
							mu.Unlock()
						}
					}()
					ri := id % 3
					if regsC[ri] == nil {
						return
					}
					for rep := 0; rep < 6; rep++ {
						for oi, cc := range crls {
							crl, err := x509.ParseRevocationList(cc.DER)
							if err != nil {
								continue
							}
							got := resultsOf(zlint.LintRevocationListEx(crl, regsC[ri]))
							for n, v := range alone[ck{ri, oi}] {
								if got[n] != v {
									mu.Lock()
									if len(problems) < 8 {
										problems = append(problems, fmt.Sprintf("CRL lint %s on %s under registry %d: %v while other registries with other configurations are in use, %v alone", n, cc.File, ri, got[n], v))
									}
									mu.Unlock()
									break
								}
							}
						}
					}
				}(w)
			}
			wg.Wait()
			for _, pr := range problems {
				out.Violate("C10|concurrent-config-differs", pr, map[string]interface{}{"registries": "empty / SubscriberCRL=false / SubscriberCRL=true", "goroutines": 9}, nil, nil)
			}
			out.Stats["concurrent_crl_calls"] = 9 * 6 * len(crls)
		}
		// the same for the configurable certificate lints: registries that differ in one option each, used at the same time
		// on distinct parsed copies of the same certificates; each call must get what the same call gets alone under its own
		// registry's configuration.  The Fermat certificate's primes are about 2^520 apart: ~8000 rounds factor it, 10 do not,
		// and the search takes milliseconds, so calls overlap.
		{
			type variant struct{ lo, hi string }
			cfgs := map[string]variant{
				"e_rsa_fermat_factorization":    {"[e_rsa_fermat_factorization]\nRounds = 10\n", "[e_rsa_fermat_factorization]\nRounds = 30000\n"},
				"e_subj_contains_html_entities": {"[e_subj_contains_html_entities]\nSkip = true\n", "[e_subj_contains_html_entities]\nSkip = false\n"},
				"e_subj_orgunit_in_ca_cert":     {"[e_subj_orgunit_in_ca_cert]\nCrossCert = true\n", "[e_subj_orgunit_in_ca_cert]\nCrossCert = false\n"},
			}
			var ders [][]byte
			{
				one := big.NewInt(1)
				pb := rng.Bytes(128)
				pb[0] |= 0xc0
				p := nextPrime(new(big.Int).SetBytes(pb))
				q := nextPrime(new(big.Int).Add(p, new(big.Int).Lsh(one, 520)))
				if der, _, err := issue(leafTemplate(), &rsa.PublicKey{N: new(big.Int).Mul(p, q), E: 65537}); err == nil {
					ders = append(ders, der)
				}
			}
			for _, cc := range corpus.Certs {
				if strings.HasPrefix(cc.File, "html_entity_ko") || strings.HasPrefix(cc.File, "orgunit_in_ca_ko") {
					ders = append(ders, cc.DER)
				}
			}
			type rk struct {
				lint string
				hi   bool
			}
			regsV := map[rk]lint.Registry{}
			for ln, v := range cfgs {
				for _, hi := range []bool{false, true} {
					txt := v.lo
					if hi {
						txt = v.hi
					}
					cfg, err := lint.NewConfigFromString(txt)
					fr, err2 := g.Filter(lint.FilterOptions{IncludeNames: []string{ln}})
					if err != nil || err2 != nil {
						continue
					}
					fr.SetConfiguration(cfg)
					regsV[rk{ln, hi}] = fr
				}
			}
			type ak struct {
				r rk
				o int
			}
			alone := map[ak]resKey{}
			for r, reg := range regsV {
				for oi, der := range ders {
					if c, err := x509.ParseCertificate(der); err == nil {
						alone[ak{r, oi}] = resultsOf(zlint.LintCertificateEx(c, reg))[r.lint]
					}
				}
			}
			var wg sync.WaitGroup
			var mu sync.Mutex
			var problems []string
			calls := 0
			reps := 6
			if tier() == "thorough" {
				reps = 40
			}
			for r, reg := range regsV {
				for w := 0; w < 2; w++ {
					wg.Add(1)
					r, reg := r, reg
					calls += reps * len(ders)
					go func() {
						defer wg.Done()
						defer func() {
							if pv := recover(); pv != nil {
								mu.Lock()
								problems = append(problems, fmt.Sprintf("linting panicked: %v", pv))
								mu.Unlock()
							}
						}()
						for rep := 0; rep < reps; rep++ {
							for oi, der := range ders {
								c, err := x509.ParseCertificate(der)
								if err != nil {
									continue
								}
								got := resultsOf(zlint.LintCertificateEx(c, reg))[r.lint]
								if want := alone[ak{r, oi}]; got != want {
									mu.Lock()
									if len(problems) < 8 {
										problems = append(problems, fmt.Sprintf("%s on certificate #%d under its registry's configuration (%s option) gives %v while registries with the other option value are in use, %v alone", r.lint, oi, map[bool]string{false: "low", true: "high"}[r.hi], got, want))
									}
									mu.Unlock()
								}
							}
						}
					}()
				}
			}
			wg.Wait()
			for _, pr := range problems {
				out.Violate("C10|concurrent-cert-config-differs", pr, map[string]interface{}{"configurations": cfgs, "goroutines": 2 * len(regsV), "ders": len(ders)}, nil, nil)
			}
			out.Stats["concurrent_configured_cert_calls"] = calls
		}
		// concurrent Filter calls on the shared registry (every goroutine walks the reference filters in its own order)
		{
			var wg sync.WaitGroup
			var mu sync.Mutex
			var problems []string
			rounds := 2
			if tier() == "thorough" {
				rounds = 12
			}
			for w := 0; w < 8; w++ {
				wg.Add(1)
				go func(id int) {
					defer wg.Done()
					defer func() {
						if p := recover(); p != nil {
							mu.Lock()
							problems = append(problems, fmt.Sprintf("Filter panicked: %v", p))
							mu.Unlock()
						}
					}()
					lr := NewRng(seedFromEnv(), fmt.Sprintf("c10-filter-%d", id))
					for k := 0; k < rounds*len(fspecs); k++ {
						fi := lr.Intn(len(fspecs))
						if got := filterNames(fspecs[fi]); got != frefs[fi] {
							mu.Lock()
							if len(problems) < 10 {
								problems = append(problems, fmt.Sprintf("Filter(%+v) selects %d lints when called concurrently with other Filter calls, %d alone", fspecs[fi], strings.Count(got, ",")+1, strings.Count(frefs[fi], ",")+1))
							}
							mu.Unlock()
						}
					}
				}(w)
			}
			wg.Wait()
			out.Stats["concurrent_filter_calls"] = 8 * rounds * len(fspecs)
			for _, p := range problems {
				out.Violate("C10|concurrent-filter-differs", p, map[string]interface{}{"goroutines": 8, "seed": seedFromEnv()}, nil, nil)
			}
		}
		// cold start: in a fresh process the very first lint calls are concurrent (lazily initialised shared state is only
		// vulnerable before the first call completes); each trial is a new process compared with a sequential cold process
		trials := 30
		if tier() == "thorough" {
			trials = 120
		}
		self, _ := os.Executable()
		ref, err := exec.Command(self, "c10cold", "seq").Output()
		if err == nil {
			for t := 0; t < trials; t++ {
				tick()
				cmd := []string{"c10cold", "par"}
				if t%3 != 0 {
					// two trials in three: one first-time read-only registry call lands in the middle of the runs
					cmd = append(cmd, fmt.Sprint((t/3)%8), fmt.Sprint(200+(t*977)%9000))
				}
				got, err := exec.Command(self, cmd...).Output()
				if err != nil {
					out.Violate("C10|cold-start-crash", "a cold process whose first lint calls are concurrent crashed: "+err.Error(), nil, nil, nil)
					break
				}
				if string(got) != string(ref) {
					out.Violate("C10|cold-start-differs", "in a fresh process whose first lint calls run concurrently, results differ from a sequential cold process: "+firstDiffLine(string(ref), string(got)),
						map[string]interface{}{"how": "harness " + strings.Join(cmd, " ") + "  vs  harness c10cold seq (arguments after par: read-only registry call number, delay in microseconds)", "trial": t}, nil, nil)
					break
				}
			}
			out.Stats["cold_start_trials"] = trials
		}
		out.Stats["concurrent_lint_calls"] = total
		out.Stats["registries"] = len(regs)
		out.Sample(map[string]interface{}{"goroutines": gs, "gomaxprocs": procs, "objects": len(certs), "readers": 3})
		return out.Emit()
	}
}

func firstDiffLine(a, b string) string {
	la, lb := strings.Split(a, "\n"), strings.Split(b, "\n")
	for i := range la {
		if i >= len(lb) || la[i] != lb[i] {
			x := ""
			if i < len(lb) {
				x = lb[i]
			}
			return "sequential: " + la[i] + " | concurrent: " + x
		}
	}
	return "(length differs)"
}

// c10cold: lint a fixed set of objects as the very first lint calls of the process, sequentially or concurrently, and print
// the results in a canonical order
func init() {
	commands["c10cold"] = func(args []string) error {
		par := len(args) > 0 && args[0] == "par"
		corpus := loadCorpus()
		// objects that reach every lazily-initialisable table: reserved IPs, TLDs, onion names, policies ...
		var sel []CorpusCert
		for _, cc := range corpus.Certs {
			n := strings.ToLower(cc.File)
			if strings.Contains(n, "ip") || strings.Contains(n, "onion") || strings.Contains(n, "tld") || strings.Contains(n, "reserved") || strings.Contains(n, "arpa") || len(sel) < 12 {
				sel = append(sel, cc)
			}
			if len(sel) >= 48 {
				break
			}
		}
		// names under many different top-level domains (per-domain state that is filled on first use)
		{
			m := util.VerifTLDMap()
			keys := sortedKeys(m)
			for i := 0; i < len(keys) && i < 60*25; i += 25 {
				t := leafTemplate()
				t.Subject.CommonName = "www.example." + keys[i]
				t.DNSNames = []string{"www.example." + keys[i], "example." + keys[(i+7)%len(keys)]}
				t.OCSPServer = []string{"http://ocsp.example." + keys[(i+3)%len(keys)] + "/"}
				if der, c, err := issue(t, nil); err == nil {
					sel = append(sel, CorpusCert{"tld-" + keys[i], der, c})
				}
			}
		}
		// several copies of every object, so that many goroutines reach the same tables in the same instant
		base := sel
		for k := 0; k < 3; k++ {
			sel = append(sel, base...)
		}
		res := make([]string, len(sel))
		if par {
			var wg sync.WaitGroup
			start := make(chan struct{})
			for i := range sel {
				wg.Add(1)
				go func(i int) {
					defer wg.Done()
					c, err := x509.ParseCertificate(sel[i].DER)
					if err != nil {
						return
					}
					<-start
					res[i] = fmt.Sprint(sel[i].File, " ", sortedResults(zlint.LintCertificate(c)))
				}(i)
			}
			// with it, for the first time in this process, one call of the registry's read-only API (the listing, the name
			// and source lists, the example configuration, a filter, the lookups): a read may not disturb the runs in flight
			if len(args) > 2 {
				op, _ := strconv.Atoi(args[1])
				delay, _ := strconv.Atoi(args[2])
				wg.Add(1)
				go func() {
					defer wg.Done()
					defer func() { recover() }()
					<-start
					time.Sleep(time.Duration(delay) * time.Microsecond)
					g := lint.GlobalRegistry()
					switch op {
					case 0:
						g.WriteJSON(io.Discard)
					case 1:
						_ = g.Names()
					case 2:
						_ = g.Sources()
					case 3:
						_, _ = g.DefaultConfiguration()
					case 4:
						_, _ = g.Filter(lint.FilterOptions{IncludeSources: lint.SourceList{lint.RFC5280}})
					case 5:
						_ = g.BySource(lint.CABFBaselineRequirements)
						_ = g.CertificateLints().BySource(lint.CABFBaselineRequirements)
					case 6:
						_ = g.CertificateLints().Lints()
						_ = g.CertificateLints().ByName("e_ca_is_ca")
						_ = g.ByName("e_ca_is_ca")
					case 7:
						_, _ = g.Filter(lint.FilterOptions{NameFilter: regexp.MustCompile("^e_")})
						g.WriteJSON(io.Discard)
					}
				}()
			}
			close(start)
			wg.Wait()
		} else {
			for i := range sel {
				c, err := x509.ParseCertificate(sel[i].DER)
				if err != nil {
					continue
				}
				res[i] = fmt.Sprint(sel[i].File, " ", sortedResults(zlint.LintCertificate(c)))
			}
		}
		fmt.Println(strings.Join(res, "\n"))
		return nil
	}
}

func sortedResults(rs *zlint.ResultSet) []string {
	out := []string{fmt.Sprintf("results=%d flags=%v/%v/%v/%v", len(rs.Results), rs.NoticesPresent, rs.WarningsPresent, rs.ErrorsPresent, rs.FatalsPresent)}
	for _, n := range sortedKeys(rs.Results) {
		r := rs.Results[n]
		if r.Status != 1 && r.Status != 2 && r.Status != 3 {
			out = append(out, fmt.Sprintf("%s=%d:%s", n, r.Status, r.Details))
		}
	}
	return out
}
