package main

import (
	"encoding/json"
	"encoding/pem"
	"path/filepath"
	"regexp"
	"os"
	"os/exec"
	"sort"
	"fmt"
	"strings"

	"github.com/pelletier/go-toml"
	"github.com/zmap/zcrypto/x509"
	"github.com/zmap/zlint/v3"
	"github.com/zmap/zlint/v3/lint"
	"golang.org/x/crypto/ocsp"
)

type secSpec struct {
	name string
	kind string // "tbl-ok" (A = n), "tbl-bad" (ill-typed), "scalar", "array", "tbl-empty", "tbl-unknownkey"
	a    int
}

func (s secSpec) toml() (scalar string, table string) {
	switch s.kind {
	case "tbl-ok":
		return "", fmt.Sprintf("[%s]\nA = %d\n", s.name, s.a)
	case "tbl-bad":
		return "", fmt.Sprintf("[%s]\nA = \"not a number\"\n", s.name)
	case "tbl-empty":
		return "", fmt.Sprintf("[%s]\n", s.name)
	case "tbl-unknownkey":
		return "", fmt.Sprintf("[%s]\nZzz = true\n", s.name)
	case "scalar":
		return fmt.Sprintf("%s = 5\n", s.name), ""
	case "array":
		return fmt.Sprintf("%s = [1, 2]\n", s.name), ""
	case "array0":
		return fmt.Sprintf("%s = []\n", s.name), ""
	case "bool":
		return fmt.Sprintf("%s = true\n", s.name), ""
	case "float":
		return fmt.Sprintf("%s = 1.5\n", s.name), ""
	case "datetime":
		return fmt.Sprintf("%s = 2024-01-01T00:00:00Z\n", s.name), ""
	case "string":
		return fmt.Sprintf("%s = \"text\"\n", s.name), ""
	case "nested-array":
		return fmt.Sprintf("%s = [[], [1]]\n", s.name), ""
	}
	return "", ""
}

func (s secSpec) coq() string {
	switch s.kind {
	case "tbl-ok":
		return fmt.Sprintf("(%s, Some (Some %s))", cqBytes(s.name), cqZ(int64(s.a)))
	case "tbl-bad":
		return fmt.Sprintf("(%s, Some None)", cqBytes(s.name))
	case "tbl-empty", "tbl-unknownkey":
		return fmt.Sprintf("(%s, Some (Some 0%%Z))", cqBytes(s.name)) // decodes, option keeps its default
	}
	return fmt.Sprintf("(%s, None)", cqBytes(s.name))
}

func buildDoc(secs []secSpec) string {
	var sc, tb []string
	for _, s := range secs {
		a, b := s.toml()
		if a != "" {
			sc = append(sc, a)
		}
		if b != "" {
			tb = append(tb, b)
		}
	}
	return strings.Join(sc, "") + strings.Join(tb, "")
}

// how the configuration layer treats a node that is not a table, today
func notTableBehaviour() (coq string, isPanic bool, text string) {
	cfg, err := lint.NewConfigFromString("e_probe = 5\n")
	if err != nil {
		return "(NtErr [])", false, err.Error()
	}
	var perr error
	var pv interface{}
	func() {
		defer func() { pv = recover() }()
		perr = cfg.Configure(&mockConf{}, "e_probe")
	}()
	if pv != nil {
		return "(NtPanic " + cqBytes(fmt.Sprint(pv)) + ")", true, fmt.Sprint(pv)
	}
	if perr == nil {
		return "(NtErr [])", false, "no error"
	}
	msg := perr.Error()
	if i := strings.LastIndex(msg, "`zlint -exampleConfig`. Error: "); i >= 0 {
		msg = msg[i+len("`zlint -exampleConfig`. Error: "):]
	}
	return "(NtErr " + cqBytes(msg) + ")", false, msg
}

func statusMap(rs *zlint.ResultSet) map[string]resKey { return resultsOf(rs) }

func diffResults(a, b map[string]resKey, except map[string]bool) []string {
	var d []string
	for k, v := range a {
		if except[k] {
			continue
		}
		if b[k] != v {
			d = append(d, k)
		}
	}
	return d
}

func init() {
	commands["c11"] = func(args []string) error {
		out := NewOutput()
		rng := NewRng(seedFromEnv(), "c11")
		g := lint.GlobalRegistry()
		corpus := loadCorpus()
		ntCoq, ntPanic, ntText := notTableBehaviour()
		out.Data["not_table_is_panic"] = ntPanic
		out.Data["not_table_text"] = ntText
		out.Data["not_table_coq"] = ntCoq
		// ---- configurable lints of the registry
		var configurable []string
		for _, li := range registryInfo(g) {
			if li.Configurable {
				configurable = append(configurable, li.Name)
			}
		}
		out.Data["configurable"] = configurable
		// ---- the example configuration
		def, err := g.DefaultConfiguration()
		if err != nil {
			out.Violate("C11|default-config-error", "DefaultConfiguration failed: "+err.Error(), nil, nil, nil)
		}
		defCfg, err := lint.NewConfigFromString(string(def))
		if err != nil {
			out.Violate("C11|default-config-invalid-toml", "the example configuration is not valid TOML: "+err.Error(), string(def), nil, nil)
		} else {
			tree, _ := toml.Load(string(def))
			for _, n := range configurable {
				if _, ok := tree.Get(n).(*toml.Tree); !ok {
					out.Violate("C11|default-config-missing-section:"+n, "the example configuration has no table for configurable lint "+n, n, nil, nil)
				}
			}
		}
		nObj := 40
		if tier() == "thorough" {
			nObj = 300
		}
		certs := corpus.sampleCerts(rng, nObj)
		g.SetConfiguration(lint.NewEmptyConfig())
		type base struct{ a, b map[string]resKey }
		baseCert := make([]base, len(certs))
		for i, cc := range certs {
			baseCert[i] = base{statusMap(zlint.LintCertificate(cc.Cert)), statusMap(zlint.LintCertificate(cc.Cert))}
		}
		baseCrl := make([]base, len(corpus.CRLs))
		for i, cc := range corpus.CRLs {
			baseCrl[i] = base{statusMap(zlint.LintRevocationList(cc.CRL)), statusMap(zlint.LintRevocationList(cc.CRL))}
		}
		unstable := func(b base) map[string]bool {
			u := map[string]bool{}
			for k, v := range b.a {
				if b.b[k] != v {
					u[k] = true
				}
			}
			return u
		}
		compareAll := func(key, what string, cfg lint.Configuration, except map[string]bool, text string) {
			g.SetConfiguration(cfg)
			defer g.SetConfiguration(lint.NewEmptyConfig())
			for i, cc := range certs {
				var rs *zlint.ResultSet
				var pv interface{}
				func() {
					defer func() { pv = recover() }()
					rs = zlint.LintCertificate(cc.Cert)
				}()
				if pv != nil {
					out.Violate("C11|panic-escapes:"+key, fmt.Sprintf("linting panics under %s: %v", what, pv), text, nil, nil)
					return
				}
				ex := unstable(baseCert[i])
				for k := range except {
					ex[k] = true
				}
				if d := diffResults(baseCert[i].a, statusMap(rs), ex); len(d) > 0 {
					out.Violate("C11|"+key+":"+d[0], fmt.Sprintf("%s changes the verdict of %s on %s", what, d[0], cc.File), text, nil, nil)
					return
				}
			}
			for i, cc := range corpus.CRLs {
				var rs *zlint.ResultSet
				var pv interface{}
				func() {
					defer func() { pv = recover() }()
					rs = zlint.LintRevocationList(cc.CRL)
				}()
				if pv != nil {
					out.Violate("C11|panic-escapes:"+key, fmt.Sprintf("CRL linting panics under %s: %v", what, pv), text, nil, nil)
					return
				}
				ex := unstable(baseCrl[i])
				for k := range except {
					ex[k] = true
				}
				if d := diffResults(baseCrl[i].a, statusMap(rs), ex); len(d) > 0 {
					out.Violate("C11|"+key+":"+d[0], fmt.Sprintf("%s changes the verdict of %s on %s", what, d[0], cc.File), text, nil, nil)
					return
				}
			}
			out.Count("config_comparisons", len(certs)+len(corpus.CRLs))
		}
		if err == nil {
			compareAll("default-config-changes-verdict", "loading the example configuration", defCfg, nil, string(def))
		}
		// unrelated-only documents
		for _, text := range append([]string{"", "[nosuchlint]\nA = 1\n", "[Global]\nSomething = 1\n", "[e_unknown_lint_name]\nSkip = true\n[w_other]\nx = [1,2]\n",
			"title = \"zlint\"\n[CABFBaselineRequirementsConfig]\n[RFC5280Config]\nFoo = \"bar\"\n"}, tomlSyntaxZoo()...) {
			cfg, e := lint.NewConfigFromString(text)
			if e != nil {
				continue
			}
			compareAll("unrelated-section-changes-verdict", "a configuration with only unrelated sections", cfg, nil, text)
		}
		// a section that is present but sets none of the lint's options (empty table, inline empty table, only unknown
		// keys) leaves the lint at its defaults: "setting a lint's option changes that lint's behaviour", naming a lint does not
		for _, n := range configurable {
			for _, text := range []string{fmt.Sprintf("[%s]\n", n), fmt.Sprintf("%s = {}\n", n), fmt.Sprintf("[%s]\nNoSuchOption = 1\nanother_unknown = \"x\"\n", n),
				fmt.Sprintf("[%s]\n[other_section]\nA = 1\n", n)} {
				cfg, e := lint.NewConfigFromString(text)
				if e != nil {
					continue
				}
				compareAll("optionless-section-changes-verdict:"+n, "a section for "+n+" that sets none of its options", cfg, nil, text)
			}
		}
		// each real configurable lint: ill-typed / scalar / array sections -> exactly that lint fatal with a configuration error
		for _, n := range configurable {
			for _, bad := range []string{fmt.Sprintf("[%s]\nRounds = \"x\"\nSkip = 3\nCrossCert = \"no\"\nSubscriberCRL = 7\n", n), fmt.Sprintf("%s = 5\n", n), fmt.Sprintf("%s = [1, 2]\n", n), fmt.Sprintf("%s = \"str\"\n", n),
				fmt.Sprintf("%s = []\n", n), fmt.Sprintf("%s = [[]]\n", n), fmt.Sprintf("%s = true\n", n), fmt.Sprintf("%s = 1.5\n", n), fmt.Sprintf("%s = 2024-01-01T00:00:00Z\n", n), fmt.Sprintf("%s = [\"a\"]\n", n)} {
				cfg, e := lint.NewConfigFromString(bad)
				if e != nil {
					continue
				}
				compareAll("bad-section-affects-other-lint:"+n, "an inapplicable section for "+n, cfg, map[string]bool{n: true}, bad)
				// the targeted lint itself
				g.SetConfiguration(cfg)
				checkTarget := func(what string, r *lint.LintResult, pv interface{}, scoped bool) {
					if pv != nil {
						out.Violate("C11|bad-section-panics:"+n, fmt.Sprintf("inapplicable section for %s makes linting panic on %s: %v", n, what, pv), bad, "fatal with a configuration error", fmt.Sprint(pv))
						return
					}
					if r == nil {
						return
					}
					if scoped && r.Status == lint.NA && !strings.Contains(r.Details, "configure") {
						return // certificate out of the scope of the lint's source: the lint is not instantiated at all
					}
					if r.Status != lint.Fatal || !strings.Contains(r.Details, "A fatal error occurred while attempting to configure "+n) {
						out.Violate("C11|bad-section-not-config-error:"+n, fmt.Sprintf("inapplicable section for %s yields (%d, %q) on %s instead of a fatal configuration error", n, r.Status, r.Details, what), bad,
							"fatal: A fatal error occurred while attempting to configure ...", fmt.Sprintf("%d %q", r.Status, r.Details))
					}
				}
				if l := g.CertificateLints().ByName(n); l != nil {
					for _, cc := range certs[:minInt(8, len(certs))] {
						var r *zlint.ResultSet
						var pv interface{}
						func() {
							defer func() { pv = recover() }()
							r = zlint.LintCertificate(cc.Cert)
						}()
						if r != nil {
							checkTarget("cert "+cc.File, r.Results[n], pv, true)
						} else {
							checkTarget("cert "+cc.File, nil, pv, true)
						}
					}
				}
				if l := g.RevocationListLints().ByName(n); l != nil {
					for _, cc := range realCRLVariants(corpus) {
						var r *zlint.ResultSet
						var pv interface{}
						func() {
							defer func() { pv = recover() }()
							r = zlint.LintRevocationList(cc.CRL)
						}()
						if r != nil {
							checkTarget("crl "+cc.File, r.Results[n], pv, false)
						} else {
							checkTarget("crl "+cc.File, nil, pv, false)
						}
					}
				}
				g.SetConfiguration(lint.NewEmptyConfig())
			}
		}
		// ---- no leak between registries and runs (op sequences on mock registries)
		{
			reg := lint.VerifNewRegistry()
			s := &Script{Name: "e_leak", Src: "RFC5280", Cfg: "ok", App: "true", Exe: "res", ExeStatus: 3, ShowConf: true}
			lg := []int{}
			if e := reg.RegisterCertificate(s.certLint(&lg)); e != nil {
				return e
			}
			c := scopeCert(true, false, false, refDate)
			run := func(r lint.Registry) string {
				x := zlint.LintCertificateEx(c, r).Results["e_leak"]
				return fmt.Sprintf("%d/%s", x.Status, x.Details)
			}
			cfg5, _ := lint.NewConfigFromString("[e_leak]\nA = 5\n")
			cfg6, _ := lint.NewConfigFromString("[e_leak]\nA = 6\n")
			r0 := run(reg.Registry())
			reg.Registry().SetConfiguration(cfg5)
			r5 := run(reg.Registry())
			child, _ := reg.Registry().Filter(lint.FilterOptions{IncludeNames: []string{"e_leak"}})
			reg.Registry().SetConfiguration(cfg6)
			r6 := run(reg.Registry())
			rc := run(child)
			reg.Registry().SetConfiguration(lint.NewEmptyConfig())
			rb := run(reg.Registry())
			rc2 := run(child)
			got := []string{r0, r5, r6, rc, rb, rc2}
			want := []string{"3/", "4/A=5", "4/A=6", "4/A=5", "3/", "4/A=5"}
			if fmt.Sprint(got) != fmt.Sprint(want) {
				out.Violate("C11|config-leak", "configuration leaks between runs or registries", "ops: run; Set(A=5); run; Filter; Set(A=6); run; run child; Set(empty); run; run child", want, got)
			}
			out.Sample(map[string]interface{}{"ops": "run; Set(A=5); run; child=Filter; Set(A=6); run; run child; Set(empty); run; run child", "observed": got})
		}
		// ---- documents of every size: tens of kilobytes to megabytes of comments and unrelated sections before (and after) the
		// section that matters - the option is still applied, the inapplicable section is still that lint's fatal
		{
			corpusL := loadCorpus()
			var htmlCert *x509.Certificate
			var crlObj *x509.RevocationList
			for _, c := range corpusL.Certs {
				if c.File == "html_entity_ko1.pem" {
					htmlCert = c.Cert
				}
			}
			for _, c := range corpusL.CRLs {
				if c.File == "crl_nextupdate_nup1_sub0_len0_eff0.pem" {
					crlObj = c.CRL
				}
			}
			sizes := []int{70_000, 1_200_000}
			if tier() == "thorough" {
				sizes = append(sizes, 5_000_000)
			}
			for _, n := range sizes {
				var pad strings.Builder
				for pad.Len() < n {
					pad.WriteString("# a comment line that carries no setting at all ........................................................\n")
					if pad.Len()%50_000 < 110 {
						pad.WriteString(fmt.Sprintf("[unrelated_section_%d]\nA = 1\n", pad.Len()))
					}
				}
				for _, after := range []bool{false, true} {
					wrap := func(sec string) string {
						if after {
							return sec + pad.String()
						}
						return pad.String() + sec
					}
					if htmlCert != nil {
						if cfg, err := lint.NewConfigFromString(wrap("[e_subj_contains_html_entities]\nSkip = true\n")); err == nil {
							fr, _ := g.Filter(lint.FilterOptions{IncludeNames: []string{"e_subj_contains_html_entities"}})
							fr.SetConfiguration(cfg)
							if r := zlint.LintCertificateEx(htmlCert, fr).Results["e_subj_contains_html_entities"]; r == nil || r.Status != lint.Pass {
								out.Violate("C11|large-document-option-lost", fmt.Sprintf("Skip = true in a configuration of %d octets (section %s the padding) is not applied: e_subj_contains_html_entities reports %s", len(wrap("")), map[bool]string{false: "after", true: "before"}[after], showRes(r)),
									map[string]interface{}{"document_octets": len(wrap("")), "section": "[e_subj_contains_html_entities] Skip = true"}, "pass", showRes(r))
							}
						} else {
							out.Violate("C11|large-document-rejected", fmt.Sprintf("a valid TOML document of %d octets is rejected: %v", len(wrap("")), err), nil, nil, nil)
						}
					}
					if crlObj != nil {
						if cfg, err := lint.NewConfigFromString(wrap("[e_crl_next_update_invalid]\nSubscriberCRL = \"x\"\n")); err == nil {
							fr, _ := g.Filter(lint.FilterOptions{IncludeNames: []string{"e_crl_next_update_invalid"}})
							fr.SetConfiguration(cfg)
							var r *lint.LintResult
							func() {
								defer func() { recover() }()
								r = zlint.LintRevocationListEx(crlObj, fr).Results["e_crl_next_update_invalid"]
							}()
							if r == nil || r.Status != lint.Fatal {
								out.Violate("C11|large-document-error-lost", fmt.Sprintf("an ill-typed section in a configuration of %d octets no longer makes e_crl_next_update_invalid report a configuration error: %s", len(wrap("")), showRes(r)),
									map[string]interface{}{"document_octets": len(wrap(""))}, "fatal", showRes(r))
							}
						}
					}
				}
			}
		}
		// ---- through the command-line tool: an option given with -config reaches the lint, and an inapplicable section is
		// that lint's fatal, with and without flags that narrow the set of lints
		if bin := os.Getenv("VERIF_CLI"); bin != "" {
			tmp, _ := os.MkdirTemp("", "verif-c11-")
			defer os.RemoveAll(tmp)
			corpus := loadCorpus()
			type cliCase struct {
				lint, src, cfg, file string
			}
			cases := []cliCase{
				{"e_subj_contains_html_entities", "Community", "[e_subj_contains_html_entities]\nSkip = true\n", "html_entity_ko1.pem"},
				{"e_subj_contains_html_entities", "Community", "[e_subj_contains_html_entities]\nSkip = 7\n", "html_entity_ko1.pem"},
				{"e_subj_contains_html_entities", "Community", "e_subj_contains_html_entities = 5\n", "html_entity_ko1.pem"},
				{"e_crl_next_update_invalid", "CABF_BR", "[e_crl_next_update_invalid]\nSubscriberCRL = false\n", "crl_nextupdate_nup1_sub0_len0_eff0.pem"},
				{"e_crl_next_update_invalid", "CABF_BR", "[e_crl_next_update_invalid]\nSubscriberCRL = \"no\"\n", "crl_nextupdate_nup1_sub0_len0_eff0.pem"},
				{"e_crl_next_update_invalid", "CABF_BR", "e_crl_next_update_invalid = true\n", "crl_nextupdate_nup1_sub0_len0_eff0.pem"},
				{"e_subj_orgunit_in_ca_cert", "CABF_BR", "[e_subj_orgunit_in_ca_cert]\nCrossCert = true\n", "orgunit_in_ca_ko1.pem"},
				{"e_rsa_fermat_factorization", "Community", "[e_rsa_fermat_factorization]\nRounds = \"many\"\n", "html_entity_ko1.pem"},
			}
			cliRuns := 0
			for ci, cc := range cases {
				var pemBytes []byte
				var crt *x509.Certificate
				var crl *x509.RevocationList
				for _, c := range corpus.Certs {
					if c.File == cc.file {
						pemBytes, crt = pem.EncodeToMemory(&pem.Block{Type: "CERTIFICATE", Bytes: c.DER}), c.Cert
					}
				}
				for _, c := range corpus.CRLs {
					if c.File == cc.file {
						pemBytes, crl = pem.EncodeToMemory(&pem.Block{Type: "X509 CRL", Bytes: c.DER}), c.CRL
					}
				}
				cfg, err := lint.NewConfigFromString(cc.cfg)
				if pemBytes == nil || err != nil {
					continue
				}
				cfgPath, objPath := filepath.Join(tmp, fmt.Sprintf("c%d.toml", ci)), filepath.Join(tmp, fmt.Sprintf("o%d.pem", ci))
				os.WriteFile(cfgPath, []byte(cc.cfg), 0o600)
				os.WriteFile(objPath, pemBytes, 0o600)
				sels := []selection{
					{nil, lint.FilterOptions{}},
					{[]string{"-includeNames", cc.lint}, lint.FilterOptions{IncludeNames: []string{cc.lint}}},
					{[]string{"-nameFilter", "^" + cc.lint[:9]}, lint.FilterOptions{NameFilter: regexp.MustCompile("^" + cc.lint[:9])}},
					{[]string{"-includeSources", cc.src}, lint.FilterOptions{IncludeSources: lint.SourceList{lint.LintSource(cc.src)}}},
					{[]string{"-excludeSources", "Mozilla"}, lint.FilterOptions{ExcludeSources: lint.SourceList{lint.MozillaRootStorePolicy}}},
					{[]string{"-excludeNames", "e_ca_is_ca"}, lint.FilterOptions{ExcludeNames: []string{"e_ca_is_ca"}}},
				}
				for _, sel := range sels {
					r := runCLI(bin, append(append([]string{"-config", cfgPath}, sel.flags...), objPath), nil)
					cliRuns++
					fr, e := g.Filter(sel.opts)
					if e != nil {
						continue
					}
					fr.SetConfiguration(cfg)
					var want *lint.LintResult
					func() {
						defer func() {
							if pv := recover(); pv != nil {
								out.Violate("C11|panic:"+cc.lint, fmt.Sprintf("linting %s under the configuration %q panics instead of reporting a configuration error: %v", cc.file, cc.cfg, pv),
									map[string]interface{}{"config": cc.cfg, "file": cc.file, "lint": cc.lint}, "fatal with a configuration error", fmt.Sprint(pv))
							}
						}()
						if crl != nil {
							want = zlint.LintRevocationListEx(crl, fr).Results[cc.lint]
						} else {
							want = zlint.LintCertificateEx(crt, fr).Results[cc.lint]
						}
					}()
					if want == nil {
						continue
					}
					var got map[string]*lint.LintResult
					_ = json.Unmarshal([]byte(r.stdout), &got)
					gr := got[cc.lint]
					if want == nil || gr == nil || gr.Status != want.Status || gr.Details != want.Details {
						out.Violate("C11|cli-option-lost:"+cc.lint, fmt.Sprintf("zlint -config (%q) %v %s: %s reports %s, the library under the same configuration and selection %s (exit %d, stderr %.200q)",
							cc.cfg, sel.flags, cc.file, cc.lint, showRes(gr), showRes(want), r.code, r.stderr),
							map[string]interface{}{"config": cc.cfg, "flags": sel.flags, "file": cc.file, "lint": cc.lint}, showRes(want), showRes(gr))
					}
				}
			}
			out.Stats["cli_config_runs"] = cliRuns
		}
		// ---- configuration histories: the verdict under a configuration must not depend on which configurations the same
		// registry (and process) has seen before: the variants are applied in both orders, each order in its own process
		{
			self, _ := os.Executable()
			fwd, e1 := exec.Command(self, "c11seq", "fwd").Output()
			rev, e2 := exec.Command(self, "c11seq", "rev").Output()
			if e1 != nil || e2 != nil {
				out.Violate("C11|history-run-failed", fmt.Sprintf("configuration history run failed: %v %v", e1, e2), nil, nil, nil)
			} else {
				fl, rl := strings.Split(strings.TrimSpace(string(fwd)), "\n"), strings.Split(strings.TrimSpace(string(rev)), "\n")
				rm := map[string]string{}
				for _, l := range rl {
					if i := strings.Index(l, "="); i > 0 {
						rm[l[:i]] = l[i+1:]
					}
				}
				n := 0
				changed := map[string]bool{}
				byLintObj := map[string]map[string]bool{}
				for _, l := range fl {
					i := strings.Index(l, "=")
					if i < 0 {
						continue
					}
					n++
					k, v := l[:i], l[i+1:]
					if rv, ok := rm[k]; ok && rv != v {
						parts := strings.Split(k, "|")
						out.Violate("C11|config-history-dependent:"+parts[0], fmt.Sprintf("%s on %s under configuration %q gives %q when the variants are applied in one order and %q in the reverse order", parts[0], parts[1], parts[2], v, rv),
							map[string]interface{}{"lint": parts[0], "object": parts[1], "variant": parts[2], "how": "harness c11seq fwd  vs  harness c11seq rev"}, rv, v)
					}
					parts := strings.Split(k, "|")
					lo := parts[0] + "|" + parts[1]
					if byLintObj[lo] == nil {
						byLintObj[lo] = map[string]bool{}
					}
					byLintObj[lo][v] = true
				}
				for lo, vs := range byLintObj {
					if len(vs) > 1 {
						changed[strings.Split(lo, "|")[0]] = true
					}
				}
				out.Stats["config_history_results"] = n
				// setting an option must be able to change the lint's behaviour (otherwise the test above is vacuous)
				for ln := range cfgVariants {
					if g.CertificateLints().ByName(ln) == nil && g.RevocationListLints().ByName(ln) == nil {
						continue
					}
					if !changed[ln] {
						out.Violate("C11|option-has-no-effect:"+ln, "no corpus object shows a different verdict of "+ln+" under any of its option values: setting the option no longer changes the lint's behaviour", ln, nil, nil)
					}
				}
			}
		}
		// ---- scripted configurable lints vs the model (in-Coq correspondence)
		nCases := 260
		if tier() == "thorough" {
			nCases = 4000
		}
		secKinds := []string{"tbl-ok", "tbl-ok", "tbl-bad", "scalar", "array", "tbl-empty", "tbl-unknownkey", "array0", "bool", "float", "datetime", "string", "nested-array", "absent", "absent"}
		seen := map[string]bool{}
		for n := 0; n < nCases; n++ {
			kind := pick(rng, []string{"cert", "cert", "crl", "ocsp"})
			name := fmt.Sprintf("%smockcfg_%d", pick(rng, []string{"e_", "w_", "n_"}), rng.Intn(5))
			src := pick(rng, []string{"RFC5280", "CABF_BR", "Community"})
			var secs []secSpec
			if k := pick(rng, secKinds); k != "absent" {
				secs = append(secs, secSpec{name, k, 5 + rng.Intn(3)})
			}
			for j := rng.Intn(3); j > 0; j-- { // unrelated sections of any shape
				secs = append(secs, secSpec{pick(rng, []string{"e_other", "w_unrelated", "Global", "CommunityConfig", "e_mockcfg_9"}), pick(rng, secKinds[:13]), 5 + rng.Intn(3)})
			}
			// drop duplicate keys (TOML forbids them)
			uniq := map[string]bool{}
			var secs2 []secSpec
			for _, s := range secs {
				if !uniq[s.name] {
					uniq[s.name] = true
					secs2 = append(secs2, s)
				}
			}
			secs = secs2
			text := buildDoc(secs)
			cfg, e := lint.NewConfigFromString(text)
			if e != nil {
				out.Count("toml_rejected", 1)
				continue
			}
			baseStatus := 3 + rng.Intn(4)
			applies := rng.Intn(3) != 0
			s := &Script{Name: name, Src: src, Cfg: "ok", App: map[bool]string{true: "true", false: "false"}[applies], Exe: "res", ExeStatus: baseStatus, ShowConf: true}
			// decoder's message for an ill-typed table, from go-toml directly
			errmsg := ""
			for _, sc := range secs {
				if sc.name == name && sc.kind == "tbl-bad" {
					tree, _ := toml.Load(text)
					if sub, ok := tree.Get(name).(*toml.Tree); ok {
						if e := sub.Unmarshal(&mockConf{}); e != nil {
							errmsg = e.Error()
						}
					}
				}
			}
			target := refDate
			c := scopeCert(true, true, true, target)
			ao := absCert(c)
			ao.TU, ao.NU = target, target
			lg := []int{}
			s.armed = true
			var o Obs
			switch kind {
			case "cert":
				l := s.certLint(&lg)
				o = observe(func() *lint.LintResult { return l.Execute(c, cfg) })
			case "crl":
				l := s.crlLint(&lg)
				o = observe(func() *lint.LintResult { return l.Execute(&x509.RevocationList{ThisUpdate: target}, cfg) })
			case "ocsp":
				l := s.ocspLint(&lg)
				o = observe(func() *lint.LintResult { return l.Execute(&ocsp.Response{NextUpdate: target}, cfg) })
			}
			items := make([]string, len(secs))
			for j, sc := range secs {
				items[j] = sc.coq()
			}
			// what applying a non-table node does for this very document (the message may name the value's type)
			caseNt := ntCoq
			{
				var perr error
				var pv interface{}
				func() {
					defer func() { pv = recover() }()
					perr = cfg.Configure(&mockConf{}, name)
				}()
				if pv != nil {
					caseNt = "(NtPanic " + cqBytes(fmt.Sprint(pv)) + ")"
				} else if perr != nil {
					msg := perr.Error()
					if i := strings.LastIndex(msg, "`zlint -exampleConfig`. Error: "); i >= 0 {
						msg = msg[i+len("`zlint -exampleConfig`. Error: "):]
					}
					caseNt = "(NtErr " + cqBytes(msg) + ")"
				}
			}
			term := fmt.Sprintf("(%s, %s, %s, %s, %s, %s, %s, %s, %s, %s)", kindCoq[kind], cqBytes(name), cqBytes(src), cqList(items), cqBytes(errmsg), caseNt,
				cqZ(int64(baseStatus)), cqBool(applies), ao.Coq(), o.Coq())
			if !seen[term] {
				seen[term] = true
				own := "absent"
				for _, sc := range secs {
					if sc.name == name {
						own = sc.kind
					}
				}
				out.Add("cfg", Case{Coq: term, Tag: fmt.Sprintf("%s/%s/app=%v/%s/%d", kind, own, applies, o.Kind, o.Status), Desc: map[string]interface{}{"kind": kind, "lint": name, "toml": text, "observed": o}})
			}
			// direct monitor: never a panic, and an inapplicable own section is a configuration error
			own := ""
			for _, sc := range secs {
				if sc.name == name {
					own = sc.kind
				}
			}
			if o.Kind == "panic" || (o.Kind == "res" && strings.Contains(o.Details, "panicked")) {
				out.Violate("C11|config-panic:"+own, fmt.Sprintf("a %s section for a %s lint makes it panic: %+v", own, kind, o), text, "fatal with a configuration error", o)
			} else if (own == "tbl-bad" || own == "scalar" || own == "array" || own == "array0" || own == "bool" || own == "float" || own == "datetime" || own == "string" || own == "nested-array") && !(o.Kind == "res" && o.Status == 7 && strings.HasPrefix(o.Details, "A fatal error occurred while attempting to configure "+name)) {
				out.Violate("C11|bad-section-not-config-error-mock:"+own, fmt.Sprintf("a %s section yields %+v", own, o), text, nil, o)
			}
		}
		// ---- what the option of the configurable CRL lint selects, against the model of its rule (Kernels/Calendar.v): every
		// revocation list under the default, SubscriberCRL = true and SubscriberCRL = false (thisUpdate before the lint's
		// effective date gives NE and is left out)
		{
			crls := append(append([]CorpusCRL{}, loadCorpus().CRLs...), crlZoo()...)
			for vi, text := range []string{"", "[e_crl_next_update_invalid]\nSubscriberCRL = true\n", "[e_crl_next_update_invalid]\nSubscriberCRL = false\n"} {
				cfg, err := lint.NewConfigFromString(text)
				if err != nil {
					continue
				}
				fr, err := lint.GlobalRegistry().Filter(lint.FilterOptions{IncludeNames: []string{"e_crl_next_update_invalid"}})
				if err != nil {
					continue
				}
				fr.SetConfiguration(cfg)
				for _, cc := range crls {
					if len(cc.CRL.RevokedCertificates) > 1000 {
						continue
					}
					var st int = -1
					func() {
						defer func() { recover() }()
						if r := zlint.LintRevocationListEx(cc.CRL, fr).Results["e_crl_next_update_invalid"]; r != nil {
							st = int(r.Status)
						}
					}()
					if st == int(lint.NE) {
						continue
					}
					out.Add("crlcfg", Case{Coq: fmt.Sprintf("(%s, %s, %s, %s, %s)", cqBool(!cc.CRL.NextUpdate.IsZero()), cqZ(cc.CRL.ThisUpdate.Unix()), cqZ(cc.CRL.NextUpdate.Unix()), cqBool(vi != 2), cqZ(int64(st))),
						Tag: fmt.Sprintf("%d/%d", vi, st), Desc: map[string]interface{}{"crl": cc.File, "config": text, "status": st}})
				}
			}
		}
		return out.Emit()
	}
}

func minInt(a, b int) int {
	if a < b {
		return a
	}
	return b
}

// ---------- configuration histories across processes ----------

type cfgVariant struct{ id, text string }

var cfgVariants = map[string][]cfgVariant{
	"e_rsa_fermat_factorization":    {{"default", ""}, {"rounds0", "[e_rsa_fermat_factorization]\nRounds = 0\n"}, {"rounds2", "[e_rsa_fermat_factorization]\nRounds = 2\n"}},
	"e_subj_contains_html_entities": {{"default", ""}, {"skip", "[e_subj_contains_html_entities]\nSkip = true\n"}},
	"e_subj_orgunit_in_ca_cert":     {{"default", ""}, {"cross", "[e_subj_orgunit_in_ca_cert]\nCrossCert = true\n"}},
	"e_crl_next_update_invalid":     {{"default", ""}, {"ca", "[e_crl_next_update_invalid]\nSubscriberCRL = false\n"}},
}

// c11seq <order>: for every configurable lint and every object on which its option can matter, run the lint under its
// configuration variants in the given order (fwd / rev) on one registry, printing "lint|object|variant=status:details"
func init() {
	commands["c11seq"] = func(args []string) error {
		rev := len(args) > 0 && args[0] == "rev"
		corpus := loadCorpus()
		g := lint.GlobalRegistry()
		var lines []string
		for _, ln := range sortedKeys(cfgVariants) {
			vs := append([]cfgVariant{}, cfgVariants[ln]...)
			if rev {
				for i, j := 0, len(vs)-1; i < j; i, j = i+1, j-1 {
					vs[i], vs[j] = vs[j], vs[i]
				}
			}
			fr, err := g.Filter(lint.FilterOptions{IncludeNames: []string{ln}})
			if err != nil {
				continue
			}
			if g.CertificateLints().ByName(ln) != nil {
				for _, cc := range corpus.Certs {
					// only objects on which the lint does something under the empty configuration
					fr.SetConfiguration(lint.NewEmptyConfig())
					_ = cc
				}
				for _, v := range vs {
					cfg, err := lint.NewConfigFromString(v.text)
					if err != nil {
						continue
					}
					fr.SetConfiguration(cfg)
					for _, cc := range corpus.Certs {
						c, err := x509.ParseCertificate(cc.DER)
						if err != nil {
							continue
						}
						r := zlint.LintCertificateEx(c, fr).Results[ln]
						if r == nil || r.Status == lint.NA || r.Status == lint.NE {
							continue
						}
						lines = append(lines, fmt.Sprintf("%s|%s|%s=%d:%s", ln, cc.File, v.id, r.Status, r.Details))
					}
				}
			} else {
				for _, v := range vs {
					cfg, err := lint.NewConfigFromString(v.text)
					if err != nil {
						continue
					}
					fr.SetConfiguration(cfg)
					for _, cc := range corpus.CRLs {
						r := zlint.LintRevocationListEx(cc.CRL, fr).Results[ln]
						if r == nil || r.Status == lint.NA || r.Status == lint.NE {
							continue
						}
						lines = append(lines, fmt.Sprintf("%s|%s|%s=%d:%s", ln, cc.File, v.id, r.Status, r.Details))
					}
				}
			}
		}
		sort.Strings(lines)
		fmt.Println(strings.Join(lines, "\n"))
		return nil
	}
}

func showRes(r *lint.LintResult) string {
	if r == nil {
		return "nothing"
	}
	return fmt.Sprintf("%s %q", r.Status, r.Details)
}
