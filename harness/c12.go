package main

import (
	"encoding/json"
	"bytes"
	"fmt"
	"go/ast"
	"go/build"
	"go/parser"
	"go/token"
	"os"
	"path/filepath"
	"sort"
	"strconv"
	"strings"

	"github.com/zmap/zlint/v3/lint"
)

type CensusEntry struct {
	File, Func, Name, Pkg string
}

// census: every lint.Register*Lint call in the non-test sources of v3/lints (build constraints honoured)
var excludedLintFiles []string

func census() (entries []CensusEntry, lintDirs []string, noNameLit []string, blankImports []string, err error) {
	root := filepath.Join(repoDir(), "v3", "lints")
	dirs := map[string]bool{}
	werr := filepath.Walk(root, func(path string, info os.FileInfo, e error) error {
		if e != nil || info.IsDir() || !strings.HasSuffix(path, ".go") || strings.HasSuffix(path, "_test.go") {
			return nil
		}
		if ok, _ := build.Default.MatchFile(filepath.Dir(path), filepath.Base(path)); !ok {
			// a file the default build leaves out (a //go:build line, or a file name that happens to end in _<os> or
			// _<arch> such as _js.go, _windows.go, _arm.go): a lint defined there never registers
			if src, rerr := os.ReadFile(path); rerr == nil && strings.Contains(string(src), "lint.Register") {
				rel, _ := filepath.Rel(filepath.Join(repoDir(), "v3"), path)
				excludedLintFiles = append(excludedLintFiles, rel)
			}
			return nil
		}
		fset := token.NewFileSet()
		f, perr := parser.ParseFile(fset, path, nil, 0)
		if perr != nil {
			return perr
		}
		ast.Inspect(f, func(n ast.Node) bool {
			call, ok := n.(*ast.CallExpr)
			if !ok {
				return true
			}
			sel, ok := call.Fun.(*ast.SelectorExpr)
			if !ok {
				return true
			}
			pk, ok := sel.X.(*ast.Ident)
			if !ok || pk.Name != "lint" || !strings.HasPrefix(sel.Sel.Name, "Register") || !strings.HasSuffix(sel.Sel.Name, "Lint") {
				return true
			}
			rel, _ := filepath.Rel(filepath.Join(repoDir(), "v3"), path)
			name := ""
			ast.Inspect(call, func(m ast.Node) bool {
				kv, ok := m.(*ast.KeyValueExpr)
				if !ok {
					return true
				}
				if k, ok := kv.Key.(*ast.Ident); ok && k.Name == "Name" && name == "" {
					if lit, ok := kv.Value.(*ast.BasicLit); ok && lit.Kind == token.STRING {
						name, _ = strconv.Unquote(lit.Value)
					}
				}
				return true
			})
			if name == "" {
				noNameLit = append(noNameLit, rel)
			}
			entries = append(entries, CensusEntry{File: rel, Func: sel.Sel.Name, Name: name, Pkg: filepath.Base(filepath.Dir(path))})
			dirs[filepath.Base(filepath.Dir(path))] = true
			return true
		})
		return nil
	})
	if werr != nil {
		return nil, nil, nil, nil, werr
	}
	lintDirs = sortedKeys(dirs)
	// blank imports of zlint.go
	fset := token.NewFileSet()
	zf, perr := parser.ParseFile(fset, filepath.Join(repoDir(), "v3", "zlint.go"), nil, parser.ImportsOnly)
	if perr != nil {
		return nil, nil, nil, nil, perr
	}
	for _, im := range zf.Imports {
		if im.Name != nil && im.Name.Name == "_" {
			p, _ := strconv.Unquote(im.Path.Value)
			if strings.HasPrefix(p, "github.com/zmap/zlint/v3/lints/") {
				blankImports = append(blankImports, strings.TrimPrefix(p, "github.com/zmap/zlint/v3/lints/"))
			}
		}
	}
	sort.Strings(blankImports)
	return
}

func ropCoq(kind string, name, src string, mode int) string {
	switch mode {
	case 1:
		return "(RNil " + kindCoq[kind] + ")"
	case 2:
		return "(RNilPtr " + kindCoq[kind] + ")"
	}
	return fmt.Sprintf("(RLint %s %s %s)", kindCoq[kind], cqBytes(name), cqBytes(src))
}

func tablesCoq(t lint.VerifTables) string {
	srcs := append([]string{}, t.Sources...)
	sort.Strings(srcs)
	return fmt.Sprintf("(%s, %s, %s)", cqBytesList(t.Order), cqBytesList(t.Names), cqBytesList(srcs))
}

func errCode(err error) int {
	if err == nil {
		return 0
	}
	msg := err.Error()
	switch {
	case strings.Contains(msg, "nil Lint pointer"):
		return 2
	case strings.Contains(msg, "nil lint"):
		return 1
	case strings.Contains(msg, "empty Name"):
		return 3
	case strings.Contains(msg, "already been registered"):
		return 4
	}
	return 9
}

func init() {
	commands["c12"] = func(args []string) error {
		out := NewOutput()
		rng := NewRng(seedFromEnv(), "c12")
		g := lint.GlobalRegistry()
		ents, dirs, noLit, blanks, err := census()
		if err != nil {
			return err
		}
		out.Data["census"] = ents
		out.Data["lint_files_excluded_from_build"] = excludedLintFiles
		for _, f := range excludedLintFiles {
			out.Violate("C12|lint-file-not-built:"+f, "the lint source file "+f+" registers a lint but is excluded from the default build (build constraint or a file name ending in _<os>/_<arch>): its lint is never registered", f, "compiled and registered", "skipped by the Go tool")
		}
		out.Data["lint_dirs"] = dirs
		out.Data["census_without_name_literal"] = noLit
		out.Data["blank_imports"] = blanks
		info := registryInfo(g)
		out.Data["lints"] = info
		out.Data["names"] = g.Names()
		tables := lint.VerifDump(g)
		out.Data["tables"] = tables
		var srcs []string
		for _, s := range g.Sources() {
			srcs = append(srcs, string(s))
		}
		sort.Strings(srcs)
		out.Data["sources"] = srcs
		// lookups agree (public API): ByName / BySource for every lint and source
		for _, l := range g.CertificateLints().Lints() {
			if g.CertificateLints().ByName(l.Name) != l {
				out.Violate("C12|byname:"+l.Name, "ByName does not return the registered lint", l.Name, nil, nil)
			}
			found := false
			for _, x := range g.CertificateLints().BySource(l.Source) {
				if x == l {
					found = true
				}
			}
			if !found {
				out.Violate("C12|bysource:"+l.Name, "BySource does not list the lint under its source", l.Name, nil, nil)
			}
			if g.ByName(l.Name) == nil {
				out.Violate("C12|registry-byname:"+l.Name, "Registry.ByName does not find the certificate lint", l.Name, nil, nil)
			}
		}
		for _, l := range g.RevocationListLints().Lints() {
			if g.RevocationListLints().ByName(l.Name) != l {
				out.Violate("C12|byname:"+l.Name, "ByName does not return the registered CRL lint", l.Name, nil, nil)
			}
		}
		for _, l := range g.OcspResponseLints().Lints() {
			if g.OcspResponseLints().ByName(l.Name) != l {
				out.Violate("C12|byname:"+l.Name, "ByName does not return the registered OCSP lint", l.Name, nil, nil)
			}
		}
		// the registry-level (deprecated, still public) lookups agree with the per-kind ones, for the global registry and
		// for a filtered one: one entry per certificate lint of the source, each non-nil, named as the lint and of that source
		regsToProbe := map[string]lint.Registry{"global registry": g}
		if fr, e := g.Filter(lint.FilterOptions{ExcludeNames: []string{g.Names()[0]}}); e == nil {
			regsToProbe["registry filtered with ExcludeNames"] = fr
		}
		for what, r := range regsToProbe {
			allSrc := append(lint.SourceList{}, r.Sources()...)
			allSrc = append(allSrc, lint.LintSource("NoSuchSource"))
			for _, s := range allSrc {
				per := r.CertificateLints().BySource(s)
				top := r.BySource(s)
				if len(per) != len(top) {
					out.Violate("C12|registry-bysource-count:"+string(s), fmt.Sprintf("%s: Registry.BySource(%s) returns %d entries, CertificateLints().BySource %d", what, s, len(top), len(per)), string(s), len(per), len(top))
				}
				seenTop := map[string]bool{}
				for i, l := range top {
					if l == nil {
						out.Violate("C12|registry-bysource-nil:"+string(s), fmt.Sprintf("%s: Registry.BySource(%s)[%d] is nil", what, s, i), string(s), nil, nil)
						continue
					}
					if l.Source != s {
						out.Violate("C12|registry-bysource-src:"+l.Name, fmt.Sprintf("%s: Registry.BySource(%s) lists %s of source %s", what, s, l.Name, l.Source), string(s), nil, nil)
					}
					if seenTop[l.Name] {
						out.Violate("C12|registry-bysource-dup:"+l.Name, fmt.Sprintf("%s: Registry.BySource(%s) lists %s twice", what, s, l.Name), string(s), nil, nil)
					}
					seenTop[l.Name] = true
				}
				for _, l := range per {
					if l != nil && !seenTop[l.Name] {
						out.Violate("C12|registry-bysource-missing:"+l.Name, fmt.Sprintf("%s: Registry.BySource(%s) does not list %s", what, s, l.Name), string(s), nil, nil)
					}
				}
				for i, l := range r.RevocationListLints().BySource(s) {
					if l == nil || l.Source != s {
						out.Violate("C12|crl-bysource:"+string(s), fmt.Sprintf("%s: RevocationListLints().BySource(%s)[%d] is nil or of another source", what, s, i), string(s), nil, nil)
					}
				}
				for i, l := range r.OcspResponseLints().BySource(s) {
					if l == nil || l.Source != s {
						out.Violate("C12|ocsp-bysource:"+string(s), fmt.Sprintf("%s: OcspResponseLints().BySource(%s)[%d] is nil or of another source", what, s, i), string(s), nil, nil)
					}
				}
			}
			for _, l := range r.CertificateLints().Lints() {
				t := r.ByName(l.Name)
				if t == nil || t.Name != l.Name || t.Source != l.Source {
					out.Violate("C12|registry-byname:"+l.Name, what+": Registry.ByName does not return the certificate lint of that name", l.Name, nil, nil)
					continue
				}
				// every piece of metadata, the two dates included
				if t.Description != l.Description || t.Citation != l.Citation || !t.EffectiveDate.Equal(l.EffectiveDate) || !t.IneffectiveDate.Equal(l.IneffectiveDate) {
					out.Violate("C12|registry-byname-metadata:"+l.Name, fmt.Sprintf("%s: Registry.ByName(%s) carries other metadata than the per-kind lookup (effective %s / %s, ineffective %s / %s)", what, l.Name,
						t.EffectiveDate.Format("2006-01-02"), l.EffectiveDate.Format("2006-01-02"), t.IneffectiveDate.Format("2006-01-02"), l.IneffectiveDate.Format("2006-01-02")), l.Name, nil, nil)
				}
			}
			for _, sc := range r.Sources() {
				for _, t := range r.BySource(sc) {
					if t == nil {
						continue
					}
					if l := r.CertificateLints().ByName(t.Name); l != nil && (!t.EffectiveDate.Equal(l.EffectiveDate) || !t.IneffectiveDate.Equal(l.IneffectiveDate) || t.Description != l.Description || t.Citation != l.Citation) {
						out.Violate("C12|registry-bysource-metadata:"+t.Name, fmt.Sprintf("%s: Registry.BySource(%s) lists %s with other metadata than the per-kind lookup", what, sc, t.Name), t.Name, nil, nil)
					}
				}
			}
			if r.ByName("e_no_such_lint") != nil || r.CertificateLints().ByName("e_no_such_lint") != nil {
				out.Violate("C12|registry-byname-unknown", what+": a lookup of an unregistered name returns a lint", nil, nil, nil)
			}
		}
		// the full listing (WriteJSON, what -list-lints-json prints) agrees with the name list and with the per-kind
		// lookups: every registered lint of every kind exactly once, under its own name, source and description
		for what, r := range regsToProbe {
			var b bytes.Buffer
			r.WriteJSON(&b)
			listed := map[string]int{}
			listedMeta := map[string]string{}
			for _, ln := range strings.Split(strings.TrimSpace(b.String()), "\n") {
				if ln == "" {
					continue
				}
				var m struct {
					Name        string `json:"name"`
					Description string `json:"description"`
					Source      string `json:"source"`
				}
				if err := json.Unmarshal([]byte(ln), &m); err != nil {
					out.Violate("C12|listing-undecodable", what+": a line of the full listing is not a JSON object: "+err.Error(), ln, nil, nil)
					continue
				}
				listed[m.Name]++
				listedMeta[m.Name] = m.Source + "|" + m.Description
			}
			wantMeta := map[string]string{}
			for _, l := range r.CertificateLints().Lints() {
				wantMeta[l.Name] = string(l.Source) + "|" + l.Description
			}
			for _, l := range r.RevocationListLints().Lints() {
				wantMeta[l.Name] = string(l.Source) + "|" + l.Description
			}
			for _, l := range r.OcspResponseLints().Lints() {
				wantMeta[l.Name] = string(l.Source) + "|" + l.Description
			}
			for _, n := range r.Names() {
				if listed[n] != 1 {
					out.Violate("C12|listing-disagrees:"+n, fmt.Sprintf("%s: the full listing has %d lines for the registered lint %s", what, listed[n], n), n, 1, listed[n])
				} else if listedMeta[n] != wantMeta[n] {
					out.Violate("C12|listing-metadata:"+n, fmt.Sprintf("%s: the full listing describes %s as %q, its registration says %q", what, n, listedMeta[n], wantMeta[n]), n, wantMeta[n], listedMeta[n])
				}
			}
			if len(listed) != len(wantMeta) || len(r.Names()) != len(wantMeta) {
				out.Violate("C12|listing-count", fmt.Sprintf("%s: %d names, %d lints in the per-kind listings, %d distinct names in the full listing", what, len(r.Names()), len(wantMeta), len(listed)), nil, len(wantMeta), len(listed))
			}
		}
		for _, s := range g.Sources() {
			nBy := len(g.CertificateLints().BySource(s)) + len(g.RevocationListLints().BySource(s)) + len(g.OcspResponseLints().BySource(s))
			nMeta := 0
			for _, l := range info {
				if l.Src == string(s) {
					nMeta++
				}
			}
			if nBy != nMeta {
				out.Violate("C12|bysource-count:"+string(s), fmt.Sprintf("BySource(%s) lists %d lints, metadata says %d", s, nBy, nMeta), string(s), nMeta, nBy)
			}
		}
		metaSrc := map[string]string{}
		for _, l := range info {
			metaSrc[l.Src] = l.Name
		}
		listed := map[string]bool{}
		for _, s := range g.Sources() {
			listed[string(s)] = true
		}
		for s, by := range metaSrc {
			if !listed[s] {
				out.Violate("C12|source-not-listed:"+s, fmt.Sprintf("Sources() does not list %s although lint %s carries it", s, by), map[string]interface{}{"source": s, "lint": by}, nil, nil)
			}
		}
		for s := range listed {
			if _, ok := metaSrc[s]; !ok {
				out.Violate("C12|source-without-lint:"+s, "Sources() lists "+s+" which no registered lint carries", s, nil, nil)
			}
		}
		// after first use and late registrations of every kind the lookups must still agree with the listing
		{
			late := lateRegistrationPrelude()
			reportLate(out, "C12", "names", "byname", "sources")
			_ = g.Names()
			all := map[string]bool{}
			var count int
			for _, l := range g.CertificateLints().Lints() {
				all[l.Name] = true
				count++
			}
			for _, l := range g.RevocationListLints().Lints() {
				all[l.Name] = true
				count++
			}
			for _, l := range g.OcspResponseLints().Lints() {
				all[l.Name] = true
				count++
			}
			for rep := 0; rep < 3; rep++ {
				nm := g.Names()
				if len(nm) != count || !sort.StringsAreSorted(nm) {
					out.Violate("C12|names-after-use", fmt.Sprintf("after first use and late registrations Names() has %d entries (sorted=%v) for %d registered lints (call %d)", len(nm), sort.StringsAreSorted(nm), count, rep+1), late, count, len(nm))
					break
				}
				seen := map[string]bool{}
				for _, x := range nm {
					if seen[x] || !all[x] {
						out.Violate("C12|names-after-use", "after first use Names() lists "+x+" twice or lists a name that is not registered", x, nil, nil)
						break
					}
					seen[x] = true
				}
			}
			for _, k := range []struct {
				n  []string
				ok func(string) bool
			}{{g.CertificateLints().Names(), func(n string) bool { return g.CertificateLints().ByName(n) != nil }},
				{g.RevocationListLints().Names(), func(n string) bool { return g.RevocationListLints().ByName(n) != nil }},
				{g.OcspResponseLints().Names(), func(n string) bool { return g.OcspResponseLints().ByName(n) != nil }}} {
				for _, n := range k.n {
					if !k.ok(n) {
						out.Violate("C12|kind-names-disagree:"+n, "after use, a per-kind Names() lists "+n+" which ByName of that kind does not find", n, nil, nil)
						break
					}
				}
			}
			listedSrc := map[string]bool{}
			for _, s := range g.Sources() {
				listedSrc[string(s)] = true
			}
			if !listedSrc["RFC6960"] || !listedSrc["Community"] {
				out.Violate("C12|sources-after-use", "after late registrations Sources() misses a source carried by a registered lint", nil, nil, nil)
			}
		}
		// registration histories through the unexported register methods (hook) vs the model
		nHist := 150
		if tier() == "thorough" {
			nHist = 3000
		}
		namePool := []string{"e_a", "e_b", "w_c", "n_d", "e_a ", "E_A", "", "e_zz", "w_0", "e_b_long_name_with_suffix", "é"}
		srcPool := []string{"RFC5280", "CABF_BR", "Community", "Unknown", "", "Apple"}
		kinds := []string{"cert", "crl", "ocsp"}
		seen := map[string]bool{}
		for h := 0; h < nHist; h++ {
			reg := lint.VerifNewRegistry()
			nops := rng.Intn(12)
			var ops []string
			var codes []string
			for j := 0; j < nops; j++ {
				kind := pick(rng, kinds)
				name, src := pick(rng, namePool), pick(rng, srcPool)
				mode := 0
				if rng.Intn(12) == 0 {
					mode = 1 + rng.Intn(2)
				}
				var e error
				s := &Script{Name: name, Src: src, Cfg: "none", App: "true", Exe: "res", ExeStatus: 3}
				lg := []int{}
				switch kind {
				case "cert":
					l := s.certLint(&lg)
					if mode == 1 {
						l = nil
					} else if mode == 2 {
						l.Lint = func() lint.CertificateLintInterface { return nil }
					}
					e = reg.RegisterCertificate(l)
				case "crl":
					l := s.crlLint(&lg)
					if mode == 1 {
						l = nil
					} else if mode == 2 {
						l.Lint = func() lint.RevocationListLintInterface { return nil }
					}
					e = reg.RegisterRevocationList(l)
				case "ocsp":
					l := s.ocspLint(&lg)
					if mode == 1 {
						l = nil
					} else if mode == 2 {
						l.Lint = func() lint.OcspResponseLintInterface { return nil }
					}
					e = reg.RegisterOcspResponse(l)
				}
				ops = append(ops, ropCoq(kind, name, src, mode))
				codes = append(codes, fmt.Sprint(errCode(e)))
			}
			t := lint.VerifDump(reg.Registry())
			codeList := "[]"
			if len(codes) > 0 {
				codeList = "[" + strings.Join(codes, ";") + "]%N"
			}
			term := fmt.Sprintf("(%s, (%s, %s, %s, %s, %s))", cqList(ops), codeList, tablesCoq(t["cert"]), tablesCoq(t["ocsp"]), tablesCoq(t["crl"]),
				cqBytesList(reg.Registry().Names()))
			if !seen[term] {
				seen[term] = true
				out.Add("history", Case{Coq: term, Tag: fmt.Sprintf("%d/%s", nops, strings.Join(codes, "")),
					Desc: map[string]interface{}{"ops": ops, "codes": codes, "names": reg.Registry().Names()}})
			}
			// dumped tables of the real implementation must satisfy the invariant (direct check)
			for _, k := range kinds {
				tb := t[k]
				srt := append([]string{}, tb.Order...)
				sort.Strings(srt)
				if strings.Join(srt, "\x00") != strings.Join(tb.Names, "\x00") || len(tb.ByName) != len(tb.Order) {
					out.Violate("C12|tables-disagree", "lookup tables disagree after a registration history", ops, nil, nil)
				}
			}
		}
		return out.Emit()
	}
}
