package main

import (
	"encoding/json"
	"fmt"
	"go/ast"
	"go/parser"
	"go/token"
	"path/filepath"
	"sort"
	"strconv"
	"strings"

	"github.com/zmap/zlint/v3/lint"
	_ "github.com/zmap/zlint/v3/profiles"
)

// declared LintSource constants (by name in source.go); the registry may list others in future,
// which is exactly what the obligations catch.
var declaredSources = []string{"Unknown", "RFC3279", "RFC5280", "RFC5480", "RFC5891", "RFC6960", "RFC6962", "RFC8813",
	"CABF_BR", "CABF_CS_BR", "CABF_SMIME_BR", "CABF_EV", "Mozilla", "Apple", "Community", "ETSI_ESI"}

// sourceConstants: the string constants of type LintSource declared in v3/lint/source.go of the tree under check
// (added to the hand-written list above, so that a newly declared source is a source for this check too)
func sourceConstants() []string {
	fset := token.NewFileSet()
	f, err := parser.ParseFile(fset, filepath.Join(repoDir(), "v3", "lint", "source.go"), nil, 0)
	if err != nil {
		return nil
	}
	var out []string
	for _, d := range f.Decls {
		gd, ok := d.(*ast.GenDecl)
		if !ok || gd.Tok != token.CONST {
			continue
		}
		for _, sp := range gd.Specs {
			vs := sp.(*ast.ValueSpec)
			if id, ok := vs.Type.(*ast.Ident); !ok || id.Name != "LintSource" {
				continue
			}
			for _, v := range vs.Values {
				if bl, ok := v.(*ast.BasicLit); ok && bl.Kind == token.STRING {
					if str, err := strconv.Unquote(bl.Value); err == nil {
						out = append(out, str)
					}
				}
			}
		}
	}
	return out
}

func fromStringAccepts(s string) (bool, string) {
	var src lint.LintSource
	src.FromString(s)
	return src != lint.UnknownLintSource, string(src)
}

func parseSourceList(raw string) (ok bool, list []string, errText string) {
	var l lint.SourceList
	err := l.FromString(raw)
	if err != nil {
		return false, nil, err.Error()
	}
	for _, s := range l {
		list = append(list, string(s))
	}
	return true, list, ""
}

func renderParseRes(ok bool, list []string) string {
	if !ok {
		return "None"
	}
	return "(Some " + cqBytesList(list) + ")"
}

func init() {
	commands["c13"] = func(args []string) error {
		out := NewOutput()
		rng := NewRng(seedFromEnv(), "c13")
		g := lint.GlobalRegistry()
		listed := []string{}
		for _, s := range g.Sources() {
			listed = append(listed, string(s))
		}
		sort.Strings(listed)
		// sources carried by lint metadata (should equal listed)
		metaSrc := map[string]bool{}
		for _, l := range g.CertificateLints().Lints() {
			metaSrc[string(l.Source)] = true
		}
		for _, l := range g.RevocationListLints().Lints() {
			metaSrc[string(l.Source)] = true
		}
		for _, l := range g.OcspResponseLints().Lints() {
			metaSrc[string(l.Source)] = true
		}
		for _, c := range sourceConstants() {
			if !contains(declaredSources, c) {
				declaredSources = append(declaredSources, c)
			}
		}
		cands := map[string]bool{}
		for _, s := range listed {
			cands[s] = true
		}
		for s := range metaSrc {
			cands[s] = true
		}
		for _, s := range declaredSources {
			cands[s] = true
		}
		base := sortedKeys(cands)
		for _, s := range base {
			cands[strings.ToLower(s)] = true
			cands[strings.ToUpper(s)] = true
			cands[s+"x"] = true
			if len(s) > 1 {
				cands[s[:len(s)-1]] = true
			}
			cands[strings.ReplaceAll(s, "_", "-")] = true
			cands[strings.ReplaceAll(s, "_", " ")] = true
		}
		cands["RFC"] = true
		cands["*"] = true
		cands["all"] = true
		accepted := []string{}
		probes := sortedKeys(cands)
		for _, s := range probes {
			ok, got := fromStringAccepts(s)
			if ok {
				accepted = append(accepted, s)
				if got != strings.TrimSpace(s) {
					out.Violate("fromstring-maps:"+s, "FromString maps an accepted string to a different source", s, s, got)
				}
				// an accepted string is a source: one of the declared constants - otherwise selecting by it silently
				// selects nothing (no lint carries it) instead of being rejected
				if !contains(declaredSources, got) && !metaSrc[got] {
					out.Violate("fromstring-accepts-nonsource:"+s, fmt.Sprintf("the source parser accepts %q and yields the source %q, which is no declared source and which no lint carries: a selection by it is silently empty instead of an error", s, got), s, "rejected", got)
				}
				// and selecting by it selects exactly the lints that carry it
				if ok2, lst, _ := parseSourceList(s); ok2 && len(lst) == 1 {
					if fr, e := g.Filter(lint.FilterOptions{IncludeSources: lint.SourceList{lint.LintSource(lst[0])}}); e == nil {
						want := 0
						for _, n := range g.Names() {
							if src, ok3 := sourceOfLint(g, n); ok3 && src == strings.TrimSpace(s) {
								want++
							}
						}
						if len(fr.Names()) != want {
							out.Violate("source-selects-wrong-set:"+s, fmt.Sprintf("IncludeSources parsed from %q selects %d lints, %d lints carry that source", s, len(fr.Names()), want), s, want, len(fr.Names()))
						}
					}
				}
			}
		}
		out.Data["listed_sources"] = listed
		out.Data["meta_sources"] = sortedKeys(metaSrc)
		out.Data["accepted"] = accepted
		out.Data["probes"] = probes

		// JSON round trip and single-element list parse for each listed source
		jsonOK := map[string]bool{}
		for _, s := range listed {
			b, err := json.Marshal(lint.LintSource(s))
			var back lint.LintSource
			if err == nil {
				err = json.Unmarshal(b, &back)
			}
			jsonOK[s] = err == nil && string(back) == s
			var sl lint.SourceList
			b2, err2 := json.Marshal(lint.SourceList{lint.LintSource(s)})
			if err2 == nil {
				err2 = json.Unmarshal(b2, &sl)
			}
			if err2 != nil || len(sl) != 1 || string(sl[0]) != s {
				jsonOK[s] = false
			}
		}
		out.Data["json_roundtrip"] = jsonOK
		// unknown JSON sources rejected
		jsonUnknownRejected := true
		for _, s := range probes {
			if cands[s] && !contains(listed, s) && !contains(declaredSources, s) {
				var back lint.LintSource
				if err := json.Unmarshal([]byte(fmt.Sprintf("%q", s)), &back); err == nil {
					jsonUnknownRejected = false
					out.Violate("json-unknown-accepted:"+s, "UnmarshalJSON accepts an undeclared source", s, "error", string(back))
				}
			}
		}
		// the JSON decoder takes a source as written: a listed source with blanks around it, in another case, or with a
		// suffix is not a listed source (the text parser of the -includeSources option trims; this decoder does not)
		for _, s := range listed {
			for _, v := range []string{" " + s, s + " ", s + "\n", "\t" + s + "\t", strings.ToLower(s), s + ",", s + "s"} {
				if contains(listed, v) || contains(declaredSources, v) {
					continue
				}
				var back lint.LintSource
				if err := json.Unmarshal([]byte(fmt.Sprintf("%q", v)), &back); err == nil {
					jsonUnknownRejected = false
					out.Violate("json-unknown-accepted:"+v, fmt.Sprintf("UnmarshalJSON accepts %q, which is not a listed source, and decodes it as %q", v, string(back)), v, "error", string(back))
				}
			}
		}
		out.Data["json_unknown_rejected"] = jsonUnknownRejected

		// random raw lists against SourceList.FromString -> Coq cases
		blanks := []string{"", " ", "  ", "\t", "\n", " \t", " ", " ", "\r\n"}
		nRaw := 300
		if tier() == "thorough" {
			nRaw = 3000
		}
		// each listed source alone and each probe alone first
		raws := []string{}
		for _, s := range probes {
			raws = append(raws, s)
		}
		raws = append(raws, "", ",", " , ,", ",,RFC5280,,")
		for i := 0; i < nRaw; i++ {
			n := rng.Intn(5)
			parts := []string{}
			for j := 0; j <= n; j++ {
				var e string
				switch rng.Intn(10) {
				case 0:
					e = ""
				case 1, 2:
					e = pick(rng, probes)
				default:
					if len(accepted) > 0 {
						e = pick(rng, accepted)
					}
				}
				parts = append(parts, pick(rng, blanks)+e+pick(rng, blanks))
			}
			raws = append(raws, strings.Join(parts, ","))
		}
		for _, raw := range raws {
			ok, list, _ := parseSourceList(raw)
			tag := "ok"
			if !ok {
				tag = "err"
			} else if len(list) == 0 {
				tag = "ok-empty"
			}
			out.Add("sources", Case{Coq: fmt.Sprintf("(%s, %s)", cqBytes(raw), renderParseRes(ok, list)),
				Desc: map[string]interface{}{"raw": raw, "ok": ok, "list": list}, Tag: tag + fmt.Sprint(len(list))})
		}

		// names: every listed name as include / exclude name
		names := g.Names()
		out.Data["n_names"] = len(names)
		nameSet := map[string]bool{}
		for _, n := range names {
			nameSet[n] = true
		}
		badNames := []string{}
		for _, n := range names {
			tick()
			fr, err := g.Filter(lint.FilterOptions{IncludeNames: []string{n}})
			if err != nil || len(fr.Names()) != 1 || fr.Names()[0] != n {
				badNames = append(badNames, n)
				out.Violate("include-name:"+n, "listed lint name not usable as include name", n, "registry with exactly this lint", fmt.Sprint(err))
				continue
			}
			fr, err = g.Filter(lint.FilterOptions{ExcludeNames: []string{" " + n + "\t"}})
			if err != nil || len(fr.Names()) != len(names)-1 || contains(fr.Names(), n) {
				badNames = append(badNames, n)
				out.Violate("exclude-name:"+n, "listed lint name not usable as exclude name", n, "registry without exactly this lint", fmt.Sprint(err))
			}
		}
		// ... and together with every other option: a listed name stays acceptable whatever sources, pattern or other
		// names accompany it (including options that select the named lint away)
		{
			srcOf := map[string]lint.LintSource{}
			for _, l := range g.CertificateLints().Lints() {
				srcOf[l.Name] = l.Source
			}
			for _, l := range g.RevocationListLints().Lints() {
				srcOf[l.Name] = l.Source
			}
			for _, l := range g.OcspResponseLints().Lints() {
				srcOf[l.Name] = l.Source
			}
			allSrc := g.Sources()
			for i, n := range names {
				tick()
				own := srcOf[n]
				other := allSrc[i%len(allSrc)]
				if other == own {
					other = allSrc[(i+1)%len(allSrc)]
				}
				combos := []struct {
					what string
					o    lint.FilterOptions
				}{
					{"ExcludeSources of its own source + ExcludeNames", lint.FilterOptions{ExcludeSources: lint.SourceList{own}, ExcludeNames: []string{n}}},
					{"ExcludeSources of its own source + IncludeNames", lint.FilterOptions{ExcludeSources: lint.SourceList{own}, IncludeNames: []string{n}}},
					{"IncludeSources of another source + IncludeNames", lint.FilterOptions{IncludeSources: lint.SourceList{other}, IncludeNames: []string{n}}},
					{"IncludeSources of another source + ExcludeNames", lint.FilterOptions{IncludeSources: lint.SourceList{other}, ExcludeNames: []string{n}}},
					{"ExcludeNames twice and IncludeNames of another lint", lint.FilterOptions{IncludeNames: []string{names[(i+1)%len(names)]}, ExcludeNames: []string{n, n}}},
					{"IncludeNames naming it twice (as overlapping profiles do)", lint.FilterOptions{IncludeNames: []string{n, n}}},
					{"IncludeNames naming it twice, once padded", lint.FilterOptions{IncludeNames: []string{n, names[(i+1)%len(names)], " " + n + " "}}},
				}
				for _, cb := range combos {
					if _, err := g.Filter(cb.o); err != nil {
						out.Violate("listed-name-rejected-in-combination:"+n, "a listed lint name is rejected when combined with "+cb.what, map[string]interface{}{"name": n, "own_source": string(own), "other_source": string(other), "combination": cb.what},
							"accepted (possibly selecting nothing)", err.Error())
						break
					}
				}
			}
			out.Count("name_filters_in_combination", 7*len(names))
		}
		out.Data["names_rejected"] = badNames
		out.Count("name_filters", 2*len(names))
		// unknown names rejected, never ignored
		unknownAccepted := []string{}
		var kindCompanions []string
		if l := g.CertificateLints().Names(); len(l) > 0 {
			kindCompanions = append(kindCompanions, l[len(l)/2])
		}
		if l := g.RevocationListLints().Names(); len(l) > 0 {
			kindCompanions = append(kindCompanions, l[0], l[len(l)-1])
		}
		if l := g.OcspResponseLints().Names(); len(l) > 0 {
			kindCompanions = append(kindCompanions, l[0])
		}
		tryUnknown := func(n string) {
			if nameSet[strings.TrimSpace(n)] {
				return
			}
			optsList := []lint.FilterOptions{
				{IncludeNames: []string{n}}, {ExcludeNames: []string{n}},
				{IncludeNames: []string{names[0], n}}, {ExcludeNames: []string{names[1], n, names[2]}}}
			// next to a listed name of every object kind, before and after it
			for _, comp := range kindCompanions {
				optsList = append(optsList, lint.FilterOptions{IncludeNames: []string{comp, n}}, lint.FilterOptions{ExcludeNames: []string{comp, n}},
					lint.FilterOptions{IncludeNames: []string{n, comp}}, lint.FilterOptions{ExcludeNames: []string{n, comp}}, lint.FilterOptions{IncludeNames: []string{comp}, ExcludeNames: []string{n}},
					lint.FilterOptions{IncludeNames: []string{n}, ExcludeNames: []string{comp}})
			}
			for _, opts := range optsList {
				if _, err := g.Filter(opts); err == nil {
					unknownAccepted = append(unknownAccepted, n)
					out.Violate("unknown-name-accepted:"+n, "unknown lint name silently accepted by Filter", n, "error", "no error")
					return
				}
			}
			out.Count("unknown_name_probes", 1)
		}
		tryUnknown("")
		tryUnknown(" ")
		tryUnknown("e_")
		tryUnknown("nosuchlint")
		for i := 0; i < 120; i++ {
			n := pick(rng, names)
			switch rng.Intn(6) {
			case 0:
				tryUnknown(strings.ToUpper(n))
			case 1:
				tryUnknown(n + "x")
			case 2:
				tryUnknown(n[:len(n)-1])
			case 3:
				tryUnknown(n[1:])
			case 4:
				tryUnknown(strings.Replace(n, "_", "-", 1))
			default:
				tryUnknown(n + "," + n)
			}
		}
		// near misses of every listed name: the other severity prefixes, a prefix of another spelling, the name without its
		// prefix, with a doubled or missing separator, with the words of its tail swapped, with a trailing dot or slash
		for _, n := range names {
			if len(n) < 3 {
				continue
			}
			for _, pre := range []string{"e_", "w_", "n_", "i_", "E_", "x_", ""} {
				tryUnknown(pre + n[2:])
			}
			tryUnknown(n[:1] + n[2:])
			tryUnknown(n[:2] + "_" + n[2:])
			tryUnknown(n + "_")
			tryUnknown(n + ".")
			tryUnknown(n + "/")
			tryUnknown("lint_" + n)
			tryUnknown(n + ".go")
			if i := strings.LastIndex(n, "_"); i > 2 {
				tryUnknown(n[:i])
				tryUnknown(n[:i] + n[i+1:])
			}
		}
		out.Data["unknown_names_accepted"] = unknownAccepted

		// profiles
		profs := lint.AllProfiles()
		missing := []string{}
		for _, p := range profs {
			for _, n := range p.LintNames {
				if !nameSet[n] {
					missing = append(missing, p.Name+":"+n)
					out.Violate("profile-missing:"+p.Name+":"+n, "profile names a lint that does not exist", p.Name, "registered lint", n)
				}
			}
			var fo lint.FilterOptions
			fo.AddProfile(p)
			if _, err := g.Filter(fo); err != nil && len(p.LintNames) > 0 {
				out.Violate("profile-filter:"+p.Name, "profile cannot be used to filter", p.Name, "ok", err.Error())
			}
		}
		out.Data["profiles"] = len(profs)
		out.Data["profile_missing"] = missing
		// histories: lints registered (through the public Register* API) after the registry has already been filtered by
		// name must be listed AND accepted, whatever their kind; sources they introduce must be listed and parse
		{
			kinds := []string{"cert", "crl", "ocsp"}
			seq := 0
			for round := 0; round < 6; round++ {
				// a by-name filter first (this is what a caching implementation would key on)
				cur := g.Names()
				if _, err := g.Filter(lint.FilterOptions{IncludeNames: []string{cur[rng.Intn(len(cur))]}}); err != nil {
					out.Violate("history-filter-fails", "Filter by a listed name fails in a history of registrations: "+err.Error(), nil, nil, nil)
				}
				k := kinds[(round+rng.Intn(3))%3]
				seq++
				nm := fmt.Sprintf("e_verif_late_%s_%d", k, seq)
				sc := &Script{Name: nm, Desc: "late registration", Src: "Community", Cfg: "none", App: "false", Exe: "res", ExeStatus: 3}
				lg := []int{}
				switch k {
				case "cert":
					lint.RegisterCertificateLint(sc.certLint(&lg))
				case "crl":
					lint.RegisterRevocationListLint(sc.crlLint(&lg))
				case "ocsp":
					lint.RegisterOcspResponseLint(sc.ocspLint(&lg))
				}
				if !contains(g.Names(), nm) {
					out.Violate("late-lint-not-listed:"+k, "a "+k+" lint registered after filtering is not listed by Names()", nm, nil, nil)
					continue
				}
				for _, opts := range []lint.FilterOptions{{IncludeNames: []string{nm}}, {ExcludeNames: []string{nm}}} {
					if _, err := g.Filter(opts); err != nil {
						out.Violate("late-lint-not-accepted:"+k, fmt.Sprintf("history: Filter by name; Register%sLint(%s); Filter(%s) -> %v although Names() lists it", k, nm, nm, err),
							map[string]interface{}{"history": []string{"Filter(IncludeNames: one listed name)", "Register " + k + " lint " + nm, "Filter by " + nm}}, "accepted", err.Error())
					}
				}
				out.Count("late_registrations", 1)
			}
			// every listed name (now including the late ones) is still accepted
			for _, nm := range g.Names() {
				if _, err := g.Filter(lint.FilterOptions{IncludeNames: []string{nm}}); err != nil {
					out.Violate("include-name-after-history:"+nm, "listed name rejected after a history of registrations: "+err.Error(), nm, nil, nil)
				}
			}
		}
		// names and listed sources for Coq data
		out.Data["names"] = names
		return out.Emit()
	}
}

func contains(l []string, s string) bool {
	for _, x := range l {
		if x == s {
			return true
		}
	}
	return false
}

func sourceOfLint(g lint.Registry, n string) (string, bool) {
	if l := g.CertificateLints().ByName(n); l != nil {
		return string(l.Source), true
	}
	if l := g.RevocationListLints().ByName(n); l != nil {
		return string(l.Source), true
	}
	if l := g.OcspResponseLints().ByName(n); l != nil {
		return string(l.Source), true
	}
	return "", false
}
