package main

import (
	"time"
	"sort"
	"sync"
	"github.com/zmap/zlint/v3/formattedoutput"
	"os"
	"bytes"
	"encoding/json"
	"fmt"
	"strings"

	"github.com/zmap/zlint/v3"
	"github.com/zmap/zlint/v3/lint"
)

func cqOptZ(ok bool, v int) string {
	if !ok {
		return "None"
	}
	return fmt.Sprintf("(Some %s)", cqZ(int64(v)))
}

func init() {
	commands["c14"] = func(args []string) error {
		out := NewOutput()
		rng := NewRng(seedFromEnv(), "c14")
		lateRegistrationPrelude()
		reportLate(out, "C14", "json", "names")
		// every other public consumer of results runs once first (the summary tables of both kinds, printed to /dev/null):
		// whatever they do to shared tables is then in place for the round trips below
		{
			if devnull, err := os.OpenFile(os.DevNull, os.O_WRONLY, 0); err == nil {
				saved := os.Stdout
				os.Stdout = devnull
				func() {
					defer func() { recover() }()
					if c := loadCorpus(); len(c.Certs) > 0 {
						rs := zlint.LintCertificate(c.Certs[0].Cert)
						formattedoutput.OutputSummary(rs, false)
						formattedoutput.OutputSummary(rs, true)
					}
				}()
				os.Stdout = saved
				devnull.Close()
			}
		}
		// ---- labels
		for s := -2; s <= 10; s++ {
			st := lint.LintStatus(s)
			mb, err := st.MarshalJSON()
			if err != nil {
				out.Violate("C14|marshal-status", fmt.Sprintf("MarshalJSON(%d) failed: %v", s, err), s, nil, nil)
				continue
			}
			out.Add("labels", Case{Coq: fmt.Sprintf("(%s, %s, %s)", cqZ(int64(s)), cqBytes(st.String()), cqBytes(string(mb))), Tag: fmt.Sprint(s),
				Desc: map[string]interface{}{"status": s, "label": st.String(), "json": string(mb)}})
			var back lint.LintStatus
			e2 := json.Unmarshal(mb, &back)
			if s >= 0 && s <= 7 {
				if e2 != nil || back != st {
					out.Violate(fmt.Sprintf("C14|status-roundtrip:%d", s), fmt.Sprintf("status %d does not survive the JSON round trip (%v, %d)", s, e2, back), s, s, int(back))
				}
			} else if e2 == nil {
				out.Violate(fmt.Sprintf("C14|out-of-range-decodes:%d", s), "out-of-range status decodes", s, nil, int(back))
			}
		}
		// ---- the encoded labels are values: the bytes returned for one status are not changed by encoding another
		{
			var kept [][]byte
			var want []string
			for st := 0; st <= 7; st++ {
				b, err := lint.LintStatus(st).MarshalJSON()
				if err != nil {
					continue
				}
				kept = append(kept, b)
				want = append(want, string(b))
			}
			for i := range kept {
				if string(kept[i]) != want[i] {
					out.Violate("C14|encoded-label-overwritten", fmt.Sprintf("the bytes MarshalJSON returned for status %d read %s after other statuses were encoded (they read %s when returned)", i, kept[i], want[i]), i, want[i], string(kept[i]))
				}
			}
		}
		// ---- concurrent round trips: several goroutines encode and decode result sets at once, each must get back what
		// the same round trip gives alone
		{
			corpus := loadCorpus()
			type ref struct {
				rs   *zlint.ResultSet
				json string
			}
			var refs []ref
			for i, cc := range corpus.Certs {
				if i%40 == 0 {
					rs := zlint.LintCertificate(cc.Cert)
					if b, err := json.Marshal(rs); err == nil {
						refs = append(refs, ref{rs, string(b)})
					}
				}
			}
			var wg sync.WaitGroup
			var mu sync.Mutex
			var problems []string
			rounds := 150
			if tier() == "thorough" {
				rounds = 2000
			}
			for w := 0; w < 16; w++ {
				wg.Add(1)
				go func(id int) {
					defer wg.Done()
					for k := 0; k < rounds; k++ {
						r := refs[(k+id)%len(refs)]
						b, err := json.Marshal(r.rs)
						why := ""
						if err != nil {
							why = "encoding fails: " + err.Error()
						} else if string(b) != r.json {
							why = "the encoded document differs from the one produced alone"
						} else {
							var back zlint.ResultSet
							if err := json.Unmarshal(b, &back); err != nil {
								why = "decoding fails: " + err.Error()
							}
						}
						if why != "" {
							mu.Lock()
							if len(problems) < 5 {
								problems = append(problems, why)
							}
							mu.Unlock()
						}
					}
				}(w)
			}
			wg.Wait()
			for _, pr := range problems {
				out.Violate("C14|concurrent-roundtrip", "a result set encoded while other goroutines encode result sets: "+pr, map[string]interface{}{"goroutines": 16, "rounds": rounds}, nil, nil)
			}
			out.Stats["concurrent_roundtrips"] = 16 * rounds
		}
		// ---- raw tokens through UnmarshalJSON
		toks := []string{`"pass"`, `"PASS"`, `"Pass"`, `"pass "`, `" pass"`, `""`, `"`, `pass`, `"info"`, `"notice"`, `"warn"`, `"warning"`, `"error"`, `"fatal"`,
			`"NA"`, `"na"`, `"NE"`, `"reserved"`, `3`, `null`, `true`, `"3"`, `"pa\"ss"`, `"pass"`, `["pass"]`, `{"result":"pass"}`, `"p""ass"`, `""pass""`,
			`"erro"`, `"errorr"`, `"fatal\n"`, `"N/A"`, `"n e"`}
		for i := 0; i < 150; i++ {
			base := pick(rng, []string{"pass", "info", "warn", "error", "fatal", "NA", "NE", "reserved"})
			b := []byte(`"` + base + `"`)
			switch rng.Intn(5) {
			case 0:
				b[rng.Intn(len(b))] = byte(32 + rng.Intn(95))
			case 1:
				p := rng.Intn(len(b))
				b = append(b[:p], append([]byte{'"'}, b[p:]...)...)
			case 2:
				b = append(b, byte(32+rng.Intn(95)))
			case 3:
				p := 1 + rng.Intn(len(b)-1)
				b = append(b[:p-1], b[p:]...)
			}
			toks = append(toks, string(b))
		}
		toks = append(toks, `"null"`, `"nil"`, `"NULL"`, `"undefined"`, `"none"`, `"0"`, `"unknown"`, `"ok"`, `"Error"`, `"n/a"`, `"ne"`, `"fail"`, `"skip"`, `false`, `0`, `[]`, `{}`, `"\u0070ass"`)
		labelSet := map[string]bool{"pass": true, "info": true, "warn": true, "error": true, "fatal": true, "NA": true, "NE": true, "reserved": true}
		// direct: whatever decodes is one of the eight labels (the decoder ignores quotation marks), through the status
		// decoder itself and through result and result-set documents
		for _, t := range toks {
			var st lint.LintStatus = 99
			if err := st.UnmarshalJSON([]byte(t)); err == nil && !labelSet[strings.ReplaceAll(t, `"`, "")] {
				out.Violate("C14|unknown-label-accepted", fmt.Sprintf("the status decoder accepts %s (status becomes %d)", t, int(st)), t, "an error", int(st))
			}
			var r lint.LintResult
			if err := json.Unmarshal([]byte(`{"result":`+t+`}`), &r); err == nil && json.Valid([]byte(t)) {
				var sv string
				if json.Unmarshal([]byte(t), &sv) != nil || !labelSet[strings.ReplaceAll(sv, `"`, "")] {
					if !(t == "null") || true {
						out.Violate("C14|unknown-label-accepted-in-result", fmt.Sprintf("a result document with \"result\": %s decodes without error (status %d)", t, int(r.Status)), t, "an error", int(r.Status))
					}
				}
			}
		}
		seen := map[string]bool{}
		for _, t := range toks {
			if seen[t] {
				continue
			}
			seen[t] = true
			var st lint.LintStatus = 99
			err := st.UnmarshalJSON([]byte(t))
			out.Add("parse", Case{Coq: fmt.Sprintf("(%s, %s)", cqBytes(t), cqOptZ(err == nil, int(st))), Tag: fmt.Sprint(err == nil),
				Desc: map[string]interface{}{"raw": t, "ok": err == nil, "status": int(st)}})
		}
		// ---- details through a whole ResultSet round trip
		pool := []string{"", "plain", "caf\xc3\xa9", "\xff", "a\xffb", "\xc3", "\xc3\x28", "\xe2\x82", "\xe2\x82\xac", "\xf0\x9f\x98\x80", "\xf0\x9f\x98", "\xed\xa0\x80",
			"\xc0\x80", "\xe0\x80\x80", "\xf4\x90\x80\x80", "\xef\xbf\xbd", "<a href=\"x\">&amp;</a>", "tab\there", "nl\nnl", "quote\"q", "back\\slash",
			"  ", "\x00\x01\x1f", "\x7f\x80\xbf", "\xf8\x88\x80\x80\x80", "\xc2\xa0", "\xe0\xa0\x80", "\xef\xbf\xbf", "\xf4\x8f\xbf\xbf"}
		nDet := 300
		if tier() == "thorough" {
			nDet = 5000
		}
		for i := 0; i < nDet; i++ {
			n := rng.Intn(12)
			b := make([]byte, 0, n)
			for j := 0; j < n; j++ {
				switch rng.Intn(4) {
				case 0:
					b = append(b, byte(rng.Intn(256)))
				case 1:
					b = append(b, pick(rng, []byte{0x7f, 0x80, 0xbf, 0xc0, 0xc1, 0xc2, 0xdf, 0xe0, 0xed, 0xef, 0xf0, 0xf4, 0xf5, 0xff, 0xa0, 0x9f, 0x90, 0x8f}))
				case 2:
					b = append(b, []byte(pick(rng, pool))...)
				default:
					b = append(b, byte(32+rng.Intn(95)))
				}
			}
			pool = append(pool, string(b))
		}
		seenD := map[string]bool{}
		for i, dtl := range pool {
			if seenD[dtl] {
				continue
			}
			seenD[dtl] = true
			st := lint.LintStatus(1 + i%7)
			rs := &zlint.ResultSet{Version: 3, Timestamp: 12345, Results: map[string]*lint.LintResult{
				"e_x": {Status: st, Details: dtl}, "w_y": {Status: lint.Pass}},
				NoticesPresent: st == lint.Notice, WarningsPresent: st == lint.Warn, ErrorsPresent: st == lint.Error, FatalsPresent: st == lint.Fatal}
			jb, err := json.Marshal(rs)
			if err != nil {
				out.Violate("C14|marshal-resultset", "json.Marshal of a result set failed: "+err.Error(), hexs([]byte(dtl)), nil, nil)
				continue
			}
			var back zlint.ResultSet
			if err := json.Unmarshal(jb, &back); err != nil {
				out.Violate("C14|unmarshal-resultset", "result set JSON does not decode: "+err.Error(), string(jb), nil, nil)
				continue
			}
			got := back.Results["e_x"]
			if got == nil || back.Results["w_y"] == nil || len(back.Results) != 2 {
				out.Violate("C14|results-lost", "results lost in the JSON round trip", string(jb), nil, nil)
				continue
			}
			want := string([]rune(dtl)) // each invalid byte -> U+FFFD
			if got.Status != st || got.Details != want || back.Results["w_y"].Status != lint.Pass {
				out.Violate("C14|result-roundtrip:"+hexs([]byte(dtl)), fmt.Sprintf("round trip gives (%d,%q), expected (%d,%q)", got.Status, got.Details, st, want), hexs([]byte(dtl)), want, got.Details)
			}
			if back.NoticesPresent != rs.NoticesPresent || back.WarningsPresent != rs.WarningsPresent || back.ErrorsPresent != rs.ErrorsPresent ||
				back.FatalsPresent != rs.FatalsPresent || back.Version != 3 {
				out.Violate("C14|flags-roundtrip", "flags/version changed in the JSON round trip", string(jb), nil, nil)
			}
			out.Add("details", Case{Coq: fmt.Sprintf("(%s, %s)", cqBytes(dtl), cqBytes(got.Details)), Tag: fmt.Sprintf("%v/%d", want == dtl, len(dtl)),
				Desc: map[string]interface{}{"details_hex": hexs([]byte(dtl)), "decoded_hex": hexs([]byte(got.Details))}})
		}
		// ---- real result sets from the corpus
		corpus := loadCorpus()
		nObj := 150
		if tier() == "thorough" {
			nObj = len(corpus.Certs)
		}
		rsCount := 0
		checkRS := func(what string, rs *zlint.ResultSet) {
			jb, err := json.Marshal(rs)
			if err != nil {
				out.Violate("C14|marshal-resultset", "json.Marshal failed on "+what+": "+err.Error(), what, nil, nil)
				return
			}
			var back zlint.ResultSet
			if err := json.Unmarshal(jb, &back); err != nil {
				out.Violate("C14|unmarshal-resultset:"+what, "result set of "+what+" does not decode: "+err.Error(), what, nil, nil)
				return
			}
			rsCount++
			if len(back.Results) != len(rs.Results) {
				out.Violate("C14|results-lost", "results lost in the JSON round trip of "+what, what, len(rs.Results), len(back.Results))
			}
			for k, v := range rs.Results {
				b := back.Results[k]
				if b == nil || b.Status != v.Status || b.Details != string([]rune(v.Details)) {
					out.Violate("C14|result-roundtrip:"+k, "result of "+k+" on "+what+" changed in the JSON round trip", what, v, b)
				}
			}
			if back.NoticesPresent != rs.NoticesPresent || back.WarningsPresent != rs.WarningsPresent || back.ErrorsPresent != rs.ErrorsPresent ||
				back.FatalsPresent != rs.FatalsPresent || back.Version != rs.Version {
				out.Violate("C14|flags-roundtrip", "flags/version changed in the JSON round trip of "+what, what, nil, nil)
			}
			// the CLI prints the Results map only
			jm, _ := json.Marshal(rs.Results)
			var bm map[string]*lint.LintResult
			if err := json.Unmarshal(jm, &bm); err != nil || len(bm) != len(rs.Results) {
				out.Violate("C14|results-map-roundtrip", "Results map does not survive the JSON round trip on "+what, what, nil, nil)
			}
		}
		for _, cc := range corpus.sampleCerts(rng, nObj) {
			checkRS("cert "+cc.File, zlint.LintCertificate(cc.Cert))
		}
		for _, cc := range corpus.CRLs {
			checkRS("crl "+cc.File, zlint.LintRevocationList(cc.CRL))
		}
		for _, cc := range corpus.OCSPs {
			checkRS("ocsp "+cc.File, zlint.LintOcspResponse(cc.Resp))
		}
		out.Stats["resultsets_roundtripped"] = rsCount
		// ---- the listing
		g := lint.GlobalRegistry()
		var buf bytes.Buffer
		g.WriteJSON(&buf)
		lines := strings.Split(strings.TrimRight(buf.String(), "\n"), "\n")
		info := registryInfo(g) // cert, ocsp, crl order
		out.Data["listing_lines"] = len(lines)
		out.Data["registered"] = len(info)
		if len(lines) != len(info) {
			out.Violate("C14|listing-count", fmt.Sprintf("WriteJSON prints %d lines for %d registered lints", len(lines), len(info)), nil, len(info), len(lines))
		}
		var lineNames []string
		for i, ln := range lines {
			var m struct {
				Name        string          `json:"name"`
				Description string          `json:"description"`
				Citation    string          `json:"citation"`
				Source      lint.LintSource `json:"source"`
			}
			if err := json.Unmarshal([]byte(ln), &m); err != nil {
				out.Violate(fmt.Sprintf("C14|listing-line-undecodable:%d", i), "listing line does not decode (unknown source?): "+err.Error(), ln, nil, nil)
				continue
			}
			lineNames = append(lineNames, m.Name)
			if i < len(info) {
				w := info[i]
				if m.Name != w.Name || m.Description != string([]rune(w.Desc)) || m.Citation != string([]rune(w.Cite)) || string(m.Source) != w.Src {
					out.Violate("C14|listing-line:"+w.Name, "listing line does not decode to the lint's name/description/citation/source", ln, w, m)
				}
			}
		}
		out.Data["listing_names"] = lineNames
		// a registry of an embedding program: lints of every kind whose source is a listed one, a private one or not set at all
		// (the public Register* functions accept all of them).  Exactly one line per lint whatever its source; lines are decoded
		// leniently here (the source as text), the decoder's own refusal of an unlisted source is the first clause's business
		{
			reg := lint.VerifNewRegistry()
			var want []string
			wantText := map[string][2]string{}
			srcs := []string{"Community", "RFC5280", "ACME_CPS", "", "cabf_br", "Unknown", "RFC6960", "Community"}
			for i, sc := range srcs {
				for _, k := range []string{"cert", "crl", "ocsp"} {
					nm := fmt.Sprintf("n_verif_private_%s_%d", k, i)
					// texts of every kind of character: ASCII, Latin-1, other BMP, beyond the BMP (emoji, mathematical letters,
					// rare ideographs), controls, quotes and backslashes, markup characters, line separators, bytes that are not UTF-8
					texts := []string{"private lint (verification harness)", "Caf\u00e9 \u00a7 4.1.2.4", "\u8a3c\u660e\u66f8 \u2028 \u2029", "smile \U0001F600 fraktur \U0001D504 ideograph \U00020BB7 end", "tab\there \x01 \x7f \"quoted\" back\\slash",
						"<b>&amp;</b> '", "bad \xff\xfe bytes \xc3", "\U0010FFFF\U00010000 edge"}
					spt := &Script{Name: nm, Desc: texts[i%len(texts)], Cite: texts[(i+3)%len(texts)], Src: sc, Cfg: "none", App: "false", Exe: "res", ExeStatus: 3}
					wantText[nm] = [2]string{string([]rune(spt.Desc)), string([]rune(spt.Cite))}
					// dates of every magnitude: none, year 1, year 9999, year 10000, the far future of a 64-bit clock
					switch i {
					case 1:
						spt.Eff = time.Date(1, 1, 1, 0, 0, 0, 1, time.UTC)
					case 2:
						spt.Eff, spt.Ineff = time.Date(9999, 12, 31, 23, 59, 59, 0, time.UTC), time.Date(10000, 1, 1, 0, 0, 0, 0, time.UTC)
					case 3:
						spt.Ineff = time.Unix(1<<60, 0)
					case 4:
						spt.Eff = time.Date(-5, 1, 1, 0, 0, 0, 0, time.UTC)
					}
					lg := []int{}
					var err error
					switch k {
					case "cert":
						err = reg.RegisterCertificate(spt.certLint(&lg))
					case "crl":
						err = reg.RegisterRevocationList(spt.crlLint(&lg))
					case "ocsp":
						err = reg.RegisterOcspResponse(spt.ocspLint(&lg))
					}
					if err == nil {
						want = append(want, nm)
					}
				}
			}
			var b bytes.Buffer
			reg.Registry().WriteJSON(&b)
			var got []string
			for _, ln := range strings.Split(strings.TrimRight(b.String(), "\n"), "\n") {
				if ln == "" {
					continue
				}
				var m struct {
					Name        string `json:"name"`
					Source      string `json:"source"`
					Description string `json:"description"`
					Citation    string `json:"citation"`
				}
				if err := json.Unmarshal([]byte(ln), &m); err != nil {
					out.Violate("C14|private-listing-line-undecodable", "a listing line of a registry with privately sourced lints is not a JSON object with a name: "+err.Error(), ln, nil, nil)
					continue
				}
				got = append(got, m.Name)
				if w, ok := wantText[m.Name]; ok && (m.Description != w[0] || m.Citation != w[1]) {
					out.Violate("C14|private-listing-text:"+m.Name, fmt.Sprintf("the listing line of %s decodes to description %q / citation %q, the lint has %q / %q", m.Name, m.Description, m.Citation, w[0], w[1]),
						map[string]interface{}{"line": ln}, w, [2]string{m.Description, m.Citation})
				}
			}
			sort.Strings(got)
			sort.Strings(want)
			if strings.Join(got, ",") != strings.Join(want, ",") {
				out.Violate("C14|private-listing", fmt.Sprintf("a registry holding %d lints (sources %q) lists %d lines (first difference: %s)", len(want), srcs, len(got), firstDiffLine(strings.Join(want, "\n"), strings.Join(got, "\n"))),
					map[string]interface{}{"sources": srcs}, len(want), len(got))
			}
			if len(want) != len(reg.Registry().Names()) {
				out.Violate("C14|private-names", fmt.Sprintf("Names() of that registry has %d entries for %d registered lints", len(reg.Registry().Names()), len(want)), nil, len(want), len(reg.Registry().Names()))
			}
			out.Stats["private_registry_lints"] = len(want)
		}
		// the same for registries narrowed by a filter: every kind alone, every pair of kinds, every source, random options
		{
			var fspecs []FilterSpec
			first := func(l []string) string {
				if len(l) > 0 {
					return l[0]
				}
				return ""
			}
			var certN, crlN, ocspN []string
			for _, l := range g.CertificateLints().Lints() {
				certN = append(certN, l.Name)
			}
			for _, l := range g.RevocationListLints().Lints() {
				crlN = append(crlN, l.Name)
			}
			for _, l := range g.OcspResponseLints().Lints() {
				ocspN = append(ocspN, l.Name)
			}
			for _, set := range [][]string{{first(certN)}, {first(crlN)}, {first(ocspN)}, {first(certN), first(crlN)}, {first(certN), first(ocspN)}, {first(crlN), first(ocspN)}, crlN, ocspN, append(append([]string{}, crlN...), ocspN...)} {
				ok := true
				for _, n := range set {
					if n == "" {
						ok = false
					}
				}
				if ok {
					fspecs = append(fspecs, FilterSpec{IncludeNames: set})
				}
			}
			var srcs []string
			for _, sc := range g.Sources() {
				srcs = append(srcs, string(sc))
				fspecs = append(fspecs, FilterSpec{IncludeSources: []string{string(sc)}}, FilterSpec{ExcludeSources: []string{string(sc)}})
			}
			sort.Strings(srcs)
			fspecs = append(fspecs, FilterSpec{Regex: "crl"}, FilterSpec{Regex: "ocsp"}, FilterSpec{Regex: "^w_"}, FilterSpec{Regex: "^$"})
			frng := NewRng(seedFromEnv(), "c14-filters")
			nRand := 30
			if tier() == "thorough" {
				nRand = 400
			}
			for i := 0; i < nRand; i++ {
				fspecs = append(fspecs, randomFilterSpec(frng, g.Names(), srcs, i%2 == 0))
			}
			listings := 0
			for _, f := range fspecs {
				fr, err := g.Filter(f.opts())
				if err != nil {
					continue
				}
				listings++
				var b bytes.Buffer
				fr.WriteJSON(&b)
				var got []string
				for _, ln := range strings.Split(strings.TrimRight(b.String(), "\n"), "\n") {
					if ln == "" {
						continue
					}
					var m struct {
						Name   string          `json:"name"`
						Source lint.LintSource `json:"source"`
					}
					if err := json.Unmarshal([]byte(ln), &m); err != nil {
						out.Violate("C14|filtered-listing-line-undecodable", fmt.Sprintf("a line of the listing of the registry filtered with %+v does not decode: %v", f, err), f, nil, ln)
						continue
					}
					got = append(got, m.Name)
				}
				sort.Strings(got)
				want := append([]string{}, fr.Names()...)
				sort.Strings(want)
				if strings.Join(got, ",") != strings.Join(want, ",") {
					out.Violate("C14|filtered-listing", fmt.Sprintf("the listing of the registry filtered with %+v has %d lines for %d registered lints (first difference: %s)", f, len(got), len(want), firstDiffLine(strings.Join(want, "\n"), strings.Join(got, "\n"))),
						f, len(want), len(got))
				}
			}
			out.Stats["filtered_listings"] = listings
		}
		out.Data["entries_coq"] = coqRegistryEntries(info)
		return out.Emit()
	}
}
