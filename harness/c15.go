package main

import (
	"sort"
	"bytes"
	crand "crypto/rand"
	stdx509 "crypto/x509"
	"crypto/x509/pkix"
	"encoding/asn1"
	"math/big"
	"time"
	"encoding/base64"
	"encoding/json"
	"encoding/pem"
	"fmt"
	"os"
	"os/exec"
	"path/filepath"
	"regexp"
	"strconv"
	"strings"

	"github.com/zmap/zcrypto/x509"
	"github.com/zmap/zlint/v3"
	"github.com/zmap/zlint/v3/lint"
)

type cliRun struct {
	stdout, stderr string
	code           int
}

func runCLI(bin string, args []string, stdin []byte) cliRun {
	cmd := exec.Command(bin, args...)
	if stdin != nil {
		cmd.Stdin = bytes.NewReader(stdin)
	}
	var so, se bytes.Buffer
	cmd.Stdout, cmd.Stderr = &so, &se
	err := cmd.Run()
	code := 0
	if err != nil {
		if ee, ok := err.(*exec.ExitError); ok {
			code = ee.ExitCode()
		} else {
			code = -1
		}
	}
	tick()
	return cliRun{so.String(), se.String(), code}
}

type selection struct {
	flags []string
	opts  lint.FilterOptions
}

func libJSON(rs *zlint.ResultSet) string {
	b, _ := json.Marshal(rs.Results)
	return string(b)
}

// equalResults compares two JSON result maps; `unstable` lints (details not reproducible, C05) are compared on status only
func equalResults(a, b string, unstable map[string]bool) (bool, string) {
	if a == b {
		return true, ""
	}
	var ma, mb map[string]*lint.LintResult
	if json.Unmarshal([]byte(a), &ma) != nil || json.Unmarshal([]byte(b), &mb) != nil {
		return false, "undecodable"
	}
	if len(ma) != len(mb) {
		return false, fmt.Sprintf("%d vs %d results", len(ma), len(mb))
	}
	for k, v := range ma {
		w := mb[k]
		if w == nil {
			return false, "missing " + k
		}
		if v.Status != w.Status || (v.Details != w.Details && !unstable[k]) {
			return false, fmt.Sprintf("%s: (%d,%q) vs (%d,%q)", k, v.Status, v.Details, w.Status, w.Details)
		}
	}
	return true, ""
}

func init() {
	commands["c15"] = func(args []string) error {
		out := NewOutput()
		rng := NewRng(seedFromEnv(), "c15")
		bin := os.Getenv("VERIF_CLI")
		if bin == "" {
			return fmt.Errorf("VERIF_CLI not set")
		}
		tmp, err := os.MkdirTemp("", "verif-c15-")
		if err != nil {
			return err
		}
		defer os.RemoveAll(tmp)
		g := lint.GlobalRegistry()
		corpus := loadCorpus()
		names := g.Names()
		sels := []selection{
			{nil, lint.FilterOptions{}},
			{[]string{"-includeSources", "RFC5280,CABF_BR"}, lint.FilterOptions{IncludeSources: lint.SourceList{lint.RFC5280, lint.CABFBaselineRequirements}}},
			{[]string{"-excludeSources", "Community, Mozilla"}, lint.FilterOptions{ExcludeSources: lint.SourceList{lint.Community, lint.MozillaRootStorePolicy}}},
			{[]string{"-nameFilter", "^e_(rsa|dnsname)"}, lint.FilterOptions{NameFilter: regexp.MustCompile("^e_(rsa|dnsname)")}},
			{[]string{"-includeNames", names[3] + " , " + names[40] + "," + names[200]}, lint.FilterOptions{IncludeNames: []string{names[3], names[40], names[200]}}},
			{[]string{"-excludeNames", names[5] + "," + names[6], "-includeSources", "RFC5280"}, lint.FilterOptions{ExcludeNames: []string{names[5], names[6]}, IncludeSources: lint.SourceList{lint.RFC5280}}},
		}
		nCerts := 6
		if tier() == "thorough" {
			nCerts = 60
		}
		certs := corpus.sampleCerts(rng, nCerts)
		// binary inputs whose first / last bytes look like text blanks (tab, LF, VT, FF, CR, space, NEL, NBSP): any trimming
		// of the raw input corrupts them although the library parses them fine
		edge := map[byte]bool{}
		for _, cc := range corpus.Certs {
			last := cc.DER[len(cc.DER)-1]
			if (last >= 0x09 && last <= 0x0d) || last == 0x20 || last == 0x85 || last == 0xa0 {
				if !edge[last] {
					edge[last] = true
					certs = append(certs, cc)
				}
			}
		}
		out.Data["der_edge_last_bytes"] = len(edge)
		// one certificate of every shape of the to-be-signed part: each version (a version 1 certificate has no version
		// field, so its first element is the serial number), with and without unique identifiers, with and without extensions
		shapes := map[string]bool{}
		for _, cc := range corpus.Certs {
			k := fmt.Sprintf("v%d/uid=%v/ext=%v", cc.Cert.Version, cc.Cert.IssuerUniqueId.Bytes != nil || cc.Cert.SubjectUniqueId.Bytes != nil, len(cc.Cert.Extensions) > 0)
			if !shapes[k] {
				shapes[k] = true
				certs = append(certs, cc)
			}
		}
		out.Data["tbs_shapes"] = len(shapes)
		invocations := 0
		addCase := func(flag, path string, pemBlk *pem.Block, b64ok *bool, rawOK bool, observed int, desc map[string]interface{}) {
			pemC := "None"
			if pemBlk != nil {
				_, e1 := x509.ParseCertificate(pemBlk.Bytes)
				_, e2 := x509.ParseRevocationList(pemBlk.Bytes)
				pemC = fmt.Sprintf("(Some (%s, %s, %s))", cqBytes(pemBlk.Type), cqBool(e1 == nil), cqBool(e2 == nil))
			}
			b64C := "None"
			if b64ok != nil {
				b64C = "(Some " + cqBool(*b64ok) + ")"
			}
			out.Add("cli", Case{Coq: fmt.Sprintf("(%s, %s, %s, %s, %s, %s)", cqBytes(flag), cqBytes(path), pemC, b64C, cqBool(rawOK), cqZ(int64(observed))),
				Tag: fmt.Sprintf("%s/%s/%d", flag, filepath.Ext(path), observed), Desc: desc})
		}
		// oracle values of one input
		oracles := func(content []byte) (*pem.Block, *bool, bool) {
			blk, _ := pem.Decode(content)
			var b64ok *bool
			if der, e := base64.StdEncoding.DecodeString(string(content)); e == nil {
				_, pe := x509.ParseCertificate(der)
				ok := pe == nil
				b64ok = &ok
			}
			_, re := x509.ParseCertificate(content)
			return blk, b64ok, re == nil
		}
		for ci, cc := range certs {
			der := cc.DER
			pemBytes := pem.EncodeToMemory(&pem.Block{Type: "CERTIFICATE", Bytes: der})
			b64Bytes := []byte(base64.StdEncoding.EncodeToString(der))
			b64Wrapped := []byte(wrapLines(string(b64Bytes), 64))
			// lints whose details are not reproducible on this certificate
			unstable := map[string]bool{}
			ref := resultsOf(zlint.LintCertificate(cc.Cert))
			for i := 0; i < 6; i++ {
				for k, v := range resultsOf(zlint.LintCertificate(cc.Cert)) {
					if ref[k] != v {
						unstable[k] = true
					}
				}
			}
			sel := sels[ci%len(sels)]
			reg := lint.Registry(g)
			if !sel.opts.Empty() {
				if reg, err = g.Filter(sel.opts); err != nil {
					return err
				}
			}
			want := libJSON(zlint.LintCertificateEx(cc.Cert, reg))
			type enc struct {
				name, flag, file string
				content           []byte
				stdin             bool
			}
			encs := []enc{
				{"pem-file", "", "c.pem", pemBytes, false}, {"pem-stdin", "pem", "", pemBytes, true}, {"pem-noext", "PEM", "cert", pemBytes, false},
				{"der-file", "", "c.der", der, false}, {"der-stdin", "der", "", der, true}, {"der-noext", "DER", "cert.bin", der, false},
				{"b64-file", "base64", "c.b64", b64Bytes, false}, {"b64-stdin", "Base64", "", b64Bytes, true}, {"b64-wrapped", "base64", "c.txt", b64Wrapped, false},
				// suffix override and mismatches: the model predicts these too
				{"b64-in-.der", "base64", "x.der", b64Bytes, false}, {"der-in-.pem", "der", "x.pem", der, false}, {"pem-as-der", "der", "p.bin", pemBytes, false},
				{"pem-as-b64", "base64", "p.txt", pemBytes, false}, {"unknown-format", "pkcs12", "c.bin", der, false}, {"der-as-pem", "pem", "d.bin", der, false},
			}
			for _, e := range encs {
				argv := append([]string{}, sel.flags...)
				if e.flag != "" {
					argv = append(argv, "-format", e.flag)
				}
				var r cliRun
				path := ""
				if e.stdin {
					r = runCLI(bin, argv, e.content)
				} else {
					path = filepath.Join(tmp, e.file)
					if err := os.WriteFile(path, e.content, 0o600); err != nil {
						return err
					}
					r = runCLI(bin, append(argv, path), nil)
				}
				invocations++
				flag := e.flag
				if flag == "" {
					flag = "pem"
				}
				observed := 0
				if r.code == 0 {
					if ok, why := equalResults(strings.TrimSuffix(r.stdout, "\n"), want, unstable); ok && strings.HasSuffix(r.stdout, "\n") {
						observed = 1
					} else {
						observed = 9
						out.Violate("C15|output-differs:"+e.name, fmt.Sprintf("CLI output (%s, selection %v) differs from the library on %s: %s", e.name, sel.flags, cc.File, why),
							map[string]interface{}{"file": cc.File, "encoding": e.name, "flags": sel.flags}, nil, nil)
					}
				} else if strings.Contains(r.stdout, "{") {
					out.Violate("C15|output-on-failure:"+e.name, "CLI exited non-zero but printed a result object", map[string]interface{}{"file": cc.File, "encoding": e.name}, nil, r.stdout[:minInt(200, len(r.stdout))])
				}
				blk, b64ok, rawOK := oracles(e.content)
				relPath := ""
				if path != "" {
					relPath = e.file
				}
				addCase(flag, relPath, blk, b64ok, rawOK, observed, map[string]interface{}{"file": cc.File, "encoding": e.name, "flags": argv, "exit": r.code})
				// the three proper encodings must all succeed
				if (strings.HasPrefix(e.name, "pem-") && !strings.Contains(e.name, "as") || strings.HasPrefix(e.name, "der-") && !strings.Contains(e.name, "in") && !strings.Contains(e.name, "as") ||
					strings.HasPrefix(e.name, "b64-") && !strings.Contains(e.name, "in")) && observed != 1 {
					out.Violate("C15|encoding-fails:"+e.name, fmt.Sprintf("CLI fails (exit %d) on a parseable certificate given as %s: %s", r.code, e.name, strings.TrimSpace(r.stderr)),
						map[string]interface{}{"file": cc.File, "encoding": e.name}, nil, nil)
				}
			}
			// summary tables
			pth := filepath.Join(tmp, "s.pem")
			os.WriteFile(pth, pemBytes, 0o600)
			r := runCLI(bin, append(append([]string{}, sel.flags...), "-summary", pth), nil)
			invocations++
			counts := map[string]int{}
			rowRe := regexp.MustCompile(`\|\s*(info|warn|error|fatal)\s*\|\s*(\d+)\s*\|`)
			for _, m := range rowRe.FindAllStringSubmatch(r.stdout, -1) {
				n, _ := strconv.Atoi(m[2])
				counts[m[1]] = n
			}
			wantCounts := map[string]int{"info": 0, "warn": 0, "error": 0, "fatal": 0}
			for _, v := range zlint.LintCertificateEx(cc.Cert, reg).Results {
				switch v.Status {
				case lint.Notice:
					wantCounts["info"]++
				case lint.Warn:
					wantCounts["warn"]++
				case lint.Error:
					wantCounts["error"]++
				case lint.Fatal:
					wantCounts["fatal"]++
				}
			}
			if r.code != 0 || fmt.Sprint(counts) != fmt.Sprint(wantCounts) {
				// status randomness of the KU/EKU lint (C05) may move one count: accept only exact equality otherwise
				if len(unstable) == 0 {
					out.Violate("C15|summary-counts", fmt.Sprintf("summary table %v differs from the library's counts %v on %s", counts, wantCounts, cc.File),
						map[string]interface{}{"file": cc.File, "flags": sel.flags}, wantCounts, counts)
				}
			}
		}
		// many files per invocation in a process with few resources: 150 files while at most 40 may be open at a time (a
		// batch run under a service manager's descriptor limit) - every file still gets its result object
		if len(certs) >= 10 {
			var paths []string
			var wants []string
			for i := 0; i < 150; i++ {
				cc := certs[i%len(certs)]
				p := filepath.Join(tmp, fmt.Sprintf("many-%03d.der", i))
				os.WriteFile(p, cc.DER, 0o600)
				paths = append(paths, p)
				wants = append(wants, libJSON(zlint.LintCertificate(cc.Cert)))
			}
			script := "ulimit -n 40 && exec \"$0\" \"$@\""
			r := runCLI("/bin/sh", append([]string{"-c", script, bin}, paths...), nil)
			invocations++
			lines := strings.Split(strings.TrimSuffix(r.stdout, "\n"), "\n")
			bad := ""
			if r.code != 0 || len(lines) != len(paths) {
				bad = fmt.Sprintf("exit %d with %d result objects for %d parseable files (stderr: %.200s)", r.code, len(lines), len(paths), r.stderr)
			} else {
				for i := range wants {
					if ok, _ := equalResults(lines[i], wants[i], map[string]bool{"e_key_usage_and_extended_key_usage_inconsistent": true, "e_ext_duplicate_extension": true}); !ok {
						bad = fmt.Sprintf("the result object of file %d differs from the library's", i)
						break
					}
				}
			}
			if bad != "" {
				out.Violate("C15|many-files-few-descriptors", "150 certificate files in one invocation under `ulimit -n 40`: "+bad, map[string]interface{}{"how": "sh -c 'ulimit -n 40 && exec zlint f1 ... f150'", "files": len(paths)}, "150 result objects, exit 0", bad)
			}
			for _, p := range paths {
				os.Remove(p)
			}
		}
		// several files per invocation + CRL via PEM armour
		if len(certs) >= 2 && len(corpus.CRLs) > 0 {
			p1, p2, p3 := filepath.Join(tmp, "m1.pem"), filepath.Join(tmp, "m2.der"), filepath.Join(tmp, "m3.pem")
			os.WriteFile(p1, pem.EncodeToMemory(&pem.Block{Type: "CERTIFICATE", Bytes: certs[0].DER}), 0o600)
			os.WriteFile(p2, certs[1].DER, 0o600)
			os.WriteFile(p3, pem.EncodeToMemory(&pem.Block{Type: "X509 CRL", Bytes: corpus.CRLs[0].DER}), 0o600)
			r := runCLI(bin, []string{p1, p2, p3}, nil)
			invocations++
			lines := strings.Split(strings.TrimSuffix(r.stdout, "\n"), "\n")
			wants := []string{libJSON(zlint.LintCertificate(certs[0].Cert)), libJSON(zlint.LintCertificate(certs[1].Cert)), libJSON(zlint.LintRevocationList(corpus.CRLs[0].CRL))}
			okAll := r.code == 0 && len(lines) == 3
			if okAll {
				for i := range wants {
					if ok, _ := equalResults(lines[i], wants[i], map[string]bool{"e_key_usage_and_extended_key_usage_inconsistent": true, "e_ext_duplicate_extension": true}); !ok {
						okAll = false
					}
				}
			}
			if !okAll {
				out.Violate("C15|multi-file", fmt.Sprintf("three inputs in one invocation: exit %d, %d output lines, or outputs differ from the library", r.code, len(lines)), []string{p1, p2, p3}, nil, nil)
			}
			blk, b64ok, rawOK := oracles(pem.EncodeToMemory(&pem.Block{Type: "X509 CRL", Bytes: corpus.CRLs[0].DER}))
			obs := 0
			if okAll {
				obs = 2
			}
			addCase("pem", "m3.pem", blk, b64ok, rawOK, obs, map[string]interface{}{"crl": corpus.CRLs[0].File})
			// a bad file in the middle: earlier output printed, then non-zero exit, nothing for the bad one or after it
			bad := filepath.Join(tmp, "bad.pem")
			os.WriteFile(bad, []byte("-----BEGIN CERTIFICATE-----\nAAAA\n-----END CERTIFICATE-----\n"), 0o600)
			r = runCLI(bin, []string{p1, bad, p2}, nil)
			invocations++
			if r.code == 0 || strings.Count(r.stdout, "\n") != 1 {
				out.Violate("C15|fail-closed-multi", fmt.Sprintf("a bad file among several: exit %d and %d output lines", r.code, strings.Count(r.stdout, "\n")), nil, nil, nil)
			}
		}
		// -config together with every kind of selection flag, on objects whose verdict the configuration changes: the CLI
		// prints what the library computes with the same configuration and the same selection
		{
			cfgText := "[e_rsa_fermat_factorization]\nRounds = 0\n[e_subj_contains_html_entities]\nSkip = true\n[e_subj_orgunit_in_ca_cert]\nCrossCert = true\n[e_crl_next_update_invalid]\nSubscriberCRL = false\n"
			cfgPath := filepath.Join(tmp, "cfg.toml")
			os.WriteFile(cfgPath, []byte(cfgText), 0o600)
			cfg, cerr := lint.NewConfigFromString(cfgText)
			type obj struct {
				file string
				pem  []byte
				crl  *x509.RevocationList
				cert *x509.Certificate
			}
			var objs []obj
			for _, cc := range corpus.Certs {
				if strings.HasPrefix(cc.File, "html_entity_ko") || strings.HasPrefix(cc.File, "orgunit_in_ca_ko") {
					objs = append(objs, obj{cc.File, pem.EncodeToMemory(&pem.Block{Type: "CERTIFICATE", Bytes: cc.DER}), nil, cc.Cert})
				}
			}
			for _, cc := range corpus.CRLs {
				if strings.HasPrefix(cc.File, "crl_nextupdate_") {
					objs = append(objs, obj{cc.File, pem.EncodeToMemory(&pem.Block{Type: "X509 CRL", Bytes: cc.DER}), cc.CRL, nil})
				}
			}
			if tier() != "thorough" && len(objs) > 8 {
				var keep []obj
				for i, o := range objs {
					if i%(len(objs)/8+1) == 0 || strings.Contains(o.file, "sub0") {
						keep = append(keep, o)
					}
				}
				objs = keep
			}
			cfgSels := []selection{
				{nil, lint.FilterOptions{}},
				{[]string{"-includeSources", "CABF_BR,Community"}, lint.FilterOptions{IncludeSources: lint.SourceList{lint.CABFBaselineRequirements, lint.Community}}},
				{[]string{"-excludeSources", "Mozilla"}, lint.FilterOptions{ExcludeSources: lint.SourceList{lint.MozillaRootStorePolicy}}},
				{[]string{"-nameFilter", "^e_(crl|subj)"}, lint.FilterOptions{NameFilter: regexp.MustCompile("^e_(crl|subj)")}},
				{[]string{"-includeNames", "e_crl_next_update_invalid,e_subj_contains_html_entities,e_subj_orgunit_in_ca_cert"}, lint.FilterOptions{IncludeNames: []string{"e_crl_next_update_invalid", "e_subj_contains_html_entities", "e_subj_orgunit_in_ca_cert"}}},
				{[]string{"-excludeNames", names[5]}, lint.FilterOptions{ExcludeNames: []string{names[5]}}},
			}
			if cerr == nil {
				for oi, o := range objs {
					for si, sel := range cfgSels {
						if tier() != "thorough" && (oi+si)%2 == 1 {
							continue
						}
						pth := filepath.Join(tmp, "cfgobj.pem")
						os.WriteFile(pth, o.pem, 0o600)
						r := runCLI(bin, append(append([]string{"-config", cfgPath}, sel.flags...), pth), nil)
						invocations++
						g.SetConfiguration(cfg)
						reg := lint.Registry(g)
						if !sel.opts.Empty() {
							if fr, e := g.Filter(sel.opts); e == nil {
								reg = fr
							}
						}
						var want string
						if o.crl != nil {
							want = libJSON(zlint.LintRevocationListEx(o.crl, reg))
						} else {
							want = libJSON(zlint.LintCertificateEx(o.cert, reg))
						}
						g.SetConfiguration(lint.NewEmptyConfig())
						if ok, why := equalResults(strings.TrimSuffix(r.stdout, "\n"), want, map[string]bool{}); r.code != 0 || !ok {
							out.Violate("C15|config-with-selection", fmt.Sprintf("CLI with -config and %v on %s (exit %d) differs from the library under the same configuration and selection: %s", sel.flags, o.file, r.code, why),
								map[string]interface{}{"file": o.file, "flags": sel.flags, "config": cfgText}, nil, nil)
						}
					}
				}
			}
		}
		// -pretty: the indented document holds the same results as the library computes, also when details contain
		// characters that mean something to a formatter (per cent signs, braces, back-slashes, quotes)
		{
			var objs []CorpusCert
			for _, cc := range corpus.Certs {
				if cc.File == "c1r0e1a0s1m1b0.pem" {
					objs = append(objs, cc)
				}
			}
			for _, cn := range []string{"caf%C3%A9.example.com", "100%.example.com", "%s%d%v.example.com", "a\\b\"c{}.example.com", "%!s(MISSING).example.com"} {
				t := leafTemplate()
				t.Subject.CommonName = cn
				t.DNSNames = []string{"example.com"}
				if der, c, err := issue(t, nil); err == nil {
					objs = append(objs, CorpusCert{"generated CN " + cn, der, c})
				}
			}
			if len(certs) > 0 {
				objs = append(objs, certs[0])
			}
			for _, o := range objs {
				for _, viaStdin := range []bool{false, true} {
					pemBytes := pem.EncodeToMemory(&pem.Block{Type: "CERTIFICATE", Bytes: o.DER})
					var r cliRun
					if viaStdin {
						r = runCLI(bin, []string{"-pretty"}, pemBytes)
					} else {
						pth := filepath.Join(tmp, "pretty.pem")
						os.WriteFile(pth, pemBytes, 0o600)
						r = runCLI(bin, []string{"-pretty", pth}, nil)
					}
					invocations++
					want := libJSON(zlint.LintCertificate(o.Cert))
					ok, why := r.code == 0, fmt.Sprintf("exit %d", r.code)
					if ok {
						ok, why = equalResults(strings.TrimSpace(r.stdout), want, map[string]bool{})
					}
					if !ok {
						out.Violate("C15|pretty-output-differs", fmt.Sprintf("the -pretty output for %s differs from the library's results: %s", o.File, why), map[string]interface{}{"file": o.File, "der": hexs(o.DER), "stdin": viaStdin}, nil, nil)
					}
				}
			}
		}
		// every listed name can be given to -includeNames / -excludeNames and selects (removes) exactly that lint: the listing
		// printed under the selection is compared with the library's filter.  All names with a character outside [a-z0-9_],
		// every third of the others in quick
		{
			listNames := func(argv ...string) ([]string, cliRun) {
				r := runCLI(bin, append(argv, "-list-lints-json"), nil)
				var ns []string
				for _, ln := range strings.Split(strings.TrimSpace(r.stdout), "\n") {
					var m struct {
						Name string `json:"name"`
					}
					if json.Unmarshal([]byte(ln), &m) == nil && m.Name != "" {
						ns = append(ns, m.Name)
					}
				}
				sort.Strings(ns)
				return ns, r
			}
			plain := regexp.MustCompile("^[a-z0-9_]+$")
			probes := 0
			for i, n := range names {
				if plain.MatchString(n) && i%3 != 0 && tier() != "thorough" {
					continue
				}
				probes++
				got, r := listNames("-includeNames", n)
				invocations++
				if r.code != 0 || len(got) != 1 || got[0] != n {
					out.Violate("C15|cli-include-name:"+n, fmt.Sprintf("zlint -includeNames %s -list-lints-json (exit %d, stderr %.120q) lists %d lints %v; the library's filter selects exactly that lint", n, r.code, strings.TrimSpace(r.stderr), len(got), got[:minInt(3, len(got))]),
						map[string]interface{}{"flag": "-includeNames", "name": n}, []string{n}, got[:minInt(3, len(got))])
				}
				got, r = listNames("-excludeNames", n)
				invocations++
				if r.code != 0 || len(got) != len(names)-1 || contains(got, n) {
					out.Violate("C15|cli-exclude-name:"+n, fmt.Sprintf("zlint -excludeNames %s -list-lints-json (exit %d, stderr %.120q) lists %d lints; the library's filter keeps %d", n, r.code, strings.TrimSpace(r.stderr), len(got), len(names)-1),
						map[string]interface{}{"flag": "-excludeNames", "name": n}, len(names)-1, len(got))
				}
			}
			out.Stats["cli_single_name_selections"] = probes
		}
		// size ladder: objects of tens of kilobytes up to several megabytes (a revocation list of a large CA, a certificate
		// carrying a large extension) in every encoding, from a file and from standard input
		{
			type big struct {
				what string
				der  []byte
				pemT string
			}
			var bigs []big
			k := getKit()
			extSizes := []int{70_000, 1_100_000}
			crlSizes := []int{3000, 52_000}
			if tier() == "thorough" {
				extSizes = append(extSizes, 3_000_000, 17_000_000)
				crlSizes = append(crlSizes, 120_000)
			}
			for _, n := range extSizes {
				t := leafTemplate()
				t.ExtraExtensions = append(t.ExtraExtensions, pkix.Extension{Id: asn1.ObjectIdentifier{1, 3, 6, 1, 4, 1, 55555, 9, 9}, Value: encTLV(0x04, bytes.Repeat([]byte{0x5a}, n))})
				if der, _, err := issue(t, nil); err == nil {
					bigs = append(bigs, big{fmt.Sprintf("certificate with a %d octet extension", n), der, "CERTIFICATE"})
				}
			}
			for _, n := range crlSizes {
				tmpl := &stdx509.RevocationList{Number: big2(77), ThisUpdate: time.Date(2024, 2, 1, 0, 0, 0, 0, time.UTC), NextUpdate: time.Date(2024, 2, 5, 0, 0, 0, 0, time.UTC)}
				for j := 0; j < n; j++ {
					tmpl.RevokedCertificateEntries = append(tmpl.RevokedCertificateEntries, stdx509.RevocationListEntry{SerialNumber: big2(int64(1000000 + j*7)), RevocationTime: tmpl.ThisUpdate.Add(-time.Duration(j%5000) * time.Minute)})
				}
				if der, err := stdx509.CreateRevocationList(crand.Reader, tmpl, k.caCert, k.caKey); err == nil {
					bigs = append(bigs, big{fmt.Sprintf("revocation list with %d entries", n), der, "X509 CRL"})
				}
			}
			sizes := []int{}
			for _, b := range bigs {
				var want string
				if b.pemT == "CERTIFICATE" {
					c, err := x509.ParseCertificate(b.der)
					if err != nil {
						continue
					}
					want = libJSON(zlint.LintCertificate(c))
				} else {
					c, err := x509.ParseRevocationList(b.der)
					if err != nil {
						continue
					}
					want = libJSON(zlint.LintRevocationList(c))
				}
				sizes = append(sizes, len(b.der))
				pemBytes := pem.EncodeToMemory(&pem.Block{Type: b.pemT, Bytes: b.der})
				type enc struct {
					name  string
					argv  []string
					file  string
					data  []byte
					stdin bool
				}
				encs := []enc{{"pem-file", nil, "big.pem", pemBytes, false}, {"pem-stdin", []string{"-format", "pem"}, "", pemBytes, true}}
				if b.pemT == "CERTIFICATE" {
					b64 := []byte(base64.StdEncoding.EncodeToString(b.der))
					encs = append(encs, enc{"der-file", nil, "big.der", b.der, false}, enc{"der-stdin", []string{"-format", "der"}, "", b.der, true}, enc{"b64-file", []string{"-format", "base64"}, "big.b64", b64, false})
				}
				for _, e := range encs {
					var r cliRun
					if e.stdin {
						r = runCLI(bin, e.argv, e.data)
					} else {
						pth := filepath.Join(tmp, e.file)
						os.WriteFile(pth, e.data, 0o600)
						r = runCLI(bin, append(append([]string{}, e.argv...), pth), nil)
						os.Remove(pth)
					}
					invocations++
					if ok, why := equalResults(strings.TrimSuffix(r.stdout, "\n"), want, map[string]bool{}); r.code != 0 || !ok {
						out.Violate("C15|large-input:"+e.name, fmt.Sprintf("CLI (exit %d, stderr %.150q) on a %s (%d octets of DER, given as %s) does not print what the library computes: %s", r.code, strings.TrimSpace(r.stderr), b.what, len(b.der), e.name, why),
							map[string]interface{}{"object": b.what, "der_octets": len(b.der), "encoding": e.name}, nil, nil)
					}
				}
			}
			out.Data["large_input_der_octets"] = sizes
		}
		// summary tables when the only findings are fatal (a configuration the lint cannot read), under a selection that
		// keeps nothing else: the counts are the counts of the library's results
		{
			badCfg := "[e_rsa_fermat_factorization]\nRounds = \"plenty\"\n[e_subj_contains_html_entities]\nSkip = 7\n"
			badPath := filepath.Join(tmp, "bad.toml")
			os.WriteFile(badPath, []byte(badCfg), 0o600)
			cfg, cerr := lint.NewConfigFromString(badCfg)
			rowRe := regexp.MustCompile(`\|\s*(info|warn|error|fatal)\s*\|\s*(\d+)\s*\|`)
			if cerr == nil && len(certs) > 0 {
				for _, sel := range []selection{
					{[]string{"-includeNames", "e_rsa_fermat_factorization"}, lint.FilterOptions{IncludeNames: []string{"e_rsa_fermat_factorization"}}},
					{[]string{"-includeNames", "e_rsa_fermat_factorization,e_subj_contains_html_entities"}, lint.FilterOptions{IncludeNames: []string{"e_rsa_fermat_factorization", "e_subj_contains_html_entities"}}},
					{[]string{"-nameFilter", "^e_rsa_fermat"}, lint.FilterOptions{NameFilter: regexp.MustCompile("^e_rsa_fermat")}},
					{nil, lint.FilterOptions{}},
				} {
					for _, long := range []string{"-summary", "-longSummary"} {
						cc := certs[0]
						pth := filepath.Join(tmp, "fatalonly.pem")
						os.WriteFile(pth, pem.EncodeToMemory(&pem.Block{Type: "CERTIFICATE", Bytes: cc.DER}), 0o600)
						r := runCLI(bin, append(append([]string{"-config", badPath, long}, sel.flags...), pth), nil)
						invocations++
						g.SetConfiguration(cfg)
						reg := lint.Registry(g)
						if !sel.opts.Empty() {
							if fr, e := g.Filter(sel.opts); e == nil {
								reg = fr
							}
						}
						want := map[string]int{"info": 0, "warn": 0, "error": 0, "fatal": 0}
						for _, v := range zlint.LintCertificateEx(cc.Cert, reg).Results {
							switch v.Status {
							case lint.Notice:
								want["info"]++
							case lint.Warn:
								want["warn"]++
							case lint.Error:
								want["error"]++
							case lint.Fatal:
								want["fatal"]++
							}
						}
						g.SetConfiguration(lint.NewEmptyConfig())
						got := map[string]int{}
						for _, m := range rowRe.FindAllStringSubmatch(r.stdout, -1) {
							n, _ := strconv.Atoi(m[2])
							got[m[1]] = n
						}
						if r.code != 0 || got["fatal"] != want["fatal"] || got["error"] != want["error"] || got["warn"] != want["warn"] || got["info"] != want["info"] {
							out.Violate("C15|summary-counts-fatal", fmt.Sprintf("summary table %v (exit %d) differs from the library's counts %v under %v with an unreadable configuration section", got, r.code, want, append([]string{long}, sel.flags...)),
								map[string]interface{}{"file": cc.File, "flags": append([]string{"-config", "bad.toml", long}, sel.flags...), "config": badCfg}, want, got)
						}
					}
				}
			}
		}
		// -longSummary over several files in one invocation: each table lists, per level, exactly the lints the library
		// reports at that level for that file (names and count), whatever the files before it held
		{
			var picks []CorpusCert
			for _, cc := range corpus.Certs {
				n := 0
				for _, v := range zlint.LintCertificate(cc.Cert).Results {
					if v.Status >= lint.Notice {
						n++
					}
				}
				if n >= 3 && len(picks) < 3 || (n == 0 && len(picks) == 3) {
					picks = append(picks, cc)
				}
				if len(picks) == 4 {
					break
				}
			}
			if len(picks) >= 2 {
				var paths []string
				for i, cc := range picks {
					pth := filepath.Join(tmp, fmt.Sprintf("long%d.pem", i))
					os.WriteFile(pth, pem.EncodeToMemory(&pem.Block{Type: "CERTIFICATE", Bytes: cc.DER}), 0o600)
					paths = append(paths, pth)
				}
				r := runCLI(bin, append([]string{"-longSummary"}, paths...), nil)
				invocations++
				// split the output into tables (each starts with the header row)
				tables := strings.Split(r.stdout, "| LEVEL |")
				if len(tables) > 0 {
					tables = tables[1:]
				}
				if r.code != 0 || len(tables) != len(picks) {
					out.Violate("C15|long-summary-tables", fmt.Sprintf("zlint -longSummary on %d files printed %d tables (exit %d)", len(picks), len(tables), r.code), nil, len(picks), len(tables))
				}
				rowRe := regexp.MustCompile(`^\|\s*(info|warn|error|fatal)?\s*\|\s*(\d*)\s*\|\s*(\S+)\s*\|`)
				for ti, tb := range tables {
					if ti >= len(picks) {
						break
					}
					got := map[string][]string{}
					gotN := map[string]int{}
					level := ""
					for _, ln := range strings.Split(tb, "\n") {
						m := rowRe.FindStringSubmatch(strings.TrimSpace(ln))
						if m == nil {
							continue
						}
						if m[1] != "" {
							level = m[1]
							gotN[level], _ = strconv.Atoi(m[2])
						}
						if m[3] != "-" && level != "" {
							got[level] = append(got[level], m[3])
						}
					}
					want := map[string][]string{}
					for n, v := range zlint.LintCertificate(picks[ti].Cert).Results {
						switch v.Status {
						case lint.Notice:
							want["info"] = append(want["info"], n)
						case lint.Warn:
							want["warn"] = append(want["warn"], n)
						case lint.Error:
							want["error"] = append(want["error"], n)
						case lint.Fatal:
							want["fatal"] = append(want["fatal"], n)
						}
					}
					for _, lv := range []string{"info", "warn", "error", "fatal"} {
						sort.Strings(got[lv])
						sort.Strings(want[lv])
						if strings.Join(got[lv], ",") != strings.Join(want[lv], ",") || gotN[lv] != len(want[lv]) {
							out.Violate("C15|long-summary:"+lv, fmt.Sprintf("zlint -longSummary, table %d of %d (%s), level %s: %d occurrences listing %d lints %v; the library reports %d: %v", ti+1, len(picks), picks[ti].File, lv, gotN[lv], len(got[lv]), got[lv][:minInt(4, len(got[lv]))], len(want[lv]), want[lv][:minInt(4, len(want[lv]))]),
								map[string]interface{}{"files": []string{picks[0].File, picks[minInt(1, len(picks)-1)].File}, "table": ti + 1, "level": lv}, want[lv], got[lv])
							break
						}
					}
				}
			}
		}
		// several files per invocation, mixed suffixes and encodings: every file is decoded as it would be alone under
		// the same -format (the format is a function of the flag and of that file's own suffix), output lines appear in
		// order, and the first failing file ends the run with a non-zero exit
		{
			nSeq := 24
			if tier() == "thorough" {
				nSeq = 300
			}
			type fileSpec struct {
				ci          int
				enc, suffix string
			}
			content := func(f fileSpec) []byte {
				der := certs[f.ci].DER
				switch f.enc {
				case "pem":
					return pem.EncodeToMemory(&pem.Block{Type: "CERTIFICATE", Bytes: der})
				case "b64":
					return []byte(base64.StdEncoding.EncodeToString(der))
				}
				return der
			}
			alone := map[string]cliRun{}
			dir := filepath.Join(tmp, "multi")
			os.MkdirAll(dir, 0o700)
			for i := 0; i < nSeq; i++ {
				flag := pick(rng, []string{"", "pem", "der", "base64"})
				k := 2 + rng.Intn(3)
				var argv []string
				if flag != "" {
					argv = []string{"-format", flag}
				}
				var paths []string
				var specs []fileSpec
				for j := 0; j < k; j++ {
					f := fileSpec{rng.Intn(minInt(len(certs), 6)), pick(rng, []string{"pem", "der", "b64"}), pick(rng, []string{".pem", ".der", ".crt", ".cer", ".b64", ""})}
					// mostly files that decode under (flag, suffix): otherwise every sequence ends at its first file
					if rng.Intn(4) != 0 {
						switch {
						case f.suffix == ".pem":
							f.enc = "pem"
						case f.suffix == ".der":
							f.enc = "der"
						case flag == "" || flag == "pem":
							f.enc = "pem"
						case flag == "der":
							f.enc = "der"
						default:
							f.enc = "b64"
						}
					}
					pth := filepath.Join(dir, fmt.Sprintf("f%d_%d%s", i, j, f.suffix))
					os.WriteFile(pth, content(f), 0o600)
					paths = append(paths, pth)
					specs = append(specs, f)
				}
				r := runCLI(bin, append(append([]string{}, argv...), paths...), nil)
				invocations++
				var wantOut strings.Builder
				wantFail := false
				var firstBad int = -1
				for j, pth := range paths {
					key := fmt.Sprintf("%s|%d|%s|%s", flag, specs[j].ci, specs[j].enc, specs[j].suffix)
					a, ok := alone[key]
					if !ok {
						a = runCLI(bin, append(append([]string{}, argv...), pth), nil)
						invocations++
						alone[key] = a
					}
					if a.code != 0 {
						wantFail = true
						firstBad = j
						break
					}
					wantOut.WriteString(a.stdout)
				}
				desc := map[string]interface{}{"format_flag": flag, "files": specs}
				same := true
				gl, wl := strings.Split(strings.TrimSuffix(r.stdout, "\n"), "\n"), strings.Split(strings.TrimSuffix(wantOut.String(), "\n"), "\n")
				if len(gl) != len(wl) {
					same = false
				} else {
					for j := range gl {
						if gl[j] == wl[j] {
							continue
						}
						if ok, _ := equalResults(gl[j], wl[j], map[string]bool{"e_key_usage_and_extended_key_usage_inconsistent": true, "e_ext_duplicate_extension": true}); !ok {
							same = false
						}
					}
				}
				if (r.code != 0) != wantFail || !same {
					out.Violate("C15|multi-file-differs-from-alone", fmt.Sprintf("files given together (exit %d, %d lines) behave differently from the same files given alone with the same flags (first failing alone: %d)", r.code, len(gl), firstBad),
						desc, map[string]interface{}{"fail": wantFail, "lines": len(wl)}, map[string]interface{}{"exit": r.code, "stderr": strings.TrimSpace(r.stderr)})
				}
				// per-file observations for the model: files before the first failure were decoded, that one was not
				printed := strings.Count(r.stdout, "\n")
				for j := range paths {
					if j > printed {
						break
					}
					obs := 1
					if j == printed {
						if r.code == 0 {
							break
						}
						obs = 0
					}
					blk, b64ok, rawOK := oracles(content(specs[j]))
					fl := flag
					if fl == "" {
						fl = "pem"
					}
					addCase(fl, filepath.Base(paths[j]), blk, b64ok, rawOK, obs, map[string]interface{}{"multi": desc, "position": j})
				}
			}
		}
		// undecodable inputs and unknown selectors: non-zero exit, no result object
		good := filepath.Join(tmp, "good.pem")
		os.WriteFile(good, pem.EncodeToMemory(&pem.Block{Type: "CERTIFICATE", Bytes: certs[0].DER}), 0o600)
		type failCase struct {
			name    string
			argv    []string
			content []byte
			file    string
			flag    string
		}
		trunc := certs[0].DER[:len(certs[0].DER)/2]
		fails := []failCase{
			{"garbage-pem", nil, []byte("hello world\n"), "g.pem", "pem"},
			{"empty", nil, []byte(""), "e.pem", "pem"},
			{"wrong-pem-type", nil, pem.EncodeToMemory(&pem.Block{Type: "PRIVATE KEY", Bytes: certs[0].DER}), "w.pem", "pem"},
			{"pem-truncated-der", nil, pem.EncodeToMemory(&pem.Block{Type: "CERTIFICATE", Bytes: trunc}), "t.pem", "pem"},
			{"crl-armor-cert-der", nil, pem.EncodeToMemory(&pem.Block{Type: "X509 CRL", Bytes: certs[0].DER}), "c.pem", "pem"},
			{"bad-base64", []string{"-format", "base64"}, []byte("!!!! not base64 !!!!"), "b.txt", "base64"},
			{"base64-of-garbage", []string{"-format", "base64"}, []byte(base64.StdEncoding.EncodeToString([]byte("garbage"))), "b2.txt", "base64"},
			{"truncated-der", []string{"-format", "der"}, trunc, "t.bin", "der"},
		}
		for _, fc := range fails {
			p := filepath.Join(tmp, fc.file)
			os.WriteFile(p, fc.content, 0o600)
			r := runCLI(bin, append(append([]string{}, fc.argv...), p), nil)
			invocations++
			if r.code == 0 || strings.Contains(r.stdout, "{") {
				out.Violate("C15|fail-open:"+fc.name, fmt.Sprintf("undecodable input (%s): exit %d, stdout %q", fc.name, r.code, r.stdout[:minInt(120, len(r.stdout))]), fc.name, "non-zero exit, no result object", nil)
			}
			blk, b64ok, rawOK := oracles(fc.content)
			addCase(fc.flag, fc.file, blk, b64ok, rawOK, 0, map[string]interface{}{"fail": fc.name, "exit": r.code})
		}
		for _, sel := range [][]string{{"-includeNames", "e_no_such_lint"}, {"-excludeNames", "e_no_such_lint"}, {"-includeSources", "NoSuchSource"}, {"-excludeSources", "nosuch"},
			{"-profile", "no_such_profile"}, {"-nameFilter", "(unclosed"}, {"-nameFilter", "^e_", "-includeNames", names[0]}, {"-config", filepath.Join(tmp, "missing.toml")}} {
			r := runCLI(bin, append(append([]string{}, sel...), good), nil)
			invocations++
			if r.code == 0 || strings.Contains(r.stdout, "{") {
				out.Violate("C15|selector-accepted:"+sel[0]+"="+sel[1], fmt.Sprintf("unknown selector %v: exit %d, stdout %q", sel, r.code, r.stdout[:minInt(120, len(r.stdout))]), sel, "non-zero exit, no result object", nil)
			}
		}
		out.Stats["invocations"] = invocations
		return out.Emit()
	}
}

func wrapLines(s string, n int) string {
	var b strings.Builder
	for len(s) > n {
		b.WriteString(s[:n])
		b.WriteString("\n")
		s = s[n:]
	}
	b.WriteString(s)
	b.WriteString("\n")
	return b.String()
}

func big2(n int64) *big.Int { return big.NewInt(n) }
