package main

import (
	"sync"
	"crypto/rsa"
	"fmt"
	"math/big"
	"strings"
	"time"

	zx509 "github.com/zmap/zcrypto/x509"

	"github.com/zmap/zlint/v3"
	"github.com/zmap/zlint/v3/lint"
	"github.com/zmap/zlint/v3/util"
)

var rsaLints = []string{
	"e_rsa_mod_less_than_2048_bits", "w_rsa_mod_not_odd", "w_rsa_mod_factors_smaller_than_752", "e_rsa_public_exponent_not_odd",
	"e_rsa_public_exponent_too_small", "w_rsa_public_exponent_not_in_range", "e_mp_modulus_must_be_2048_bits_or_more",
	"e_mp_modulus_must_be_divisible_by_8", "e_mp_exponent_cannot_be_one", "e_rsa_fermat_factorization",
}

func nextPrime(n *big.Int) *big.Int {
	p := new(big.Int).Set(n)
	if p.Bit(0) == 0 {
		p.Add(p, big.NewInt(1))
	}
	for !p.ProbablyPrime(20) {
		p.Add(p, big.NewInt(2))
	}
	return p
}

func init() {
	commands["c16"] = func(args []string) error {
		out := NewOutput()
		rng := NewRng(seedFromEnv(), "c16")
		// the prime table (hook) and a black-box cross-check through the public function
		var primes []string
		for _, p := range util.VerifPrimes() {
			primes = append(primes, p.String())
		}
		out.Data["primes"] = primes
		one := big.NewInt(1)
		pow := func(k int) *big.Int { return new(big.Int).Lsh(one, uint(k)) }
		rnd := func(bits int) *big.Int {
			b := rng.Bytes((bits + 7) / 8)
			x := new(big.Int).SetBytes(b)
			x.SetBit(x, bits-1, 1)
			for x.BitLen() > bits {
				x.Rsh(x, 1)
			}
			return x
		}
		type key struct {
			n    *big.Int
			e    int
			why  string
			rnds int // fermat rounds (0 = default 100)
		}
		var keys []key
		// bit-length edges
		for _, b := range []int{1023, 1024, 1025, 2040, 2047, 2048, 2049, 2055, 2056, 3071, 3072, 3073, 4096, 512, 8, 9, 16} {
			keys = append(keys, key{new(big.Int).Sub(pow(b), one), 65537, fmt.Sprintf("2^%d-1", b), 0})   // b bits, odd
			keys = append(keys, key{new(big.Int).Set(pow(b - 1)), 65537, fmt.Sprintf("2^%d", b-1), 0})    // b bits, even
			keys = append(keys, key{new(big.Int).Add(pow(b-1), one), 65537, fmt.Sprintf("2^%d+1", b-1), 0})
			if b >= 64 {
				keys = append(keys, key{rnd(b).SetBit(rnd(b), 0, 1), 65537, fmt.Sprintf("random %d bits", b), 0})
			}
		}
		// every divisor 2..760 times a large cofactor free of small factors
		cof := nextPrime(rnd(2040))
		dmax := 760
		for d := 2; d <= dmax; d++ {
			if tier() != "thorough" && d > 60 && d%7 != 0 && d < 740 {
				// quick: all small divisors, every 7th in the middle, all near 752; primes are covered separately below
				if !big.NewInt(int64(d)).ProbablyPrime(10) {
					continue
				}
			}
			n := new(big.Int).Mul(big.NewInt(int64(d)), cof)
			keys = append(keys, key{n, 65537, fmt.Sprintf("d=%d * prime cofactor", d), 0})
		}
		// tiny moduli: every n up to 800 by itself (a modulus that IS a small prime, or smaller than the primes tried first)
		for n := int64(2); n <= 800; n++ {
			if tier() != "thorough" && n > 40 && !big.NewInt(n).ProbablyPrime(10) && n%11 != 0 {
				continue
			}
			keys = append(keys, key{big.NewInt(n), 65537, fmt.Sprintf("modulus %d", n), 0})
		}
		// primes just above 751 as only small factor
		for _, p := range []int64{757, 761, 769, 773, 787, 797, 809, 811} {
			keys = append(keys, key{new(big.Int).Mul(big.NewInt(p), cof), 65537, fmt.Sprintf("p=%d * cofactor", p), 0})
		}
		// exponents
		nGood := new(big.Int).Mul(nextPrime(rnd(1024)), nextPrime(rnd(1024)))
		for _, e := range []int{1, 2, 3, 4, 5, 17, 65535, 65536, 65537, 65538, 65539, 1<<31 - 1, 1 << 31, 1<<62 + 1} {
			keys = append(keys, key{nGood, e, fmt.Sprintf("e=%d", e), 0})
		}
		// Fermat: neighbouring primes with tuned gaps under configured round counts
		for _, rounds := range []int{0, 1, 2, 5, 100} {
			r := rounds
			if r == 0 {
				r = 100
			}
			base := nextPrime(rnd(520))
			for _, gapBits := range []int{2, 40, 200, 262, 264, 266, 270, 300} {
				q := nextPrime(new(big.Int).Add(base, pow(gapBits)))
				keys = append(keys, key{new(big.Int).Mul(base, q), 65537, fmt.Sprintf("fermat gap 2^%d rounds %d", gapBits, rounds), rounds})
			}
			// squares and near-squares
			keys = append(keys, key{new(big.Int).Mul(base, base), 65537, fmt.Sprintf("square rounds %d", rounds), rounds})
		}
		// a ladder of prime gaps over every magnitude: p - q at four places inside every octave 2^k .. 2^(k+1) for k = 20 .. 79 (dense where the
		// half-difference squared crosses machine-word sizes), found by Fermat's method in the first round whatever the size
		{
			base := nextPrime(rnd(520))
			for k := 20; k < 80; k++ {
				if tier() != "thorough" && k%3 != 0 && !(k >= 28 && k <= 36) && !(k >= 60 && k <= 68) {
					continue
				}
				for _, m := range []int64{128, 160, 182, 224} {
					gap := new(big.Int).Div(new(big.Int).Mul(pow(k), big.NewInt(m)), big.NewInt(128))
					q := nextPrime(new(big.Int).Add(base, gap))
					keys = append(keys, key{new(big.Int).Mul(base, q), 65537, fmt.Sprintf("fermat gap ladder 2^%d * %d/128 rounds 1", k, m), 1})
				}
			}
		}
		// small composites where the loop boundary is easy to hit exactly: p*q with (p+q)/2 - sqrt steps = k
		for _, pq := range [][2]int64{{101, 103}, {1009, 1013}, {10007, 10009}, {65537, 65539}, {1000003, 1000033}, {7919, 104729}, {3, 5}, {3, 1000003}} {
			n := new(big.Int).Mul(big.NewInt(pq[0]), big.NewInt(pq[1]))
			for _, rounds := range []int{1, 2, 3, 10, 100, 1000} {
				keys = append(keys, key{n, 65537, fmt.Sprintf("%d*%d rounds %d", pq[0], pq[1], rounds), rounds})
			}
		}
		// small products whose Fermat search needs exactly k rounds: linted under k-1, k, k+1 (and back), in one process
		neededRounds := func(p, q int64) int64 {
			n := new(big.Int).Mul(big.NewInt(p), big.NewInt(q))
			return (p+q)/2 - new(big.Int).Sqrt(n).Int64()
		}
		found := map[int64]bool{}
		var p0 int64 = 10007
		for p := p0; p < p0+4000 && len(found) < 8; p += 2 {
			if !big.NewInt(p).ProbablyPrime(10) {
				continue
			}
			for q := p + 2; q < p+3000; q += 2 {
				if !big.NewInt(q).ProbablyPrime(10) || (p+q)%2 != 0 {
					continue
				}
				k := neededRounds(p, q)
				if k >= 2 && k <= 60 && !found[k] && (k == 2 || k == 3 || k == 5 || k == 14 || k == 37 || k == 60 || len(found) < 4) {
					found[k] = true
					n := new(big.Int).Mul(big.NewInt(p), big.NewInt(q))
					for _, r := range []int64{k - 1, k, k + 1, k - 1, 100, 1, k} {
						if r >= 1 {
							keys = append(keys, key{n, 65537, fmt.Sprintf("%d*%d needs %d rounds, configured %d", p, q, k, r), int(r)})
						}
					}
				}
			}
		}
		nRand := 60
		if tier() == "thorough" {
			nRand = 1500
		}
		for i := 0; i < nRand; i++ {
			bits := pick(rng, []int{64, 512, 1023, 1024, 2047, 2048, 2049, 3072})
			keys = append(keys, key{rnd(bits), pick(rng, []int{1, 2, 3, 65537, 65536, 257}), "random", pick(rng, []int{0, 0, 3})})
		}
		g := lint.GlobalRegistry()
		accepted, rejected := 0, 0
		seen := map[string]bool{}
		type replayKey struct{ der []byte; cfg, sts, why string }
		var replays []replayKey
		type retainedResult struct {
			r       *lint.LintResult
			n       *big.Int
			der     []byte
			details string
		}
		var retained []retainedResult
		for ki, k := range keys {
			tick()
			// the model's Fermat loop costs one 2048-bit integer square root per round inside Coq: keep the default
			// 100 rounds on a subset and configure 2 rounds elsewhere (the Fermat-specific keys carry their own rounds)
			if k.rnds == 0 && k.n.BitLen() > 600 && ki%20 != 0 && !strings.HasPrefix(k.why, "fermat") && !strings.HasPrefix(k.why, "square") {
				k.rnds = 2
			}
			tmpl := leafTemplate()
			der, c, err := issue(tmpl, &rsa.PublicKey{N: k.n, E: k.e})
			if err != nil {
				rejected++
				continue
			}
			accepted++
			cfgText := ""
			rounds := 100
			if k.rnds != 0 {
				rounds = k.rnds
				cfgText = fmt.Sprintf("[e_rsa_fermat_factorization]\nRounds = %d\n", k.rnds)
			}
			cfg, err := lint.NewConfigFromString(cfgText)
			if err != nil {
				return err
			}
			fr, err := g.Filter(lint.FilterOptions{IncludeNames: rsaLints})
			if err != nil {
				return err
			}
			fr.SetConfiguration(cfg)
			rs := zlint.LintCertificateEx(c, fr)
			sts := make([]string, len(rsaLints))
			obs := map[string]int{}
			for i, n := range rsaLints {
				r := rs.Results[n]
				if r == nil {
					out.Violate("C16|missing:"+n, "no result for "+n, hexs(der), nil, nil)
					sts[i] = "0"
					continue
				}
				sts[i] = fmt.Sprint(int(r.Status))
				obs[n] = int(r.Status)
			}
			replays = append(replays, replayKey{der, cfgText, joinSemi(sts), k.why})
			pk := c.PublicKey.(*rsa.PublicKey)
			term := fmt.Sprintf("(%s, %s, %s, [%s])", cqZs(pk.N.String()), cqZ(int64(pk.E)), cqZ(int64(rounds)), joinSemi(sts))
			if !seen[term] {
				seen[term] = true
				out.Add("rsa", Case{Coq: term, Tag: fmt.Sprint(sts), Desc: map[string]interface{}{"why": k.why, "bits": pk.N.BitLen(), "e": pk.E, "rounds": rounds,
					"statuses": obs, "der": hexs(der)}})
			}
			// Fermat details: any reported factorisation multiplies back
			if r := rs.Results["e_rsa_fermat_factorization"]; r != nil && r.Status == lint.Error {
				retained = append(retained, retainedResult{r, new(big.Int).Set(pk.N), der, r.Details})
				var ps, qs string
				if _, e := fmt.Sscanf(afterStr(r.Details, "factored into p: "), "%s q: %s", &ps, &qs); e == nil {
					p, _ := new(big.Int).SetString(trimSemi(ps), 10)
					q, _ := new(big.Int).SetString(qs, 10)
					if p == nil || q == nil || new(big.Int).Mul(p, q).Cmp(pk.N) != 0 {
						out.Violate("C16|fermat-factors-wrong", "reported factorisation does not multiply back to the modulus", hexs(der), nil, r.Details)
					}
				}
			}
		}
		// a caller that keeps the result sets of a batch and reads them afterwards: every retained report still states
		// its own certificate's factorisation (a result is a value, not a view of the lint's scratch space)
		for _, rr := range retained {
			var ps, qs string
			bad := rr.r.Details != rr.details
			if _, e := fmt.Sscanf(afterStr(rr.r.Details, "factored into p: "), "%s q: %s", &ps, &qs); e == nil {
				p, _ := new(big.Int).SetString(trimSemi(ps), 10)
				q, _ := new(big.Int).SetString(qs, 10)
				if p == nil || q == nil || new(big.Int).Mul(p, q).Cmp(rr.n) != 0 {
					bad = true
				}
			}
			if bad {
				out.Violate("C16|fermat-factors-wrong-when-read-later", "the factorisation in a result kept from earlier in the batch no longer multiplies back to its certificate's modulus once other certificates have been linted",
					map[string]interface{}{"der": hexs(rr.der), "details_when_returned": rr.details}, rr.details, rr.r.Details)
				break
			}
		}
		out.Stats["fermat_results_retained"] = len(retained)
		// the verdict is a function of the key alone: the same keys linted from several goroutines at once (each on its
		// own parsed certificate, as bulk users do), in another order, give the same verdicts
		{
			var wg sync.WaitGroup
			var mu sync.Mutex
			var problems []replayKey
			var got []string
			reps := 3
			if tier() == "thorough" {
				reps = 10
			}
			for w := 0; w < 8; w++ {
				wg.Add(1)
				go func(id int) {
					defer wg.Done()
					lr := NewRng(seedFromEnv(), fmt.Sprintf("c16-par-%d", id))
					for rep := 0; rep < reps; rep++ {
						order := make([]int, len(replays))
						for i := range order {
							order[i] = i
						}
						lr.Shuffle(len(order), func(i, j int) { order[i], order[j] = order[j], order[i] })
						for _, i := range order {
							rk := replays[i]
							c, err := safeParseCert(rk.der)
							if err != nil {
								continue
							}
							cfg, err := lint.NewConfigFromString(rk.cfg)
							if err != nil {
								continue
							}
							fr, err := g.Filter(lint.FilterOptions{IncludeNames: rsaLints})
							if err != nil {
								continue
							}
							fr.SetConfiguration(cfg)
							rs := zlint.LintCertificateEx(c, fr)
							sts := make([]string, len(rsaLints))
							for j, n := range rsaLints {
								if r := rs.Results[n]; r != nil {
									sts[j] = fmt.Sprint(int(r.Status))
								} else {
									sts[j] = "0"
								}
							}
							if joinSemi(sts) != rk.sts {
								mu.Lock()
								if len(problems) < 5 {
									problems = append(problems, rk)
									got = append(got, joinSemi(sts))
								}
								mu.Unlock()
							}
						}
					}
				}(w)
			}
			wg.Wait()
			out.Stats["concurrent_relints"] = 8 * reps * len(replays)
			for i, rk := range problems {
				out.Violate("C16|verdict-differs-under-concurrency", fmt.Sprintf("key (%s): statuses [%s] when linted alone, [%s] when linted while other goroutines lint other keys", rk.why, rk.sts, got[i]),
					map[string]interface{}{"der": hexs(rk.der), "config": rk.cfg, "lints": rsaLints}, rk.sts, got[i])
			}
		}
		out.Stats["keys"] = len(keys)
		out.Stats["parser_accepted"] = accepted
		out.Stats["parser_rejected"] = rejected
		// the three dated key-size lints and the code-signing lint, on parsed structures re-dated / re-keyed in place
		// (a self-signed root cannot be re-signed with a chosen modulus), through the lints' own entry point
		_, base, err := issue(leafTemplate(), nil)
		if err != nil {
			return err
		}
		old := time.Date(2009, 6, 1, 0, 0, 0, 0, time.UTC)
		oldEnd := time.Date(2012, 6, 1, 0, 0, 0, 0, time.UTC)
		type oldCase struct {
			lint           string
			min            int
			isCA, selfSign bool
			cs             bool
		}
		for _, oc := range []oldCase{{"e_old_root_ca_rsa_mod_less_than_2048_bits", 2048, true, true, false},
			{"e_old_sub_ca_rsa_mod_less_than_1024_bits", 1024, true, false, false},
			{"e_old_sub_cert_rsa_mod_less_than_1024_bits", 1024, false, false, false},
			{"e_cs_rsa_key_size", 3072, false, false, true}} {
			l := g.CertificateLints().ByName(oc.lint)
			if l == nil {
				out.Violate("C16|lint-missing:"+oc.lint, "RSA lint not registered", oc.lint, nil, nil)
				continue
			}
			// the minimum is one number over the whole period in which the lint applies: a ladder of issue dates from the
			// lint's own effective date (or 1998 for the retired ones) to today, half a year apart
			var dates []time.Time
			if oc.cs {
				for d := l.EffectiveDate; d.Before(time.Date(2025, 6, 1, 0, 0, 0, 0, time.UTC)); d = d.AddDate(0, 6, 0) {
					dates = append(dates, d, d.Add(-time.Second).AddDate(0, 3, 0))
				}
			} else {
				dates = append(dates, old)
				for y := 1998; y <= 2013; y += 3 {
					dates = append(dates, time.Date(y, 3, 1, 0, 0, 0, 0, time.UTC))
				}
			}
			for di, nb := range dates {
			for _, b := range []int{oc.min - 2, oc.min - 1, oc.min, oc.min + 1, oc.min + 8} {
				for ni, n := range []*big.Int{new(big.Int).Sub(pow(b), one), pow(b - 1), rnd(b)} {
					if di > 0 && (ni != 0 || (b != oc.min-1 && b != oc.min && b != 2048 && b != 2049)) && tier() != "thorough" {
						continue
					}
					c2 := *base
					c2.PublicKey = &rsa.PublicKey{N: n, E: 65537}
					c2.PublicKeyAlgorithm = zx509.RSA
					c2.IsCA, c2.SelfSigned = oc.isCA, oc.selfSign
					if oc.cs {
						c2.PolicyIdentifiers = append(c2.PolicyIdentifiers, []int{2, 23, 140, 1, 4, 1})
						c2.NotBefore, c2.NotAfter = nb, nb.AddDate(1, 0, 0)
					} else {
						c2.NotBefore, c2.NotAfter = nb, nb.AddDate(3, 0, 0)
						if di == 0 {
							c2.NotAfter = oldEnd
						}
					}
					o := observe(func() *lint.LintResult { return l.Execute(&c2, lint.NewEmptyConfig()) })
					if o.Kind != "res" || (o.Status != 3 && o.Status != 6) {
						out.Count("old_not_applicable", 1)
						continue
					}
					out.Add("rsa_min", Case{Coq: fmt.Sprintf("(%s, %s, %s)", cqZ(int64(oc.min)), cqZs(n.String()), cqZ(int64(o.Status))),
						Tag: fmt.Sprintf("%s/%d", oc.lint, o.Status), Desc: map[string]interface{}{"lint": oc.lint, "bits": n.BitLen(), "status": o.Status, "notBefore": nb.Format(time.RFC3339)}})
				}
			}
			}
		}
		// black-box view of the prime table: which n in [2,2000] does PrimeNoSmallerThan752 reject?
		var bb []string
		for n := int64(2); n <= 2000; n++ {
			if !util.PrimeNoSmallerThan752(big.NewInt(n)) {
				bb = append(bb, fmt.Sprint(n))
			}
		}
		out.Data["blackbox_rejected_upto_2000"] = len(bb)
		// exact, for every modulus up to 6000 (small enough to be one of the primes tried, or smaller than some of them)
		for n := int64(2); n <= 6000; n++ {
			has := false
			for d := int64(2); d < 752 && d <= n; d++ {
				if n%d == 0 {
					has = true
					break
				}
			}
			if got := util.PrimeNoSmallerThan752(big.NewInt(n)); got == has {
				out.Violate("C16|small-factor-test-wrong", fmt.Sprintf("PrimeNoSmallerThan752(%d) = %v, but %d has %s factor below 752", n, got, n, map[bool]string{true: "a", false: "no"}[has]), map[string]interface{}{"modulus": n}, !has, got)
				break
			}
		}
		// the trial division itself, against exact arithmetic, for many cofactors of every size per divisor (a fast path
		// that is right for most residues is still wrong): every prime below 752 times cofactors of 1..2048 bits, and
		// moduli without small factors
		{
			nCof := 120
			if tier() == "thorough" {
				nCof = 2000
			}
			var smallPrimes []int64
			for n := int64(2); n < 752; n++ {
				if big.NewInt(n).ProbablyPrime(20) {
					smallPrimes = append(smallPrimes, n)
				}
			}
			hasSmall := func(n *big.Int) bool {
				m := new(big.Int)
				for _, p := range smallPrimes {
					if m.Mod(n, big.NewInt(p)).Sign() == 0 {
						return true
					}
				}
				return false
			}
			sizes := []int{8, 31, 32, 33, 63, 64, 65, 127, 128, 129, 512, 1024, 2040, 2048}
			wrong := 0
			for _, p := range smallPrimes {
				for k := 0; k < nCof; k++ {
					cof := rnd(sizes[(k+int(p))%len(sizes)])
					cof.SetBit(cof, 0, 1)
					n := new(big.Int).Mul(big.NewInt(p), cof)
					if util.PrimeNoSmallerThan752(n) && wrong < 5 {
						wrong++
						out.Violate("C16|small-factor-missed", fmt.Sprintf("PrimeNoSmallerThan752 accepts a modulus divisible by %d", p), map[string]interface{}{"modulus": n.String(), "factor": p}, false, true)
					}
				}
			}
			for k := 0; k < 40*nCof; k++ {
				n := rnd(sizes[k%len(sizes)])
				n.SetBit(n, 0, 1)
				if got, want := util.PrimeNoSmallerThan752(n), !hasSmall(n); got != want && wrong < 10 {
					wrong++
					out.Violate("C16|small-factor-test-wrong", fmt.Sprintf("PrimeNoSmallerThan752(%s) = %v, exact trial division by the primes below 752 says %v", n.String(), got, want), map[string]interface{}{"modulus": n.String()}, want, got)
				}
			}
			out.Stats["trial_division_probes"] = len(smallPrimes)*nCof + 40*nCof
		}
		return out.Emit()
	}
}

func joinSemi(s []string) string {
	r := ""
	for i, x := range s {
		if i > 0 {
			r += ";"
		}
		r += x
	}
	return r
}

func afterStr(s, marker string) string {
	for i := 0; i+len(marker) <= len(s); i++ {
		if s[i:i+len(marker)] == marker {
			return s[i+len(marker):]
		}
	}
	return ""
}

func trimSemi(s string) string {
	for len(s) > 0 && (s[len(s)-1] == ';' || s[len(s)-1] == ',') {
		s = s[:len(s)-1]
	}
	return s
}
