package main

import (
	"sort"
	stdx509 "crypto/x509"
	"fmt"
	"net"
	"strings"

	"github.com/zmap/zcrypto/x509"
	"github.com/zmap/zlint/v3"
	"github.com/zmap/zlint/v3/lint"
	"github.com/zmap/zlint/v3/util"
)

func statusVector(c *x509.Certificate) map[string]int {
	tick()
	m := map[string]int{}
	for n, r := range zlint.LintCertificate(c).Results {
		m[n] = int(r.Status)
	}
	return m
}

var namePool = []genName{
	{2, []byte("example.com")}, {2, []byte("www.example.com")}, {2, []byte("-bad.com")}, {2, []byte("bad-.com")}, {2, []byte("a_b.example.com")}, {2, []byte("x.a_b.com")},
	{2, []byte("co.uk")}, {2, []byte("com")}, {2, []byte("*.example.com")}, {2, []byte("*.com")}, {2, []byte("*.co.uk")}, {2, []byte("")}, {2, []byte(" space.com")},
	{2, []byte("a..b.com")}, {2, []byte(".lead.com")}, {2, []byte(strings.Repeat("a", 64) + ".com")}, {2, []byte("EXAMPLE.Org")}, {2, []byte("localhost")},
	{2, []byte("192.168.1.1")}, {2, []byte("foo.onion")}, {2, []byte("xn--caf-dma.com")}, {2, []byte("xn--bad!.com")}, {2, []byte("example.invalidtld")},
	{2, []byte("1.168.192.in-addr.arpa")}, {2, []byte("a.b.c.d.in-addr.arpa")}, {2, []byte("x.ip6.arpa")}, {2, []byte("1.1.168.192.in-addr.arpa")},
	{2, []byte("b*.example.com")}, {2, []byte(strings.Repeat(strings.Repeat("a", 63)+".", 3) + strings.Repeat("b", 62))}, {2, []byte(strings.Repeat(strings.Repeat("a", 63)+".", 3) + strings.Repeat("b", 61))}, {2, []byte("example.com\x00.evil")}, {2, []byte("caf\xc3\xa9.com")}, {2, []byte("1.0.0.10.in-addr.arpa")},
	{1, []byte("user@example.com")}, {1, []byte("not an address")}, {1, []byte("")}, {1, []byte("caf\xc3\xa9@example.com")},
	{6, []byte("http://example.com/path")}, {6, []byte("mailto:a@b.com")}, {6, []byte("urn:foo:bar")}, {6, []byte("//relative/path")}, {6, []byte("http://[::1]:80/")},
	{6, []byte("http://exa mple.com/")}, {6, []byte("https://10.0.0.1/")}, {6, []byte("ftp://host_name/")}, {6, []byte("caf\xc3\xa9://x")},
	{7, net.ParseIP("10.1.2.3").To4()}, {7, net.ParseIP("8.8.8.8").To4()}, {7, net.ParseIP("2001:db8::1").To16()}, {7, net.ParseIP("2606:4700::1111").To16()},
	{8, []byte{0x2a, 0x03, 0x04}}, {4, encTLV(0x30, nil)},
}

func init() {
	commands["c17"] = func(args []string) error {
		out := NewOutput()
		rng := NewRng(seedFromEnv(), "c17")
		compare := func(kind, what string, a, b map[string]int, detail interface{}) {
			for n, s := range a {
				if b[n] != s {
					out.Violate("C17|"+kind+":"+n, fmt.Sprintf("lint %s: status %d vs %d on two %s orders of %s", n, s, b[n], kind, what), detail, s, b[n])
				}
			}
		}
		// ---- generated multi-name certificates, SAN permuted (all permutations up to 4 entries)
		nGen := 90
		if tier() == "thorough" {
			nGen = 900
		}
		sanPerms, extPerms := 0, 0
		// directed first: groups of related names (case variants, exact duplicates, trailing dots, wildcard and base name,
		// several addresses of both families with a reserved one in each position); then random draws from the pool
		directed := append([][]genName{}, relatedNameGroups...)
		// names of structured types (directoryName with and without content, otherName, registeredID, an address) next to
		// an empty name of each string type, in every order: a walker that nests a second decoder inside its loop
		{
			dn := encTLV(0x30, encTLV(0x31, encTLV(0x30, concat(encTLV(0x06, []byte{0x55, 0x04, 0x03}), encTLV(0x0c, []byte("dir name"))))))
			structured := []genName{{4, dn}, {4, encTLV(0x30, nil)}, {0, concat(encTLV(0x06, []byte{0x2b, 0x06, 0x01, 0x05, 0x05, 0x07, 0x08, 0x09}), encTLV(0xA0, encTLV(0x0c, []byte("u@example.com"))))},
				{8, []byte{0x2a, 0x03, 0x04}}, {7, net.ParseIP("8.8.4.4").To4()}}
			empties := []genName{{1, nil}, {2, nil}, {6, nil}}
			for _, st := range structured {
				for _, e := range empties {
					directed = append(directed, []genName{st, e}, []genName{{2, []byte("example.com")}, st, e})
				}
				directed = append(directed, []genName{st, {2, []byte("-bad.example.com")}}, []genName{st, {6, []byte("http://exa mple.com/")}, {1, []byte("not an address")}})
			}
		}
		for i := 0; i < nGen+len(directed); i++ {
			k := 2 + rng.Intn(3)
			var names []genName
			if i < len(directed) {
				names = directed[i]
			} else {
				for j := 0; j < k; j++ {
					names = append(names, pick(rng, namePool))
				}
			}
			tmpl := leafTemplate()
			tmpl.DNSNames = nil
			if rng.Intn(3) == 0 {
				tmpl.Subject.CommonName = ""
			} else if rng.Intn(2) == 0 {
				for _, n := range names {
					if n.tag == 2 && len(n.value) > 0 {
						tmpl.Subject.CommonName = string(n.value)
					}
				}
			}
			if rng.Intn(6) == 0 {
				tmpl.PolicyIdentifiers = append(tmpl.PolicyIdentifiers, []int{2, 23, 140, 1, 1}) // EV
			}
			tmpl.ExtraExtensions = append(tmpl.ExtraExtensions, generalNamesExt(asn1SAN, names, false))
			der, c, err := issue(tmpl, nil)
			if err != nil {
				out.Count("generated_rejected", 1)
				continue
			}
			base := statusVector(c)
			for _, p := range allPerms(len(names)) {
				p := p
				der2, _, err := permuteGeneralNames(der, oidSAN, func(int) []int { return p })
				if err != nil {
					continue
				}
				c2, err := safeParseCert(der2)
				if err != nil {
					out.Count("permuted_rejected", 1)
					continue
				}
				sanPerms++
				var desc []string
				for _, n := range names {
					desc = append(desc, fmt.Sprintf("[%d]%q", n.tag, n.value))
				}
				compare("san", fmt.Sprint(desc), base, statusVector(c2), map[string]interface{}{"names": desc, "perm": p, "der": hexs(der), "der_permuted": hexs(der2)})
			}
			// the label lints against the model: names with the public-suffix oracle's answers
			var items []string
			for _, pn := range c.GetParsedDNSNames(false) {
				items = append(items, pnameCoq(pn))
			}
			cn := "None"
			if c.Subject.CommonName != "" && !util.CommonNameIsIP(c) {
				cn = "(Some " + pnameCoq(c.GetParsedSubjectCommonName(false)) + ")"
			}
			if util.IsSubscriberCert(c) && util.DNSNamesExist(c) {
				var sts []string
				for _, ln := range labelLints {
					l := lint.GlobalRegistry().CertificateLints().ByName(ln)
					st := 0
					if l != nil {
						inst := l.Lint()
						if inst.CheckApplies(c) {
							st = int(inst.Execute(c).Status)
						}
					}
					sts = append(sts, fmt.Sprint(st))
				}
				out.Add("labels", Case{Coq: fmt.Sprintf("(%s, %s, [%s])", cn, cqList(items), joinSemi(sts)), Tag: strings.Join(sts, ""),
					Desc: map[string]interface{}{"cn": c.Subject.CommonName, "dns": c.DNSNames, "statuses": sts, "der": hexs(der)}})
			}
		}
		// ---- corpus: SAN entries and extensions permuted
		corpus := loadCorpus()
		nCorp := 150
		if tier() == "thorough" {
			nCorp = len(corpus.Certs)
		}
		randPerm := func(n int) []int {
			p := make([]int, n)
			for i := range p {
				p[i] = i
			}
			rng.Shuffle(n, func(i, j int) { p[i], p[j] = p[j], p[i] })
			return p
		}
		reverse := func(n int) []int {
			p := make([]int, n)
			for i := range p {
				p[i] = n - 1 - i
			}
			return p
		}
		// the zoo's multi-name certificates (lists of up to 257 names, related names, names under odd TLDs) in reversed,
		// rotated, sorted and random order
		{
			rotate := func(n int) []int {
				p := make([]int, n)
				for i := range p {
					p[i] = (i + n/2 + 1) % n
				}
				return p
			}
			for _, zc := range certZoo() {
				if zc.Class != "many-san" && zc.Class != "related-names" && zc.Class != "name" {
					continue
				}
				if len(zc.Cert.DNSNames)+len(zc.Cert.IPAddresses)+len(zc.Cert.EmailAddresses)+len(zc.Cert.URIs) < 2 {
					continue
				}
				base := statusVector(zc.Cert)
				sortPerm := func(n int) []int {
					p := make([]int, n)
					for i := range p {
						p[i] = i
					}
					if n == len(zc.Cert.DNSNames) {
						sort.SliceStable(p, func(a, b int) bool { return zc.Cert.DNSNames[p[a]] < zc.Cert.DNSNames[p[b]] })
					}
					return p
				}
				for pi, pf := range []func(int) []int{reverse, rotate, sortPerm, randPerm} {
					der2, n, err := permuteGeneralNames(zc.DER, oidSAN, pf)
					if err != nil || n < 2 {
						continue
					}
					c2, err := safeParseCert(der2)
					if err != nil {
						continue
					}
					c2.SelfSigned, c2.ValidationLevel = zc.Cert.SelfSigned, zc.Cert.ValidationLevel
					sanPerms++
					compare("san", zc.File, base, statusVector(c2), map[string]interface{}{"zoo": zc.File, "order": []string{"reversed", "rotated", "sorted", "random"}[pi], "der": hexs(zc.DER), "der_permuted": hexs(der2)})
				}
			}
		}
		for _, cc := range corpus.sampleCerts(rng, nCorp) {
			base := statusVector(cc.Cert)
			for _, pf := range []func(int) []int{reverse, randPerm} {
				if der2, n, err := permuteGeneralNames(cc.DER, oidSAN, pf); err == nil && n > 1 {
					if c2, err := safeParseCert(der2); err == nil {
						// re-ordering invalidates the signature; the parser derives SelfSigned (and from it the validation level)
						// from the signature check, which is not an effect of the order: carry the original values over
						c2.SelfSigned, c2.ValidationLevel = cc.Cert.SelfSigned, cc.Cert.ValidationLevel
						sanPerms++
						compare("san", cc.File, base, statusVector(c2), map[string]interface{}{"file": cc.File, "der_permuted": hexs(der2)})
					}
				}
				if der2, n, dup, err := permuteExtensions(cc.DER, pf); err == nil && n > 1 && !dup {
					if c2, err := safeParseCert(der2); err == nil {
						c2.SelfSigned, c2.ValidationLevel = cc.Cert.SelfSigned, cc.Cert.ValidationLevel
						extPerms++
						compare("extensions", cc.File, base, statusVector(c2), map[string]interface{}{"file": cc.File, "der_permuted": hexs(der2)})
					}
				}
			}
		}
		// ---- the fourteen name-scanning lints against their full model (Kernels/Names.v): zoo and generated name sets
		{
			seenN := map[string]bool{}
			addN := func(c *x509.Certificate, what string) {
				if term, tag, ok := nameCase(c); ok && !seenN[term] {
					seenN[term] = true
					out.Add("names", Case{Coq: term, Tag: tag, Desc: map[string]interface{}{"object": what, "cn": c.Subject.CommonName, "dns": c.DNSNames}})
				}
				// the thirteen subject-attribute length lints (Kernels/SubjLen.v)
				if term, tag, ok := subjLenCase(c); ok && !seenN["sl"+term] {
					seenN["sl"+term] = true
					out.Add("subjlen", Case{Coq: term, Tag: tag, Desc: map[string]interface{}{"object": what}})
				}
				// the Tor service descriptor lint (Kernels/Tor.v)
				if term, tag, ok := torCase(c); ok && !seenN["tor"+term] {
					seenN["tor"+term] = true
					out.Add("tor", Case{Coq: term, Tag: tag, Desc: map[string]interface{}{"object": what, "cn": c.Subject.CommonName, "dns": c.DNSNames, "descriptors": len(c.TorServiceDescriptors)}})
				}
				// the fifteen lints over the AIA / CDP URL lists (Kernels/Urls.v)
				if term, tag, ok := urlCase(c); ok && !seenN["url"+term] {
					seenN["url"+term] = true
					out.Add("urls", Case{Coq: term, Tag: tag, Desc: map[string]interface{}{"object": what, "ocsp": c.OCSPServer, "issuers": c.IssuingCertificateURL, "cdp": c.CRLDistributionPoints}})
				}
				// eight more subject / validity bodies (Kernels/CaSubject.v)
				if term, tag, ok := caSubjectCase(c); ok && !seenN["cas"+tag+fmt.Sprint(len(c.Subject.Country), c.Subject.Country, len(c.Subject.Names) == 0)] {
					seenN["cas"+tag+fmt.Sprint(len(c.Subject.Country), c.Subject.Country, len(c.Subject.Names) == 0)] = true
					out.Add("casubj", Case{Coq: term, Tag: tag, Desc: map[string]interface{}{"object": what, "subject": c.Subject.String()}})
				}
				// five EV presence lints (Kernels/EvPresence.v)
				if term, tag, ok := evCase(c); ok && !seenN["ev"+term] {
					seenN["ev"+term] = true
					out.Add("ev", Case{Coq: term, Tag: tag, Desc: map[string]interface{}{"object": what, "subject": c.Subject.String()}})
				}
				// the twenty-three subject-attribute presence lints (Kernels/SubjPresence.v)
				if term, tag, ok := presenceCase(c); ok && !seenN["pres"+term] {
					seenN["pres"+term] = true
					out.Add("presence", Case{Coq: term, Tag: tag, Desc: map[string]interface{}{"object": what, "subject": c.Subject.String()}})
				}
				// the four lints that relate the common name(s) to the SAN entries (Kernels/CnSan.v)
				if term, tag, ok := cnSanCase(c); ok && !seenN["cnsan"+term] {
					seenN["cnsan"+term] = true
					out.Add("cnsan", Case{Coq: term, Tag: tag, Desc: map[string]interface{}{"object": what, "cns": c.Subject.CommonNames, "dns": c.DNSNames, "ips": fmt.Sprint(c.IPAddresses)}})
				}
			}
			for _, zc := range certZoo() {
				switch zc.Class {
				case "name", "related-names", "many-san", "tld", "extension", "ku-eku", "own-key", "subject", "subject-repeat", "name-constraints", "tor", "aia", "policies", "smime-mail":
					addN(zc.Cert, zc.File)
				}
			}
			// the two raw walkers e_ext_san_empty_name / e_ext_ian_empty_name with the DER reader under them (Kernels/Der.v)
			for _, v := range derValues(rng) {
				term, tag := derCase(v)
				out.Add("der", Case{Coq: term, Tag: tag, Desc: map[string]interface{}{"value": hexs(v)}})
			}
			for i, c := range caSubjectProbes() {
				if term, tag, ok := caSubjectCase(c); ok {
					out.Add("casubj", Case{Coq: term, Tag: tag, Desc: map[string]interface{}{"object": fmt.Sprintf("subject / validity probe %d", i)}})
				}
			}
			for i, der := range urlCerts(rng) {
				if c, err := safeParseCert(der); err == nil {
					addN(c, fmt.Sprintf("URL list probe %d", i))
				}
			}
			for i, der := range subjLenCerts() {
				if c, err := safeParseCert(der); err == nil {
					addN(c, fmt.Sprintf("subject length probe %d", i))
				}
			}
			labelPool := []string{"example", "com", "", "*", "a*", "*a", "w*w", "?", strings.Repeat("a", 63), strings.Repeat("b", 64), "a_b", "-a", "a-", "A", "xn--caf-dma", "a b", "a\x00b", "1", "co", "uk", " ", "é"}
			nN := 400
			if tier() == "thorough" {
				nN = 6000
			}
			for i := 0; i < nN; i++ {
				mk := func() string {
					k := rng.Intn(5)
					var ls []string
					for j := 0; j < k; j++ {
						ls = append(ls, pick(rng, labelPool))
					}
					s := strings.Join(ls, ".")
					switch rng.Intn(8) {
					case 0:
						s = "*." + s
					case 1:
						s = "?." + s
					case 2:
						s = "*.?.?." + s
					case 3:
						s = strings.ToUpper(s)
					}
					return s
				}
				tmpl := leafTemplate()
				tmpl.DNSNames = nil
				var names []genName
				for j := rng.Intn(4); j > 0; j-- {
					names = append(names, genName{2, []byte(mk())})
				}
				if rng.Intn(5) == 0 && len(names) > 0 {
					names = append(names, names[rng.Intn(len(names))])
				}
				switch rng.Intn(5) {
				case 0:
					tmpl.Subject.CommonName = ""
				case 1:
					tmpl.Subject.CommonName = pick(rng, []string{"10.0.0.1", "::1", "1.2.3", "2001:db8::1"})
				case 2:
					if len(names) > 0 {
						tmpl.Subject.CommonName = string(names[0].value)
					}
				default:
					tmpl.Subject.CommonName = mk()
				}
				if len(names) > 0 || rng.Intn(3) == 0 {
					tmpl.ExtraExtensions = append(tmpl.ExtraExtensions, generalNamesExt(asn1SAN, names, false))
				}
				switch rng.Intn(6) {
				case 0:
					tmpl.IsCA, tmpl.KeyUsage, tmpl.ExtKeyUsage = true, stdx509.KeyUsageCertSign, nil
				case 1:
					tmpl.ExtKeyUsage = []stdx509.ExtKeyUsage{stdx509.ExtKeyUsageClientAuth}
				}
				if _, c, err := issue(tmpl, nil); err == nil {
					addN(c, fmt.Sprintf("generated names %d", i))
				}
			}
		}
		out.Stats["san_permutations"] = sanPerms
		out.Stats["extension_permutations"] = extPerms
		// ---- static: positional use of the extension list
		facts, _, err := computeFacts()
		if err != nil {
			return err
		}
		var extReaders []string
		for _, f := range facts {
			for _, r := range f.Reads {
				if r == "Certificate.Extensions" {
					extReaders = append(extReaders, f.Name)
				}
			}
		}
		out.Data["extension_list_readers"] = extReaders
		shapes, err := loopShapes()
		if err != nil {
			return err
		}
		out.Data["multi_status_loops"] = shapes
		return out.Emit()
	}
}

var labelLints = []string{"e_rfc_dnsname_hyphen_in_sld", "e_rfc_dnsname_underscore_in_sld", "w_rfc_dnsname_underscore_in_trd",
	"e_dnsname_hyphen_in_sld", "e_dnsname_underscore_in_sld", "w_dnsname_underscore_in_trd", "n_dnsname_wildcard_left_of_public_suffix"}

func pnameCoq(pn x509.ParsedDomainName) string {
	if pn.ParseError != nil || pn.ParsedDomain == nil {
		return fmt.Sprintf("(mkPname %s None)", cqBytes(pn.DomainString))
	}
	return fmt.Sprintf("(mkPname %s (Some (%s, %s)))", cqBytes(pn.DomainString), cqBytes(pn.ParsedDomain.SLD), cqBytes(pn.ParsedDomain.TRD))
}
