package main

import (
	"github.com/zmap/zcrypto/x509"
	"net"
	"golang.org/x/net/idna"
	"fmt"
	"sort"
	"strings"
	"time"

	"github.com/zmap/zlint/v3"
	"github.com/zmap/zlint/v3/lint"
	"github.com/zmap/zlint/v3/util"
)

func cqOptInstant(t time.Time, err error) string {
	if err != nil {
		return "None"
	}
	return "(Some " + instantZ(t) + ")"
}

func init() {
	commands["c18"] = func(args []string) error {
		out := NewOutput()
		rng := NewRng(seedFromEnv(), "c18")
		m := util.VerifTLDMap()
		keys := sortedKeys(m)
		var tcoq []string
		for _, k := range keys {
			e := m[k]
			tcoq = append(tcoq, fmt.Sprintf("mkTld %s %s %s %s", cqBytes(k), cqBytes(e.GTLD), cqBytes(e.DelegationDate), cqBytes(e.RemovalDate)))
		}
		out.Data["table_coq"] = tcoq
		out.Data["table_size"] = len(keys)
		// ---- parse_date vs time.Parse
		seenD := map[string]bool{}
		addDate := func(s string) {
			if seenD[s] {
				return
			}
			seenD[s] = true
			t, err := time.Parse(util.GTLDPeriodDateFormat, s)
			out.Add("dates", Case{Coq: fmt.Sprintf("(%s, %s)", cqBytes(s), cqOptInstant(t, err)), Tag: fmt.Sprint(err == nil),
				Desc: map[string]interface{}{"s": s, "ok": err == nil, "t": t.String()}})
		}
		for _, k := range keys {
			addDate(m[k].DelegationDate)
			if m[k].RemovalDate != "" {
				addDate(m[k].RemovalDate)
			}
		}
		for _, s := range []string{"", "2015-08-28 ", " 2015-08-28", "2015-8-28", "2015-08-2", "15-08-28", "2015/08/28", "2015-13-01", "2015-00-10", "2015-02-29", "2016-02-29",
			"1900-02-29", "2000-02-29", "2015-04-31", "2015-06-31", "2015-12-31", "2015-12-32", "2015-01-00", "0000-01-01", "0001-01-01", "9999-12-31", "2015-08-28T00:00:00Z",
			"2015-08-28x", "201５-08-28", "2015-0a-28", "-015-08-28", "2015-08--8", "2015-1-001", "2100-02-29", "2400-02-29", "1970-01-01", "1969-12-31", "1600-02-29"} {
			addDate(s)
		}
		for i := 0; i < 200; i++ {
			s := fmt.Sprintf("%04d-%02d-%02d", 1 + rng.Intn(3000), rng.Intn(14), rng.Intn(33))
			if rng.Intn(6) == 0 {
				b := []byte(s)
				b[rng.Intn(len(b))] = byte(32 + rng.Intn(95))
				s = string(b)
			}
			addDate(s)
		}
		// ---- HasValidTLD / IsInTLDMap at the delegation and removal instants of every entry
		spell := func(k string) string {
			switch rng.Intn(6) {
			case 0:
				return strings.ToUpper(k)
			case 1:
				return "www.Example." + strings.ToUpper(k[:1]) + k[1:]
			case 2:
				return "a.b." + k
			case 3:
				return "." + k
			default:
				return "example." + k
			}
		}
		seenV := map[string]bool{}
		zones := []*time.Location{time.UTC, time.FixedZone("plus1", 3600), time.FixedZone("minus5", -5*3600), time.FixedZone("plus14", 14*3600), time.FixedZone("minus12", -12*3600)}
		zi := 0
		addValid := func(domain string, t time.Time, why string) bool {
			tick()
			// the same instant, expressed in rotating time zones: validity is a function of the instant
			zi++
			t = t.In(zones[zi%len(zones)])
			got := util.HasValidTLD(domain, t)
			term := fmt.Sprintf("(%s, %s, %s)", cqBytes(domain), instantZ(t), cqBool(got))
			if !seenV[term] {
				seenV[term] = true
				out.Add("valid", Case{Coq: term, Tag: fmt.Sprintf("%s/%v", why, got), Desc: map[string]interface{}{"domain": domain, "t": t.String(), "valid": got, "why": why}})
			}
			return got
		}
		stride := 1
		if tier() != "thorough" {
			stride = 3 // every entry is still visited for its delegation boundary; removal boundaries always
		}
		for i, k := range keys {
			e := m[k]
			dl, err := time.Parse(util.GTLDPeriodDateFormat, e.DelegationDate)
			if err != nil {
				out.Violate("C18|delegation-unparseable:"+k, "delegation date of ."+k+" does not parse: "+e.DelegationDate, e, nil, nil)
				continue
			}
			if e.GTLD != k || strings.ToLower(k) != k {
				out.Violate("C18|entry-key:"+k, "entry is not keyed by its own lower-case name", e, nil, nil)
			}
			// direct monitors of the statement
			if !addValid(spell(k), dl, "at-delegation") {
				out.Violate("C18|invalid-at-delegation:"+k, "."+k+" is not valid at its own delegation instant "+e.DelegationDate, k, true, false)
			}
			if addValid(spell(k), dl.Add(-time.Second), "before-delegation") {
				out.Violate("C18|valid-before-delegation:"+k, "."+k+" is valid one second before its delegation "+e.DelegationDate, k, false, true)
			}
			if i%stride == 0 || e.RemovalDate != "" {
				if addValid(spell(k), dl.Add(-time.Nanosecond), "sub-second-before-delegation") {
					out.Violate("C18|valid-before-delegation:"+k, "."+k+" is valid one nanosecond before its delegation "+e.DelegationDate, k, false, true)
				}
				if addValid(spell(k), dl.Add(-999999999*time.Nanosecond), "sub-second-before-delegation") {
					out.Violate("C18|valid-before-delegation:"+k, "."+k+" is valid 999999999ns before its delegation "+e.DelegationDate, k, false, true)
				}
				addValid(spell(k), dl.Add(time.Nanosecond), "sub-second-after-delegation")
			}
			if i%stride == 0 {
				addValid(spell(k), dl.Add(time.Second), "after-delegation")
				addValid(spell(k), time.Date(2030, 1, 1, 0, 0, 0, 0, time.UTC), "far-future")
			}
			if e.RemovalDate != "" {
				rm, err := time.Parse(util.GTLDPeriodDateFormat, e.RemovalDate)
				if err != nil {
					out.Violate("C18|removal-unparseable:"+k, "removal date of ."+k+" does not parse: "+e.RemovalDate, e, nil, nil)
					continue
				}
				if rm.Before(dl) {
					out.Violate("C18|removal-before-delegation:"+k, "removal date precedes delegation date for ."+k, e, nil, nil)
				}
				if !addValid(spell(k), rm, "at-removal") {
					out.Violate("C18|invalid-at-removal:"+k, "."+k+" is not valid at its removal instant "+e.RemovalDate, k, true, false)
				}
				if addValid(spell(k), rm.Add(time.Second), "after-removal") {
					out.Violate("C18|valid-after-removal:"+k, "."+k+" is valid one second after its removal "+e.RemovalDate, k, false, true)
				}
				addValid(spell(k), rm.Add(-time.Second), "before-removal")
				// instants are finer than seconds: the first nanosecond after removal is already after it
				for _, d := range []time.Duration{time.Nanosecond, 999999999 * time.Nanosecond, 500 * time.Millisecond} {
					if addValid(spell(k), rm.Add(d), "sub-second-after-removal") {
						out.Violate("C18|valid-after-removal:"+k, fmt.Sprintf(".%s is valid %v after its removal %s", k, d, e.RemovalDate), map[string]interface{}{"tld": k, "offset_ns": int64(d)}, false, true)
					}
				}
				if !addValid(spell(k), rm.Add(-time.Nanosecond), "sub-second-before-removal") {
					out.Violate("C18|invalid-before-removal:"+k, "."+k+" is not valid one nanosecond before its removal", k, true, false)
				}
			}
			if e.RemovalDate != "" || i%40 == 0 {
				for _, off := range []time.Duration{-time.Hour, -time.Second, 0, time.Second, time.Hour} {
					inst := dl.Add(off)
					ref := util.HasValidTLD("x."+k, inst)
					for _, z := range zones[1:] {
						if util.HasValidTLD("x."+k, inst.In(z)) != ref {
							out.Violate("C18|zone-dependent:"+k, fmt.Sprintf("HasValidTLD(x.%s) at the instant %s answers %v in UTC but %v when the same instant is expressed in zone %s", k, inst.Format(time.RFC3339), ref, !ref, z),
								map[string]interface{}{"tld": k, "instant": inst.Format(time.RFC3339), "zone": z.String()}, ref, !ref)
						}
					}
				}
			}
			if !util.IsInTLDMap(strings.ToUpper(k)) || !util.IsInTLDMap(k) {
				out.Violate("C18|not-in-map:"+k, "IsInTLDMap rejects a table key (case-insensitively)", k, true, false)
			}
		}
		// case: a label is looked up lower-cased, whichever of its letters are capitals - every single-letter
		// capitalisation of every key answers like the key itself
		for i, k := range keys {
			if i%4 != 0 && tier() != "thorough" && !strings.ContainsAny(k, "zqxjy") {
				continue
			}
			t := time.Date(2024, 6, 1, 0, 0, 0, 0, time.UTC)
			ref := util.HasValidTLD("example."+k, t)
			for p := 0; p < len(k); p++ {
				if k[p] < 'a' || k[p] > 'z' {
					continue
				}
				v := k[:p] + strings.ToUpper(k[p:p+1]) + k[p+1:]
				if got := util.HasValidTLD("example."+v, t); got != ref {
					out.Violate("C18|case-sensitive:"+v, fmt.Sprintf("HasValidTLD(example.%s) = %v but HasValidTLD(example.%s) = %v", k, ref, v, got), map[string]interface{}{"tld": k, "spelling": v}, ref, got)
				}
			}
			if len(k) > 0 && k[len(k)-1] >= 'a' && k[len(k)-1] <= 'z' && i%16 == 0 {
				addValid("www.Example."+k[:len(k)-1]+strings.ToUpper(k[len(k)-1:]), t, "last-letter-capital")
			}
		}
		// unknown labels, odd shapes, non-ASCII
		now := time.Date(2024, 6, 1, 0, 0, 0, 0, time.UTC)
		for _, d := range []string{"", ".", "com.", "example.com.", "example.c om", "example.notatld", "example.COM", "example.cOm", "localhost", "example.Kim", "example.İnfo",
			"example.com\xff", "example.\xffcom", "example.xn--p1ai", "example.XN--P1AI", "example.рф", "a..com", "com", "COM", "example.com", "example.com\u0000", "例え.テスト", "example.ÉCOLE"} {
			addValid(d, now, "shape")
			got := util.IsInTLDMap(d)
			out.Add("ever", Case{Coq: fmt.Sprintf("(%s, %s)", cqBytes(d), cqBool(got)), Tag: fmt.Sprint(got), Desc: map[string]interface{}{"label": d, "in": got}})
		}
		// spellings that are equivalent to a table key only after some normalisation (IDNA U-labels, full-width letters,
		// the degenerate A-label xn--<ascii>-, trailing dot, percent escapes): the table is keyed by the label as written,
		// lower-cased; direct monitor: a valid TLD is a table key
		directTLD := func(d string, why string) {
			got := util.HasValidTLD(d, now)
			labels := strings.Split(strings.ToLower(d), ".")
			_, isKey := m[labels[len(labels)-1]]
			if got && !isKey {
				out.Violate("C18|valid-but-not-a-table-key:"+why, fmt.Sprintf("HasValidTLD(%q) is true although %q is not a key of the delegation table", d, labels[len(labels)-1]),
					map[string]interface{}{"domain": d, "why": why}, false, true)
			}
			if util.IsInTLDMap(d) != isKey {
				out.Violate("C18|in-map-disagrees:"+why, fmt.Sprintf("IsInTLDMap(%q) = %v although the table key test says %v", d, !isKey, isKey), map[string]interface{}{"domain": d}, isKey, !isKey)
			}
		}
		fullwidth := func(s string) string {
			var b strings.Builder
			for _, r := range s {
				if r >= 'a' && r <= 'z' {
					b.WriteRune(r - 'a' + 0xFF41)
				} else {
					b.WriteRune(r)
				}
			}
			return b.String()
		}
		for i, k := range keys {
			if i%7 != 0 && tier() != "thorough" && !strings.HasPrefix(k, "xn--") {
				continue
			}
			if strings.HasPrefix(k, "xn--") {
				if u, err := idna.ToUnicode(k); err == nil && u != k {
					directTLD("example."+u, "u-label")
				}
				continue
			}
			directTLD("example.xn--"+k+"-", "degenerate-a-label")
			directTLD("EXAMPLE.XN--"+strings.ToUpper(k)+"-", "degenerate-a-label-upper")
			directTLD("example."+fullwidth(k), "full-width")
			directTLD("example."+k+".", "trailing-dot")
			directTLD("example."+k+"\u200d", "zero-width-joiner")
			directTLD("example.%"+fmt.Sprintf("%02x", k[0])+k[1:], "percent-escape")
		}
		for i := 0; i < 150; i++ {
			k := pick(rng, keys)
			var l string
			switch rng.Intn(5) {
			case 0:
				l = k + "x"
			case 1:
				l = strings.ToUpper(k)
			case 2:
				l = k[:len(k)-1]
			case 3:
				l = "x" + k
			default:
				l = strings.Title(k)
			}
			got := util.IsInTLDMap(l)
			out.Add("ever", Case{Coq: fmt.Sprintf("(%s, %s)", cqBytes(l), cqBool(got)), Tag: fmt.Sprint(got), Desc: map[string]interface{}{"label": l, "in": got}})
			addValid("host."+l, now, "mutated-label")
		}
		// ---- the lint on re-dated certificates
		l := lint.GlobalRegistry().CertificateLints().ByName("e_dnsname_not_valid_tld")
		if l == nil {
			out.Violate("C18|lint-missing", "e_dnsname_not_valid_tld not registered", nil, nil, nil)
			return out.Emit()
		}
		removed := []string{}
		for _, k := range keys {
			if m[k].RemovalDate != "" {
				removed = append(removed, k)
			}
		}
		sort.Strings(removed)
		nLint := 80
		if tier() == "thorough" {
			nLint = 800
		}
		// direct: the lint reports exactly when the common name (unless empty or an IP address) or some dNSName has no TLD
		// valid at notBefore (the per-name predicate is compared with the model in the stream "valid")
		lintDirect := func(c *x509.Certificate, isErr bool, der []byte) {
			want := false
			if c.Subject.CommonName != "" && net.ParseIP(c.Subject.CommonName) == nil && !util.HasValidTLD(c.Subject.CommonName, c.NotBefore) {
				want = true
			}
			for _, d := range c.DNSNames {
				if !util.HasValidTLD(d, c.NotBefore) {
					want = true
				}
			}
			if want != isErr {
				out.Violate("C18|lint-disagrees-with-name-predicate", fmt.Sprintf("e_dnsname_not_valid_tld reports error=%v on cn=%q dns=%q at %s although some name lacking a valid TLD = %v", isErr, c.Subject.CommonName, c.DNSNames, c.NotBefore.Format(time.RFC3339), want),
					map[string]interface{}{"cn": c.Subject.CommonName, "dns": c.DNSNames, "der": hexs(der)}, want, isErr)
			}
		}
		for _, zc := range certZoo() {
			switch zc.Class {
			case "name", "related-names", "tld", "many-san":
				c := zc.Cert
				inst := l.Lint()
				if !inst.CheckApplies(c) || c.NotBefore.Year() < 1960 || c.NotBefore.Year() > 2040 {
					continue
				}
				r := inst.Execute(c)
				isErr := r.Status == lint.Error
				lintDirect(c, isErr, zc.DER)
				// the verdict is about the names as issued: asked again on the same parsed object after every other lint has
				// run on it (twice), it is what a fresh parse of the same octets gets
				if fresh, err := safeParseCert(zc.DER); err == nil {
					zlint.LintCertificate(c)
					zlint.LintCertificate(c)
					again := l.Lint().Execute(c).Status == lint.Error
					freshErr := l.Lint().Execute(fresh).Status == lint.Error
					if again != freshErr || again != isErr {
						out.Violate("C18|lint-verdict-changes-on-relint", fmt.Sprintf("e_dnsname_not_valid_tld on %s: error=%v the first time, error=%v after the certificate object has been linted with every lint, error=%v on a fresh parse of the same octets (dNSNames as issued %q)", zc.File, isErr, again, freshErr, fresh.DNSNames),
							map[string]interface{}{"zoo": zc.File, "der": hexs(zc.DER), "dns": fresh.DNSNames}, freshErr, again)
					}
				}
				lst := cqBytesList(c.DNSNames)
				if len(c.DNSNames) == 0 {
					lst = "(@nil bytes)"
				}
				out.Add("lint", Case{Coq: fmt.Sprintf("(%s, %s, %s, %s, %s)", cqBytes(c.Subject.CommonName), cqBool(util.CommonNameIsIP(c)), lst, instantZ(c.NotBefore), cqBool(isErr)),
					Tag: fmt.Sprint(isErr), Desc: map[string]interface{}{"cn": c.Subject.CommonName, "dns": c.DNSNames, "notBefore": c.NotBefore.String(), "status": int(r.Status), "zoo": zc.File}})
			}
		}
		for i := 0; i < nLint; i++ {
			tmpl := leafTemplate()
			var k string
			if len(removed) > 0 && rng.Bool() {
				k = pick(rng, removed)
			} else {
				k = pick(rng, keys)
			}
			e := m[k]
			dl, _ := time.Parse(util.GTLDPeriodDateFormat, e.DelegationDate)
			base := dl
			if e.RemovalDate != "" && rng.Bool() {
				base, _ = time.Parse(util.GTLDPeriodDateFormat, e.RemovalDate)
			}
			nb := base.Add(time.Duration(rng.Intn(3)-1) * time.Second)
			if nb.Year() < 1960 || nb.Year() > 2040 {
				continue
			}
			tmpl.NotBefore = nb
			tmpl.NotAfter = nb.AddDate(0, 3, 0)
			names := []string{"www." + k}
			if rng.Intn(3) == 0 {
				names = append(names, "other.com", "x."+strings.ToUpper(pick(rng, keys)))
			}
			if rng.Intn(5) == 0 {
				names = append(names, "host.invalidtld")
			}
			if rng.Intn(4) == 0 {
				// a dNSName that is the text of an IP address is a name like any other: its right-most label is no TLD
				names = append(names, pick(rng, []string{"192.168.0.1", "10.0.0.1", "2001:db8::1", "::1", "1.2.3.4", "8.8.8.8"}))
				if rng.Bool() {
					names[0], names[len(names)-1] = names[len(names)-1], names[0]
				}
			}
			tmpl.DNSNames = names
			switch rng.Intn(4) {
			case 0:
				tmpl.Subject.CommonName = ""
			case 1:
				tmpl.Subject.CommonName = "10.1.2.3"
			case 2:
				tmpl.Subject.CommonName = "cn." + pick(rng, keys)
			default:
				tmpl.Subject.CommonName = names[0]
			}
			der, c, err := issue(tmpl, nil)
			if err != nil {
				continue
			}
			inst := l.Lint()
			if !inst.CheckApplies(c) {
				continue
			}
			r := inst.Execute(c)
			isErr := r.Status == lint.Error
			lintDirect(c, isErr, der)
			out.Add("lint", Case{Coq: fmt.Sprintf("(%s, %s, %s, %s, %s)", cqBytes(c.Subject.CommonName), cqBool(util.CommonNameIsIP(c)), cqBytesList(c.DNSNames), instantZ(c.NotBefore), cqBool(isErr)),
				Tag: fmt.Sprint(isErr), Desc: map[string]interface{}{"cn": c.Subject.CommonName, "dns": c.DNSNames, "notBefore": c.NotBefore.String(), "status": int(r.Status), "der": hexs(der)}})
		}
		genRegen(out, rng)
		return out.Emit()
	}
}
