package main

import (
	"encoding/json"
	"fmt"
	"os"
	"os/exec"
	"path/filepath"
	"strings"
	"time"
)

// C18, "all future regenerations of the table": the generator (cmd/zlint-gtld-update, built with the verif probe) is fed
// generated pairs of ICANN documents; what it prints - or that it prints nothing - is compared with Kernels.GtldUpdate.render
// and checked directly against what the property asks of a table entry.

type regenEntry struct{ Name, Deleg, Removal string }

type regenCase struct {
	GTLDBody   string
	TLDBody    string
	GTLDStatus int
	TLDStatus  int
	Entries    []map[string]string
}

type regenResult struct {
	Err          string
	Entries      [][4]string
	ValidateErr  string
	Delegated    int
	ParseProblem string
}

var regenGoodDates = []string{"2015-06-26", "1985-01-01", "2024-02-29", "2000-02-29", "2023-06-05", "0000-01-01", "9999-12-31", "2013-10-23", "2016-12-31", "1999-01-31"}
var regenBadDates = []string{"2023-02-29", "2015-06-31", "2015-13-01", "2015-00-10", "2015-6-26", "15-06-26", "2015-06-26 ", " 2015-06-26", "2015/06/26", "2015-06-26T00:00:00Z",
	"20150626", "2015-06-00", "1900-02-29", "2015-06-2", "2015-06-266", "abcd-ef-gh", "2015-06", "-015-06-26", "2015-06-26\n", "２０１５-06-26", "2015-04-31", "2100-02-29"}
var regenNames = []string{"abarth", "zuerich", "xn--p1ai", "com", "uk", "africa", "example", "aaa", "b-c", "x1", "ABC", "Mixed", "com", "abarth", "museum", "zz"}

func regenEntryOK(e regenEntry) bool {
	if _, err := time.Parse("2006-01-02", e.Deleg); err != nil {
		return false
	}
	if e.Removal != "" {
		if _, err := time.Parse("2006-01-02", e.Removal); err != nil {
			return false
		}
	}
	return true
}

func genRegen(out *Output, rng *Rng) {
	bin := os.Getenv("VERIF_GTLD_BIN")
	if bin == "" {
		return
	}
	n := 220
	if tier() == "thorough" {
		n = 3000
	}
	type meta struct {
		entries []regenEntry
		modelled bool
		what     string
	}
	var cases []regenCase
	var metas []meta
	for i := 0; i < n; i++ {
		var es []regenEntry
		k := rng.Intn(7)
		badAt := -1
		if i%3 == 0 && k > 0 {
			badAt = rng.Intn(k)
		}
		for j := 0; j < k; j++ {
			e := regenEntry{Name: pick(rng, regenNames), Deleg: pick(rng, regenGoodDates)}
			switch rng.Intn(6) {
			case 0:
				e.Removal = pick(rng, regenGoodDates)
			case 1:
				e.Deleg = "" // never delegated
				if rng.Bool() {
					e.Removal = pick(rng, regenBadDates)
				}
			}
			if j == badAt {
				if rng.Bool() || e.Deleg == "" {
					e.Deleg = pick(rng, regenBadDates)
				} else {
					e.Removal = pick(rng, regenBadDates)
				}
			}
			es = append(es, e)
		}
		// the gTLD document: ICANN's field names, null or "" for an absent date, extra fields
		var items []map[string]interface{}
		var plain []map[string]string
		for _, e := range es {
			it := map[string]interface{}{"gTLD": e.Name, "uLabel": nil, "registryOperator": "x", "contractTerminated": false}
			if e.Deleg == "" && rng.Bool() {
				it["delegationDate"] = nil
			} else {
				it["delegationDate"] = e.Deleg
			}
			if e.Removal == "" && rng.Bool() {
				it["removalDate"] = nil
			} else {
				it["removalDate"] = e.Removal
			}
			items = append(items, it)
			plain = append(plain, map[string]string{"GTLD": e.Name, "DelegationDate": e.Deleg, "RemovalDate": e.Removal})
		}
		gb, _ := json.Marshal(map[string]interface{}{"gTLDs": items, "updatedOn": "2024-01-01T00:00:00Z", "version": 2})
		// the plain list: a comment line, names in upper case, blank lines, a name the gTLD document also carries
		var lines []string
		lines = append(lines, "# Version 2024010100, Last Updated Mon Jan  1 07:07:01 2024 UTC")
		for j := rng.Intn(6); j > 0; j-- {
			switch rng.Intn(8) {
			case 0:
				lines = append(lines, "")
			case 1:
				lines = append(lines, "  ")
			case 2:
				lines = append(lines, "#"+pick(rng, regenNames))
			case 3:
				lines = append(lines, pick(rng, regenNames)+" ")
			default:
				lines = append(lines, strings.ToUpper(pick(rng, regenNames)))
			}
		}
		tb := strings.Join(lines, "\n")
		if rng.Bool() {
			tb += "\n"
		}
		c := regenCase{GTLDBody: string(gb), TLDBody: tb, GTLDStatus: 200, TLDStatus: 200, Entries: plain}
		m := meta{entries: es, modelled: true, what: "generated documents"}
		// transport and syntax failures: not modelled, must fail closed
		switch {
		case i%29 == 7:
			c.GTLDStatus, m.modelled, m.what = 500, false, "gTLD document: HTTP 500"
		case i%29 == 11:
			c.TLDStatus, m.modelled, m.what = 404, false, "TLD list: HTTP 404"
		case i%29 == 13:
			c.GTLDBody, m.modelled, m.what = c.GTLDBody[:len(c.GTLDBody)/2], false, "gTLD document truncated"
		case i%29 == 17:
			c.GTLDStatus, m.modelled, m.what = 0, false, "gTLD document: no connection"
		}
		cases = append(cases, c)
		metas = append(metas, m)
	}
	tmp, err := os.MkdirTemp("", "verif-c18-")
	if err != nil {
		return
	}
	defer os.RemoveAll(tmp)
	cb, _ := json.Marshal(cases)
	cp := filepath.Join(tmp, "cases.json")
	os.WriteFile(cp, cb, 0o600)
	cmd := exec.Command(bin)
	cmd.Env = append(os.Environ(), "VERIF_GTLD_CASES="+cp)
	ob, err := cmd.Output()
	tick()
	var results []regenResult
	if err != nil || json.Unmarshal(ob, &results) != nil || len(results) != len(cases) {
		out.Violate("C18|regen-probe-failed", fmt.Sprintf("the table generator built with the probe did not answer: %v %.300q", err, string(ob)), nil, nil, nil)
		return
	}
	wrote, refused := 0, 0
	for i, r := range results {
		m := metas[i]
		desc := map[string]interface{}{"gtld_document": cases[i].GTLDBody, "tld_list": cases[i].TLDBody, "case": m.what}
		if r.Err == "" {
			wrote++
		} else {
			refused++
		}
		// direct: what is printed is a table the property accepts, as far as the generator can know
		if r.ParseProblem != "" {
			out.Violate("C18|regen-output-unreadable", "generator output: "+r.ParseProblem, desc, nil, nil)
			continue
		}
		seen := map[string]bool{}
		for _, row := range r.Entries {
			e := regenEntry{row[1], row[2], row[3]}
			if row[0] != row[1] || !regenEntryOK(e) {
				out.Violate("C18|regen-bad-entry", fmt.Sprintf("the regenerated table has the entry %q: {GTLD %q, DelegationDate %q, RemovalDate %q}: not keyed by its own name or a date that does not parse", row[0], row[1], row[2], row[3]), desc, nil, row)
			}
			if seen[row[0]] {
				out.Violate("C18|regen-duplicate-key", fmt.Sprintf("the regenerated table has the key %q twice", row[0]), desc, nil, nil)
			}
			seen[row[0]] = true
		}
		// direct: fails closed
		anyBad, nDeleg := false, 0
		for _, e := range m.entries {
			if e.Deleg != "" {
				nDeleg++
				if !regenEntryOK(e) {
					anyBad = true
				}
			}
		}
		if (anyBad || !m.modelled) && r.Err == "" {
			out.Violate("C18|regen-not-refused", fmt.Sprintf("the generator wrote a table although %s", map[bool]string{true: "a delegated entry of the gTLD document has a date that does not parse", false: m.what}[anyBad]), desc, "an error and no output", fmt.Sprintf("%d entries written", len(r.Entries)))
		}
		if !anyBad && m.modelled && r.Err != "" {
			out.Violate("C18|regen-refused", "the generator refused documents whose delegated entries all have parseable dates: "+r.Err, desc, "a table", r.Err)
		}
		// validateGTLDs / delegatedGTLDs on the raw entry list
		allOK := true
		for _, e := range m.entries {
			if !regenEntryOK(e) {
				allOK = false
			}
		}
		if allOK != (r.ValidateErr == "") {
			out.Violate("C18|regen-validate", fmt.Sprintf("validateGTLDs says %q on a list whose entries are all acceptable: %v", r.ValidateErr, allOK), desc, allOK, r.ValidateErr)
		}
		if r.Delegated != nDeleg {
			out.Violate("C18|regen-delegated", fmt.Sprintf("delegatedGTLDs keeps %d of the entries, %d have a delegation date", r.Delegated, nDeleg), desc, nDeleg, r.Delegated)
		}
		if !m.modelled {
			continue
		}
		var gs []string
		for _, e := range m.entries {
			gs = append(gs, fmt.Sprintf("mkG %s %s %s", cqBytes(e.Name), cqBytes(e.Deleg), cqBytes(e.Removal)))
		}
		obs := "None"
		if r.Err == "" {
			var rows []string
			for _, row := range r.Entries {
				rows = append(rows, fmt.Sprintf("(%s, mkG %s %s %s)", cqBytes(row[0]), cqBytes(row[1]), cqBytes(row[2]), cqBytes(row[3])))
			}
			obs = "(Some " + cqTyped(rows, "(bytes * gentry)") + ")"
		}
		out.Add("regen", Case{Coq: fmt.Sprintf("(%s, %s, %s, %s)", cqTyped(gs, "gentry"), cqBytes(cases[i].TLDBody), obs, cqBool(r.ValidateErr == "")),
			Tag: fmt.Sprintf("%v/%d", r.Err == "", bucket(len(r.Entries))), Desc: desc})
	}
	out.Stats["regen_cases"] = len(cases)
	out.Stats["regen_tables_written"] = wrote
	out.Stats["regen_refused"] = refused
}
