package main

import (
	"sync"
	"strings"
	stdx509 "crypto/x509"
	"crypto/x509/pkix"
	"encoding/asn1"
	"fmt"
	"math/big"
	"math/rand"
	"net"
	"time"

	"github.com/zmap/zcrypto/x509"
	"github.com/zmap/zlint/v3"
	"github.com/zmap/zlint/v3/lint"
	"github.com/zmap/zlint/v3/util"
)

type anet struct {
	v6   bool
	base *big.Int
	plen int
}

func (n anet) width() int {
	if n.v6 {
		return 128
	}
	return 32
}

func famCoq(v6 bool) string {
	if v6 {
		return "V6"
	}
	return "V4"
}

func nCoq(x *big.Int) string { return fmt.Sprintf("(0x%x)%%N", x) }

func (n anet) Coq() string { return fmt.Sprintf("(mkNet %s %s %d%%N)", famCoq(n.v6), nCoq(n.base), n.plen) }

func (n anet) String() string { ipn := n.ipnet(); return ipn.String() }

func ipBytes(v6 bool, x *big.Int) net.IP {
	w := 4
	if v6 {
		w = 16
	}
	b := x.Bytes()
	ip := make(net.IP, w)
	copy(ip[w-len(b):], b)
	return ip
}

func (n anet) ipnet() net.IPNet {
	return net.IPNet{IP: ipBytes(n.v6, n.base), Mask: net.CIDRMask(n.plen, n.width())}
}

// canonical network of prefix length plen containing x
func netOf(v6 bool, x *big.Int, plen int) anet {
	w := 32
	if v6 {
		w = 128
	}
	sh := uint(w - plen)
	b := new(big.Int).Rsh(x, sh)
	b.Lsh(b, sh)
	return anet{v6, b, plen}
}

func fromIPNet(n *net.IPNet) (anet, bool) {
	ones, bits := n.Mask.Size()
	if bits == 0 {
		return anet{}, false
	}
	if ip4 := n.IP.To4(); ip4 != nil && bits == 32 {
		return anet{false, new(big.Int).SetBytes(ip4), ones}, true
	}
	if len(n.IP) == 16 && bits == 128 {
		return anet{true, new(big.Int).SetBytes(n.IP), ones}, true
	}
	return anet{}, false
}

func init() {
	commands["c19"] = func(args []string) error {
		out := NewOutput()
		rng := NewRng(seedFromEnv(), "c19")
		var table []anet
		var tcoq []string
		for _, n := range util.VerifReservedNetworks() {
			a, ok := fromIPNet(n)
			if !ok {
				out.Violate("C19|table-entry-shape", "reserved network with unexpected shape: "+n.String(), n.String(), nil, nil)
				continue
			}
			table = append(table, a)
			tcoq = append(tcoq, a.Coq())
		}
		out.Data["table_coq"] = tcoq
		out.Data["table_size"] = len(table)
		one := big.NewInt(1)
		seenA, seenN := map[string]bool{}, map[string]bool{}
		type askedAddr struct {
			ip  net.IP
			got bool
		}
		var asked []askedAddr
		addAddr := func(v6 bool, x *big.Int, why string) {
			w := 32
			if v6 {
				w = 128
			}
			if x.Sign() < 0 || x.BitLen() > w {
				return
			}
			ip := ipBytes(v6, x)
			got := util.IsIANAReserved(ip)
			// an address and the network that holds just that address get the same answer
			if w2 := map[bool]int{false: 32, true: 128}[v6]; util.IntersectsIANAReserved(net.IPNet{IP: ip, Mask: net.CIDRMask(w2, w2)}) != got {
				out.Violate("C19|single-address:"+ip.String(), fmt.Sprintf("the address %s is reserved = %v but the network holding just that address intersects reserved space = %v", ip, got, !got), ip.String(), got, !got)
			}
			asked = append(asked, askedAddr{append(net.IP{}, ip...), got})
			if !v6 {
				// the IPv4-mapped 16-byte form must agree with the 4-byte form
				if got16 := util.IsIANAReserved(ip.To16()); got16 != got {
					out.Violate("C19|mapped-form:"+ip.String(), "4-byte and IPv4-mapped forms of "+ip.String()+" are classified differently", ip.String(), got, got16)
				}
			}
			term := fmt.Sprintf("(mkAddr %s %s, %s)", famCoq(v6), nCoq(x), cqBool(got))
			if !seenA[term] {
				seenA[term] = true
				out.Add("addr", Case{Coq: term, Tag: fmt.Sprintf("%v/%v", v6, got), Desc: map[string]interface{}{"ip": ip.String(), "reserved": got, "why": why}})
			}
		}
		addNet := func(n anet, why string) bool {
			tick()
			ipn := n.ipnet()
			got := util.IntersectsIANAReserved(ipn)
			if !n.v6 {
				// the same IPv4 range spelled in its IPv4-mapped 32-octet form (what a 32-octet iPAddress name constraint
				// parses to) is the same network
				mapped := net.IPNet{IP: ipn.IP.To16(), Mask: net.CIDRMask(96+n.plen, 128)}
				if got16 := util.IntersectsIANAReserved(mapped); got16 != got {
					out.Violate("C19|mapped-form-net:"+ipn.String(), "the 4-byte and IPv4-mapped spellings of "+ipn.String()+" are classified differently",
						map[string]interface{}{"net": ipn.String(), "mapped": mapped.String()}, got, got16)
				}
			}
			term := fmt.Sprintf("(%s, %s)", n.Coq(), cqBool(got))
			if !seenN[term] {
				seenN[term] = true
				out.Add("net", Case{Coq: term, Tag: fmt.Sprintf("%v/%d/%v", n.v6, n.plen/8, got), Desc: map[string]interface{}{"net": ipn.String(), "intersects": got, "why": why}})
			}
			return got
		}
		// special-purpose blocks of the statement and well-known public addresses
		special := []string{"10.0.0.0/8", "172.16.0.0/12", "192.168.0.0/16", "127.0.0.0/8", "169.254.0.0/16", "100.64.0.0/10", "192.0.2.0/24",
			"198.51.100.0/24", "203.0.113.0/24", "198.18.0.0/15", "224.0.0.0/4", "240.0.0.0/4", "255.255.255.255/32", "0.0.0.0/32", "0.0.0.0/8",
			"::1/128", "::/128", "fc00::/7", "fe80::/10", "ff00::/8", "2001:db8::/32", "2002::/16", "100::/64"}
		public := []string{"8.8.8.8", "1.1.1.1", "9.9.9.9", "93.184.216.34", "126.255.255.255", "128.0.0.1", "2606:4700:4700::1111", "2001:4860:4860::8888", "2a00:1450:4001:81b::200e"}
		var blocks []anet
		var specialCoq []string
		for _, s := range special {
			_, n, err := net.ParseCIDR(s)
			if err != nil {
				return err
			}
			a, _ := fromIPNet(n)
			blocks = append(blocks, a)
			specialCoq = append(specialCoq, a.Coq())
		}
		out.Data["special_coq"] = specialCoq
		var pubCoq []string
		for _, s := range public {
			ip := net.ParseIP(s)
			v6 := ip.To4() == nil
			var x *big.Int
			if v6 {
				x = new(big.Int).SetBytes(ip.To16())
			} else {
				x = new(big.Int).SetBytes(ip.To4())
			}
			pubCoq = append(pubCoq, fmt.Sprintf("(mkAddr %s %s)", famCoq(v6), nCoq(x)))
			addAddr(v6, x, "public")
			if util.IsIANAReserved(ip) {
				out.Violate("C19|public-reserved:"+s, "well-known public address "+s+" classified reserved", s, false, true)
			}
		}
		out.Data["public_coq"] = pubCoq
		blocks = append(blocks, table...)
		// edges of every block, and every super-net of every block
		supernetFail := 0
		for _, b := range blocks {
			w := b.width()
			size := new(big.Int).Lsh(one, uint(w-b.plen))
			last := new(big.Int).Add(b.base, new(big.Int).Sub(size, one))
			for _, x := range []*big.Int{b.base, last, new(big.Int).Sub(b.base, one), new(big.Int).Add(last, one), new(big.Int).Add(b.base, one),
				new(big.Int).Add(b.base, new(big.Int).Rsh(size, 1))} {
				addAddr(b.v6, x, "edge of "+b.String())
			}
			inter := addNet(b, "block")
			for l := b.plen - 1; l >= 0; l-- {
				if tier() != "thorough" && b.v6 && l%4 != 0 && l > 8 {
					continue
				}
				sup := netOf(b.v6, b.base, l)
				got := addNet(sup, "supernet of "+b.String())
				// the super-net written with the last address of its other half, and with the block's own last address
				supSize := new(big.Int).Lsh(one, uint(w-l))
				for _, hb := range []*big.Int{new(big.Int).Add(sup.base, new(big.Int).Sub(supSize, one)), last, new(big.Int).Xor(b.base, new(big.Int).Rsh(supSize, 1))} {
					if got2 := addNet(anet{b.v6, hb, l}, "supernet of "+b.String()+", host bits set"); got2 != got {
						out.Violate("C19|noncanonical-spelling:"+sup.String(), fmt.Sprintf("%s intersects reserved space = %v, the same range written %s/%d = %v", sup.String(), got, ipBytes(b.v6, hb), l, got2),
							map[string]interface{}{"net": sup.String(), "spelled": fmt.Sprintf("%s/%d", ipBytes(b.v6, hb), l)}, got, got2)
					}
				}
				// direct monitor: monotonicity under super-nets
				if inter && !got {
					supernetFail++
					out.Violate("C19|supernet-not-intersecting:"+sup.String(), fmt.Sprintf("%s intersects reserved space but its super-net %s does not", b.String(), sup.String()),
						map[string]interface{}{"net": sup.String(), "contains": b.String()}, true, false)
				}
			}
			// sub-blocks and single addresses inside
			for k := 0; k < 3; k++ {
				off := new(big.Int).Rand(newBigRand(rng), size)
				x := new(big.Int).Add(b.base, off)
				addAddr(b.v6, x, "inside "+b.String())
				l := b.plen + rng.Intn(w-b.plen+1)
				addNet(netOf(b.v6, x, l), "subnet of "+b.String())
				// single-address network = address test
				single := netOf(b.v6, x, w)
				if util.IntersectsIANAReserved(single.ipnet()) != util.IsIANAReserved(ipBytes(b.v6, x)) {
					out.Violate("C19|single-address:"+single.String(), "single-address network and address test disagree on "+single.String(), single.String(), nil, nil)
				}
			}
		}
		// random addresses and networks; completeness monitor: a network containing a reserved address intersects
		nRand := 1500
		if tier() == "thorough" {
			nRand = 40000
		}
		for i := 0; i < nRand; i++ {
			v6 := rng.Intn(3) == 0
			w := 32
			if v6 {
				w = 128
			}
			x := new(big.Int).SetBytes(rng.Bytes(w / 8))
			if v6 && rng.Bool() {
				// bias into allocated space 2000::/3 and the low end
				x.SetBit(x, 127, 0).SetBit(x, 126, 0).SetBit(x, 125, 1)
			}
			addAddr(v6, x, "random")
			l := rng.Intn(w + 1)
			n := netOf(v6, x, l)
			got := addNet(n, "random")
			// the same range spelled with host bits left in the address (10.1.2.3/8, 11.0.0.0/7): nothing obliges the
			// caller of the exported function, or the encoder of a name constraint, to clear them
			if got2 := addNet(anet{v6, new(big.Int).Set(x), l}, "random, host bits set"); got2 != got {
				out.Violate("C19|noncanonical-spelling:"+n.String(), fmt.Sprintf("%s intersects reserved space = %v, the same range written %s/%d = %v", n.String(), got, ipBytes(v6, x), l, got2),
					map[string]interface{}{"net": n.String(), "spelled": fmt.Sprintf("%s/%d", ipBytes(v6, x), l)}, got, got2)
			}
			if util.IsIANAReserved(ipBytes(v6, x)) && !got {
				out.Violate("C19|contains-reserved-not-intersecting:"+n.String(), fmt.Sprintf("%s contains the reserved address %s but does not intersect", n.String(), ipBytes(v6, x)),
					map[string]interface{}{"net": n.String(), "address": ipBytes(v6, x).String()}, true, false)
			}
		}
		out.Stats["supernet_failures"] = supernetFail
		// the classification of an address is a function of the address: asked again, in the reverse order, every address
		// gets the answer it got the first time
		for i := len(asked) - 1; i >= 0; i-- {
			if again := util.IsIANAReserved(asked[i].ip); again != asked[i].got {
				out.Violate("C19|address-answer-changes:"+asked[i].ip.String(), fmt.Sprintf("IsIANAReserved(%s) was %v the first time and %v when asked again after other addresses", asked[i].ip, asked[i].got, again), asked[i].ip.String(), asked[i].got, again)
			}
		}
		// ... and whoever else is asking at the same time: the same questions from sixteen goroutines, each walking the
		// addresses in its own order, get the answers they got alone
		{
			var wg sync.WaitGroup
			var mu sync.Mutex
			var problems []string
			rounds := 3
			if tier() == "thorough" {
				rounds = 30
			}
			for w := 0; w < 16; w++ {
				wg.Add(1)
				go func(id int) {
					defer wg.Done()
					defer func() {
						if pv := recover(); pv != nil {
							mu.Lock()
							problems = append(problems, fmt.Sprintf("panic: %v", pv))
							mu.Unlock()
						}
					}()
					n := len(asked)
					for r := 0; r < rounds; r++ {
						for k := 0; k < n; k++ {
							a := asked[(k*(2*id+1)+id*977)%n]
							got := util.IsIANAReserved(a.ip)
							w2 := 8 * len(a.ip)
							gotN := util.IntersectsIANAReserved(net.IPNet{IP: a.ip, Mask: net.CIDRMask(w2, w2)})
							if got != a.got || gotN != a.got {
								mu.Lock()
								if len(problems) < 6 {
									problems = append(problems, fmt.Sprintf("%s: reserved = %v / single-address network intersects = %v while other goroutines classify addresses, %v alone", a.ip, got, gotN, a.got))
								}
								mu.Unlock()
							}
						}
					}
				}(w)
			}
			wg.Wait()
			for _, pr := range problems {
				out.Violate("C19|concurrent-answer-differs", pr, map[string]interface{}{"goroutines": 16, "addresses": len(asked)}, nil, nil)
			}
			out.Stats["concurrent_address_questions"] = 16 * rounds * len(asked) * 2
		}
		// the lints on real certificates (SAN iPAddress, CN, permitted name constraints)
		g := lint.GlobalRegistry()
		fr, err := g.Filter(lint.FilterOptions{IncludeNames: []string{"e_ext_san_contains_reserved_ip", "e_subject_contains_reserved_ip", "e_ext_nc_intersects_reserved_ip"}})
		if err != nil {
			return err
		}
		ipPool := []string{"10.1.2.3", "8.8.8.8", "127.0.0.1", "126.0.0.1", "192.0.2.55", "100.64.0.1", "100.128.0.1", "224.0.0.1", "255.255.255.255", "0.0.0.0",
			"169.254.1.1", "192.168.255.255", "192.169.0.0", "::1", "::", "2001:db8::1", "2606:4700::1", "fe80::1", "fc00::1", "ff02::1", "2002:808:808::1", "100::1", "64:ff9b::808:808"}
		nLint := 60
		if tier() == "thorough" {
			nLint = 600
		}
		// directed: every ordered pair (and some triples) over public / reserved addresses of both families - the verdict
		// is about the set of addresses, whatever their order, family mix or repetition
		small := []string{"8.8.8.8", "10.1.2.3", "2606:4700:4700::1111", "2001:4860:4860::8888", "fd00::1", "fe80::1", "::ffff:8.8.4.4", "::1"}
		var directed [][]string
		for _, a := range small {
			for _, b := range small {
				directed = append(directed, []string{a, b})
			}
		}
		for _, t := range [][]string{{"2606:4700:4700::1111", "2001:4860:4860::8888", "2001:db8::1"}, {"8.8.8.8", "2606:4700:4700::1111", "ff02::1"}, {"2606:4700:4700::1111", "8.8.8.8", "100::1"},
			{"2606:4700:4700::1111", "2606:4700:4700::1111", "2002:808:808::1"}, {"1.1.1.1", "8.8.8.8", "9.9.9.9", "192.168.1.1"}} {
			directed = append(directed, t)
		}
		// and every address of the pool as the subject common name, in lower and upper case
		var cnDirected []string
		for _, a := range ipPool {
			cnDirected = append(cnDirected, a)
			if up := strings.ToUpper(a); up != a {
				cnDirected = append(cnDirected, up)
			}
		}
		cnDirected = append(cnDirected, "fd12:3456:789a::1", "FD00::25", "Fe80::1", "a::", "::ffff:10.0.0.1", "0:0:0:0:0:0:0:1", "010.0.0.1", "10.0.0.1.", " 10.0.0.1")
		for i := 0; i < nLint+len(directed)+len(cnDirected); i++ {
			tmpl := leafTemplate()
			tmpl.NotAfter = time.Date(2024, 9, 1, 0, 0, 0, 0, time.UTC)
			var ips []net.IP
			var ipsCoq []string
			if i < len(directed) {
				for _, a := range directed[i] {
					ip := net.ParseIP(a)
					if ip4 := ip.To4(); ip4 != nil && !strings.HasPrefix(a, "::ffff:") {
						ip = ip4
					}
					ips = append(ips, ip)
				}
			}
			for k := rng.Intn(4); k > 0 && i >= len(directed); k-- {
				ip := net.ParseIP(pick(rng, ipPool))
				if rng.Intn(3) == 0 {
					v6 := rng.Bool()
					wb := 4
					if v6 {
						wb = 16
					}
					ip = net.IP(rng.Bytes(wb))
				}
				ips = append(ips, ip)
			}
			tmpl.IPAddresses = ips
			cnIP := ""
			if i >= nLint+len(directed) {
				cnIP = cnDirected[i-nLint-len(directed)]
				tmpl.Subject.CommonName = cnIP
				tmpl.IPAddresses = nil
			} else if rng.Intn(3) == 0 {
				cnIP = pick(rng, ipPool)
				tmpl.Subject.CommonName = cnIP
			}
			var nets []*net.IPNet
			var netsCoq []string
			if rng.Intn(2) == 0 {
				tmpl.IsCA, tmpl.KeyUsage = true, stdx509.KeyUsageCertSign
				tmpl.PermittedDNSDomainsCritical = true
				for k := 1 + rng.Intn(3); k > 0; k-- {
					ip := net.ParseIP(pick(rng, ipPool))
					v6 := ip.To4() == nil
					w := 32
					var x *big.Int
					if v6 {
						w = 128
						x = new(big.Int).SetBytes(ip.To16())
					} else {
						x = new(big.Int).SetBytes(ip.To4())
					}
					n := netOf(v6, x, rng.Intn(w+1))
					ipn := n.ipnet()
					nets = append(nets, &ipn)
				}
				tmpl.PermittedIPRanges = nets
			}
			der, c, err := issue(tmpl, nil)
			if err != nil {
				out.Count("lint_certs_rejected", 1)
				continue
			}
			for _, ip := range c.IPAddresses {
				v6 := ip.To4() == nil
				var x *big.Int
				if v6 {
					x = new(big.Int).SetBytes(ip.To16())
				} else {
					x = new(big.Int).SetBytes(ip.To4())
				}
				ipsCoq = append(ipsCoq, fmt.Sprintf("(mkAddr %s %s)", famCoq(v6), nCoq(x)))
			}
			var cnCoq []string
			if ip := net.ParseIP(c.Subject.CommonName); ip != nil {
				v6 := ip.To4() == nil
				var x *big.Int
				if v6 {
					x = new(big.Int).SetBytes(ip.To16())
				} else {
					x = new(big.Int).SetBytes(ip.To4())
				}
				cnCoq = append(cnCoq, fmt.Sprintf("(mkAddr %s %s)", famCoq(v6), nCoq(x)))
			}
			for _, pn := range c.PermittedIPAddresses {
				ipn := pn.Data
				a, ok := fromIPNet(&ipn)
				if ok {
					netsCoq = append(netsCoq, a.Coq())
				}
			}
			rs := zlint.LintCertificateEx(c, fr)
			st := func(n string) int {
				if r := rs.Results[n]; r != nil {
					return int(r.Status)
				}
				return 0
			}
			s1, s2, s3 := st("e_ext_san_contains_reserved_ip"), st("e_subject_contains_reserved_ip"), st("e_ext_nc_intersects_reserved_ip")
			// direct: the SAN lint reports exactly when some listed address is reserved (the address predicate itself is
			// compared with the model above)
			if s1 == int(lint.Pass) || s1 == int(lint.Error) {
				anyReserved := false
				for _, ip := range c.IPAddresses {
					if util.IsIANAReserved(ip) {
						anyReserved = true
					}
				}
				if anyReserved != (s1 == int(lint.Error)) {
					out.Violate("C19|san-lint-disagrees-with-predicate", fmt.Sprintf("e_ext_san_contains_reserved_ip reports %d on addresses %v (some reserved: %v)", s1, c.IPAddresses, anyReserved),
						map[string]interface{}{"ips": fmt.Sprint(c.IPAddresses), "der": hexs(der)}, anyReserved, s1)
				}
			}
			// the same for the common name: reported exactly when it is the text of a reserved address
			if s2 == int(lint.Pass) || s2 == int(lint.Error) {
				ip := net.ParseIP(c.Subject.CommonName)
				want := ip != nil && util.IsIANAReserved(ip)
				if want != (s2 == int(lint.Error)) {
					out.Violate("C19|subject-lint-disagrees-with-predicate", fmt.Sprintf("e_subject_contains_reserved_ip reports %d on the common name %q (a reserved address: %v)", s2, c.Subject.CommonName, want),
						map[string]interface{}{"cn": c.Subject.CommonName, "der": hexs(der)}, want, s2)
				}
			}
			out.Add("lints", Case{Coq: fmt.Sprintf("(%s, %s, %s, (%s, %s, %s))", cqTyped(ipsCoq, "addr"), cqTyped(cnCoq, "addr"), cqTyped(netsCoq, "net"), cqZ(int64(s1)), cqZ(int64(s2)), cqZ(int64(s3))),
				Tag: fmt.Sprintf("%d%d%d", s1, s2, s3), Desc: map[string]interface{}{"ips": fmt.Sprint(c.IPAddresses), "cn": c.Subject.CommonName, "nets": fmt.Sprint(nets), "statuses": []int{s1, s2, s3}, "der": hexs(der)}})
		}
		// "the lints report accordingly" for every certificate the rule covers: BRs 7.1.4.2.1 forbid reserved addresses in
		// certificates that expire after 2015-11-01, for everything issued under the BRs (from 2012-07-01) - a ladder of
		// issue and expiry dates around both instants; reserved content must be reported exactly inside that region
		{
			brStart, cutoff := time.Date(2012, 7, 1, 0, 0, 0, 0, time.UTC), time.Date(2015, 11, 1, 0, 0, 0, 0, time.UTC)
			type span struct{ nb, na time.Time }
			spans := []span{{brStart, cutoff.Add(time.Second)}, {brStart.Add(-time.Second), cutoff.AddDate(1, 0, 0)}, {time.Date(2014, 6, 1, 0, 0, 0, 0, time.UTC), time.Date(2016, 6, 1, 0, 0, 0, 0, time.UTC)},
				{time.Date(2015, 10, 31, 0, 0, 0, 0, time.UTC), cutoff.Add(time.Second)}, {time.Date(2013, 1, 1, 0, 0, 0, 0, time.UTC), cutoff}, {time.Date(2013, 1, 1, 0, 0, 0, 0, time.UTC), cutoff.Add(-time.Second)},
				{cutoff, cutoff.AddDate(0, 6, 0)}, {time.Date(2016, 3, 1, 0, 0, 0, 0, time.UTC), time.Date(2017, 3, 1, 0, 0, 0, 0, time.UTC)}, {time.Date(2024, 3, 1, 0, 0, 0, 0, time.UTC), time.Date(2025, 3, 1, 0, 0, 0, 0, time.UTC)}}
			ladder := 0
			for _, sp := range spans {
				want := int(lint.Error)
				switch {
				case sp.nb.Before(brStart):
					want = int(lint.NE)
				case !sp.na.After(cutoff):
					want = int(lint.NA)
				}
				for _, addr := range []string{"10.1.2.3", "192.168.0.1", "fd00::1"} {
					t := leafTemplate()
					t.NotBefore, t.NotAfter = sp.nb, sp.na
					t.IPAddresses = []net.IP{net.ParseIP(addr)}
					t.Subject.CommonName = addr
					der, c, err := issue(t, nil)
					if err != nil {
						continue
					}
					rs := zlint.LintCertificateEx(c, fr)
					for _, ln := range []string{"e_ext_san_contains_reserved_ip", "e_subject_contains_reserved_ip"} {
						ladder++
						if r := rs.Results[ln]; r != nil && int(r.Status) != want {
							out.Violate("C19|lint-date-region:"+ln, fmt.Sprintf("%s reports %s for the reserved address %s in a certificate valid %s .. %s; the rule covers certificates issued from 2012-07-01 that expire after 2015-11-01, so %s is expected",
								ln, r.Status, addr, sp.nb.Format(time.RFC3339), sp.na.Format(time.RFC3339), lint.LintStatus(want)), map[string]interface{}{"der": hexs(der), "address": addr}, lint.LintStatus(want).String(), r.Status.String())
						}
					}
				}
				ca := leafTemplate()
				ca.IsCA, ca.BasicConstraintsValid, ca.KeyUsage, ca.PermittedDNSDomainsCritical = true, true, stdx509.KeyUsageCertSign, true
				ca.NotBefore, ca.NotAfter = sp.nb, sp.na
				_, n10, _ := net.ParseCIDR("10.0.0.0/8")
				ca.PermittedIPRanges = []*net.IPNet{n10}
				if der, c, err := issue(ca, nil); err == nil {
					ladder++
					if r := zlint.LintCertificateEx(c, fr).Results["e_ext_nc_intersects_reserved_ip"]; r != nil && int(r.Status) != want {
						out.Violate("C19|lint-date-region:e_ext_nc_intersects_reserved_ip", fmt.Sprintf("e_ext_nc_intersects_reserved_ip reports %s for the permitted range 10.0.0.0/8 in a CA certificate valid %s .. %s; %s is expected",
							r.Status, sp.nb.Format(time.RFC3339), sp.na.Format(time.RFC3339), lint.LintStatus(want)), map[string]interface{}{"der": hexs(der)}, lint.LintStatus(want).String(), r.Status.String())
					}
				}
			}
			for _, cidr := range []string{"0.0.0.0/0", "::/0", "0.0.0.0/1", "128.0.0.0/1", "::/1", "8000::/1", "0.0.0.0/2", "2000::/3", "8.8.8.0/24", "2606:4700::/32"} {
				_, nw, err := net.ParseCIDR(cidr)
				if err != nil {
					continue
				}
				ca := leafTemplate()
				ca.IsCA, ca.BasicConstraintsValid, ca.KeyUsage, ca.PermittedDNSDomainsCritical = true, true, stdx509.KeyUsageCertSign, true
				ca.PermittedIPRanges = []*net.IPNet{nw}
				if der, c, err := issue(ca, nil); err == nil {
					ladder++
					want := int(lint.Pass)
					if util.IntersectsIANAReserved(*nw) {
						want = int(lint.Error)
					}
					if r := zlint.LintCertificateEx(c, fr).Results["e_ext_nc_intersects_reserved_ip"]; r != nil && int(r.Status) != want {
						out.Violate("C19|nc-lint-disagrees-with-predicate:"+cidr, fmt.Sprintf("e_ext_nc_intersects_reserved_ip reports %s for the permitted range %s, while util.IntersectsIANAReserved (compared with the model above) says %v", r.Status, cidr, want == int(lint.Error)),
							map[string]interface{}{"der": hexs(der), "range": cidr}, lint.LintStatus(want).String(), r.Status.String())
					}
				}
			}
			out.Stats["lint_date_region_probes"] = ladder
		}
		// the two reverse-DNS lints (Kernels/Arpa.v) on directed names of both zones and on the zoo
		{
			seenA := map[string]bool{}
			addA := func(c *x509.Certificate, what string, der []byte) {
				if term, tag, ok := arpaCase(c); ok && !seenA[term] {
					seenA[term] = true
					out.Add("arpa", Case{Coq: term, Tag: tag, Desc: map[string]interface{}{"object": what, "cn": c.Subject.CommonName, "dns": c.DNSNames, "der": hexs(der)}})
				}
			}
			for i, der := range arpaCerts(rng) {
				if c, err := safeParseCert(der); err == nil {
					addA(c, fmt.Sprintf("reverse-DNS probe %d", i), der)
				}
			}
			for _, zc := range certZoo() {
				if zc.Class == "name" || zc.Class == "related-names" {
					addA(zc.Cert, zc.File, zc.DER)
				}
			}
		}
		// name constraints whose address carries bits outside the mask (an iPAddress constraint is address||mask; nothing
		// makes the encoder clear the host bits): the range is the same set of addresses as its canonical spelling, so the
		// lint reports the same
		{
			type hb struct {
				ip   string
				plen int
			}
			cases := []hb{{"::ffff", 112}, {"::1:0:0", 64}, {"::8000:0:1", 80}, {"11.0.0.0", 7}, {"2001:db9::", 31}, {"0.0.0.5", 24}, {"9.255.255.255", 7}, {"8.8.8.8", 6}, {"8.8.8.8", 8},
				{"193.0.2.1", 7}, {"100.128.0.1", 9}, {"100.128.0.1", 10}, {"2606:4700::1", 32}, {"2606:4700::1", 3}, {"fd00::1", 8}, {"fbff::1", 7}, {"1::", 15}, {"1.2.3.4", 0}, {"2600::1", 0}}
			nr := 40
			if tier() == "thorough" {
				nr = 600
			}
			for i := 0; i < nr; i++ {
				v6 := rng.Bool()
				wb := 4
				if v6 {
					wb = 16
				}
				ip := net.IP(rng.Bytes(wb))
				if v6 && rng.Bool() {
					ip[0] = 0x20 | ip[0]&0x1f
				}
				cases = append(cases, hb{ip.String(), rng.Intn(wb*8 + 1)})
			}
			ncCert := func(ip net.IP, mask net.IPMask) (*x509.Certificate, []byte) {
				tmpl := leafTemplate()
				tmpl.IsCA, tmpl.KeyUsage, tmpl.BasicConstraintsValid = true, stdx509.KeyUsageCertSign, true
				val := encTLV(0x30, encTLV(0xa0, encTLV(0x30, encTLV(0x87, append(append([]byte{}, ip...), mask...)))))
				tmpl.ExtraExtensions = append(tmpl.ExtraExtensions, pkix.Extension{Id: asn1.ObjectIdentifier{2, 5, 29, 30}, Critical: true, Value: val})
				der, c, err := issue(tmpl, nil)
				if err != nil {
					return nil, nil
				}
				return c, der
			}
			ncRuns := 0
			for _, hc := range cases {
				ip := net.ParseIP(hc.ip)
				if ip == nil {
					continue
				}
				v6 := ip.To4() == nil
				w := 128
				if !v6 {
					ip, w = ip.To4(), 32
				}
				mask := net.CIDRMask(hc.plen, w)
				status := map[bool]int{}
				for _, canonical := range []bool{true, false} {
					addr := ip
					if canonical {
						addr = ip.Mask(mask)
					}
					c, der := ncCert(addr, mask)
					if c == nil || len(c.PermittedIPAddresses) != 1 {
						continue
					}
					ncRuns++
					s3 := 0
					if r := zlint.LintCertificateEx(c, fr).Results["e_ext_nc_intersects_reserved_ip"]; r != nil {
						s3 = int(r.Status)
					}
					status[canonical] = s3
					ipn := c.PermittedIPAddresses[0].Data
					var x *big.Int
					if v6 {
						x = new(big.Int).SetBytes(ipn.IP.To16())
					} else {
						x = new(big.Int).SetBytes(ipn.IP.To4())
					}
					ones, _ := ipn.Mask.Size()
					an := anet{v6, x, ones}
					out.Add("lints", Case{Coq: fmt.Sprintf("(%s, %s, %s, (%s, %s, %s))", cqTyped(nil, "addr"), cqTyped(nil, "addr"), cqTyped([]string{an.Coq()}, "net"), cqZ(3), cqZ(3), cqZ(int64(s3))),
						Tag: fmt.Sprintf("nc-%v-%d", canonical, s3), Desc: map[string]interface{}{"permitted": fmt.Sprintf("%s mask %s", ipn.IP, net.IP(ipn.Mask)), "canonical_spelling": canonical, "status": s3, "der": hexs(der)}})
				}
				if a, okA := status[true]; okA {
					if b, okB := status[false]; okB && a != b {
						out.Violate("C19|nc-lint-spelling:"+fmt.Sprintf("%s/%d", hc.ip, hc.plen), fmt.Sprintf("e_ext_nc_intersects_reserved_ip reports %d on the permitted range %s/%d written with its first address and %d on the same range written with the address %s (host bits set)", a, ip.Mask(mask), hc.plen, b, hc.ip),
							map[string]interface{}{"address": hc.ip, "prefix": hc.plen}, a, b)
					}
				}
			}
			// permitted ranges next to excluded ranges (nested in either direction, sharing the first address, disjoint): the
			// lint is about what is permitted; an exclusion of a part does not make the rest of a reserved range acceptable
			type pe struct{ p, e string }
			for _, c2 := range []pe{{"10.0.0.0/8", "10.0.0.0/24"}, {"10.0.0.0/8", "10.0.0.0/8"}, {"10.0.0.0/24", "10.0.0.0/8"}, {"8.0.0.0/6", "8.0.0.0/8"}, {"8.0.0.0/6", "10.0.0.0/8"}, {"8.8.8.0/24", "8.8.8.0/25"},
				{"8.8.8.0/24", "10.0.0.0/8"}, {"2001:db8::/32", "2001:db8::/64"}, {"2000::/3", "2000::/4"}, {"2606:4700::/32", "2606:4700::/48"}, {"192.168.0.0/16", "192.168.0.0/17"}, {"0.0.0.0/0", "0.0.0.0/1"}} {
				_, pn, e1 := net.ParseCIDR(c2.p)
				_, en, e2 := net.ParseCIDR(c2.e)
				if e1 != nil || e2 != nil {
					continue
				}
				enc := func(n *net.IPNet) []byte {
					ip := n.IP
					if ip4 := ip.To4(); ip4 != nil && len(n.Mask) == 4 {
						ip = ip4
					}
					return encTLV(0x30, encTLV(0x87, append(append([]byte{}, ip...), n.Mask...)))
				}
				status := map[bool]int{}
				for _, withExcluded := range []bool{false, true} {
					tmpl := leafTemplate()
					tmpl.IsCA, tmpl.KeyUsage, tmpl.BasicConstraintsValid = true, stdx509.KeyUsageCertSign, true
					val := encTLV(0xa0, enc(pn))
					if withExcluded {
						val = concat(val, encTLV(0xa1, enc(en)))
					}
					tmpl.ExtraExtensions = append(tmpl.ExtraExtensions, pkix.Extension{Id: asn1.ObjectIdentifier{2, 5, 29, 30}, Critical: true, Value: encTLV(0x30, val)})
					der, c, err := issue(tmpl, nil)
					if err != nil || len(c.PermittedIPAddresses) != 1 {
						continue
					}
					ncRuns++
					s3 := 0
					if r := zlint.LintCertificateEx(c, fr).Results["e_ext_nc_intersects_reserved_ip"]; r != nil {
						s3 = int(r.Status)
					}
					status[withExcluded] = s3
					if a, ok := fromIPNet(&c.PermittedIPAddresses[0].Data); ok {
						out.Add("lints", Case{Coq: fmt.Sprintf("(%s, %s, %s, (%s, %s, %s))", cqTyped(nil, "addr"), cqTyped(nil, "addr"), cqTyped([]string{a.Coq()}, "net"), cqZ(3), cqZ(3), cqZ(int64(s3))),
							Tag: fmt.Sprintf("nc-excl-%v-%d", withExcluded, s3), Desc: map[string]interface{}{"permitted": c2.p, "excluded": map[bool]string{true: c2.e, false: ""}[withExcluded], "status": s3, "der": hexs(der)}})
					}
				}
				if a, okA := status[false]; okA {
					if b, okB := status[true]; okB && a != b {
						out.Violate("C19|nc-lint-excluded:"+c2.p, fmt.Sprintf("e_ext_nc_intersects_reserved_ip reports %d on permitted %s and %d when %s is excluded as well", a, c2.p, b, c2.e), map[string]interface{}{"permitted": c2.p, "excluded": c2.e}, a, b)
					}
				}
			}
			out.Stats["nc_spelling_runs"] = ncRuns
		}
		return out.Emit()
	}
}

func newBigRand(r *Rng) *mrand { return rand.New(mrandSrc{r}) }
