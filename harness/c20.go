package main

import (
	crand "crypto/rand"
	"crypto/rsa"
	"bytes"
	stdx509 "crypto/x509"
	"crypto/x509/pkix"
	"encoding/asn1"
	"fmt"
	"net/url"
	"strings"
	"time"

	"github.com/zmap/zcrypto/x509"
	"github.com/zmap/zlint/v3"
	"github.com/zmap/zlint/v3/lint"
	"github.com/zmap/zlint/v3/util"
)

type lintPair struct {
	a, b string
	mode string // same | finding | implies (a is an error => b is a finding)
	pre  string // the same-content precondition: label | any | sanian | dn
}

func strsEq(a, b []string) bool {
	if len(a) != len(b) {
		return false
	}
	for i := range a {
		if a[i] != b[i] {
			return false
		}
	}
	return true
}

// samecontent: does the pair's precondition hold on this certificate?
func sameContent(pre string, c *x509.Certificate) bool {
	switch pre {
	case "label": // common name empty, an IP, or one of the SAN dNSNames
		cn := c.Subject.CommonName
		return cn == "" || util.CommonNameIsIP(c) || contains(c.DNSNames, cn)
	case "sanian": // both extensions present and carrying the same names
		if !util.IsExtInCert(c, util.SubjectAlternateNameOID) || !util.IsExtInCert(c, util.IssuerAlternateNameOID) {
			return false
		}
		if len(c.IPAddresses) != len(c.IANIPAddresses) || len(c.OtherNames) != len(c.IANOtherNames) || len(c.DirectoryNames) != len(c.IANDirectoryNames) ||
			len(c.RegisteredIDs) != len(c.IANRegisteredIDs) || len(c.EDIPartyNames) != len(c.IANEDIPartyNames) {
			return false
		}
		return strsEq(c.DNSNames, c.IANDNSNames) && strsEq(c.EmailAddresses, c.IANEmailAddresses) && strsEq(c.URIs, c.IANURIs)
	case "dn":
		return bytes.Equal(c.RawIssuer, c.RawSubject)
	}
	return true
}

var lintPairs = []lintPair{
	{"e_rfc_dnsname_hyphen_in_sld", "e_dnsname_hyphen_in_sld", "same", "label"},
	{"e_rfc_dnsname_underscore_in_sld", "e_dnsname_underscore_in_sld", "same", "label"},
	{"w_rfc_dnsname_underscore_in_trd", "w_dnsname_underscore_in_trd", "same", "label"},
	{"e_rfc_dnsname_empty_label", "e_dnsname_empty_label", "same", "label"},
	{"e_rfc_dnsname_label_too_long", "e_dnsname_label_too_long", "same", "label"},
	{"e_prohibit_dsa_usage", "e_br_prohibit_dsa_usage", "same", "any"},
	{"w_sub_cert_aia_contains_internal_names", "w_smime_aia_contains_internal_names", "same", "any"}, // both copies are w_ lints with identical text: same status
	{"e_ext_san_dns_not_ia5_string", "e_ext_ian_dns_not_ia5_string", "same", "sanian"},
	{"e_ext_san_empty_name", "e_ext_ian_empty_name", "same", "sanian"},
	{"e_ext_san_no_entries", "e_ext_ian_no_entries", "same", "sanian"},
	{"e_ext_san_rfc822_format_invalid", "e_ext_ian_rfc822_format_invalid", "same", "sanian"},
	{"e_ext_san_space_dns_name", "e_ext_ian_space_dns_name", "same", "sanian"},
	{"e_ext_san_uri_format_invalid", "e_ext_ian_uri_format_invalid", "same", "sanian"},
	{"e_ext_san_uri_host_not_fqdn_or_ip", "e_ext_ian_uri_host_not_fqdn_or_ip", "same", "sanian"},
	{"e_ext_san_uri_not_ia5", "e_ext_ian_uri_not_ia5", "same", "sanian"},
	{"e_ext_san_uri_relative", "e_ext_ian_uri_relative", "same", "sanian"},
	// the community general-name rules that exist once for subjectAltName and once for issuerAltName
	{"e_san_bare_wildcard", "e_ian_bare_wildcard", "same", "sanian"},
	{"e_san_dns_name_includes_null_char", "e_ian_dns_name_includes_null_char", "same", "sanian"},
	{"e_san_dns_name_starts_with_period", "e_ian_dns_name_starts_with_period", "same", "sanian"},
	{"e_san_wildcard_not_first", "e_ian_wildcard_not_first", "same", "sanian"},
	{"n_san_iana_pub_suffix_empty", "w_ian_iana_pub_suffix_empty", "finding", "sanian"},
	{"w_subject_dn_leading_whitespace", "w_issuer_dn_leading_whitespace", "same", "dn"},
	{"w_subject_dn_trailing_whitespace", "w_issuer_dn_trailing_whitespace", "same", "dn"},
	{"n_multiple_subject_rdn", "w_multiple_issuer_rdn", "finding", "dn"},
	{"e_subject_dn_country_not_printable_string", "e_issuer_dn_country_not_printable_string", "same", "dn"},
	{"e_tls_server_cert_valid_time_longer_than_398_days", "w_tls_server_cert_valid_time_longer_than_397_days", "implies", "any"},
	{"e_subject_given_name_max_length", "w_subject_given_name_recommended_max_length", "implies", "any"},
	{"e_subject_surname_max_length", "w_subject_surname_recommended_max_length", "implies", "any"},
}

func isFinding(s lint.LintStatus) bool { return s == lint.Notice || s == lint.Warn || s == lint.Error }

func rdnAttr(oid asn1.ObjectIdentifier, tag byte, val []byte) []byte {
	o, _ := asn1.Marshal(oid)
	return encTLV(0x30, concat(o, encTLV(tag, val)))
}

func init() {
	commands["c20"] = func(args []string) error {
		out := NewOutput()
		rng := NewRng(seedFromEnv(), "c20")
		g := lint.GlobalRegistry()
		for _, p := range lintPairs {
			for _, n := range []string{p.a, p.b} {
				if g.CertificateLints().ByName(n) == nil {
					out.Violate("C20|pair-member-missing:"+n, "lint "+n+" of a duplicated-rule pair is not registered", n, nil, nil)
				}
			}
		}
		bothRan := map[string]int{}
		seenGN := map[string]bool{}
		// the six S/MIME key-usage bodies on their whole domain (Kernels/SmimeKu.v)
		smimeKuCases(func(term, tag string, desc map[string]interface{}) {
			out.Add("smimeku", Case{Coq: term, Tag: tag, Desc: desc})
		})
		kuMaskCases(func(term, tag string, desc map[string]interface{}) {
			out.Add("kumasks", Case{Coq: term, Tag: tag, Desc: desc})
		})
		for i, der := range policyProbes() {
			if c, err := safeParseCert(der); err == nil {
				if term, tag, ok := policyCase(c); ok && !seenGN["pol"+term] {
					seenGN["pol"+term] = true
					out.Add("policies", Case{Coq: term, Tag: tag, Desc: map[string]interface{}{"object": fmt.Sprintf("certificatePolicies probe %d", i), "der": hexs(der)}})
				}
			}
		}
		for i, c := range ncFormProbes() {
			if term, tag, ok := ncFormCase(c); ok && !seenGN["ncf"+term] {
				seenGN["ncf"+term] = true
				out.Add("ncform", Case{Coq: term, Tag: tag, Desc: map[string]interface{}{"object": fmt.Sprintf("name-constraints form probe %d", i)}})
			}
		}
		for i, c := range headerProbes() {
			if term, tag, ok := headerCase(c); ok && !seenGN["hdr"+headerKey(c)] {
				seenGN["hdr"+headerKey(c)] = true
				out.Add("header", Case{Coq: term, Tag: tag, Desc: map[string]interface{}{"object": fmt.Sprintf("fixed-field probe %d", i), "serial": c.SerialNumber.String(), "version": c.Version}})
			}
		}
		// directly built certificate values carrying each of the fourteen extensions critical / not critical in the three roles
		for i, c := range critCerts() {
			if term, tag, ok := critCase(c); ok && !seenGN["crit"+term] {
				seenGN["crit"+term] = true
				out.Add("crit", Case{Coq: term, Tag: tag, Desc: map[string]interface{}{"object": fmt.Sprintf("built extension set %d", i), "is_ca": c.IsCA, "self_signed": c.SelfSigned}})
			}
			if term, tag, ok := caKuCase(c); ok && !seenGN["caku"+term] {
				seenGN["caku"+term] = true
				out.Add("caku", Case{Coq: term, Tag: tag, Desc: map[string]interface{}{"object": fmt.Sprintf("built extension set %d", i)}})
			}
			if term, tag, ok := extPresenceCase(c); ok && !seenGN["xp"+term] {
				seenGN["xp"+term] = true
				out.Add("extpres", Case{Coq: term, Tag: tag, Desc: map[string]interface{}{"object": fmt.Sprintf("built extension set %d", i)}})
			}
		}
		check := func(c *x509.Certificate, what string, detail map[string]interface{}) {
			tick()
			// the seventeen general-name lints against their full model (Kernels/GeneralNames.v)
			if term, tag, ok := gnCase(c); ok && !seenGN[term] {
				seenGN[term] = true
				out.Add("gn", Case{Coq: term, Tag: tag, Desc: map[string]interface{}{"object": what, "ian_dns": c.IANDNSNames}})
			}
			if term, tag, ok := gnRawCase(c); ok && !seenGN["raw"+term] {
				seenGN["raw"+term] = true
				out.Add("gnraw", Case{Coq: term, Tag: tag, Desc: map[string]interface{}{"object": what}})
			}
			// the nineteen basicConstraints / keyUsage / extKeyUsage lints with their applicability (Kernels/CaKu.v)
			if term, tag, ok := caKuCase(c); ok && !seenGN["caku"+term] {
				seenGN["caku"+term] = true
				out.Add("caku", Case{Coq: term, Tag: tag, Desc: map[string]interface{}{"object": what, "is_ca": c.IsCA, "self_signed": c.SelfSigned, "key_usage": int(c.KeyUsage)}})
			}
			// four certificatePolicies lints (Kernels/Policies.v)
			if term, tag, ok := policyCase(c); ok && !seenGN["pol"+term] {
				seenGN["pol"+term] = true
				out.Add("policies", Case{Coq: term, Tag: tag, Desc: map[string]interface{}{"object": what, "policies": fmt.Sprint(c.PolicyIdentifiers)}})
			}
			// the six lints about the form of nameConstraints (Kernels/NcForm.v)
			if term, tag, ok := ncFormCase(c); ok && !seenGN["ncf"+term] {
				seenGN["ncf"+term] = true
				out.Add("ncform", Case{Coq: term, Tag: tag, Desc: map[string]interface{}{"object": what}})
			}
			// the seven fixed-field lints (Kernels/Header.v)
			if term, tag, ok := headerCase(c); ok && !seenGN["hdr"+headerKey(c)] {
				seenGN["hdr"+headerKey(c)] = true
				out.Add("header", Case{Coq: term, Tag: tag, Desc: map[string]interface{}{"object": what, "serial": c.SerialNumber.String(), "version": c.Version}})
			}
			// ten extension-presence lints with their applicability (Kernels/ExtPresence.v)
			if term, tag, ok := extPresenceCase(c); ok && !seenGN["xp"+term] {
				seenGN["xp"+term] = true
				out.Add("extpres", Case{Coq: term, Tag: tag, Desc: map[string]interface{}{"object": what, "is_ca": c.IsCA, "self_signed": c.SelfSigned}})
			}
			// the twenty criticality lints with their applicability (Kernels/Crit.v)
			if term, tag, ok := critCase(c); ok && !seenGN["crit"+term] {
				seenGN["crit"+term] = true
				out.Add("crit", Case{Coq: term, Tag: tag, Desc: map[string]interface{}{"object": what, "is_ca": c.IsCA, "self_signed": c.SelfSigned}})
			}
			rs := zlint.LintCertificate(c).Results
			for _, p := range lintPairs {
				ra, rb := rs[p.a], rs[p.b]
				if ra == nil || rb == nil {
					continue
				}
				if ra.Status == lint.NA || ra.Status == lint.NE || rb.Status == lint.NA || rb.Status == lint.NE {
					continue
				}
				if !sameContent(p.pre, c) {
					continue
				}
				bothRan[p.a]++
				bad := false
				switch p.mode {
				case "same":
					bad = ra.Status != rb.Status
				case "finding":
					bad = isFinding(ra.Status) != isFinding(rb.Status) || (ra.Status == lint.Fatal) != (rb.Status == lint.Fatal)
				case "implies":
					bad = ra.Status == lint.Error && !isFinding(rb.Status)
				}
				if bad {
					d := map[string]interface{}{"what": what}
					for k, v := range detail {
						d[k] = v
					}
					// the key names the direction of the disagreement, so that a recorded finding covers that direction only
					dir := "statuses-differ"
					if isFinding(ra.Status) && !isFinding(rb.Status) {
						dir = "only-first-finds"
					} else if !isFinding(ra.Status) && isFinding(rb.Status) {
						dir = "only-second-finds"
					}
					key := "C20|" + p.a + "~" + p.b
					if p.mode == "finding" {
						key += ":" + dir
					}
					out.Violate(key, fmt.Sprintf("%s reports %s but %s reports %s on the same content (%s)", p.a, ra.Status, p.b, rb.Status, what), d, ra.Status.String(), rb.Status.String())
				}
			}
		}
		nGen := 120
		if tier() == "thorough" {
			nGen = 1500
		}
		// (1) SAN = IAN with every general-name kind
		for i := 0; i < nGen+len(namePool); i++ {
			k := rng.Intn(4)
			var names []genName
			if i < len(namePool) {
				names = []genName{namePool[i]} // every name of the pool once by itself
			}
			for j := 0; j < k && i >= len(namePool); j++ {
				names = append(names, pick(rng, namePool))
			}
			tmpl := leafTemplate()
			tmpl.DNSNames = nil
			tmpl.ExtraExtensions = append(tmpl.ExtraExtensions, generalNamesExt(asn1SAN, names, false), generalNamesExt(asn1IAN, names, false))
			der, c, err := issue(tmpl, nil)
			if err != nil {
				out.Count("rejected", 1)
				continue
			}
			var desc []string
			for _, n := range names {
				desc = append(desc, fmt.Sprintf("[%d]%q", n.tag, n.value))
			}
			check(c, "SAN = IAN = "+fmt.Sprint(desc), map[string]interface{}{"names": desc, "der": hexs(der)})
		}
		// every URI of the pool alone (the URI-host pair is the delicate one)
		uris := []string{"http://example.com/", "http://example.com:8080/x", "https://user@example.com/", "https://user:pw@example.com:443/", "mailto:a@b.com", "urn:foo:bar",
			"http://[::1]:80/", "http://[2001:db8::1]/", "http://10.0.0.1/", "http://10.0.0.1:8080/", "ldap://ldap.example.com/dc=x", "//relative", "/path/only", "http://", "http:///nohost",
			"http://exa_mple.com/", "http://-bad.com/", "HTTP://EXAMPLE.COM/", "http://example.com./", "http://localhost/", "http://a/", "tel:+1-555-0100", "file:///etc/passwd", "http://ex ample.com/",
			"http://example.com:port/", "http://xn--caf-dma.com/", "http://*.example.com/", "data:text/plain,hi", "http://@example.com/", "http://user@/"}
		// every combination of the five components of a URI (scheme, authority, path, query, fragment) present or absent
		for _, sc := range []string{"", "http:", "mailto:", "news:", "x-y.z+1:"} {
			for _, au := range []string{"", "//example.com", "//", "//user@"} {
				for _, pa := range []string{"", "/", "/p/q", "opaque"} {
					if au != "" && pa == "opaque" {
						continue
					}
					for _, qu := range []string{"", "?", "?to=joe@example.com", "?a=1&b=2"} {
						for _, fr := range []string{"", "#", "#frag"} {
							if tier() != "thorough" && qu == "?a=1&b=2" && fr == "#" {
								continue
							}
							if sc+au+pa+qu+fr != "" { // the lints skip an empty URI; the model is stated per non-empty URI
								uris = append(uris, sc+au+pa+qu+fr)
							}
						}
					}
				}
			}
		}
		for _, scheme := range []string{"http", "https", "ldap"} {
			for _, ui := range []string{"", "user@", "user:pw@"} {
				for _, host := range []string{"example.com", "www.example.com", "localhost", "intranet", "a", "10.0.0.1", "[::1]", "[2001:db8::1]", "exa_mple.com", "-bad.com", "*.example.com", "", "xn--caf-dma.com", "example.com.", "EXAMPLE.COM"} {
					for _, port := range []string{"", ":", ":80", ":8443", ":0", ":65536"} {
						if tier() != "thorough" && ui != "" && port != "" && scheme != "https" {
							continue
						}
						uris = append(uris, scheme+"://"+ui+host+port+"/p")
					}
				}
			}
		}
		for _, u := range uris {
			tmpl := leafTemplate()
			names := []genName{{6, []byte(u)}}
			tmpl.DNSNames = nil
			tmpl.ExtraExtensions = append(tmpl.ExtraExtensions, generalNamesExt(asn1SAN, names, false), generalNamesExt(asn1IAN, names, false))
			der, c, err := issue(tmpl, nil)
			if err != nil {
				continue
			}
			check(c, "URI "+u+" in SAN and IAN", map[string]interface{}{"uri": u, "der": hexs(der)})
			// model case for the URI-host pair: what url.Parse says, and both verdicts
			pu, perr := url.Parse(u)
			rs := zlint.LintCertificate(c).Results
			sa, sb := rs["e_ext_san_uri_host_not_fqdn_or_ip"], rs["e_ext_ian_uri_host_not_fqdn_or_ip"]
			if sa != nil && sb != nil {
				opq, host := "", ""
				if perr == nil {
					opq, host = pu.Opaque, pu.Host
				}
				out.Add("urihost", Case{Coq: fmt.Sprintf("(%s, %s, %s, %s, %s, %s)", cqBool(perr == nil), cqBytes(opq), cqBytes(host), cqBool(util.IsFQDNOrIP(host)), cqZ(int64(sa.Status)), cqZ(int64(sb.Status))),
					Tag: fmt.Sprintf("%d/%d", sa.Status, sb.Status), Desc: map[string]interface{}{"uri": u, "parse_ok": perr == nil, "opaque": opq, "host": host, "san": int(sa.Status), "ian": int(sb.Status)}})
			}
		}
		// (2) label pairs: common name empty / an IP / one of the SAN names
		for i := 0; i < nGen; i++ {
			tmpl := leafTemplate()
			var names []string
			for j := 1 + rng.Intn(3); j > 0; j-- {
				n := pick(rng, namePool)
				if n.tag == 2 {
					names = append(names, string(n.value))
				}
			}
			if len(names) == 0 {
				names = []string{"example.com"}
			}
			var gn []genName
			for _, n := range names {
				gn = append(gn, genName{2, []byte(n)})
			}
			tmpl.DNSNames = nil
			tmpl.ExtraExtensions = append(tmpl.ExtraExtensions, generalNamesExt(asn1SAN, gn, false))
			switch rng.Intn(3) {
			case 0:
				tmpl.Subject.CommonName = ""
			case 1:
				tmpl.Subject.CommonName = "10.1.2.3"
			default:
				tmpl.Subject.CommonName = pick(rng, names)
			}
			der, c, err := issue(tmpl, nil)
			if err != nil {
				continue
			}
			check(c, fmt.Sprintf("dNSNames %q, common name %q", names, tmpl.Subject.CommonName), map[string]interface{}{"dns": names, "cn": tmpl.Subject.CommonName, "der": hexs(der)})
		}
		// (3) issuer DN = subject DN (self-issued with a crafted subject)
		cOID, oOID, cnOID := asn1.ObjectIdentifier{2, 5, 4, 6}, asn1.ObjectIdentifier{2, 5, 4, 10}, asn1.ObjectIdentifier{2, 5, 4, 3}
		type dnSpec struct {
			what string
			raw  []byte
		}
		set := func(attrs ...[]byte) []byte { return encTLV(0x31, concat(attrs...)) }
		seq := func(rdns ...[]byte) []byte { return encTLV(0x30, concat(rdns...)) }
		dns := []dnSpec{
			{"plain", seq(set(rdnAttr(cOID, 0x13, []byte("US"))), set(rdnAttr(oOID, 0x0c, []byte("Example"))), set(rdnAttr(cnOID, 0x0c, []byte("Example Root"))))},
			{"leading space", seq(set(rdnAttr(cOID, 0x13, []byte("US"))), set(rdnAttr(oOID, 0x0c, []byte(" Example"))))},
			{"trailing space", seq(set(rdnAttr(cOID, 0x13, []byte("US"))), set(rdnAttr(oOID, 0x0c, []byte("Example "))))},
			{"both spaces in CN", seq(set(rdnAttr(cnOID, 0x0c, []byte(" x "))))},
			{"multi-attribute RDN", seq(set(rdnAttr(cOID, 0x13, []byte("US")), rdnAttr(oOID, 0x0c, []byte("Example"))))},
			{"country as UTF8String", seq(set(rdnAttr(cOID, 0x0c, []byte("US"))), set(rdnAttr(oOID, 0x0c, []byte("Example"))))},
			{"country as IA5String", seq(set(rdnAttr(cOID, 0x16, []byte("US"))))},
			{"two countries, one bad", seq(set(rdnAttr(cOID, 0x13, []byte("US"))), set(rdnAttr(cOID, 0x0c, []byte("DE"))))},
			{"tab whitespace", seq(set(rdnAttr(oOID, 0x0c, []byte("\tExample\n"))))},
			{"empty value", seq(set(rdnAttr(oOID, 0x0c, []byte(""))))},
		}
		// the structure of the name itself: RDNs with no attribute at all, with two and with three attributes, in every
		// arrangement of up to three RDNs (the number of attributes and the number of RDNs are different things)
		{
			a1 := rdnAttr(cOID, 0x13, []byte("US"))
			a2 := rdnAttr(oOID, 0x0c, []byte("Example"))
			a3 := rdnAttr(cnOID, 0x0c, []byte("Example Root"))
			kinds := map[string][]byte{"empty": set(), "one": set(a1), "two": set(a2, a3), "three": set(a1, a2, a3)}
			names := []string{"empty", "one", "two", "three"}
			for _, x := range names {
				dns = append(dns, dnSpec{"RDN structure [" + x + "]", seq(kinds[x])})
				for _, y := range names {
					dns = append(dns, dnSpec{"RDN structure [" + x + " " + y + "]", seq(kinds[x], kinds[y])})
					for _, z := range names {
						if x == "empty" || y == "empty" || z == "empty" {
							dns = append(dns, dnSpec{"RDN structure [" + x + " " + y + " " + z + "]", seq(kinds[x], kinds[y], kinds[z])})
						}
					}
				}
			}
			dns = append(dns, dnSpec{"RDN structure: no RDN at all", seq()})
		}
		for _, d := range dns {
			tmpl := leafTemplate()
			tmpl.RawSubject = d.raw
			tmpl.IsCA, tmpl.KeyUsage, tmpl.ExtKeyUsage = true, stdx509.KeyUsageCertSign, nil
			der, c, err := selfIssue(tmpl)
			if err != nil {
				out.Count("dn_rejected", 1)
				continue
			}
			check(c, "issuer DN = subject DN: "+d.what, map[string]interface{}{"dn": d.what, "der": hexs(der)})
		}
		// (4) DSA (the public-key algorithm is set in the parsed structure: crypto/x509 cannot issue DSA certificates)
		{
			_, c, err := issue(leafTemplate(), nil)
			if err == nil {
				c2 := *c
				c2.PublicKeyAlgorithm = x509.DSA
				check(&c2, "DSA subject key", map[string]interface{}{"mutation": "PublicKeyAlgorithm = DSA"})
				check(c, "ECDSA subject key", nil)
			}
		}
		// (5) AIA internal names with both scopes
		for _, u := range []string{"http://ocsp.example.com/", "http://internal/ocsp", "http://ocsp.corp/", "http://10.0.0.1/ocsp", "http://ocsp.example.invalidtld/", "ldap://x", "http://exa mple/", ""} {
			tmpl := leafTemplate()
			tmpl.ExtKeyUsage = []stdx509.ExtKeyUsage{stdx509.ExtKeyUsageServerAuth, stdx509.ExtKeyUsageEmailProtection}
			tmpl.EmailAddresses = []string{"a@example.com"}
			tmpl.PolicyIdentifiers = []asn1.ObjectIdentifier{{2, 23, 140, 1, 5, 1, 1}, {2, 23, 140, 1, 2, 1}} // S/MIME BR mailbox-validated legacy + TLS DV
			if u != "" {
				tmpl.OCSPServer = []string{u}
				tmpl.IssuingCertificateURL = []string{"http://ca.example.com/ca.cer"}
			}
			der, c, err := issue(tmpl, nil)
			if err != nil {
				continue
			}
			check(c, "AIA OCSP "+u, map[string]interface{}{"ocsp": u, "der": hexs(der)})
		}
		// (6) validity around 397 / 398 days
		for _, days := range []int{396, 397, 398, 399, 825} {
			for _, delta := range []time.Duration{-2 * time.Second, -time.Second, 0, time.Second} {
				tmpl := leafTemplate()
				tmpl.NotBefore = time.Date(2023, 1, 1, 0, 0, 0, 0, time.UTC)
				tmpl.NotAfter = tmpl.NotBefore.Add(time.Duration(days)*24*time.Hour + delta)
				der, c, err := issue(tmpl, nil)
				if err != nil {
					continue
				}
				check(c, fmt.Sprintf("validity %d days %v", days, delta), map[string]interface{}{"der": hexs(der)})
				secs := int64(c.NotAfter.Add(time.Second).Sub(c.NotBefore) / time.Second)
				rs := zlint.LintCertificate(c).Results
				if a, b := rs["e_tls_server_cert_valid_time_longer_than_398_days"], rs["w_tls_server_cert_valid_time_longer_than_397_days"]; a != nil && b != nil {
					out.Add("limits", Case{Coq: fmt.Sprintf("(%s, %s, %s, %s, %s)", cqZ(secs), cqZ(398*86400), cqZ(397*86400), cqZ(int64(a.Status)), cqZ(int64(b.Status))),
						Tag: fmt.Sprintf("%d/%d", a.Status, b.Status), Desc: map[string]interface{}{"seconds": secs, "e": int(a.Status), "w": int(b.Status)}})
				}
			}
		}
		// (7) given name / surname lengths
		for _, n := range []int{1, 64, 65, 32768, 32769} {
			tmpl := leafTemplate()
			gv := strings.Repeat("g", n)
			tmpl.Subject.ExtraNames = []pkix.AttributeTypeAndValue{{Type: asn1.ObjectIdentifier{2, 5, 4, 42}, Value: gv}, {Type: asn1.ObjectIdentifier{2, 5, 4, 4}, Value: gv}}
			der, c, err := issue(tmpl, nil)
			if err != nil {
				out.Count("name_rejected", 1)
				continue
			}
			check(c, fmt.Sprintf("given name / surname of %d characters", n), map[string]interface{}{"len": n, "der_len": len(der)})
			rs := zlint.LintCertificate(c).Results
			for _, pr := range [][2]string{{"e_subject_given_name_max_length", "w_subject_given_name_recommended_max_length"}, {"e_subject_surname_max_length", "w_subject_surname_recommended_max_length"}} {
				if a, b := rs[pr[0]], rs[pr[1]]; a != nil && b != nil {
					out.Add("limits", Case{Coq: fmt.Sprintf("(%s, %s, %s, %s, %s)", cqZ(int64(n)), cqZ(32768), cqZ(64), cqZ(int64(a.Status)), cqZ(int64(b.Status))),
						Tag: fmt.Sprintf("%d/%d", a.Status, b.Status), Desc: map[string]interface{}{"chars": n, "e": int(a.Status), "w": int(b.Status)}})
				}
			}
		}
		// corpus
		corpus := loadCorpus()
		for _, cc := range corpus.Certs {
			check(cc.Cert, "corpus "+cc.File, map[string]interface{}{"file": cc.File})
		}
		// the shared zoo (validity extremes, key usages, subjects, names ...)
		for _, zc := range certZoo() {
			check(zc.Cert, "zoo "+zc.File, map[string]interface{}{"file": zc.File, "der": hexs(zc.DER)})
		}
		// subject attribute values around every length limit, also padded with blanks (the error-level limits and their
		// recommended companions)
		for i, der := range subjLenCerts() {
			if c, err := safeParseCert(der); err == nil {
				check(c, fmt.Sprintf("subject length probe %d", i), map[string]interface{}{"der_prefix": hexs(der[:minInt(len(der), 400)])})
			}
		}
		// signature-algorithm substitution: the same certificate as issued by CAs holding other kinds of key (RSA,
		// ECDSA, DSA, EdDSA, unknown) - a dimension the duplicated rules must agree on as well
		{
			dsaSig := []byte{0x30, 0x06, 0x02, 0x01, 0x01, 0x02, 0x01, 0x01}
			var bases []CorpusCert
			for i, cc := range corpus.Certs {
				if i%25 == 0 || tier() == "thorough" {
					bases = append(bases, cc)
				}
			}
			for _, rsaLeaf := range []bool{false, true} {
				tmpl := leafTemplate()
				var pub interface{}
				if rsaLeaf {
					if k := getKit(); k.rsaKey == nil {
						if key, err := rsa.GenerateKey(crand.Reader, 2048); err == nil {
							k.rsaKey = key
						}
					}
					if k := getKit(); k.rsaKey != nil {
						pub = &k.rsaKey.PublicKey
					}
				}
				if der, c, err := issue(tmpl, pub); err == nil {
					bases = append(bases, CorpusCert{fmt.Sprintf("generated-leaf-rsa=%v", rsaLeaf), der, c})
				}
			}
			subst := 0
			for _, cc := range bases {
				for _, a := range sigAlgs {
					mut, err := replaceSigAlg(cc.DER, a.der, dsaSig)
					if err != nil {
						continue
					}
					c2, err := safeParseCert(mut)
					if err != nil {
						out.Count("rejected", 1)
						continue
					}
					subst++
					check(c2, "signature algorithm of "+cc.File+" replaced by "+a.name, map[string]interface{}{"file": cc.File, "sigalg": a.name, "der": hexs(mut)})
				}
			}
			out.Stats["sigalg_substitutions"] = subst
		}
		out.Data["both_ran"] = bothRan
		var never []string
		for _, p := range lintPairs {
			if bothRan[p.a] == 0 {
				never = append(never, p.a+"~"+p.b)
			}
		}
		out.Data["pairs_never_exercised"] = never
		out.Stats["pairs"] = len(lintPairs)
		return out.Emit()
	}
}
