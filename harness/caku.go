package main

import (
	"fmt"

	"github.com/zmap/zcrypto/x509"
	"github.com/zmap/zlint/v3/lint"
	"github.com/zmap/zlint/v3/util"
)

var caKuLintNames = []string{"e_basic_constraints_not_critical", "e_ext_key_usage_cert_sign_without_ca", "e_ext_key_usage_without_bits", "w_ext_key_usage_not_critical", "w_eku_critical_improperly",
	"e_ca_crl_sign_not_set", "n_ca_digital_signature_not_set", "e_ca_key_cert_sign_not_set", "e_ca_key_usage_missing", "e_ca_key_usage_not_critical", "e_sub_cert_key_usage_cert_sign_bit_set",
	"e_sub_cert_key_usage_crl_sign_bit_set", "e_root_ca_key_usage_must_be_critical", "e_root_ca_key_usage_present", "e_root_ca_extended_key_usage_present", "w_sub_ca_eku_critical",
	"n_sub_ca_eku_missing", "e_sub_cert_eku_missing", "e_sub_cert_basic_constraints_not_critical"}

// caKuCase: one correspondence case for Kernels/CaKu.v - the fields the nineteen lints read and, for each, NA when
// CheckApplies is false, else what Execute returns (under recover; -1 = panic, -2 = nil).
func caKuCase(c *x509.Certificate) (string, string, bool) {
	ext := func(oid []int) (bool, bool) {
		e := util.GetExtFromCert(c, oid)
		return e != nil, e != nil && e.Critical
	}
	bcE, bcC := ext(util.BasicConstOID)
	kuE, kuC := ext(util.KeyUsageOID)
	ekE, ekC := ext(util.EkuSynOid)
	anyEKU := false
	for _, e := range c.ExtKeyUsage {
		if e == x509.ExtKeyUsageAny {
			anyEKU = true
		}
	}
	var sts []string
	tag := ""
	for _, n := range caKuLintNames {
		st := 0
		if l := lint.GlobalRegistry().CertificateLints().ByName(n); l != nil {
			func() {
				defer func() {
					if recover() != nil {
						st = -1
					}
				}()
				inst := l.Lint()
				if !inst.CheckApplies(c) {
					st = 1
				} else if r := inst.Execute(c); r == nil {
					st = -2
				} else {
					st = int(r.Status)
				}
			}()
		}
		sts = append(sts, cqZ(int64(st)))
		tag += fmt.Sprintf("%d/", st)
	}
	view := fmt.Sprintf("(mkCa %s %s %s %s %s %s %s %s %s %s %s)", cqBool(c.IsCA), cqBool(c.SelfSigned), cqBool(c.BasicConstraintsValid), cqBool(bcE), cqBool(bcC), cqBool(kuE), cqBool(kuC),
		cqZ(int64(c.KeyUsage)), cqBool(ekE), cqBool(ekC), cqBool(anyEKU))
	return fmt.Sprintf("(%s, %s)", view, cqList(sts)), tag[:len(tag)-1], true
}
