package main

import (
	"fmt"
	"reflect"
	"strings"

	zx509 "github.com/zmap/zcrypto/x509"
	"github.com/zmap/zcrypto/x509/pkix"

	"github.com/zmap/zlint/v3/lint"
)

// configVariants: user configurations derived from the registry's own example configuration: as printed; every value
// changed; every section with an unknown key, a misspelt and a differently capitalised copy of each key; sections for
// lints that take no configuration; a sub-table inside each section.  All of them parse as TOML; whether a lint accepts
// its section is the lint's business.
func configVariants() []string {
	b, err := lint.GlobalRegistry().DefaultConfiguration()
	if err != nil {
		return nil
	}
	ex := string(b)
	lines := strings.Split(ex, "\n")
	var changed, typo, sub []string
	section := ""
	for _, ln := range lines {
		t := strings.TrimSpace(ln)
		if strings.HasPrefix(t, "[") {
			section = strings.Trim(t, "[]")
			changed, typo, sub = append(changed, ln), append(typo, ln), append(sub, ln)
			if strings.Contains(section, "_") {
				typo = append(typo, "Unknown = 1")
			}
			continue
		}
		kv := strings.SplitN(t, "=", 2)
		if len(kv) != 2 {
			changed, typo, sub = append(changed, ln), append(typo, ln), append(sub, ln)
			continue
		}
		k, v := strings.TrimSpace(kv[0]), strings.TrimSpace(kv[1])
		nv := v
		switch v {
		case "true":
			nv = "false"
		case "false":
			nv = "true"
		default:
			nv = "3"
		}
		changed = append(changed, k+" = "+nv)
		typo = append(typo, ln, k+"s = "+v, strings.ToLower(k[:1])+k[1:]+"_ = "+v, k[:len(k)-1]+" = "+nv)
		sub = append(sub, ln)
	}
	out := []string{ex, strings.Join(changed, "\n"), strings.Join(typo, "\n")}
	// sections for lints that take no configuration, and a sub-table in every lint section
	var extra []string
	n := 0
	for _, name := range lint.GlobalRegistry().Names() {
		if n%40 == 0 {
			extra = append(extra, fmt.Sprintf("[%s]\nSkip = true\nRounds = 1\n", name))
		}
		n++
	}
	out = append(out, ex+"\n"+strings.Join(extra, "\n"))
	var subs []string
	for _, ln := range sub {
		subs = append(subs, ln)
	}
	for _, ln := range lines {
		t := strings.TrimSpace(ln)
		if strings.HasPrefix(t, "[") && strings.Contains(t, "_") {
			subs = append(subs, "["+strings.Trim(t, "[]")+".more]", "Deep = true")
		}
	}
	out = append(out, strings.Join(subs, "\n"))
	var ok []string
	for _, c := range out {
		if _, err := lint.NewConfigFromString(c); err == nil {
			ok = append(ok, c)
		}
	}
	return ok
}

// optionValueConfigs: one configuration per (configurable lint, option, candidate value): the option set to values of the
// kind its printed default suggests - booleans, small integers, and for text and list options the words a user would try
// there: the exported field names of the certificate and name structures (options that select fields are named after
// them), and generic words.  Each entry names the lint so that the caller can restrict the run to it.
type optionConfig struct {
	Lint, Text string
}

func optionValueConfigs() []optionConfig {
	b, err := lint.GlobalRegistry().DefaultConfiguration()
	if err != nil {
		return nil
	}
	words := []string{"", "x", "CommonName", "SerialNumber", "Names", "ExtraNames", "OriginalRDNS", "all", "*", "Subject", "Issuer"}
	for _, t := range []reflect.Type{reflect.TypeOf(pkix.Name{}), reflect.TypeOf(zx509.Certificate{})} {
		for i := 0; i < t.NumField(); i++ {
			if f := t.Field(i); f.IsExported() {
				words = append(words, f.Name)
			}
		}
	}
	var out []optionConfig
	section := ""
	for _, ln := range strings.Split(string(b), "\n") {
		t := strings.TrimSpace(ln)
		if strings.HasPrefix(t, "[") {
			section = strings.Trim(t, "[]")
			continue
		}
		kv := strings.SplitN(t, "=", 2)
		if len(kv) != 2 || !strings.Contains(section, "_") {
			continue
		}
		k, v := strings.TrimSpace(kv[0]), strings.TrimSpace(kv[1])
		var vals []string
		switch {
		case v == "true" || v == "false":
			vals = []string{"true", "false"}
		case strings.HasPrefix(v, "["):
			for _, w := range words {
				vals = append(vals, fmt.Sprintf("[%q]", w), fmt.Sprintf("[%q, %q]", "Organization", w))
			}
			vals = append(vals, "[1, 2]", "[true]", "[[\"a\"]]", "[]")
		case strings.HasPrefix(v, "\""):
			for _, w := range words {
				vals = append(vals, fmt.Sprintf("%q", w))
			}
		default:
			vals = []string{"0", "1", "-1", "5", "1.5"}
		}
		for _, val := range vals {
			txt := fmt.Sprintf("[%s]\n%s = %s\n", section, k, val)
			if _, err := lint.NewConfigFromString(txt); err == nil {
				out = append(out, optionConfig{section, txt})
			}
		}
	}
	return out
}

// tomlSyntaxZoo: documents that use every syntactic form TOML has for keys, tables and values, all in sections no lint
// knows about - to a linter they are all "a configuration with only unrelated content".
func tomlSyntaxZoo() []string {
	docs := []string{
		"\"\" = 1\n",
		"[\"\"]\nA = 1\n",
		"x = { \"\" = 1 }\n",
		"[ca_labels]\n'Example \"Legacy\" Root' = \"legacy\"\n",
		"[labels]\n\"a.b\" = 1\n'c d' = 2\n\"\\u00e9\" = 3\n",
		"a.b.\"c.d\".e = 1\n",
		"[[things]]\nname = \"one\"\n[[things]]\nname = \"two\"\n[things.sub]\nx = 1\n",
		"when = 1979-05-27T07:32:00Z\nday = 1979-05-27\nclock = 07:32:00\nlocal = 1979-05-27T07:32:00\n",
		"n = [0x1F, 0o17, 0b101, 1_000, +1, -0]\nf = [1e3, -1.5E-2, inf, -inf, nan]\n",
		"s = \"\"\"\nmulti\nline \\\n  continued\"\"\"\nl = '''\nraw \\ text'''\nq = 'C:\\path'\n",
		"mixed = [[1, 2], [\"a\", \"b\"]]\nempty = []\nnested = { a = { b = { c = [ { d = 1 } ] } } }\n",
		"\"key with spaces\" = true\n\"ʎǝʞ\" = \"unicode\"\n\"quo\\\"te\" = 1\n",
		"# only a comment\n",
		"\n\n\t\n",
		"[a]\n[a.b]\n[a.b.c]\n[a.\"\".d]\nx = 1\n",
		"'' = 'empty literal key'\n",
		"[servers.\"10.0.0.1\"]\nrole = \"x\"\n['quoted \"table\"']\ny = 2\n",
	}
	var ok []string
	for _, d := range docs {
		if _, err := lint.NewConfigFromString(d); err == nil {
			ok = append(ok, d)
		}
	}
	return ok
}
