package main

import (
	"fmt"
	"strings"

	"github.com/zmap/zlint/v3/lint"
)

// configVariants: user configurations derived from the registry's own example configuration: as printed; every value
// changed; every section with an unknown key, a misspelt and a differently capitalised copy of each key; sections for
// lints that take no configuration; a sub-table inside each section.  All of them parse as TOML; whether a lint accepts
// its section is the lint's business.
func configVariants() []string {
	b, err := lint.GlobalRegistry().DefaultConfiguration()
	if err != nil {
		return nil
	}
	ex := string(b)
	lines := strings.Split(ex, "\n")
	var changed, typo, sub []string
	section := ""
	for _, ln := range lines {
		t := strings.TrimSpace(ln)
		if strings.HasPrefix(t, "[") {
			section = strings.Trim(t, "[]")
			changed, typo, sub = append(changed, ln), append(typo, ln), append(sub, ln)
			if strings.Contains(section, "_") {
				typo = append(typo, "Unknown = 1")
			}
			continue
		}
		kv := strings.SplitN(t, "=", 2)
		if len(kv) != 2 {
			changed, typo, sub = append(changed, ln), append(typo, ln), append(sub, ln)
			continue
		}
		k, v := strings.TrimSpace(kv[0]), strings.TrimSpace(kv[1])
		nv := v
		switch v {
		case "true":
			nv = "false"
		case "false":
			nv = "true"
		default:
			nv = "3"
		}
		changed = append(changed, k+" = "+nv)
		typo = append(typo, ln, k+"s = "+v, strings.ToLower(k[:1])+k[1:]+"_ = "+v, k[:len(k)-1]+" = "+nv)
		sub = append(sub, ln)
	}
	out := []string{ex, strings.Join(changed, "\n"), strings.Join(typo, "\n")}
	// sections for lints that take no configuration, and a sub-table in every lint section
	var extra []string
	n := 0
	for _, name := range lint.GlobalRegistry().Names() {
		if n%40 == 0 {
			extra = append(extra, fmt.Sprintf("[%s]\nSkip = true\nRounds = 1\n", name))
		}
		n++
	}
	out = append(out, ex+"\n"+strings.Join(extra, "\n"))
	var subs []string
	for _, ln := range sub {
		subs = append(subs, ln)
	}
	for _, ln := range lines {
		t := strings.TrimSpace(ln)
		if strings.HasPrefix(t, "[") && strings.Contains(t, "_") {
			subs = append(subs, "["+strings.Trim(t, "[]")+".more]", "Deep = true")
		}
	}
	out = append(out, strings.Join(subs, "\n"))
	var ok []string
	for _, c := range out {
		if _, err := lint.NewConfigFromString(c); err == nil {
			ok = append(ok, c)
		}
	}
	return ok
}
