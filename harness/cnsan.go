package main

import (
	"fmt"
	"strings"

	"github.com/zmap/zcrypto/x509"
	"github.com/zmap/zlint/v3/lint"
	"github.com/zmap/zlint/v3/util"
)

// stream "cnsan" (Kernels.CnSan): four lints that relate the subject common name(s) to the subjectAltName entries, each
// evaluated by a direct call of CheckApplies / Execute (scope and dates are the framework's business, modelled elsewhere)

var cnSanLints = []string{"e_subject_common_name_not_exactly_from_san", "e_subject_common_name_not_from_san", "n_contains_redacted_dnsname", "e_ev_not_wildcard"}

func cnSanCase(c *x509.Certificate) (term, tag string, ok bool) {
	g := lint.GlobalRegistry().CertificateLints()
	var sts []string
	details := ""
	ascii := isASCII(c.Subject.CommonName)
	for _, d := range c.DNSNames {
		ascii = ascii && isASCII(d)
	}
	for i, ln := range cnSanLints {
		l := g.ByName(ln)
		if l == nil {
			return "", "", false
		}
		st := -9
		func() {
			defer func() {
				if recover() != nil {
					st = -1
				}
			}()
			inst := l.Lint()
			if !inst.CheckApplies(c) {
				st = 1
				return
			}
			r := inst.Execute(c)
			st = int(r.Status)
			if i == 0 && r.Status == lint.Error {
				details = strings.TrimSuffix(strings.TrimPrefix(r.Details, "Missing common name, '"), "'")
			}
		}()
		if i == 1 && !ascii {
			st = -9 // strings.EqualFold beyond ASCII is not modelled
		}
		sts = append(sts, fmt.Sprint(st))
	}
	parsed := c.GetParsedDNSNames(false)
	if len(parsed) != len(c.DNSNames) {
		return "", "", false
	}
	var oks []string
	for _, p := range parsed {
		oks = append(oks, cqBool(p.ParseError == nil))
	}
	var ips []string
	for _, ip := range c.IPAddresses {
		ips = append(ips, cqBytes(ip.String()))
	}
	cnOK := c.GetParsedSubjectCommonName(false).ParseError == nil
	var cns, dns []string
	for _, x := range c.Subject.CommonNames {
		cns = append(cns, cqBytes(x))
	}
	for _, x := range c.DNSNames {
		dns = append(dns, cqBytes(x))
	}
	view := fmt.Sprintf("(mkCview %s %s %s %s %s %s %s %s)", cqTyped(cns, "bytes"), cqTyped(dns, "bytes"), cqTyped(ips, "bytes"), cqTyped(oks, "bool"), cqBool(cnOK),
		cqBool(util.IsCACert(c)), cqBool(util.IsSubscriberCert(c)), cqBool(util.IsEV(c.PolicyIdentifiers)))
	return fmt.Sprintf("(%s, [%s], %s)", view, strings.Join(sts, "; "), cqBytes(details)), strings.Join(sts, "/"), true
}
