package main

import (
	"encoding/base64"
	"encoding/pem"
	"os"
	"path/filepath"
	"sort"
	"strings"

	"github.com/zmap/zcrypto/x509"
	"golang.org/x/crypto/ocsp"
)

type CorpusCert struct {
	File string
	DER  []byte
	Cert *x509.Certificate
}
type CorpusCRL struct {
	File string
	DER  []byte
	CRL  *x509.RevocationList
}
type CorpusOCSP struct {
	File string
	DER  []byte
	Resp *ocsp.Response
}

type Corpus struct {
	Certs []CorpusCert
	CRLs  []CorpusCRL
	OCSPs []CorpusOCSP
	Rejected int
}

func firstPEM(data []byte) (*pem.Block, bool) {
	b, _ := pem.Decode(data)
	return b, b != nil
}

// loadCorpus parses every file of /repo/v3/testdata the way the repository's own tests do.
func loadCorpus() *Corpus {
	c := &Corpus{}
	dir := filepath.Join(repoDir(), "v3", "testdata")
	ents, _ := os.ReadDir(dir)
	names := []string{}
	for _, e := range ents {
		if !e.IsDir() {
			names = append(names, e.Name())
		}
	}
	sort.Strings(names)
	for _, n := range names {
		data, err := os.ReadFile(filepath.Join(dir, n))
		if err != nil {
			continue
		}
		blk, ok := firstPEM(data)
		if !ok {
			// OCSP test vectors are bare base64
			raw, err := base64.StdEncoding.DecodeString(strings.Join(strings.Fields(string(data)), ""))
			if err == nil {
				if r, err := ocsp.ParseResponse(raw, nil); err == nil {
					c.OCSPs = append(c.OCSPs, CorpusOCSP{n, raw, r})
					continue
				}
			}
			c.Rejected++
			continue
		}
		switch {
		case strings.Contains(blk.Type, "CRL"):
			crl, err := x509.ParseRevocationList(blk.Bytes)
			if err != nil {
				c.Rejected++
				continue
			}
			c.CRLs = append(c.CRLs, CorpusCRL{n, blk.Bytes, crl})
		case strings.Contains(blk.Type, "OCSP"):
			r, err := ocsp.ParseResponse(blk.Bytes, nil)
			if err != nil {
				c.Rejected++
				continue
			}
			c.OCSPs = append(c.OCSPs, CorpusOCSP{n, blk.Bytes, r})
		default:
			cert, err := x509.ParseCertificate(blk.Bytes)
			if err != nil {
				c.Rejected++
				continue
			}
			c.Certs = append(c.Certs, CorpusCert{n, blk.Bytes, cert})
		}
	}
	return c
}

func (c *Corpus) sampleCerts(r *Rng, n int) []CorpusCert {
	if n >= len(c.Certs) {
		return c.Certs
	}
	idx := make([]int, len(c.Certs))
	for i := range idx {
		idx[i] = i
	}
	r.Shuffle(len(idx), func(i, j int) { idx[i], idx[j] = idx[j], idx[i] })
	idx = idx[:n]
	sort.Ints(idx)
	out := make([]CorpusCert, n)
	for i, k := range idx {
		out[i] = c.Certs[k]
	}
	return out
}
