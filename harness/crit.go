package main

import (
	"fmt"

	"github.com/zmap/zcrypto/encoding/asn1"
	"github.com/zmap/zcrypto/x509"
	"github.com/zmap/zcrypto/x509/pkix"
	"github.com/zmap/zlint/v3/lint"
	"github.com/zmap/zlint/v3/util"
)

var critLintNames = []string{"e_ext_aia_marked_critical", "e_ext_authority_key_identifier_critical", "w_ext_crl_distribution_marked_critical", "e_ext_freshest_crl_marked_critical", "w_ext_ian_critical",
	"e_ext_name_constraints_not_critical", "e_ext_policy_constraints_not_critical", "w_ext_policy_map_not_critical", "e_ext_subject_directory_attr_critical", "e_ext_subject_key_identifier_critical",
	"e_inhibit_any_policy_not_critical", "e_subject_info_access_marked_critical", "e_sub_ca_aia_marked_critical", "w_sub_ca_certificate_policies_marked_critical",
	"e_sub_ca_crl_distribution_points_marked_critical", "w_sub_ca_name_constraints_not_critical", "e_sub_cert_aia_marked_critical", "w_sub_cert_certificate_policies_marked_critical",
	"e_sub_cert_crl_distribution_points_marked_critical", "e_eku_critical"}

var critExtOIDs = []asn1.ObjectIdentifier{util.AiaOID, util.AuthkeyOID, util.CrlDistOID, util.FreshCRLOID, util.IssuerAlternateNameOID, util.NameConstOID, util.PolicyConstOID, util.PolicyMapOID,
	util.SubjectDirAttrOID, util.SubjectKeyIdentityOID, util.InhibitAnyPolicyOID, util.SubjectInfoAccessOID, util.CertPolicyOID, util.EkuSynOid}

// critCase: one correspondence case for Kernels/Crit.v - role flags, (present, critical) of the fourteen extensions the
// twenty criticality lints look at, and each lint's status (NA when CheckApplies is false; -1 panic, -2 nil).
func critCase(c *x509.Certificate) (string, string, bool) {
	var exts []string
	for _, oid := range critExtOIDs {
		e := util.GetExtFromCert(c, oid)
		exts = append(exts, fmt.Sprintf("(%s, %s)", cqBool(e != nil), cqBool(e != nil && e.Critical)))
	}
	var sts []string
	tag := ""
	for _, n := range critLintNames {
		st := 0
		if l := lint.GlobalRegistry().CertificateLints().ByName(n); l != nil {
			func() {
				defer func() {
					if recover() != nil {
						st = -1
					}
				}()
				inst := l.Lint()
				if !inst.CheckApplies(c) {
					st = 1
				} else if r := inst.Execute(c); r == nil {
					st = -2
				} else {
					st = int(r.Status)
				}
			}()
		}
		sts = append(sts, cqZ(int64(st)))
		tag += fmt.Sprintf("%d/", st)
	}
	return fmt.Sprintf("(mkCrit %s %s %s, %s)", cqBool(c.IsCA), cqBool(c.SelfSigned), cqList(exts), cqList(sts)), tag[:len(tag)-1], true
}

// critCerts: certificates carrying each of the fourteen extensions marked critical and not critical, as a subscriber
// certificate, a subordinate CA and a self-signed root (the extension values are minimal well-formed encodings; the
// criticality lints read the flag only).
func critCerts() []*x509.Certificate {
	var out []*x509.Certificate
	for role := 0; role < 3; role++ {
		for mask := 0; mask < 6; mask++ {
			c := &x509.Certificate{IsCA: role > 0, SelfSigned: role == 2, ExtensionsMap: map[string]pkix.Extension{}}
			for i, oid := range critExtOIDs {
				present := (i+mask)%3 != 2
				critical := (i+mask/2)%2 == 0
				if mask >= 4 {
					present, critical = true, mask == 5
				}
				if present {
					e := pkix.Extension{Id: oid, Critical: critical, Value: []byte{0x30, 0x00}}
					c.Extensions = append(c.Extensions, e)
					c.ExtensionsMap[oid.String()] = e
				}
			}
			out = append(out, c)
		}
	}
	return out
}

func pkixExtension() pkix.Extension {
	return pkix.Extension{Id: critExtOIDs[9], Value: []byte{0x04, 0x00}}
}

var extPresenceLintNames = []string{"e_sub_ca_aia_missing", "w_sub_ca_aia_missing", "e_sub_ca_certificate_policies_missing", "e_sub_ca_crl_distribution_points_missing", "e_sub_cert_aia_missing",
	"e_sub_cert_certificate_policies_missing", "e_ext_subject_key_identifier_missing_ca", "w_ext_subject_key_identifier_missing_sub_cert", "w_ext_subject_key_identifier_not_recommended_subscriber",
	"w_root_ca_contains_cert_policy"}

// extPresenceCase: one correspondence case for Kernels/ExtPresence.v (same view as critCase).
func extPresenceCase(c *x509.Certificate) (string, string, bool) {
	var exts []string
	for _, oid := range critExtOIDs {
		e := util.GetExtFromCert(c, oid)
		exts = append(exts, fmt.Sprintf("(%s, %s)", cqBool(e != nil), cqBool(e != nil && e.Critical)))
	}
	var sts []string
	tag := ""
	for _, n := range extPresenceLintNames {
		st := 0
		if l := lint.GlobalRegistry().CertificateLints().ByName(n); l != nil {
			func() {
				defer func() {
					if recover() != nil {
						st = -1
					}
				}()
				inst := l.Lint()
				if !inst.CheckApplies(c) {
					st = 1
				} else if r := inst.Execute(c); r == nil {
					st = -2
				} else {
					st = int(r.Status)
				}
			}()
		}
		sts = append(sts, cqZ(int64(st)))
		tag += fmt.Sprintf("%d/", st)
	}
	return fmt.Sprintf("(mkCrit %s %s %s, %s)", cqBool(c.IsCA), cqBool(c.SelfSigned), cqList(exts), cqList(sts)), tag[:len(tag)-1], true
}
