package main

import zx "github.com/zmap/zcrypto/x509"

func zx509ParseForDebug(b []byte) (*zx.Certificate, error) { return zx.ParseCertificate(b) }
