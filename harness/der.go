package main

import (
	"fmt"

	"github.com/zmap/zcrypto/x509"
	"github.com/zmap/zcrypto/x509/pkix"
	"github.com/zmap/zlint/v3/lint"
	"github.com/zmap/zlint/v3/util"
)

// emptyNameStatus runs the body of e_ext_san_empty_name / e_ext_ian_empty_name directly on a certificate value that
// carries nothing but the extension (the bodies read the extension value only); -1 = panic, -2 = nil result.
func emptyNameStatus(lintName string, ian bool, value []byte) int {
	oid := util.SubjectAlternateNameOID
	if ian {
		oid = util.IssuerAlternateNameOID
	}
	ext := pkix.Extension{Id: oid, Value: value}
	c := &x509.Certificate{Extensions: []pkix.Extension{ext}, ExtensionsMap: map[string]pkix.Extension{oid.String(): ext}}
	l := lint.GlobalRegistry().CertificateLints().ByName(lintName)
	if l == nil {
		return 0
	}
	st := 0
	func() {
		defer func() {
			if recover() != nil {
				st = -1
			}
		}()
		inst := l.Lint()
		if !inst.CheckApplies(c) {
			st = 1
			return
		}
		r := inst.Execute(c)
		if r == nil {
			st = -2
		} else {
			st = int(r.Status)
		}
	}()
	return st
}

// derValues: extension values for the DER reader model - the SAN / IAN values of the zoo, and directly built ones:
// sequences of TLVs with every tag form (low, high-number in 1..6 octets, non-minimal), every length form (short, 0x81,
// 0x82, 0x83, non-minimal, leading zero, indefinite, longer than the data), empty and non-empty contents, truncations.
func derValues(rng *Rng) [][]byte {
	var out [][]byte
	seen := map[string]bool{}
	add := func(v []byte) {
		if len(v) <= 70000 && !seen[string(v)] {
			seen[string(v)] = true
			out = append(out, append([]byte{}, v...))
		}
	}
	n := 0
	for _, zc := range certZoo() {
		for _, e := range zc.Cert.Extensions {
			if e.Id.Equal(util.SubjectAlternateNameOID) || e.Id.Equal(util.IssuerAlternateNameOID) {
				if len(e.Value) < 300 || n%9 == 0 {
					add(e.Value)
				}
				n++
			}
		}
	}
	tags := [][]byte{{0x82}, {0x81}, {0x86}, {0x87}, {0xA4}, {0xA0}, {0x88}, {0x30}, {0x04}, {0x1f, 0x1f}, {0x9f, 0x1f}, {0x9f, 0x81, 0x00}, {0x9f, 0x80, 0x01}, {0x9f, 0x1e}, {0xbf, 0xff, 0x7f},
		{0x9f, 0x87, 0xff, 0xff, 0xff, 0x7f}, {0x9f, 0x88, 0x80, 0x80, 0x80, 0x00}, {0x9f, 0xff, 0xff, 0xff, 0xff, 0xff, 0x7f}, {0x9f}, {0x9f, 0x81}, {0xc2}, {0x42}}
	lens := func(n int) [][]byte {
		l := [][]byte{}
		if n < 128 {
			l = append(l, []byte{byte(n)})
		}
		l = append(l, []byte{0x81, byte(n)}, []byte{0x82, byte(n >> 8), byte(n)}, []byte{0x83, byte(n >> 16), byte(n >> 8), byte(n)}, []byte{0x84, 0, byte(n >> 16), byte(n >> 8), byte(n)},
			[]byte{0x80}, []byte{0x85, 1, 0, 0, 0, byte(n)}, []byte{0x84, 0x7f, 0xff, 0xff, 0xff}, []byte{0x84, 0x00, 0x80, 0x00, 0x00}, []byte{0xff}, []byte{0x82, byte(n)})
		return l
	}
	contents := [][]byte{nil, {0x41}, []byte("example.com"), make([]byte, 127), make([]byte, 128), make([]byte, 255), make([]byte, 256), make([]byte, 300)}
	var items [][]byte
	for ti, tg := range tags {
		for ci, ct := range contents {
			for li, ln := range lens(len(ct)) {
				if (ti+ci+li)%3 != 0 && tier() != "thorough" && ti > 8 {
					continue
				}
				items = append(items, concat(tg, ln, ct))
			}
		}
	}
	wrap := func(body []byte) []byte { return encTLV(0x30, body) }
	for _, it := range items {
		add(wrap(it))
		add(wrap(concat(encTLV(0x82, []byte("a.example")), it)))
		add(wrap(concat(it, encTLV(0x82, nil))))
	}
	good := [][]byte{encTLV(0x82, []byte("example.com")), encTLV(0x82, nil), encTLV(0x81, nil), encTLV(0x86, nil), encTLV(0xA4, encTLV(0x30, nil)), encTLV(0xA4, nil), encTLV(0x87, []byte{10, 0, 0, 1}),
		encTLV(0x88, []byte{0x2a, 3}), encTLV(0xA0, encTLV(0x06, []byte{0x2a, 3})), encTLV(0x82, make([]byte, 200)), encTLV(0x82, make([]byte, 70)), encTLV(0x82, make([]byte, 1000))}
	for i := 0; i < 300; i++ {
		var body []byte
		for k := rng.Intn(5); k >= 0; k-- {
			body = append(body, good[rng.Intn(len(good))]...)
		}
		v := wrap(body)
		add(v)
		if i%4 == 0 && len(v) > 3 {
			add(v[:len(v)-1-rng.Intn(2)]) // truncated
			w := append([]byte{}, v...)
			w[0] = []byte{0x31, 0x10, 0xB0, 0x70, 0x24}[rng.Intn(5)] // not a universal constructed SEQUENCE
			add(w)
			add(append(append([]byte{}, v...), 0x05, 0x00)) // trailing data after the outer value
		}
	}
	add(nil)
	add([]byte{0x30})
	add([]byte{0x30, 0x00})
	add([]byte{0x30, 0x80, 0x00, 0x00})
	add([]byte{0x30, 0x81, 0x00})
	add([]byte{0x30, 0x01, 0x82})
	add([]byte{0x30, 0x02, 0x82, 0x01})
	return out
}

func derCase(v []byte) (string, string) {
	a, b := emptyNameStatus("e_ext_san_empty_name", false, v), emptyNameStatus("e_ext_ian_empty_name", true, v)
	return fmt.Sprintf("(%s, %s, %s)", cqBytes(string(v)), cqZ(int64(a)), cqZ(int64(b))), fmt.Sprintf("%d/%d", a, b)
}

