package main

import (
	"crypto/ecdsa"
	"crypto/elliptic"
	"crypto/rand"
	"crypto/rsa"
	stdx509 "crypto/x509"
	"crypto/x509/pkix"
	"math/big"
	"sync"
	"time"

	zx509 "github.com/zmap/zcrypto/x509"
)

// DER kit: certificates are produced by Go's own crypto/x509 (so they are real, signed DER) and read back by
// the zcrypto parser zlint uses; only what that parser accepts is ever linted.

type kit struct {
	caKey   *ecdsa.PrivateKey
	caCert  *stdx509.Certificate
	leafKey *ecdsa.PrivateKey
	rsaKey  *rsa.PrivateKey
	serial  int64
}

var (
	theKit  *kit
	kitOnce sync.Once
)

func getKit() *kit {
	kitOnce.Do(func() {
		k := &kit{}
		var err error
		if k.caKey, err = ecdsa.GenerateKey(elliptic.P256(), rand.Reader); err != nil {
			panic(err)
		}
		if k.leafKey, err = ecdsa.GenerateKey(elliptic.P256(), rand.Reader); err != nil {
			panic(err)
		}
		tmpl := &stdx509.Certificate{SerialNumber: big.NewInt(1), Subject: pkix.Name{CommonName: "Verif Test CA", Organization: []string{"verif"}, Country: []string{"US"}},
			NotBefore: time.Date(2015, 1, 1, 0, 0, 0, 0, time.UTC), NotAfter: time.Date(2045, 1, 1, 0, 0, 0, 0, time.UTC),
			IsCA: true, BasicConstraintsValid: true, KeyUsage: stdx509.KeyUsageCertSign | stdx509.KeyUsageCRLSign}
		der, err := stdx509.CreateCertificate(rand.Reader, tmpl, tmpl, &k.caKey.PublicKey, k.caKey)
		if err != nil {
			panic(err)
		}
		if k.caCert, err = stdx509.ParseCertificate(der); err != nil {
			panic(err)
		}
		theKit = k
	})
	return theKit
}

// leafTemplate: a plain TLS server certificate template dated inside every BR lint's window
func leafTemplate() *stdx509.Certificate {
	k := getKit()
	k.serial++
	return &stdx509.Certificate{
		SerialNumber: big.NewInt(1000 + k.serial),
		Subject:      pkix.Name{CommonName: "example.com", Organization: []string{"Example"}, Country: []string{"US"}},
		NotBefore:    time.Date(2024, 3, 1, 0, 0, 0, 0, time.UTC), NotAfter: time.Date(2024, 9, 1, 0, 0, 0, 0, time.UTC),
		KeyUsage:     stdx509.KeyUsageDigitalSignature, ExtKeyUsage: []stdx509.ExtKeyUsage{stdx509.ExtKeyUsageServerAuth},
		DNSNames:     []string{"example.com"}, BasicConstraintsValid: true,
	}
}

// issue signs tmpl (subject key pub, default: the kit's leaf key) with the kit CA and parses it with zcrypto.
func issue(tmpl *stdx509.Certificate, pub interface{}) (der []byte, c *zx509.Certificate, err error) {
	k := getKit()
	if pub == nil {
		pub = &k.leafKey.PublicKey
	}
	der, err = stdx509.CreateCertificate(rand.Reader, tmpl, k.caCert, pub, k.caKey)
	if err != nil {
		return nil, nil, err
	}
	c, err = zx509.ParseCertificate(der)
	return der, c, err
}

// selfIssue signs tmpl with its own key (self-signed root)
func selfIssue(tmpl *stdx509.Certificate) (der []byte, c *zx509.Certificate, err error) {
	k := getKit()
	der, err = stdx509.CreateCertificate(rand.Reader, tmpl, tmpl, &k.caKey.PublicKey, k.caKey)
	if err != nil {
		return nil, nil, err
	}
	c, err = zx509.ParseCertificate(der)
	return der, c, err
}
