package main

import (
	"bytes"
	"crypto/x509/pkix"
	"encoding/asn1"
	"errors"
)

// minimal DER TLV handling: enough to permute the extensions of a certificate and the GeneralNames of a SAN

type rawTLV struct {
	tag     byte
	content []byte
	full    []byte
}

func parseTLVs(b []byte) ([]rawTLV, error) {
	var out []rawTLV
	off := 0
	for off < len(b) {
		h, cl, ok := derTLV(b, off)
		if !ok {
			return nil, errors.New("bad TLV")
		}
		out = append(out, rawTLV{b[off], b[off+h : off+h+cl], b[off : off+h+cl]})
		off += h + cl
	}
	return out, nil
}

func encLen(n int) []byte {
	if n < 0x80 {
		return []byte{byte(n)}
	}
	var t []byte
	for n > 0 {
		t = append([]byte{byte(n & 0xff)}, t...)
		n >>= 8
	}
	return append([]byte{0x80 | byte(len(t))}, t...)
}

func encTLV(tag byte, content []byte) []byte {
	out := []byte{tag}
	out = append(out, encLen(len(content))...)
	return append(out, content...)
}

func concat(parts ...[]byte) []byte { return bytes.Join(parts, nil) }

var oidSAN = []byte{0x06, 0x03, 0x55, 0x1d, 0x11}
var oidIAN = []byte{0x06, 0x03, 0x55, 0x1d, 0x12}

// rewriteExtensions applies f to the list of Extension TLVs of a certificate and re-encodes it.
func rewriteExtensions(der []byte, f func(exts []rawTLV) [][]byte) ([]byte, error) {
	top, err := parseTLVs(der)
	if err != nil || len(top) != 1 || top[0].tag != 0x30 {
		return nil, errors.New("not a certificate")
	}
	parts, err := parseTLVs(top[0].content)
	if err != nil || len(parts) != 3 {
		return nil, errors.New("certificate is not a 3-element sequence")
	}
	tbsItems, err := parseTLVs(parts[0].content)
	if err != nil {
		return nil, err
	}
	found := false
	var newTBS [][]byte
	for _, it := range tbsItems {
		if it.tag == 0xA3 {
			seq, err := parseTLVs(it.content)
			if err != nil || len(seq) != 1 || seq[0].tag != 0x30 {
				return nil, errors.New("bad extensions wrapper")
			}
			exts, err := parseTLVs(seq[0].content)
			if err != nil {
				return nil, err
			}
			found = true
			newTBS = append(newTBS, encTLV(0xA3, encTLV(0x30, concat(f(exts)...))))
		} else {
			newTBS = append(newTBS, it.full)
		}
	}
	if !found {
		return nil, errors.New("no extensions")
	}
	return encTLV(0x30, concat(encTLV(0x30, concat(newTBS...)), parts[1].full, parts[2].full)), nil
}

func extOID(e rawTLV) []byte {
	items, err := parseTLVs(e.content)
	if err != nil || len(items) == 0 {
		return nil
	}
	return items[0].full
}

// permuteWithin rewrites the GeneralNames inside the extension with the given OID
func permuteGeneralNames(der []byte, oid []byte, perm func(n int) []int) ([]byte, int, error) {
	count := 0
	out, err := rewriteExtensions(der, func(exts []rawTLV) [][]byte {
		var res [][]byte
		for _, e := range exts {
			if !bytes.Equal(extOID(e), oid) {
				res = append(res, e.full)
				continue
			}
			items, err := parseTLVs(e.content)
			if err != nil || len(items) < 2 {
				res = append(res, e.full)
				continue
			}
			oct := items[len(items)-1]
			inner, err := parseTLVs(oct.content)
			if err != nil || len(inner) != 1 || inner[0].tag != 0x30 {
				res = append(res, e.full)
				continue
			}
			names, err := parseTLVs(inner[0].content)
			if err != nil {
				res = append(res, e.full)
				continue
			}
			count = len(names)
			p := perm(len(names))
			var nn [][]byte
			for _, i := range p {
				nn = append(nn, names[i].full)
			}
			var head [][]byte
			for _, it := range items[:len(items)-1] {
				head = append(head, it.full)
			}
			res = append(res, encTLV(0x30, concat(concat(head...), encTLV(0x04, encTLV(0x30, concat(nn...))))))
		}
		return res
	})
	return out, count, err
}

func permuteExtensions(der []byte, perm func(n int) []int) ([]byte, int, bool, error) {
	n, dup := 0, false
	out, err := rewriteExtensions(der, func(exts []rawTLV) [][]byte {
		n = len(exts)
		seen := map[string]bool{}
		for _, e := range exts {
			k := string(extOID(e))
			if seen[k] {
				dup = true
			}
			seen[k] = true
		}
		p := perm(len(exts))
		var res [][]byte
		for _, i := range p {
			res = append(res, exts[i].full)
		}
		return res
	})
	return out, n, dup, err
}

// a GeneralName to be written into a SAN / IAN extension
type genName struct {
	tag   int // 1 rfc822Name, 2 dNSName, 6 URI, 7 iPAddress, 8 registeredID, 0 otherName, 4 directoryName
	value []byte
}

func (g genName) der() []byte {
	switch g.tag {
	case 0, 4: // constructed context tags
		return encTLV(0xA0|byte(g.tag), g.value)
	}
	return encTLV(0x80|byte(g.tag), g.value)
}

func generalNamesExt(oid asn1.ObjectIdentifier, names []genName, critical bool) pkix.Extension {
	var body [][]byte
	for _, n := range names {
		body = append(body, n.der())
	}
	return pkix.Extension{Id: oid, Critical: critical, Value: encTLV(0x30, concat(body...))}
}

var (
	asn1SAN = asn1.ObjectIdentifier{2, 5, 29, 17}
	asn1IAN = asn1.ObjectIdentifier{2, 5, 29, 18}
)

func allPerms(n int) [][]int {
	if n == 0 {
		return [][]int{{}}
	}
	var out [][]int
	for _, p := range allPerms(n - 1) {
		for i := 0; i <= len(p); i++ {
			q := append(append(append([]int{}, p[:i]...), n-1), p[i:]...)
			out = append(out, q)
		}
	}
	return out
}

// replaceSigAlg rewrites both copies of the signature AlgorithmIdentifier of a certificate (tbsCertificate.signature
// and the outer signatureAlgorithm) and, when sig is non-nil, the signature value.
func replaceSigAlg(der []byte, alg []byte, sig []byte) ([]byte, error) {
	return replaceSigAlgs(der, alg, alg, sig)
}

// replaceSigAlgs: the same with different identifiers inside (tbsCertificate.signature) and outside
func replaceSigAlgs(der []byte, alg []byte, outer []byte, sig []byte) ([]byte, error) {
	top, err := parseTLVs(der)
	if err != nil || len(top) != 1 || top[0].tag != 0x30 {
		return nil, errors.New("not a certificate")
	}
	parts, err := parseTLVs(top[0].content)
	if err != nil || len(parts) != 3 {
		return nil, errors.New("certificate is not a 3-element sequence")
	}
	tbsItems, err := parseTLVs(parts[0].content)
	if err != nil {
		return nil, err
	}
	idx := 1 // serial, signature, ...
	if len(tbsItems) > 0 && tbsItems[0].tag == 0xA0 {
		idx = 2
	}
	if len(tbsItems) <= idx || tbsItems[idx].tag != 0x30 {
		return nil, errors.New("no signature algorithm in tbs")
	}
	var newTBS [][]byte
	for i, it := range tbsItems {
		if i == idx {
			newTBS = append(newTBS, alg)
		} else {
			newTBS = append(newTBS, it.full)
		}
	}
	sigTLV := parts[2].full
	if sig != nil {
		sigTLV = encTLV(0x03, append([]byte{0}, sig...))
	}
	return encTLV(0x30, concat(encTLV(0x30, concat(newTBS...)), outer, sigTLV)), nil
}

// signature algorithm identifiers (DER) for substitution
var sigAlgs = []struct {
	name string
	der  []byte
}{
	{"sha256WithRSAEncryption", []byte{0x30, 0x0d, 0x06, 0x09, 0x2a, 0x86, 0x48, 0x86, 0xf7, 0x0d, 0x01, 0x01, 0x0b, 0x05, 0x00}},
	{"sha1WithRSAEncryption", []byte{0x30, 0x0d, 0x06, 0x09, 0x2a, 0x86, 0x48, 0x86, 0xf7, 0x0d, 0x01, 0x01, 0x05, 0x05, 0x00}},
	{"md5WithRSAEncryption", []byte{0x30, 0x0d, 0x06, 0x09, 0x2a, 0x86, 0x48, 0x86, 0xf7, 0x0d, 0x01, 0x01, 0x04, 0x05, 0x00}},
	{"ecdsa-with-SHA256", []byte{0x30, 0x0a, 0x06, 0x08, 0x2a, 0x86, 0x48, 0xce, 0x3d, 0x04, 0x03, 0x02}},
	{"ecdsa-with-SHA1", []byte{0x30, 0x09, 0x06, 0x07, 0x2a, 0x86, 0x48, 0xce, 0x3d, 0x04, 0x01}},
	{"dsa-with-sha1", []byte{0x30, 0x09, 0x06, 0x07, 0x2a, 0x86, 0x48, 0xce, 0x38, 0x04, 0x03}},
	{"dsa-with-sha256", []byte{0x30, 0x0b, 0x06, 0x09, 0x60, 0x86, 0x48, 0x01, 0x65, 0x03, 0x04, 0x03, 0x02}},
	{"ed25519", []byte{0x30, 0x05, 0x06, 0x03, 0x2b, 0x65, 0x70}},
	{"unknown-algorithm", []byte{0x30, 0x0a, 0x06, 0x08, 0x2b, 0x06, 0x01, 0x04, 0x01, 0x83, 0xb2, 0x03}},
}

// longSigAlgs: identifiers whose encodings are much longer than the usual 11-15 octets: RSASSA-PSS with explicit SHA-256
// parameters (67 octets) and an unknown algorithm with a 200 octet parameter
func longSigAlgs() []struct {
	name string
	der  []byte
} {
	sha256 := encTLV(0x30, concat(encTLV(0x06, []byte{0x60, 0x86, 0x48, 0x01, 0x65, 0x03, 0x04, 0x02, 0x01}), []byte{0x05, 0x00}))
	mgf := encTLV(0x30, concat(encTLV(0x06, []byte{0x2a, 0x86, 0x48, 0x86, 0xf7, 0x0d, 0x01, 0x01, 0x08}), sha256))
	params := encTLV(0x30, concat(encTLV(0xa0, sha256), encTLV(0xa1, mgf), encTLV(0xa2, []byte{0x02, 0x01, 0x20})))
	pss := encTLV(0x30, concat(encTLV(0x06, []byte{0x2a, 0x86, 0x48, 0x86, 0xf7, 0x0d, 0x01, 0x01, 0x0a}), params))
	big := make([]byte, 200)
	for i := range big {
		big[i] = byte(i)
	}
	long := encTLV(0x30, concat(encTLV(0x06, []byte{0x2b, 0x06, 0x01, 0x04, 0x01, 0x83, 0xb2, 0x04}), encTLV(0x04, big)))
	return []struct {
		name string
		der  []byte
	}{{"rsassa-pss-sha256", pss}, {"unknown-long", long}}
}
