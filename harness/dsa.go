package main

import (
	"fmt"
	"math/big"

	"github.com/zmap/zcrypto/dsa"
	"github.com/zmap/zcrypto/x509"
	"github.com/zmap/zlint/v3/lint"
)

var dsaLintNames = []string{"e_dsa_correct_order_in_subgroup", "e_dsa_unique_correct_representation", "e_dsa_improper_modulus_or_divisor_size", "e_dsa_shorter_than_2048_bits"}

// dsaGroups: small but genuine DSA groups (q prime, p = k q + 1 prime, g of order q) so that the subgroup lint has keys
// it accepts at a size the model can exponentiate inside the assistant in well under a second.
func dsaGroups() [][3]*big.Int {
	var out [][3]*big.Int
	one := big.NewInt(1)
	for _, sz := range [][2]int{{64, 24}, {128, 40}, {256, 64}, {384, 80}, {512, 96}} {
		rng := NewRng(seedFromEnv(), fmt.Sprintf("dsa-group-%d", sz[0]))
		var q *big.Int
		for {
			q = new(big.Int).SetBytes(rng.Bytes((sz[1] + 7) / 8))
			q.SetBit(q, sz[1]-1, 1)
			q.SetBit(q, 0, 1)
			for q.BitLen() > sz[1] {
				q.Rsh(q, 1)
			}
			if q.ProbablyPrime(20) {
				break
			}
		}
		for tries := 0; tries < 200000; tries++ {
			k := new(big.Int).SetBytes(rng.Bytes((sz[0] - sz[1] + 7) / 8))
			k.SetBit(k, sz[0]-sz[1]-1, 1)
			k.SetBit(k, 0, 0)
			p := new(big.Int).Mul(k, q)
			p.Add(p, one)
			if p.BitLen() != sz[0] || !p.ProbablyPrime(20) {
				continue
			}
			// g = h^((p-1)/q) mod p, h = 2, 3, ... until g != 1
			e := new(big.Int).Div(new(big.Int).Sub(p, one), q)
			for h := int64(2); h < 50; h++ {
				g := new(big.Int).Exp(big.NewInt(h), e, p)
				if g.Cmp(one) != 0 {
					out = append(out, [3]*big.Int{p, q, g})
					break
				}
			}
			break
		}
	}
	return out
}

// dsaCase: one correspondence case for Kernels/Dsa.v - the four integers of the key, whether the model is asked for the
// subgroup lint too (its exponentiation inside the assistant is affordable only below a size budget), and what the
// four lint bodies return (direct Execute under recover; -1 = panic).
func dsaCase(c *x509.Certificate, allowBig bool) (string, string, bool) {
	k, ok := c.PublicKey.(*dsa.PublicKey)
	if !ok || k == nil || k.P == nil || k.Q == nil || k.G == nil || k.Y == nil {
		return "", "", false
	}
	var sts []string
	tag := ""
	for _, n := range dsaLintNames {
		l := lint.GlobalRegistry().CertificateLints().ByName(n)
		st := 0
		if l != nil {
			func() {
				defer func() {
					if recover() != nil {
						st = -1
					}
				}()
				inst := l.Lint()
				if inst.CheckApplies(c) {
					st = int(inst.Execute(c).Status)
				} else {
					st = 1
				}
			}()
		}
		sts = append(sts, cqZ(int64(st)))
		tag += fmt.Sprintf("%d/", st)
	}
	cost := float64(k.P.BitLen()) * float64(k.P.BitLen()) * float64(k.Q.BitLen())
	withExp := cost <= 512*512*128 || allowBig
	return fmt.Sprintf("(%s, %s, %s, %s, %s, %s)", cqZs(k.P.String()), cqZs(k.Q.String()), cqZs(k.G.String()), cqZs(k.Y.String()), cqBool(withExp), cqList(sts)),
		tag[:len(tag)-1], true
}
